(* C16: linear-inversion process tomography for EVERY number of qubits n >= 1
   (Kronecker structure of the rows of the LI matrix; dual bases). *)
From Coq Require Import ZArith List Bool Arith Lia Ring_theory Ring Permutation.
From LW Require Import Base.Sx Base.Num Base.Sums Base.Mat Base.QI2 Model.Tomo
  Proofs.TomoStateP Proofs.TomoProcP Proofs.TomoProcG.
Import ListNotations.

(* ------------------------------------------------------------ input strings *)
Lemma istrings_S keys n : 1 <= n ->
  istrings keys (S n) = flat_map (fun c => map (fun g => c ++ [g]) keys) (istrings keys n).
Proof.
  intros Hn. destruct n as [|m]; [lia|].
  unfold istrings, combine_all. replace (S (S m) - 1) with (S (S m - 1)) by lia.
  simpl Nat.iter. unfold combine_step at 1.
  apply flat_map_ext. intros c. rewrite map_map. reflexivity.
Qed.

Lemma istrings_length_elem keys n c : 1 <= n -> In c (istrings keys n) -> length c = n.
Proof. intros Hn H. exact (combine_all_length keys n c Hn H). Qed.

Lemma istrings_count keys n : 1 <= n -> length (istrings keys n) = length keys ^ n.
Proof.
  intros Hn. induction n as [|n IH]; [lia|].
  destruct (Nat.eq_dec n 0) as [->|Hn0].
  - rewrite istrings_1, map_length. simpl. lia.
  - rewrite istrings_S by lia.
    assert (G : forall l : list instr, length (flat_map (fun c => map (fun g => c ++ [g]) keys) l) = length l * length keys).
    { induction l as [|x l IHl]; [reflexivity|]. simpl. rewrite app_length, map_length, IHl. lia. }
    rewrite G, IH by lia. simpl. lia.
Qed.

Lemma length_concat_map_map {A B C} (f : A -> B -> C) (l : list A) (m : list B) :
  length (concat (map (fun a => map (fun b => f a b) m) l)) = length l * length m.
Proof. induction l as [|a l IH]; [reflexivity|]. simpl. rewrite app_length, map_length, IH. lia. Qed.

Section KronN.
  Context {K : Type} {o : ops K} {ii hh : K} {TR : TomoRing o ii hh}.
  Let R := sr_ring (o:=o).
  Add Ring Kn : R.
  Local Notation "a + b" := (kadd o a b).
  Local Notation "a * b" := (kmul o a b).
  Local Notation "a - b" := (ksub o a b).
  Local Notation "- a" := (kopp o a).
  Local Notation one := (k1 o).
  Local Notation zero := (k0 o).
  Local Notation conj := (kconj o).
  Local Notation sumn := (sumn o).
  Local Notation suml := (suml o).
  Local Notation pauli_mat := (pauli_mat o ii).
  Local Notation rho_mat := (rho_mat o ii).
  Local Notation kappa := (kappa (o:=o) (ii:=ii) (hh:=hh)).
  Local Notation hpow := (hpow (o:=o) (hh:=hh)).

  (* ---- kfold: compatibility, trace ---- *)
  Lemma pow2_pos n : 0 < 2 ^ n.
  Proof. apply Nat.neq_0_lt_0, Nat.pow_nonzero. lia. Qed.

  Lemma half_lt i n : i < 2 ^ S n -> i / 2 < 2 ^ n.
  Proof. intros H. apply Nat.div_lt_upper_bound; [lia|]. rewrite Nat.pow_succ_r' in H. lia. Qed.

  Lemma kfold_compat {A} (F G : A -> @mat K) s : (forall p, meq 2 (F p) (G p)) ->
    meq (2 ^ length s) (kfold o F s) (kfold o G s).
  Proof.
    intros H. induction s as [|p s IH] using rev_ind.
    - intros i j _ _. reflexivity.
    - rewrite app_length. simpl length. rewrite Nat.add_1_r. intros i j Hi Hj.
      rewrite !kfold_snoc_gen by assumption.
      rewrite (IH (i / 2)%nat (j / 2)%nat) by (apply half_lt; assumption).
      rewrite (H p (i mod 2) (j mod 2)) by (apply Nat.mod_upper_bound; lia). reflexivity.
  Qed.

  Lemma kfold_trace_one {A} (F : A -> @mat K) s : (forall p, trace o 2 (F p) = one) ->
    trace o (2 ^ length s) (kfold o F s) = one.
  Proof.
    intros H. induction s as [|p s IH] using rev_ind.
    - unfold trace. simpl. unfold mid. simpl. ring.
    - rewrite app_length. simpl length. rewrite Nat.add_1_r. unfold trace.
      rewrite Nat.pow_succ_r', (Nat.mul_comm 2). rewrite sumn_prod.
      rewrite (sumn_ext _ _ (fun i => sumn 2 (fun j => kfold o F s i i * F p j j))).
      + rewrite sumn_pair_mul. fold (trace o (2 ^ length s) (kfold o F s)). fold (trace o 2 (F p)).
        rewrite IH, H. ring.
      + intros i Hi. apply sumn_ext. intros j Hj.
        assert (B : (i * 2 + j < 2 ^ S (length s))%nat) by (rewrite Nat.pow_succ_r'; lia).
        rewrite kfold_snoc_gen by assumption.
        destruct (div_mod_block' 2 i j Hj) as [-> ->]. reflexivity.
  Qed.

  Lemma prep_rho1_trace l : trace o 2 (prep_rho1 o ii hh l) = one.
  Proof. rewrite (trace_compat _ _ _ (prep_rho1_spec (TR:=TR) l)). apply rho_trace. Qed.

  Lemma in_rho_trace i : trace o (2 ^ length i) (in_rho o ii hh i) = one.
  Proof. apply kfold_trace_one. apply prep_rho1_trace. Qed.

  Lemma in_rho_spec i : meq (2 ^ length i) (in_rho o ii hh i) (kfold o rho_mat i).
  Proof. apply kfold_compat. apply prep_rho1_spec. Qed.

  (* ---- dual bases for n qubits ---- *)
  Lemma dualK_l a a' b b' : a < 2 -> a' < 2 -> b < 2 -> b' < 2 ->
    suml li_inputs (fun l => kappa l a a' * rho_mat l b b') = mid o a b * mid o a' b'.
  Proof.
    intros Ha Ha' Hb Hb'. rewrite <- (dualK (TR:=TR) a a' b b') by assumption. simpl. ring.
  Qed.

  Lemma dual_complete n : 1 <= n -> forall a a' b b',
    a < 2 ^ n -> a' < 2 ^ n -> b < 2 ^ n -> b' < 2 ^ n ->
    suml (istrings li_inputs n) (fun s => kfold o kappa s a a' * kfold o rho_mat s b b') = mid o a b * mid o a' b'.
  Proof.
    induction n as [|n IH]; [lia|]. intros _ a a' b b' Ha Ha' Hb Hb'.
    destruct (Nat.eq_dec n 0) as [->|Hn0].
    - change (2 ^ 1) with 2 in *. rewrite istrings_1, suml_map. simpl kfold. apply dualK_l; assumption.
    - rewrite istrings_S by lia. rewrite suml_flat_map.
      rewrite (suml_ext _ _ (fun s : instr => suml li_inputs (fun l =>
        (kfold o kappa s (a / 2) (a' / 2) * kfold o rho_mat s (b / 2) (b' / 2)) *
        (kappa l (a mod 2) (a' mod 2) * rho_mat l (b mod 2) (b' mod 2))))).
      + rewrite suml_pair_mul.
        rewrite (IH ltac:(lia) (a / 2)%nat (a' / 2)%nat (b / 2)%nat (b' / 2)%nat) by (apply half_lt; assumption).
        rewrite dualK_l by (apply Nat.mod_upper_bound; lia).
        rewrite <- (mid_split (o:=o) a b), <- (mid_split (o:=o) a' b'). ring.
      + intros s Hs. apply istrings_length_elem in Hs; [|lia].
        rewrite suml_map. apply suml_ext. intros l _.
        rewrite !kfold_snoc_gen by (rewrite Hs; assumption). ring.
  Qed.

  (* ---- index splitting of sums ---- *)
  Lemma sum_split2 D (g : nat -> nat -> K) :
    sumn (D * D) (fun x => g (x / D)%nat (x mod D)%nat) = sumn D (fun r => sumn D (fun c => g r c)).
  Proof.
    rewrite sumn_prod. apply sumn_ext. intros r _. apply sumn_ext. intros c Hc.
    destruct (div_mod_block' D r c Hc) as [-> ->]. reflexivity.
  Qed.

  Lemma idxN n y : y < 2 ^ n * 2 ^ n -> y / 2 ^ n < 2 ^ n /\ y mod 2 ^ n < 2 ^ n.
  Proof.
    intros Hy. split; [apply Nat.div_lt_upper_bound; [pose proof (pow2_pos n); lia|exact Hy]|].
    apply Nat.mod_upper_bound. pose proof (pow2_pos n). lia.
  Qed.

  (* ---- every row equation of the n-qubit LI system holds at choi_from_unitary(V) ---- *)
  Lemma li_row_identity_n n (V : @mat K) (i : instr) (c : mstr) : length c = n ->
    sumn ((2 ^ n * 2 ^ n) * (2 ^ n * 2 ^ n))
         (fun x => li_row o ii n (i, c) x * vec (2 ^ n * 2 ^ n) (choi_from_unitary o (2 ^ n) V) x)
    = pauli_expect (o:=o) (ii:=ii) n (out_rho o (2 ^ n) V (kfold o rho_mat i)) c.
  Proof.
    intros Hc. set (dim := (2 ^ n)%nat). set (P := kfold o pauli_mat c). set (rho := kfold o rho_mat i).
    assert (HP : forall k l, k < dim -> l < dim -> conj (P k l) = P l k).
    { intros k l Hk Hl. pose proof (kfold_herm (TR:=TR) pauli_mat c (pauli_herm (TR:=TR))) as H.
      rewrite Hc in H. exact (H l k Hl Hk). }
    transitivity (sumn dim (fun b => sumn dim (fun a => sumn dim (fun b' => sumn dim (fun a' =>
                    P b' b * rho a a' * V b a * conj (V b' a')))))).
    - unfold li_row, vec, choi_from_unitary, vec, kron, mconj. cbn [fst snd]. fold dim. fold P. fold rho.
      rewrite (sum_split2 (dim * dim) (fun r c0 =>
         conj (P (r / dim)%nat (c0 / dim)%nat * conj (rho (r mod dim)%nat (c0 mod dim)%nat)) *
         (V (r / dim)%nat (r mod dim)%nat * conj (V (c0 / dim)%nat (c0 mod dim)%nat)))).
      rewrite (sum_split2 dim (fun b a => sumn (dim * dim) (fun c0 =>
         conj (P b (c0 / dim)%nat * conj (rho a (c0 mod dim)%nat)) *
         (V b a * conj (V (c0 / dim)%nat (c0 mod dim)%nat))))).
      apply sumn_ext. intros b Hb. apply sumn_ext. intros a Ha.
      rewrite (sum_split2 dim (fun b' a' => conj (P b b' * conj (rho a a')) * (V b a * conj (V b' a')))).
      apply sumn_ext. intros b' Hb'. apply sumn_ext. intros a' Ha'.
      rewrite sr_conj_mul, sr_conj_inv, (HP b b' Hb Hb'). ring.
    - unfold pauli_expect, out_rho, mmul. fold dim. fold P. fold rho.
      apply sumn_ext. intros k Hk.
      (* left: sum_a sum_b' sum_a'; right: sum_l (sum_m (sum_j ..) ..) * P l k *)
      transitivity (sumn dim (fun l => sumn dim (fun m => sumn dim (fun j =>
                      P l k * rho j m * V k j * conj (V l m))))).
      + rewrite sumn_swap. apply sumn_ext. intros l Hl. rewrite sumn_swap. reflexivity.
      + apply sumn_ext. intros l Hl. rewrite <- sumn_mul_r. apply sumn_ext. intros m Hm.
        rewrite <- sumn_mul_r, <- sumn_mul_r. apply sumn_ext. intros j Hj. unfold madj. ring.
  Qed.

  (* ---- the left inverse of the n-qubit LI matrix ---- *)
  Definition Ln (n : nat) (x : nat) (k : instr * mstr) : K :=
    let dim := (2 ^ n)%nat in let DD := (dim * dim)%nat in
    hpow n * (kfold o kappa (fst k) ((x / DD) mod dim)%nat ((x mod DD) mod dim)%nat *
              kfold o pauli_mat (snd k) (x / DD / dim)%nat (x mod DD / dim)%nat).

  Definition li_keys (n : nat) : list (instr * mstr) :=
    concat (map (fun i => map (fun c => (i, c)) (tomo_measurements n false)) (istrings li_inputs n)).

  Lemma Ln_left_inverse n x x' : 1 <= n ->
    x < (2 ^ n * 2 ^ n) * (2 ^ n * 2 ^ n) -> x' < (2 ^ n * 2 ^ n) * (2 ^ n * 2 ^ n) ->
    suml (li_keys n) (fun k => Ln n x k * li_row o ii n k x') = mid o x x'.
  Proof.
    intros Hn Hx Hx'. set (dim := (2 ^ n)%nat) in *. set (DD := (dim * dim)%nat) in *.
    assert (Hdim : 0 < dim) by apply pow2_pos.
    assert (HDD : 0 < DD) by (unfold DD; nia).
    assert (Bx : forall y, y < DD * DD -> y / DD < DD /\ y mod DD < DD).
    { intros y Hy. split; [apply Nat.div_lt_upper_bound; lia|apply Nat.mod_upper_bound; lia]. }
    destruct (Bx x Hx) as [X1 X2]. destruct (Bx x' Hx') as [X1' X2'].
    destruct (idxN n _ X1) as [B1 A1]. destruct (idxN n _ X2) as [B2 A2].
    destruct (idxN n _ X1') as [B1' A1']. destruct (idxN n _ X2') as [B2' A2'].
    fold dim in B1, A1, B2, A2, B1', A1', B2', A2'.
    unfold li_keys. rewrite <- flat_map_concat_map, suml_flat_map.
    rewrite (suml_ext _ _ (fun i : instr => suml (strings meas_keys n) (fun c =>
       (kfold o kappa i ((x / DD) mod dim)%nat ((x mod DD) mod dim)%nat *
        kfold o rho_mat i ((x' / DD) mod dim)%nat ((x' mod DD) mod dim)%nat) *
       (hpow n * (kfold o pauli_mat c (x / DD / dim)%nat (x mod DD / dim)%nat *
                  kfold o pauli_mat c (x' mod DD / dim)%nat (x' / DD / dim)%nat))))).
    - rewrite suml_pair_mul.
      rewrite (dual_complete n Hn) by assumption.
      pose proof (pauli_complete (TR:=TR) n Hn (x / DD / dim)%nat (x mod DD / dim)%nat (x' / DD / dim)%nat (x' mod DD / dim)%nat B1 B2 B1' B2') as PC.
      unfold complete_sum in PC. rewrite PC.
      rewrite <- (mid_split_m (TR:=TR) DD x x') by lia.
      rewrite <- (mid_split_m (TR:=TR) dim (x / DD) (x' / DD)), <- (mid_split_m (TR:=TR) dim (x mod DD) (x' mod DD)) by lia.
      ring.
    - intros i _. unfold tomo_measurements. rewrite suml_map. apply suml_ext. intros c Hc.
      apply strings_length_elem in Hc; [|exact Hn].
      unfold Ln, li_row, vec, kron, mconj. cbn [fst snd]. fold dim. fold DD.
      pose proof (kfold_herm (TR:=TR) pauli_mat c (pauli_herm (TR:=TR))) as H. rewrite Hc in H. fold dim in H.
      rewrite sr_conj_mul, sr_conj_inv.
      rewrite <- (H (x' mod DD / dim)%nat (x' / DD / dim)%nat B2' B1' : conj (kfold o pauli_mat c (x' / DD / dim)%nat (x' mod DD / dim)%nat) = _).
      ring.
  Qed.
End KronN.

Section LIN.
  Context {K : Type} {o : ops K} {ii hh : K} {TR : TomoRing o ii hh}.
  Let R := sr_ring (o:=o).
  Add Ring Kln : R.
  Local Notation "a * b" := (kmul o a b).
  Local Notation one := (k1 o).
  Local Notation zero := (k0 o).
  Local Notation sumn := (sumn o).
  Local Notation suml := (suml o).
  Local Notation rho_mat := (rho_mat o ii).

  Lemma sumn_nth_suml {A} (l : list A) (d : A) (f : A -> K) :
    sumn (length l) (fun r => f (nth r l d)) = suml l f.
  Proof.
    induction l as [|a l IH] using rev_ind; [reflexivity|].
    rewrite app_length, Nat.add_1_r. simpl Sums.sumn. rewrite suml_app. simpl Sums.suml.
    rewrite (sumn_ext _ _ (fun r => f (nth r l d))) by (intros r Hr; rewrite app_nth1 by exact Hr; reflexivity).
    rewrite IH, app_nth2, Nat.sub_diag by lia. simpl. ring.
  Qed.

  (* noiseless expectation values of an n-qubit unitary process *)
  Lemma process_expectations_n n V (inputs : list instr) :
    1 <= n -> lunit o (2 ^ n) V -> (forall i, In i inputs -> length i = n) ->
    expectations o (concat (map (fun i => map (fun c => ((i, c),
        ideal_data o ii hh n (replIZ c) (out_rho o (2 ^ n) V (in_rho o ii hh i)))) (tomo_measurements n false)) inputs))
    = Ok (map (fun k => (k, pauli_expect (o:=o) (ii:=ii) n (out_rho o (2 ^ n) V (in_rho o ii hh (fst k))) (snd k)))
              (concat (map (fun i => map (fun c => (i, c)) (tomo_measurements n false)) inputs))).
  Proof.
    intros Hn HV Hl. unfold expectations.
    rewrite (mapM_ok _ (fun kd => (fst kd, pauli_expect (o:=o) (ii:=ii) n (out_rho o (2 ^ n) V (in_rho o ii hh (fst (fst kd)))) (snd (fst kd))))).
    - f_equal. rewrite !concat_map, !map_map. f_equal; try (apply map_ext; intros i; rewrite !map_map; reflexivity).
    - intros kd Hkd. apply in_concat in Hkd as [seg [Hseg Hkd]].
      apply in_map_iff in Hseg as [i [<- Hi]]. apply in_map_iff in Hkd as [c [<- Hc]]. cbn [fst snd].
      rewrite (expectation_ideal (TR:=TR) n); [reflexivity| |].
      + unfold tomo_measurements in Hc. apply strings_length_elem in Hc; [exact Hc|exact Hn].
      + rewrite out_rho_trace by exact HV. rewrite <- (Hl i Hi). apply in_rho_trace.
  Qed.

  Lemma nth_map_pair {A B} (g : A -> B) (l : list A) (r : nat) (da : A) (db : B) : r < length l ->
    nth r (map (fun k => (k, g k)) l) (da, db) = (nth r l da, g (nth r l da)).
  Proof.
    intros Hr. rewrite (nth_indep _ (da, db) ((fun k => (k, g k)) da)) by (rewrite map_length; exact Hr).
    apply (map_nth (fun k => (k, g k))).
  Qed.

  Lemma li_keys_elem n k : 1 <= n -> In k (li_keys n) -> length (fst k) = n /\ length (snd k) = n /\ In (fst k) (istrings li_inputs n).
  Proof.
    intros Hn Hk. unfold li_keys in Hk. apply in_concat in Hk as [seg [Hseg Hk]].
    apply in_map_iff in Hseg as [i [<- Hi]]. apply in_map_iff in Hk as [c [<- Hc]]. cbn [fst snd].
    split; [apply (istrings_length_elem li_inputs n i Hn Hi)|]. split; [|exact Hi].
    unfold tomo_measurements in Hc. apply (strings_length_elem meas_keys n c Hn Hc).
  Qed.

  Lemma li_keys_length n : 1 <= n -> length (li_keys n) = ((2 ^ n * 2 ^ n) * (2 ^ n * 2 ^ n))%nat.
  Proof.
    intros Hn. unfold li_keys. rewrite (length_concat_map_map (fun i c => (i, c))).
    unfold tomo_measurements. rewrite istrings_count, strings_count by exact Hn.
    change (length li_inputs) with 4. change (length meas_keys) with 4. rewrite !pow4_dim. reflexivity.
  Qed.

  (* THE n-QUBIT THEOREM: LI on the noiseless data of V returns choi_from_unitary(V) *)
  Theorem li_returns_choi_from_unitary_n n solve V req :
    1 <= n -> pinv_contract (o:=o) solve -> lunit o (2 ^ n) V -> Permutation req (req_canonical n false) ->
    exists J, li_process o ii solve n req (process_ideal o ii hh n V (istrings li_inputs n) req) = Ok J /\
              meq (2 ^ n * 2 ^ n)%nat J (choi_from_unitary o (2 ^ n) V).
  Proof.
    intros Hn Hs HV Hp. unfold li_process, li_process_gen, process_ideal.
    rewrite (run_required_family (fun i s => ideal_data o ii hh n s (out_rho o (2 ^ n) V (in_rho o ii hh i)))) by (try exact Hn; exact Hp).
    cbn [bind]. rewrite (process_expectations_n n V (istrings li_inputs n) Hn HV) by (intros i Hi; apply (istrings_length_elem li_inputs n i Hn Hi)).
    cbn [bind]. eexists. split; [reflexivity|].
    pose (E := fun k : instr * mstr => pauli_expect (o:=o) (ii:=ii) n (out_rho o (2 ^ n) V (in_rho o ii hh (fst k))) (snd k)).
    match goal with |- context [length ?l] => set (lams := l) end.
    assert (Elams : lams = map (fun k => (k, E k)) (li_keys n)) by reflexivity.
    clearbody lams. subst lams.
    set (DD := (2 ^ n * 2 ^ n)%nat).
    set (lams := map (fun k => (k, E k)) (li_keys n)).
    assert (HN : length lams = (DD * DD)%nat) by (unfold lams; rewrite map_length; apply li_keys_length; exact Hn).
    rewrite HN.
    assert (Hnth : forall r, (r < DD * DD)%nat -> nth r lams ([], [], zero) = (nth r (li_keys n) ([], []), E (nth r (li_keys n) ([], [])))).
    { intros r Hr. unfold lams. apply nth_map_pair. rewrite li_keys_length by exact Hn. exact Hr. }
    assert (HDD : 0 < DD) by (unfold DD; pose proof (pow2_pos n); nia).
    intros r c Hr Hc. unfold unvec. fold DD.
    rewrite (Hs (DD * DD)%nat _ _ (vec DD (choi_from_unitary o (2 ^ n) V))).
    - unfold vec. destruct (div_mod_block' DD r c Hc) as [-> ->]. reflexivity.
    - intros q Hq. cbv beta. rewrite (Hnth q Hq). cbn [fst snd].
      assert (Hin : In (nth q (li_keys n) ([], [])) (li_keys n)) by (apply nth_In; rewrite li_keys_length by exact Hn; exact Hq).
      destruct (nth q (li_keys n) ([], [])) as [i m] eqn:Eq.
      destruct (li_keys_elem n (i, m) Hn Hin) as [Li [Lm _]]. cbn [fst snd] in Li, Lm.
      unfold DD. rewrite (li_row_identity_n (TR:=TR) n V i m Lm). unfold E. cbn [fst snd].
      apply pauli_expect_compat. apply out_rho_compat. apply meq_sym. rewrite <- Li. apply in_rho_spec.
    - intros y Hy.
      apply (left_inverse_kernel (TR:=TR) (DD * DD)%nat
               (fun x r => Ln (o:=o) (ii:=ii) (hh:=hh) n x (nth r (li_keys n) ([], [])))
               (fun r x => li_row o ii n (nth r (li_keys n) ([], [])) x)).
      + intros x x' Hx Hx'. unfold DD in *. rewrite <- (li_keys_length n Hn).
        rewrite (sumn_nth_suml (li_keys n) ([], []) (fun k => Ln (o:=o) (ii:=ii) (hh:=hh) n x k * li_row o ii n k x')).
        apply Ln_left_inverse; assumption.
      + intros q Hq. rewrite <- (Hy q Hq). apply sumn_ext. intros x _. rewrite (Hnth q Hq). reflexivity.
    - nia.
  Qed.
End LIN.

(* ------------------------------------------ MLE forward model for every n *)
Lemma map_flat_map {A B C} (F : B -> C) (g : A -> list B) (l : list A) :
  map F (flat_map g l) = flat_map (fun a => map F (g a)) l.
Proof. induction l as [|a l IH]; [reflexivity|]. simpl. rewrite map_app, IH. reflexivity. Qed.

Section MLEN.
  Context {K : Type} {o : ops K} {ii hh : K} {TR : TomoRing o ii hh}.
  Let R := sr_ring (o:=o).
  Add Ring Kmn : R.
  Local Notation "a + b" := (kadd o a b).
  Local Notation "a * b" := (kmul o a b).
  Local Notation one := (k1 o).
  Local Notation zero := (k0 o).
  Local Notation conj := (kconj o).
  Local Notation sumn := (sumn o).
  Local Notation suml := (suml o).
  Local Notation rho_mat := (rho_mat o ii).
  Local Notation pauli_mat := (pauli_mat o ii).

  (* the probability of outcome (-1)^s of the observable [meas] on the input [in_s] sent through V,
     with the weight 1/4^n of _a_mat: (tr s + (-1)^s <P>_s)/2 / 4^n, s = V rho V^+ *)
  Definition born_pm_n (n : nat) (V : @mat K) (in_s : instr) (meas : mstr) (s : bool) : K :=
    let sigma := out_rho o (2 ^ n) V (kfold o rho_mat in_s) in
    (trace o (2 ^ n) sigma + sg o s * pauli_expect (o:=o) (ii:=ii) n sigma meas) * half o * kinv o (pow2 o (2 * n)).

  Lemma sumn_mid_l d b (f : nat -> K) : b < d -> sumn d (fun b' => mid o b b' * f b') = f b.
  Proof.
    intros Hb. rewrite (sumn_single d b); try assumption.
    - unfold mid. rewrite Nat.eqb_refl. ring.
    - intros k _ Hk. unfold mid. apply Nat.eqb_neq in Hk. rewrite Nat.eqb_sym, Hk. ring.
  Qed.

  Lemma mle_forward_row_n n (V rho obs : @mat K) (s : bool) (w : K) :
    sumn (4 ^ n * 4 ^ n)
      (fun x => vec (2 ^ n * 2 ^ n) (kron o (2 ^ n) (fun i j => (mid o i j + sg o s * obs i j) * half o) (mtrans rho)) x * w
                * vec (4 ^ n) (mtrans (choi_from_unitary o (2 ^ n) V)) x)
    = (trace o (2 ^ n) (out_rho o (2 ^ n) V rho)
       + sg o s * sumn (2 ^ n) (fun k => sumn (2 ^ n) (fun l => out_rho o (2 ^ n) V rho k l * obs l k))) * half o * w.
  Proof.
    rewrite pow4_dim. set (dim := (2 ^ n)%nat). set (sigma := out_rho o dim V rho).
    transitivity (sumn dim (fun b => sumn dim (fun b' => ((mid o b b' + sg o s * obs b b') * half o) * sigma b' b * w))).
    - unfold vec, kron, mtrans, choi_from_unitary, vec.
      rewrite (sum_split2 (dim * dim) (fun r c0 =>
         (mid o (r / dim)%nat (c0 / dim)%nat + sg o s * obs (r / dim)%nat (c0 / dim)%nat) * half o * rho (c0 mod dim)%nat (r mod dim)%nat * w *
         (V (c0 / dim)%nat (c0 mod dim)%nat * conj (V (r / dim)%nat (r mod dim)%nat)))).
      rewrite (sum_split2 dim (fun b a => sumn (dim * dim) (fun c0 =>
         (mid o b (c0 / dim)%nat + sg o s * obs b (c0 / dim)%nat) * half o * rho (c0 mod dim)%nat a * w *
         (V (c0 / dim)%nat (c0 mod dim)%nat * conj (V b a))))).
      apply sumn_ext. intros b Hb.
      rewrite (sumn_ext dim _ (fun a => sumn dim (fun b' => sumn dim (fun a' =>
         (mid o b b' + sg o s * obs b b') * half o * rho a' a * w * (V b' a' * conj (V b a)))))).
      2:{ intros a Ha. apply (sum_split2 dim (fun b' a' =>
            (mid o b b' + sg o s * obs b b') * half o * rho a' a * w * (V b' a' * conj (V b a)))). }
      rewrite sumn_swap. apply sumn_ext. intros b' Hb'.
      unfold sigma, out_rho, mmul, madj.
      transitivity (((mid o b b' + sg o s * obs b b') * half o * w) *
                    sumn dim (fun a => sumn dim (fun a' => V b' a' * rho a' a) * conj (V b a))); [|ring].
      rewrite <- sumn_mul_l. apply sumn_ext. intros a Ha.
      transitivity (((mid o b b' + sg o s * obs b b') * half o * w * conj (V b a)) * sumn dim (fun a' => V b' a' * rho a' a)); [|ring].
      rewrite <- sumn_mul_l. apply sumn_ext. intros a' Ha'. ring.
    - transitivity (sumn dim (fun b => sigma b b * (half o * w)) +
                    sumn dim (fun b => sumn dim (fun b' => (sg o s * half o * w) * (sigma b' b * obs b b')))).
      + rewrite <- sumn_add. apply sumn_ext. intros b Hb.
        rewrite (sumn_ext dim _ (fun b' => mid o b b' * (half o * w * sigma b' b) + (sg o s * half o * w) * (sigma b' b * obs b b')))
          by (intros; ring).
        rewrite sumn_add, sumn_mid_l by exact Hb. ring.
      + rewrite sumn_mul_r. fold (trace o dim sigma).
        rewrite (sumn_ext dim _ (fun b => (sg o s * half o * w) * sumn dim (fun b' => sigma b' b * obs b b')))
          by (intros; apply sumn_mul_l).
        rewrite sumn_mul_l, sumn_swap. ring.
  Qed.

  Lemma flat_map_ext_in {A B} (f g : A -> list B) (l : list A) : (forall a, In a l -> f a = g a) -> flat_map f l = flat_map g l.
  Proof.
    induction l as [|a l IH]; intros H; [reflexivity|]. simpl.
    rewrite (H a (or_introl eq_refl)), IH by (intros; apply H; right; assumption). reflexivity.
  Qed.

  (* _p_vec before clipping at the reference choi_from_unitary(V), every n, EVERY matrix V:
     the vector of Born probabilities (weight 1/4^n) in the order of the rows of _a_mat *)
  Theorem mle_forward_model_n n (V : @mat K) :
    p_lin o ii n (choi_from_unitary o (2 ^ n) V)
    = flat_map (fun in_s => flat_map (fun meas => [born_pm_n n V in_s meas false; born_pm_n n V in_s meas true])
                                     (mle_meas_basis n)) (mle_input_basis n).
  Proof.
    unfold p_lin, p_lin_of, a_rows. rewrite map_flat_map. apply flat_map_ext. intros in_s.
    rewrite map_flat_map. apply flat_map_ext. intros meas. cbn [map].
    unfold born_pm_n, pauli_expect.
    rewrite !(mle_forward_row_n n V (kfold o rho_mat in_s) (kfold o pauli_mat meas)). reflexivity.
  Qed.
End MLEN.
