(* Reference-level heap model: the step refines the functional pool (Model/World.v), keeps the
   ownership/separation invariant, and writes only to new cells or to the target's private cells. *)
From Coq Require Import ZArith List Bool Arith Lia PArith FMapPositive.
From LW Require Import Base.Sx Base.Num Base.Sums Base.Mat Model.Circuit Model.World Model.Rewrite Model.Heap
     Proofs.WorldP Proofs.HeapP Proofs.HeapP2 Proofs.HeapFlat Proofs.HeapP3 Proofs.HeapP4.
From LW Require Import Proofs.HeapP5 Proofs.HeapP6.
Import ListNotations.

Section HeapMain.
  Context {K : Type} (o : ops K).
  Notation heap := (@heap K).
  Notation cell := (@cell K).
  Notation comp := (@comp K).
  Notation circ := (@circ K).
  Notation hworld := (@hworld K).
  Notation world := (@world K).
  Notation op := (@op K).

  (* ---------------- resetting the write log changes nothing observable ---------------- *)
  Lemma hwf_clear (h : heap) : hwf h -> hwf (clear_log h).
  Proof. exact (fun H => H). Qed.
  Lemma hframe_clear (h : heap) : hframe [] h (clear_log h).
  Proof. split; [simpl; lia|]. split; [reflexivity|]. intros a []. Qed.
  Lemma inv_clear (hw : hworld) :
    inv hw -> inv (mkHW (hw_pool hw) (clear_log (hw_heap hw))) /\
              abs_pool (clear_log (hw_heap hw)) (hw_pool hw) = abs hw.
  Proof.
    intros I. destruct hw as [p h]. cbn [hw_pool hw_heap].
    exact (inv_grow p h (clear_log h) I (hframe_clear h) (hwf_clear h (inv_hwf _ I))).
  Qed.

  (* ---------------- one call, from a heap whose write log is empty ---------------- *)
  (* the private cells of the target of a call: the only pre-existing cells it may write *)
  Definition target_priv (p : hpool) (x : op) : list addr :=
    match x with
    | ONew _ _ | OUnitary _ _ _ | OPlus _ _ _ | OCopy _ _ => []      (* these bind a NEW object *)
    | _ => match pget p (target x) with Some c => priv c | None => [] end
    end.

  Definition step_post (e : env (K:=K)) (p : hpool) (h : heap) (x : op) (hw' : hworld) (r : res unit) : Prop :=
    inv hw' /\
    abs hw' = fst (step o e (abs_pool h p) x) /\
    r = snd (step o e (abs_pool h p) x) /\
    hframe (target_priv p x) h (hw_heap hw') /\
    (forall y, r = Err y -> hframe [] h (hw_heap hw') /\ hw_pool hw' = p) /\
    (forall j, j <> target x -> pget (hw_pool hw') j = pget p j).

  Lemma pget_pset_other (p : hpool) id c j : j <> id -> pget (pset p id c) j = pget p j.
  Proof.
    intros Hj. induction p as [|[i ci] p IH]; simpl.
    - destruct (Nat.eqb_spec id j); [congruence|reflexivity].
    - destruct (Nat.eqb_spec i id) as [->|Hne]; simpl.
      + destruct (Nat.eqb_spec id j); [congruence|reflexivity].
      + destruct (i =? j); [reflexivity|exact IH].
  Qed.

  Lemma hupd_step (e : env (K:=K)) (p : hpool) (h : heap) (x : op) id f (F : circ -> res circ) :
    inv (mkHW p h) -> F_flat F -> target x = id ->
    target_priv p x = match pget p id with Some c => priv c | None => [] end ->
    step o e (abs_pool h p) x = upd (abs_pool h p) id F ->
    (forall c, In (id, c) p -> upd_post p h c F (fst (f h c)) (snd (f h c))) ->
    step_post e p h x (fst (hupd p h id f)) (snd (hupd p h id f)).
  Proof.
    intros I FF Ht Htp Es Hf. destruct (hupd_ok p h id f F I FF Hf) as (H1 & H2 & H3 & H4 & H5).
    unfold step_post. rewrite Es, Htp. split; [exact H1|]. split; [exact H2|]. split; [exact H3|]. split; [exact H4|].
    split; [exact H5|].
    intros j Hj. rewrite Ht in Hj. unfold hupd. destruct (pget p id) as [c|]; [|reflexivity].
    destruct (f h c) as [h' [c'|y]]; cbn [fst hw_pool]; [apply pget_pset_other; exact Hj|reflexivity].
  Qed.

  Lemma hnew_step (e : env (K:=K)) (p : hpool) (h h' : heap) (x : op) id c' (cf : circ) :
    inv (mkHW p h) -> target x = id -> target_priv p x = [] ->
    step o e (abs_pool h p) x = (wset (abs_pool h p) id cf, Ok tt) ->
    hframe [] h h' -> hwf h' -> cwf h' c' -> sep_circ c' ->
    Forall (fun a => h_next h <=p a) (priv c') ->
    abs_circ h' c' = cf -> flat_circ cf ->
    (forall a, In a (spec_cells h' (rd_list h' (hc_spec c'))) -> ~ owned p a /\ ~ In a (priv c')) ->
    step_post e p h x (mkHW (pset p id c') h') (Ok tt).
  Proof.
    intros I Ht Htp Es Fr Hw' Hc' Hs' Hfr Eabs Hflat Hfz.
    destruct (hnew_ok p h h' id c' cf I Fr Hw' Hc' Hs' Hfr Eabs Hflat Hfz) as (H1 & H2).
    unfold step_post. rewrite Es, Htp. cbn [fst snd hw_heap hw_pool].
    split; [exact H1|]. split; [exact H2|]. split; [reflexivity|]. split; [exact Fr|]. split; [intros y Hy; discriminate|].
    intros j Hj. rewrite Ht in Hj. apply pget_pset_other. exact Hj.
  Qed.

  Lemma err_step (e : env (K:=K)) (p : hpool) (h : heap) (x : op) y :
    inv (mkHW p h) -> step o e (abs_pool h p) x = (abs_pool h p, Err y) ->
    step_post e p h x (mkHW p h) (Err y).
  Proof.
    intros I Es. unfold step_post. rewrite Es. cbn [fst snd hw_heap hw_pool].
    split; [exact I|]. split; [reflexivity|]. split; [reflexivity|]. split; [apply hframe_refl|].
    split; [intros _ _; split; [apply hframe_refl|reflexivity]|reflexivity].
  Qed.

  Lemma pget_abs_some (h : heap) (p : hpool) id c : pget p id = Some c -> wget (abs_pool h p) id = Some (abs_circ h c).
  Proof. intros E. rewrite wget_abs, E. reflexivity. Qed.
  Lemma pget_abs_none (h : heap) (p : hpool) id : pget p id = None -> wget (abs_pool h p) id = None.
  Proof. intros E. rewrite wget_abs, E. reflexivity. Qed.

  Lemma frozen_entries (p : hpool) (h : heap) j cj :
    inv (mkHW p h) -> In (j, cj) p ->
    forall a, In a (spec_cells h (rd_list h (hc_spec cj))) -> ~ owned p a /\ a <p h_next h.
  Proof.
    intros I Hj a Ha. split; [exact (inv_frozen _ I j cj Hj a Ha)|].
    pose proof (inv_hwf _ I) as Hw. cbn [hw_heap] in Hw.
    pose proof (spec_cells_below h _ Hw (rd_list_below h (hc_spec cj) Hw)) as Hb.
    unfold below in Hb. rewrite Forall_forall in Hb. exact (Hb a Ha).
  Qed.

  Theorem hstep_in_ok (e : env (K:=K)) (p : hpool) (h : heap) (x : op) :
    inv (mkHW p h) ->
    step_post e p h x (fst (hstep_in o e p h x)) (snd (hstep_in o e p h x)).
  Proof.
    intros I. pose proof (inv_hwf _ I) as Hw. cbn [hw_heap] in Hw.
    destruct x as [id n|id k V|id m1 m2 r l cv|id m phi l|id m l|id ms|id sw|id n im om|id sub mode g|new a b|new a|id];
      cbn [hstep_in].
    - (* Circuit(n) *)
      rewrite h_new_circ_eq. destruct (alloc6 h [] [] [] [] [] [] n) as [h' c'] eqn:E.
      destruct (alloc6_post h _ _ _ _ _ _ _ _ _ Hw (Forall_nil _) E) as (Q1 & Q2 & Q3 & Q4 & Q5 & Q6 & Q7 & Q8 & Q9).
      cbn [fst snd].
      apply (hnew_step e p h h' (ONew id n) id c' (new_circ n) I eq_refl eq_refl eq_refl Q1 Q2 Q3 Q7 Q5).
      + exact Q4.
      + constructor.
      + rewrite Q8. intros a [].
    - (* Unitary(V) *)
      destruct (halloc h (CComp (HUMat 0 k (of_rows (cplx o) V)))) as [h1 a1] eqn:E1.
      destruct (halloc_inv _ _ _ _ [] h E1 Hw (Forall_nil _) (hframe_refl _ _)) as (-> & N1 & W1 & F1 & G1 & _).
      rewrite h_new_circ_eq. destruct (alloc6 h1 [h_next h] [] [] [] [] [] k) as [h' c'] eqn:E.
      assert (Bl : below h1 [h_next h]) by (constructor; [lia|constructor]).
      destruct (alloc6_post h1 _ _ _ _ _ _ _ _ _ W1 Bl E) as (Q1 & Q2 & Q3 & Q4 & Q5 & Q6 & Q7 & Q8 & Q9).
      cbn [fst snd].
      assert (Ea : abs_list h1 [h_next h] = [UMat 0 k (of_rows (cplx o) V)]).
      { unfold abs_list. cbn [map abs_comp]. rewrite G1. reflexivity. }
      apply (hnew_step e p h h' (OUnitary id k V) id c' (unitary_circ k (of_rows (cplx o) V)) I eq_refl eq_refl eq_refl);
        try assumption.
      + eapply hframe_trans; eassumption.
      + eapply Forall_impl; [|exact Q5]. intros a Ha. cbv beta in Ha |- *. lia.
      + rewrite Q4, Ea. reflexivity.
      + unfold flat_circ, unitary_circ. cbn [c_spec]. repeat constructor.
      + rewrite Q8. intros a Ha.
        rewrite (proj2 (abs_list_stable h1 h' _ W1 (hframe_agree _ _ Q1) Bl)) in Ha.
        unfold spec_cells in Ha. cbn [flat_map comp_cells] in Ha. rewrite G1, app_nil_r in Ha. destruct Ha as [<-|[]].
        split.
        * intros Ho. pose proof (owned_below _ _ I Ho) as Hb. cbn [hw_heap] in Hb. lia.
        * intros Hp. rewrite Forall_forall in Q5. specialize (Q5 _ Hp). cbv beta in Q5. lia.
    - apply (hupd_step e p h _ id _ (fun c => op_bs o e c m1 m2 r l cv)); try reflexivity; try assumption.
      + intros c c'. apply op_bs_flat.
      + intros c Hc. apply (h_bs_post o p h id c I Hc).
    - apply (hupd_step e p h _ id _ (fun c => op_ps o e c m phi l)); try reflexivity; try assumption.
      + intros c c'. apply op_ps_flat.
      + intros c Hc. apply (h_ps_post o p h id c I Hc).
    - apply (hupd_step e p h _ id _ (fun c => op_loss o e c m l)); try reflexivity; try assumption.
      + intros c c'. apply op_loss_flat.
      + intros c Hc. apply (h_loss_post o p h id c I Hc).
    - apply (hupd_step e p h _ id _ (fun c => op_barrier c ms)); try reflexivity; try assumption.
      + intros c c'. apply op_barrier_flat.
      + intros c Hc. apply (h_barrier_post p h id c I Hc).
    - apply (hupd_step e p h _ id _ (fun c => op_mode_swaps c sw)); try reflexivity; try assumption.
      + intros c c'. apply op_mode_swaps_flat.
      + intros c Hc. apply (h_mode_swaps_post p h id c I Hc).
    - apply (hupd_step e p h _ id _ (fun c => op_herald c n im om)); try reflexivity; try assumption.
      + intros c c'. apply op_herald_flat.
      + intros c Hc. apply (h_herald_post p h id c I Hc).
    - (* add *)
      destruct (pget p sub) as [s|] eqn:Es.
      2:{ apply err_step; [exact I|]. cbn [step]. rewrite (pget_abs_none h p sub Es). reflexivity. }
      pose proof (pget_In p sub s Es) as Hs.
      apply (hupd_step e p h _ id _ (fun c => op_add o c (abs_circ h s) mode g)); try reflexivity; try assumption.
      + intros c c' Hc. apply op_add_flat; [exact Hc|]. exact (inv_flat _ I sub s Hs).
      + cbn [step]. rewrite (pget_abs_some h p sub s Es). reflexivity.
      + intros c Hc. apply (h_add_post o p h id c sub s I Hc Hs).
    - (* a + b *)
      destruct (pget p a) as [ca|] eqn:Ea.
      2:{ apply err_step; [exact I|]. cbn [step]. rewrite (pget_abs_none h p a Ea). reflexivity. }
      destruct (pget p b) as [cb|] eqn:Eb.
      2:{ apply err_step; [exact I|]. cbn [step]. rewrite (pget_abs_some h p a ca Ea), (pget_abs_none h p b Eb). reflexivity. }
      pose proof (pget_In p a ca Ea) as Ha. pose proof (pget_In p b cb Eb) as Hb.
      destruct (negb (hc_n ca =? hc_n cb)) eqn:En.
      { apply err_step; [exact I|]. cbn [step]. rewrite (pget_abs_some h p a ca Ea), (pget_abs_some h p b cb Eb).
        unfold op_plus. cbn [abs_circ c_n]. rewrite En. reflexivity. }
      destruct (negb (length (rd_dict h (hc_in ca)) =? 0) || negb (length (rd_dict h (hc_in cb)) =? 0)) eqn:Eh.
      { apply err_step; [exact I|]. cbn [step]. rewrite (pget_abs_some h p a ca Ea), (pget_abs_some h p b cb Eb).
        unfold op_plus. cbn [abs_circ c_n c_in]. rewrite En, Eh. reflexivity. }
      rewrite h_new_circ_eq.
      set (l := rd_list h (hc_spec ca) ++ rd_list h (hc_spec cb)).
      assert (Bl : below h l) by (apply Forall_app; split; apply rd_list_below; exact Hw).
      destruct (alloc6 h l [] [] [] [] [] (hc_n ca)) as [h' c'] eqn:E.
      destruct (alloc6_post h _ _ _ _ _ _ _ _ _ Hw Bl E) as (Q1 & Q2 & Q3 & Q4 & Q5 & Q6 & Q7 & Q8 & Q9).
      cbn [fst snd].
      assert (Ef : op_plus (abs_circ h ca) (abs_circ h cb) =
                   Ok (mkCirc (hc_n ca) (abs_list h l) [] [] [] [] [])).
      { unfold op_plus. cbn [abs_circ c_n c_in c_spec]. rewrite En, Eh. unfold l, abs_list. rewrite map_app. reflexivity. }
      apply (hnew_step e p h h' (OPlus new a b) new c' (mkCirc (hc_n ca) (abs_list h l) [] [] [] [] []) I eq_refl eq_refl);
        try assumption.
      + cbn [step]. rewrite (pget_abs_some h p a ca Ea), (pget_abs_some h p b cb Eb), Ef. reflexivity.
      + unfold flat_circ. cbn [c_spec]. unfold l, abs_list. rewrite map_app. apply Forall_app. split.
        * exact (inv_flat _ I a ca Ha).
        * exact (inv_flat _ I b cb Hb).
      + rewrite Q8. intros x Hx.
        rewrite (proj2 (abs_list_stable h h' _ Hw (hframe_agree _ _ Q1) Bl)) in Hx.
        assert (Hx' : ~ owned p x /\ x <p h_next h).
        { unfold l, spec_cells in Hx. rewrite flat_map_app in Hx. apply in_app_or in Hx as [Hx|Hx].
          - exact (frozen_entries p h a ca I Ha x Hx).
          - exact (frozen_entries p h b cb I Hb x Hx). }
        split; [exact (proj1 Hx')|]. intros Hp. rewrite Forall_forall in Q5. specialize (Q5 _ Hp). cbv beta in Q5. lia.
    - (* copy *)
      destruct (pget p a) as [ca|] eqn:Ea.
      2:{ apply err_step; [exact I|]. cbn [step]. rewrite (pget_abs_none h p a Ea). reflexivity. }
      pose proof (pget_In p a ca Ea) as Ha. destruct (inv_cwf _ I a ca Ha) as (Hca & _). cbn [hw_heap] in Hca.
      destruct (h_copy_circ h ca) as [h' c'] eqn:E.
      destruct (h_copy_circ_post h ca h' c' Hw Hca E) as (Q1 & Q2 & Q3 & Q4 & Q5 & Q6 & Q7 & Q8 & Q9).
      cbn [fst snd].
      apply (hnew_step e p h h' (OCopy new a) new c' (abs_circ h ca) I eq_refl eq_refl); try assumption.
      + cbn [step]. rewrite (pget_abs_some h p a ca Ea). reflexivity.
      + exact (inv_flat _ I a ca Ha).
      + rewrite Q8. intros x Hx.
        rewrite (proj2 (abs_list_stable h h' _ Hw (hframe_agree _ _ Q1) (rd_list_below h _ Hw))) in Hx.
        destruct (frozen_entries p h a ca I Ha x Hx) as (H1 & H2). split; [exact H1|].
        intros Hp. rewrite Forall_forall in Q5. specialize (Q5 _ Hp). cbv beta in Q5. lia.
    - (* unpack_groups *)
      apply (hupd_step e p h _ id _ (fun c => Ok (unpack_groups c))); try reflexivity; try assumption.
      + intros c c' Hc Ec. injection Ec as <-. apply unpack_flat, Hc.
      + intros c Hc. apply (h_unpack_groups_post p h id c I Hc).
  Qed.

  (* ================= the theorems about one call ================= *)
  Lemma hstep_post (e : env (K:=K)) (hw : hworld) (x : op) :
    inv hw ->
    step_post e (hw_pool hw) (clear_log (hw_heap hw)) x (fst (hstep o e hw x)) (snd (hstep o e hw x)).
  Proof. intros I. unfold hstep. apply hstep_in_ok. apply (inv_clear hw I). Qed.

  (* (a) REFINEMENT: the heap step, read through [abs], is the functional step; the invariant is kept *)
  Theorem hstep_refines (e : env (K:=K)) (hw : hworld) (x : op) :
    inv hw ->
    inv (fst (hstep o e hw x)) /\
    abs (fst (hstep o e hw x)) = fst (step o e (abs hw) x) /\
    snd (hstep o e hw x) = snd (step o e (abs hw) x).
  Proof.
    intros I. destruct (hstep_post e hw x I) as (H1 & H2 & H3 & _).
    rewrite (proj2 (inv_clear hw I)) in H2, H3. split; [exact H1|]. split; [exact H2|exact H3].
  Qed.

  (* (b) every write of a call goes to a cell allocated during the call or to a private cell of its target
     (its own list object, its own four herald dicts, its own internal-modes list); every other
     pre-existing cell keeps its content *)
  Theorem hstep_writes (e : env (K:=K)) (hw : hworld) (x : op) :
    inv hw ->
    let h := hw_heap hw in
    let h' := hw_heap (fst (hstep o e hw x)) in
    (forall a, In a (h_log h') -> h_next h <=p a \/ In a (target_priv (hw_pool hw) x)) /\
    (forall a, a <p h_next h -> ~ In a (target_priv (hw_pool hw) x) -> hget h' a = hget h a) /\
    h_next h <=p h_next h'.
  Proof.
    intros I. destruct (hstep_post e hw x I) as (_ & _ & _ & (F1 & F2 & F3) & _). cbv zeta.
    split; [|split; [exact F2|exact F1]].
    intros a Ha. destruct (F3 a Ha) as [[]|H]. exact H.
  Qed.

  Lemma target_priv_in (p : hpool) (x : op) a :
    In a (target_priv p x) -> exists c, pget p (target x) = Some c /\ In a (priv c).
  Proof.
    unfold target_priv. destruct x; try (intros []);
      (destruct (pget p _) as [c|] eqn:E; [intros H; exists c; split; [first [exact E|reflexivity]|exact H]|intros []]).
  Qed.

  (* args_unchanged at the heap level: no cell reachable from a circuit other than the target is
     written, the circuit object itself is the same, so it reads the same *)
  Theorem hstep_args_unchanged (e : env (K:=K)) (hw : hworld) (x : op) j cj :
    inv hw -> pget (hw_pool hw) j = Some cj -> j <> target x ->
    let h := hw_heap hw in
    let hw' := fst (hstep o e hw x) in
    pget (hw_pool hw') j = Some cj /\
    (forall a, In a (reach h cj) -> ~ In a (h_log (hw_heap hw')) /\ hget (hw_heap hw') a = hget h a) /\
    reach (hw_heap hw') cj = reach h cj /\
    abs_circ (hw_heap hw') cj = abs_circ h cj.
  Proof.
    intros I Ej Hne. cbv zeta.
    destruct (hstep_post e hw x I) as (_ & _ & _ & _ & _ & Hp).
    destruct (hstep_writes e hw x I) as (W1 & W2 & W3). cbv zeta in W1, W2, W3.
    pose proof (pget_In _ _ _ Ej) as Hj.
    destruct (inv_cwf _ I j cj Hj) as (Hc & _).
    pose proof (reach_below _ cj (inv_hwf _ I) Hc) as Hb. unfold below in Hb. rewrite Forall_forall in Hb.
    assert (Av : forall a, In a (reach (hw_heap hw) cj) -> ~ In a (target_priv (hw_pool hw) x)).
    { intros a Ha Ht. apply target_priv_in in Ht as (c & Ec & Hpc).
      exact (reach_avoids hw (target x) c j cj I (pget_In _ _ _ Ec) Hj (fun E => Hne (eq_sym E)) a Ha Hpc). }
    assert (Same : forall a, In a (reach (hw_heap hw) cj) -> hget (hw_heap (fst (hstep o e hw x))) a = hget (hw_heap hw) a).
    { intros a Ha. apply W2; [apply Hb, Ha|apply Av, Ha]. }
    split; [rewrite Hp by exact Hne; exact Ej|]. split.
    - intros a Ha. split; [|apply Same, Ha]. intros Hl. destruct (W1 a Hl) as [H|H].
      + specialize (Hb a Ha). cbv beta in Hb. lia.
      + exact (Av a Ha H).
    - destruct (abs_circ_frame _ _ cj Same) as (A1 & A2). split; [exact A2|exact A1].
  Qed.

  (* failed_call_no_write: a call that raises leaves the pool as it was and writes to no cell that
     existed before it (Circuit.add raises only after it has made its working copies: those are new cells) *)
  Theorem hstep_failed_no_write (e : env (K:=K)) (hw : hworld) (x : op) y :
    inv hw -> snd (hstep o e hw x) = Err y ->
    let h := hw_heap hw in
    let hw' := fst (hstep o e hw x) in
    hw_pool hw' = hw_pool hw /\
    (forall a, In a (h_log (hw_heap hw')) -> h_next h <=p a) /\
    (forall a, a <p h_next h -> hget (hw_heap hw') a = hget h a) /\
    abs hw' = abs hw.
  Proof.
    intros I Ey. cbv zeta. destruct (hstep_post e hw x I) as (_ & H2 & H3 & _ & H5 & _).
    destruct (H5 y Ey) as ((F1 & F2 & F3) & Ep).
    split; [exact Ep|]. split; [intros a Ha; destruct (F3 a Ha) as [[]|[H|[]]]; exact H|].
    split; [intros a Ha; apply F2; [exact Ha|intros []]|].
    rewrite H2. rewrite (proj2 (inv_clear hw I)). apply (step_err_unchanged o e (abs hw) x y).
    rewrite <- (proj2 (inv_clear hw I)), <- H3. exact Ey.
  Qed.

  (* ================= histories ================= *)
  Theorem hrun_refines (e : env (K:=K)) (pr : list op) : forall hw,
    inv hw ->
    inv (fst (hrun o e hw pr)) /\
    abs (fst (hrun o e hw pr)) = fst (run o e (abs hw) pr) /\
    snd (hrun o e hw pr) = snd (run o e (abs hw) pr).
  Proof.
    induction pr as [|x pr IH]; intros hw I; cbn [hrun run]; [split; [exact I|split; reflexivity]|].
    destruct (hstep_refines e hw x I) as (I1 & A1 & R1).
    destruct (hstep o e hw x) as [hw1 r1]. destruct (step o e (abs hw) x) as [w1 s1]. cbn [fst snd] in *. subst w1 s1.
    destruct (IH hw1 I1) as (I2 & A2 & R2).
    destruct (hrun o e hw1 pr) as [hw2 rs]. destruct (run o e (abs hw1) pr) as [w2 ss]. cbn [fst snd] in *.
    split; [exact I2|]. split; [exact A2|]. rewrite R2. reflexivity.
  Qed.

  Definition hreachable (e : env (K:=K)) (hw : hworld) : Prop := exists pr, hw = fst (hrun o e hw_empty pr).

  Theorem hreachable_inv (e : env (K:=K)) (hw : hworld) : hreachable e hw -> inv hw.
  Proof. intros (pr & ->). apply (hrun_refines e pr hw_empty inv_empty). Qed.

  (* an object that no call of a history targets: same object, no reachable cell ever written *)
  Theorem hrun_args_unchanged (e : env (K:=K)) (pr : list op) : forall hw j cj,
    inv hw -> pget (hw_pool hw) j = Some cj -> (forall x, In x pr -> j <> target x) ->
    let hw' := fst (hrun o e hw pr) in
    pget (hw_pool hw') j = Some cj /\
    (forall a, In a (reach (hw_heap hw) cj) -> hget (hw_heap hw') a = hget (hw_heap hw) a) /\
    reach (hw_heap hw') cj = reach (hw_heap hw) cj /\
    abs_circ (hw_heap hw') cj = abs_circ (hw_heap hw) cj.
  Proof.
    induction pr as [|x pr IH]; intros hw j cj I Ej Hn; cbn [hrun]; cbv zeta.
    - cbn [fst]. split; [exact Ej|]. split; [reflexivity|]. split; reflexivity.
    - destruct (hstep_args_unchanged e hw x j cj I Ej (Hn x (or_introl eq_refl))) as (P1 & P2 & P3 & P4).
      cbv zeta in P1, P2, P3, P4.
      destruct (hstep_refines e hw x I) as (I1 & _).
      destruct (hstep o e hw x) as [hw1 r1]. cbn [fst] in *.
      destruct (IH hw1 j cj I1 P1 (fun y Hy => Hn y (or_intror Hy))) as (Q1 & Q2 & Q3 & Q4). cbv zeta in Q1, Q2, Q3, Q4.
      destruct (hrun o e hw1 pr) as [hw2 rs]. cbn [fst] in *.
      split; [exact Q1|]. split.
      + intros a Ha. rewrite Q2 by (rewrite P3; exact Ha). apply (P2 a Ha).
      + split; [rewrite Q3; exact P3|rewrite Q4; exact P4].
  Qed.

  (* ================= which cells two circuits share ================= *)
  Lemma pget_pset_same (p : hpool) id c : pget (pset p id c) id = Some c.
  Proof.
    induction p as [|[i ci] p IH]; simpl; [rewrite Nat.eqb_refl; reflexivity|].
    destruct (Nat.eqb_spec i id) as [->|Hne]; simpl; [rewrite Nat.eqb_refl; reflexivity|].
    apply Nat.eqb_neq in Hne. rewrite Hne. exact IH.
  Qed.

  (* copy(): a NEW list object holding the SAME component references; four new dicts; a new
     internal-modes list *)
  Theorem sharing_copy (e : env (K:=K)) (hw : hworld) new a ca :
    inv hw -> pget (hw_pool hw) a = Some ca ->
    let h := hw_heap hw in
    let hw' := fst (hstep o e hw (OCopy new a)) in
    exists c', pget (hw_pool hw') new = Some c' /\
               rd_list (hw_heap hw') (hc_spec c') = rd_list h (hc_spec ca) /\
               Forall (fun b => h_next h <=p b) (priv c') /\ NoDup (priv c').
  Proof.
    intros I Ea. cbv zeta. unfold hstep. cbn [hstep_in]. rewrite Ea.
    destruct (inv_clear hw I) as (I' & _). pose proof (inv_hwf _ I') as Hw. cbn [hw_heap] in Hw.
    destruct (inv_cwf _ I' a ca (pget_In _ _ _ Ea)) as (Hc & _). cbn [hw_heap] in Hc.
    destruct (h_copy_circ (clear_log (hw_heap hw)) ca) as [h' c'] eqn:E.
    destruct (h_copy_circ_post _ ca h' c' Hw Hc E) as (Q1 & Q2 & Q3 & Q4 & Q5 & Q6 & Q7 & Q8 & Q9).
    cbn [fst hw_pool hw_heap]. exists c'. split; [apply pget_pset_same|]. split; [exact Q8|]. split; [exact Q5|exact Q6].
  Qed.

  (* a + b: a new list object holding the references of a followed by those of b; new (empty) dicts *)
  Theorem sharing_plus (e : env (K:=K)) (hw : hworld) new a b :
    inv hw -> snd (hstep o e hw (OPlus new a b)) = Ok tt ->
    let h := hw_heap hw in
    let hw' := fst (hstep o e hw (OPlus new a b)) in
    exists ca cb c', pget (hw_pool hw) a = Some ca /\ pget (hw_pool hw) b = Some cb /\
               pget (hw_pool hw') new = Some c' /\
               rd_list (hw_heap hw') (hc_spec c') = rd_list h (hc_spec ca) ++ rd_list h (hc_spec cb) /\
               Forall (fun x => h_next h <=p x) (priv c') /\ NoDup (priv c').
  Proof.
    intros I. cbv zeta. unfold hstep. cbn [hstep_in].
    destruct (pget (hw_pool hw) a) as [ca|] eqn:Ea; [|discriminate].
    destruct (pget (hw_pool hw) b) as [cb|] eqn:Eb; [|discriminate].
    destruct (negb _); [discriminate|]. destruct (_ || _); [discriminate|].
    destruct (inv_clear hw I) as (I' & _). pose proof (inv_hwf _ I') as Hw. cbn [hw_heap] in Hw.
    rewrite h_new_circ_eq.
    match goal with |- context [alloc6 ?h ?l _ _ _ _ _ ?n] => destruct (alloc6 h l [] [] [] [] [] n) as [h' c'] eqn:E;
      assert (Bl : below h l) by (apply Forall_app; split; apply rd_list_below; exact Hw);
      destruct (alloc6_post h l _ _ _ _ _ _ _ _ Hw Bl E) as (Q1 & Q2 & Q3 & Q4 & Q5 & Q6 & Q7 & Q8 & Q9) end.
    intros _. cbn [fst hw_pool hw_heap]. exists ca, cb, c'.
    split; [reflexivity|]. split; [reflexivity|]. split; [apply pget_pset_same|]. split; [exact Q8|]. split; [exact Q5|exact Q6].
  Qed.

  (* add: every entry of the parent's list afterwards is an entry it already had, or a cell made by this
     very call.  add therefore creates no sharing between the parent and the circuit that was added
     (or any other circuit): all components of the added circuit arrive as fresh copies. *)
  Theorem sharing_add (e : env (K:=K)) (hw : hworld) id sub mode g c :
    inv hw -> pget (hw_pool hw) id = Some c -> snd (hstep o e hw (OAdd id sub mode g)) = Ok tt ->
    let h := hw_heap hw in
    let hw' := fst (hstep o e hw (OAdd id sub mode g)) in
    exists c', pget (hw_pool hw') id = Some c' /\
               forall a, In a (rd_list (hw_heap hw') (hc_spec c')) -> In a (rd_list h (hc_spec c)) \/ h_next h <=p a.
  Proof.
    intros I Ec. cbv zeta. unfold hstep. cbn [hstep_in].
    destruct (pget (hw_pool hw) sub) as [s|] eqn:Es; [|discriminate].
    destruct (inv_clear hw I) as (I' & _).
    pose proof (h_add_post_full o (hw_pool hw) (clear_log (hw_heap hw)) id c sub s I'
                 (pget_In _ _ _ Ec) (pget_In _ _ _ Es) mode g) as (_ & Hent).
    unfold hupd. rewrite Ec.
    destruct (h_add o (clear_log (hw_heap hw)) c s mode g) as [h' [c'|y]]; cbn [fst snd] in *; [|discriminate].
    intros _. cbn [hw_pool hw_heap]. exists c'. split; [apply pget_pset_same|exact Hent].
  Qed.
End HeapMain.
