(* Reference-level heap model: every call of op9 (construction calls + rewrite calls) refines the
   functional step9 and leaves every cell reachable from another circuit alone. *)
From Coq Require Import ZArith List Bool Arith Lia PArith FMapPositive.
From LW Require Import Base.Sx Base.Num Base.Sums Base.Mat Model.Circuit Model.World Model.Rewrite Model.Heap
     Proofs.WorldP Proofs.HeapP Proofs.HeapP2 Proofs.HeapFlat Proofs.HeapP3 Proofs.HeapP4.
From LW Require Import Proofs.HeapP5 Proofs.HeapP6 Proofs.HeapMain Proofs.HeapRw Proofs.HeapRw2.
Import ListNotations.

Section HeapRw3.
  Context {K : Type} (o : ops K).
  Notation heap := (@heap K).
  Notation comp := (@comp K).
  Notation circ := (@circ K).
  Notation hworld := (@hworld K).
  Notation op9 := (@op9 K).

  Lemma compress_outer_forall (P : comp -> Prop) rp :
    (forall sw, P (Swaps sw)) ->
    forall l i ts new, Forall P l -> Forall P new -> Forall P (compress_outer rp i l ts new).
  Proof.
    intros Hsw. induction l as [|c l IH]; intros i ts new Hl Hn; cbn [compress_outer]; [exact Hn|].
    pose proof (Forall_inv Hl) as Hc. pose proof (Forall_inv_tail Hl) as Hl'.
    destruct (memb i ts); [apply IH; assumption|].
    destruct c; try (apply IH; [exact Hl'|apply Forall_app; split; [exact Hn|constructor; [exact Hc|constructor]]]).
    destruct (compress_inner rp (S i) l [] sw ts) as [sw' ts'].
    apply IH; [exact Hl'|apply Forall_app; split; [exact Hn|constructor; [apply Hsw|constructor]]].
  Qed.
  Lemma compress_flat (c : circ) : flat_circ c -> flat_circ (compress_circ c).
  Proof.
    intros Hc. unfold flat_circ, compress_circ, set_spec, compress_spec, compress_gen. cbn [c_spec].
    apply compress_outer_forall; [intros sw; exact Logic.I|exact Hc|constructor].
  Qed.

  (* cells reachable from a circuit other than the target are out of reach of a framed call *)
  Lemma frame_others (p : hpool) (h h' : heap) id S j cj :
    inv (mkHW p h) -> h_log h = [] -> hframe S h h' ->
    (S = [] \/ exists c, In (id, c) p /\ S = priv c) ->
    In (j, cj) p -> j <> id ->
    forall a, In a (reach h cj) -> ~ In a (h_log h') /\ hget h' a = hget h a.
  Proof.
    intros I Hlog (F1 & F2 & F3) HS Hj Hne a Ha.
    destruct (inv_cwf _ I j cj Hj) as (Hc & _). cbn [hw_heap] in Hc.
    pose proof (reach_below h cj (inv_hwf _ I) Hc) as Hb. unfold below in Hb. rewrite Forall_forall in Hb.
    specialize (Hb a Ha). cbv beta in Hb.
    assert (Av : ~ In a S).
    { destruct HS as [->|(c & Hc' & ->)]; [intros []|].
      exact (reach_avoids (mkHW p h) id c j cj I Hc' Hj (fun E => Hne (eq_sym E)) a Ha). }
    split; [|apply F2; assumption].
    intros Hl. destruct (F3 a Hl) as [H|[H|H]]; [rewrite Hlog in H; destruct H|lia|exact (Av H)].
  Qed.

  Theorem hstep9_refines (e : env (K:=K)) (hw : hworld) (x : op9) :
    inv hw ->
    inv (fst (hstep9 o e hw x)) /\
    abs (fst (hstep9 o e hw x)) = fst (step9 o true e (abs hw) x) /\
    snd (hstep9 o e hw x) = snd (step9 o true e (abs hw) x) /\
    (forall j cj, pget (hw_pool hw) j = Some cj -> j <> target9 x ->
       pget (hw_pool (fst (hstep9 o e hw x))) j = Some cj /\
       forall a, In a (reach (hw_heap hw) cj) ->
         ~ In a (h_log (hw_heap (fst (hstep9 o e hw x)))) /\
         hget (hw_heap (fst (hstep9 o e hw x))) a = hget (hw_heap hw) a).
  Proof.
    intros I. destruct x as [b|id|id|new a].
    - apply (hstep9_refines_base_frozen o e hw (Base b) eq_refl I).
    - (* compress_mode_swaps *)
      cbn [hstep9 step9 target9].
      destruct (inv_clear hw I) as (I' & Eabs).
      set (p := hw_pool hw) in *. set (h := clear_log (hw_heap hw)) in *.
      rewrite <- Eabs.
      destruct (hupd_ok p h id h_compress (fun c => Ok (compress_circ c)) I') as (H1 & H2 & H3 & H4 & H5).
      + intros c c' Hc Ec. injection Ec as <-. apply compress_flat, Hc.
      + intros c Hc. apply (h_compress_post p h id c I' Hc).
      + split; [exact H1|]. split; [exact H2|]. split; [exact H3|].
        intros j cj Ej Hne. split.
        * unfold hupd. destruct (pget p id) as [c|]; [|exact Ej].
          destruct (h_compress h c) as [h' [c'|y]]; cbn [fst hw_pool]; [rewrite pget_pset_other by exact Hne; exact Ej|exact Ej].
        * change (reach (hw_heap hw) cj) with (reach h cj). change (hget (hw_heap hw)) with (hget h).
          apply (frame_others p h _ id _ j cj I' eq_refl H4); [|exact (pget_In _ _ _ Ej)|exact Hne].
          destruct (pget p id) as [c|] eqn:Ec; [right; exists c; split; [exact (pget_In _ _ _ Ec)|reflexivity]|left; reflexivity].
    - (* remove_non_adjacent_bs *)
      cbn [hstep9 step9 target9].
      destruct (inv_clear hw I) as (I' & Eabs).
      set (p := hw_pool hw) in *. set (h := clear_log (hw_heap hw)) in *.
      rewrite <- Eabs.
      destruct (hupd_ok p h id h_nonadj (fun c => Ok (non_adj_circ c)) I') as (H1 & H2 & H3 & H4 & H5).
      + intros c c' Hc Ec. injection Ec as <-. apply non_adj_flat, Hc.
      + intros c Hc. apply (h_nonadj_post p h id c I' Hc).
      + split; [exact H1|]. split; [exact H2|]. split; [exact H3|].
        intros j cj Ej Hne. split.
        * unfold hupd. destruct (pget p id) as [c|]; [|exact Ej].
          destruct (h_nonadj h c) as [h' [c'|y]]; cbn [fst hw_pool]; [rewrite pget_pset_other by exact Hne; exact Ej|exact Ej].
        * change (reach (hw_heap hw) cj) with (reach h cj). change (hget (hw_heap hw)) with (hget h).
          apply (frame_others p h _ id _ j cj I' eq_refl H4); [|exact (pget_In _ _ _ Ej)|exact Hne].
          destruct (pget p id) as [c|] eqn:Ec; [right; exists c; split; [exact (pget_In _ _ _ Ec)|reflexivity]|left; reflexivity].
    - apply (hstep9_refines_base_frozen o e hw (OCopyFrozen new a) eq_refl I).
  Qed.

  (* histories of op9 calls *)
  Fixpoint hrun9 (e : env (K:=K)) (hw : hworld) (pr : list op9) : hworld * list (res unit) :=
    match pr with
    | [] => (hw, [])
    | x :: pr' =>
        let '(hw', r) := hstep9 o e hw x in
        let '(hw'', rs) := hrun9 e hw' pr' in
        (hw'', r :: rs)
    end.
  Fixpoint run9f (e : env (K:=K)) (w : world (K:=K)) (pr : list op9) : world (K:=K) * list (res unit) :=
    match pr with
    | [] => (w, [])
    | x :: pr' =>
        let '(w', r) := step9 o true e w x in
        let '(w'', rs) := run9f e w' pr' in
        (w'', r :: rs)
    end.

  Theorem hrun9_refines (e : env (K:=K)) (pr : list op9) : forall hw,
    inv hw ->
    inv (fst (hrun9 e hw pr)) /\
    abs (fst (hrun9 e hw pr)) = fst (run9f e (abs hw) pr) /\
    snd (hrun9 e hw pr) = snd (run9f e (abs hw) pr).
  Proof.
    induction pr as [|x pr IH]; intros hw I; cbn [hrun9 run9f]; [split; [exact I|split; reflexivity]|].
    destruct (hstep9_refines e hw x I) as (I1 & A1 & R1 & _).
    destruct (hstep9 o e hw x) as [hw1 r1]. destruct (step9 o true e (abs hw) x) as [w1 s1]. cbn [fst snd] in *. subst w1 s1.
    destruct (IH hw1 I1) as (I2 & A2 & R2).
    destruct (hrun9 e hw1 pr) as [hw2 rs]. destruct (run9f e (abs hw1) pr) as [w2 ss]. cbn [fst snd] in *.
    split; [exact I2|]. split; [exact A2|]. rewrite R2. reflexivity.
  Qed.
End HeapRw3.
