(* Reference-level heap model: instances of the copy-and-edit loop, circuit-level helpers
   (copy, unpack_groups, _add_empty_mode), what reading a circuit depends on. *)
From Coq Require Import ZArith List Bool Arith Lia PArith FMapPositive.
From LW Require Import Base.Sx Base.Num Base.Sums Base.Mat Model.Circuit Model.World Model.Rewrite Model.Heap
     Proofs.HeapP.
Import ListNotations.

Section HeapP2.
  Context {K : Type} (o : ops K).
  Notation heap := (@heap K).
  Notation cell := (@cell K).
  Notation hcomp := (@hcomp K).
  Notation comp := (@comp K).
  Notation circ := (@circ K).

  (* ---------------- the three instances of the loop ---------------- *)
  Lemma h_shift_post k d (h : heap) a h' a' :
    hwf h -> a <p h_next h -> h_shift d k h a = (h', a') -> entry_post (shift_comp k) d h a h' a'.
  Proof.
    unfold h_shift. apply h_xform_post.
    - intros c Hg. destruct c; try discriminate; split; reflexivity.
    - intros. reflexivity.
    - reflexivity.
  Qed.
  Lemma h_aem_post mode d (h : heap) a h' a' :
    hwf h -> a <p h_next h -> h_aem o d mode h a = (h', a') -> entry_post (aem o mode) d h a h' a'.
  Proof.
    unfold h_aem. apply h_xform_post.
    - intros c Hg. destruct c; try discriminate; try (split; reflexivity).
      cbn [Xaem xf_leaf aem abs_leaf]. destruct (_ && _); split; reflexivity.
    - intros. reflexivity.
    - reflexivity.
  Qed.
  Lemma h_freeze_post e d (h : heap) a h' a' :
    hwf h -> a <p h_next h -> h_freeze d e h a = (h', a') -> entry_post (freeze_comp e) d h a h' a'.
  Proof.
    unfold h_freeze. apply h_xform_post.
    - intros c Hg. destruct c; try discriminate; split; reflexivity.
    - intros. reflexivity.
    - reflexivity.
  Qed.

  Lemma h_shift_list_post k l (h : heap) h' l' :
    hwf h -> below h l -> hmap (h_shift 2 k) h l = (h', l') -> list_post (shift_comp k) 2 h l h' l'.
  Proof. apply hmap_post. intros. apply h_shift_post; assumption. Qed.
  Lemma h_aem_list_post mode l (h : heap) h' l' :
    hwf h -> below h l -> hmap (h_aem o 2 mode) h l = (h', l') -> list_post (aem o mode) 2 h l h' l'.
  Proof. apply hmap_post. intros. apply h_aem_post; assumption. Qed.
  Lemma h_freeze_list_post e l (h : heap) h' l' :
    hwf h -> below h l -> hmap (h_freeze 2 e) h l = (h', l') -> list_post (freeze_comp e) 2 h l h' l'.
  Proof. apply hmap_post. intros. apply h_freeze_post; assumption. Qed.

  (* ---------------- one allocation, all facts ---------------- *)
  Lemma halloc_inv (h : heap) c h1 a1 S h0 :
    halloc h c = (h1, a1) -> hwf h -> below h (cell_addrs c) -> hframe S h0 h ->
    a1 = h_next h /\ h_next h1 = Pos.succ (h_next h) /\ hwf h1 /\ hframe S h0 h1 /\
    hget h1 a1 = Some c /\ hframe [] h h1.
  Proof.
    intros E Hw Hc Fr.
    assert (E1 : h1 = fst (halloc h c)) by (rewrite E; reflexivity).
    assert (E2 : a1 = h_next h) by (change (h_next h) with (snd (halloc h c)); rewrite E; reflexivity).
    subst h1 a1. split; [reflexivity|]. split; [reflexivity|]. split; [apply hwf_alloc; assumption|].
    split; [apply hframe_alloc; exact Fr|]. split; [rewrite hget_alloc, Pos.eqb_refl; reflexivity|].
    apply hframe_alloc, hframe_refl.
  Qed.

  Lemma hget_frame (h h' : heap) a : hframe [] h h' -> a <p h_next h -> hget h' a = hget h a.
  Proof. intros (_ & A2 & _) Ha. apply A2; [exact Ha|intros []]. Qed.
  Lemma below_nil (h : heap) : below h [].
  Proof. constructor. Qed.
  Hint Resolve below_nil : core.

  (* ---------------- circuits ---------------- *)
  Definition cwf (h : heap) (c : hcirc) : Prop := below h (priv c).
  Definition sep_circ (c : hcirc) : Prop :=
    ~ In (hc_spec c) [hc_in c; hc_out c; hc_xin c; hc_xout c; hc_int c] /\
    ~ In (hc_int c) [hc_in c; hc_out c; hc_xin c; hc_xout c] /\
    hc_in c <> hc_out c /\ hc_in c <> hc_xout c /\ hc_xin c <> hc_out c /\ hc_xin c <> hc_xout c.

  Lemma cwf_fields (h : heap) c : cwf h c ->
    hc_spec c <p h_next h /\ hc_in c <p h_next h /\ hc_out c <p h_next h /\
    hc_xin c <p h_next h /\ hc_xout c <p h_next h /\ hc_int c <p h_next h.
  Proof.
    unfold cwf, below, priv. intros H. rewrite Forall_forall in H.
    repeat split; apply H; simpl; auto 8.
  Qed.
  Lemma cwf_mono (h h' : heap) c : h_next h <=p h_next h' -> cwf h c -> cwf h' c.
  Proof. apply below_mono. Qed.

  Lemma spec_cells_below (h : heap) l : hwf h -> below h l -> below h (spec_cells h l).
  Proof.
    intros Hw Hl. unfold below, spec_cells. apply Forall_forall. intros b Hb.
    apply in_flat_map in Hb as (a & Ha & Hb). unfold below in Hl. rewrite Forall_forall in Hl.
    pose proof (comp_cells_below h Hw 2 a (Hl a Ha)) as Hc. unfold below in Hc. rewrite Forall_forall in Hc.
    apply Hc, Hb.
  Qed.
  Lemma reach_below (h : heap) c : hwf h -> cwf h c -> below h (reach h c).
  Proof.
    intros Hw Hc. unfold reach, below. apply Forall_app. split; [exact Hc|].
    apply spec_cells_below; [exact Hw|]. apply rd_list_below, Hw.
  Qed.

  Lemma abs_list_cells (h h' : heap) l :
    (forall b, In b (spec_cells h l) -> hget h' b = hget h b) ->
    abs_list h' l = abs_list h l /\ spec_cells h' l = spec_cells h l.
  Proof.
    intros H. unfold abs_list, spec_cells.
    assert (G : forall a, In a l -> abs_comp 2 h' a = abs_comp 2 h a /\ comp_cells 2 h' a = comp_cells 2 h a).
    { intros a Ha. apply abs_comp_cells. intros b Hb. apply H. apply in_flat_map. exists a. split; assumption. }
    split; [apply map_ext_in|apply flat_map_ext_in]; intros a Ha; apply (G a Ha).
  Qed.

  (* reading a circuit depends on the cells it reaches only *)
  Lemma abs_circ_frame (h h' : heap) c :
    (forall b, In b (reach h c) -> hget h' b = hget h b) ->
    abs_circ h' c = abs_circ h c /\ reach h' c = reach h c.
  Proof.
    intros H. unfold reach in *.
    assert (P : forall b, In b (priv c) -> hget h' b = hget h b).
    { intros b Hb. apply H, in_or_app. left. exact Hb. }
    assert (Rl : rd_list h' (hc_spec c) = rd_list h (hc_spec c)).
    { unfold rd_list. rewrite P by (simpl; auto). reflexivity. }
    destruct (abs_list_cells h h' (rd_list h (hc_spec c))) as (A1 & A2).
    { intros b Hb. apply H, in_or_app. right. exact Hb. }
    split.
    - unfold abs_circ. rewrite Rl, A1. unfold rd_dict, rd_nats.
      rewrite !P by (simpl; auto 8). reflexivity.
    - rewrite Rl, A2. reflexivity.
  Qed.
  Lemma abs_circ_stable (h h' : heap) c :
    hwf h -> agree h h' -> cwf h c -> abs_circ h' c = abs_circ h c /\ reach h' c = reach h c.
  Proof.
    intros Hw Ag Hc. apply abs_circ_frame. intros b Hb. apply Ag.
    pose proof (reach_below h c Hw Hc) as Hr. unfold below in Hr. rewrite Forall_forall in Hr. apply Hr, Hb.
  Qed.
  Lemma abs_list_stable (h h' : heap) l :
    hwf h -> agree h h' -> below h l -> abs_list h' l = abs_list h l /\ spec_cells h' l = spec_cells h l.
  Proof.
    intros Hw Ag Hl. apply abs_list_cells. intros b Hb. apply Ag.
    pose proof (spec_cells_below h l Hw Hl) as Hr. unfold below in Hr. rewrite Forall_forall in Hr. apply Hr, Hb.
  Qed.

  (* six allocations for a new circuit object *)
  Lemma six_fresh (n : positive) :
    NoDup [n; Pos.succ n; Pos.succ (Pos.succ n); Pos.succ (Pos.succ (Pos.succ n));
           Pos.succ (Pos.succ (Pos.succ (Pos.succ n))); Pos.succ (Pos.succ (Pos.succ (Pos.succ (Pos.succ n))))].
  Proof. repeat (constructor; [simpl; intros H; repeat (destruct H as [H|H]; [lia|]); exact H|]). constructor. Qed.

  (* Circuit(n) with given containers: generic "six new cells" lemma used by copy / + / new / frozen copy *)
  Definition alloc6 (h : heap) (l : list addr) (d1 d2 d3 d4 : dict) (ns : list nat) (n : nat) : heap * hcirc :=
    let '(h1, sp) := halloc h (CList l) in
    let '(h2, i) := halloc h1 (CDict d1) in
    let '(h3, ou) := halloc h2 (CDict d2) in
    let '(h4, xi) := halloc h3 (CDict d3) in
    let '(h5, xo) := halloc h4 (CDict d4) in
    let '(h6, it) := halloc h5 (CNats ns) in
    (h6, mkHC n sp i ou xi xo it).

  Lemma alloc6_post (h : heap) l d1 d2 d3 d4 ns n h' c' :
    hwf h -> below h l -> alloc6 h l d1 d2 d3 d4 ns n = (h', c') ->
    hframe [] h h' /\ hwf h' /\ cwf h' c' /\
    abs_circ h' c' = mkCirc n (abs_list h l) d1 d2 d3 d4 ns /\
    Forall (fun a => h_next h <=p a) (priv c') /\ NoDup (priv c') /\ sep_circ c' /\
    rd_list h' (hc_spec c') = l /\ hc_n c' = n.
  Proof.
    intros Hw Hl E. unfold alloc6 in E.
    destruct (halloc h (CList l)) as [h1 a1] eqn:E1.
    destruct (halloc_inv _ _ _ _ [] h E1 Hw Hl (hframe_refl _ _)) as (-> & N1 & W1 & F1 & G1 & _).
    destruct (halloc h1 (CDict d1)) as [h2 a2] eqn:E2.
    destruct (halloc_inv _ _ _ _ [] h E2 W1 (below_nil _) F1) as (-> & N2 & W2 & F2 & G2 & S2).
    destruct (halloc h2 (CDict d2)) as [h3 a3] eqn:E3.
    destruct (halloc_inv _ _ _ _ [] h E3 W2 (below_nil _) F2) as (-> & N3 & W3 & F3 & G3 & S3).
    destruct (halloc h3 (CDict d3)) as [h4 a4] eqn:E4.
    destruct (halloc_inv _ _ _ _ [] h E4 W3 (below_nil _) F3) as (-> & N4 & W4 & F4 & G4 & S4).
    destruct (halloc h4 (CDict d4)) as [h5 a5] eqn:E5.
    destruct (halloc_inv _ _ _ _ [] h E5 W4 (below_nil _) F4) as (-> & N5 & W5 & F5 & G5 & S5).
    destruct (halloc h5 (CNats ns)) as [h6 a6] eqn:E6.
    destruct (halloc_inv _ _ _ _ [] h E6 W5 (below_nil _) F5) as (-> & N6 & W6 & F6 & G6 & S6).
    injection E as <- <-.
    assert (R1 : hget h6 (h_next h) = Some (CList l)).
    { rewrite (hget_frame h5 h6), (hget_frame h4 h5), (hget_frame h3 h4), (hget_frame h2 h3), (hget_frame h1 h2);
        try assumption; lia. }
    assert (R2 : hget h6 (h_next h1) = Some (CDict d1)).
    { rewrite (hget_frame h5 h6), (hget_frame h4 h5), (hget_frame h3 h4), (hget_frame h2 h3); try assumption; lia. }
    assert (R3 : hget h6 (h_next h2) = Some (CDict d2)).
    { rewrite (hget_frame h5 h6), (hget_frame h4 h5), (hget_frame h3 h4); try assumption; lia. }
    assert (R4 : hget h6 (h_next h3) = Some (CDict d3)).
    { rewrite (hget_frame h5 h6), (hget_frame h4 h5); try assumption; lia. }
    assert (R5 : hget h6 (h_next h4) = Some (CDict d4)).
    { rewrite (hget_frame h5 h6); try assumption; lia. }
    split; [exact F6|]. split; [exact W6|]. split.
    { unfold cwf, below, priv; cbn [hc_spec hc_in hc_out hc_xin hc_xout hc_int]. repeat constructor; lia. }
    split.
    { unfold abs_circ; cbn [hc_spec hc_in hc_out hc_xin hc_xout hc_int hc_n]. unfold rd_list, rd_dict, rd_nats.
      rewrite R1, R2, R3, R4, R5, G6. f_equal.
      apply (abs_list_stable h h6 l Hw (hframe_agree _ _ F6) Hl). }
    split.
    { unfold priv; cbn [hc_spec hc_in hc_out hc_xin hc_xout hc_int]. repeat constructor; lia. }
    assert (ND : NoDup (priv (mkHC n (h_next h) (h_next h1) (h_next h2) (h_next h3) (h_next h4) (h_next h5)))).
    { unfold priv; cbn [hc_spec hc_in hc_out hc_xin hc_xout hc_int].
      rewrite N5, N4, N3, N2, N1. apply six_fresh. }
    split; [exact ND|]. split.
    { unfold sep_circ; cbn [hc_spec hc_in hc_out hc_xin hc_xout hc_int]. simpl. repeat split; intros H; lia. }
    split; [unfold rd_list; cbn [hc_spec]; rewrite R1; reflexivity|reflexivity].
  Qed.

  Lemma h_new_circ_eq (h : heap) n l : h_new_circ h n l = alloc6 h l [] [] [] [] [] n.
  Proof. reflexivity. Qed.

  Lemma h_copy_circ_eq (h : heap) c : hwf h -> cwf h c ->
    h_copy_circ h c = alloc6 h (rd_list h (hc_spec c)) (rd_dict h (hc_in c)) (rd_dict h (hc_out c))
                             (rd_dict h (hc_xin c)) (rd_dict h (hc_xout c)) (rd_nats h (hc_int c)) (hc_n c).
  Proof.
    intros Hw Hc. destruct (cwf_fields h c Hc) as (L1 & L2 & L3 & L4 & L5 & L6).
    unfold h_copy_circ, alloc6.
    destruct (halloc h (CList (rd_list h (hc_spec c)))) as [h1 a1] eqn:E1.
    destruct (halloc_inv _ _ _ _ [] h E1 Hw (rd_list_below h _ Hw) (hframe_refl _ _)) as (-> & N1 & W1 & F1 & G1 & _).
    rewrite (rd_dict_agree h h1) by (try apply hframe_agree; assumption).
    destruct (halloc h1 (CDict (rd_dict h (hc_in c)))) as [h2 a2] eqn:E2.
    destruct (halloc_inv _ _ _ _ [] h E2 W1 (below_nil _) F1) as (-> & N2 & W2 & F2 & G2 & S2).
    rewrite (rd_dict_agree h h2) by (try apply hframe_agree; assumption).
    destruct (halloc h2 (CDict (rd_dict h (hc_out c)))) as [h3 a3] eqn:E3.
    destruct (halloc_inv _ _ _ _ [] h E3 W2 (below_nil _) F2) as (-> & N3 & W3 & F3 & G3 & S3).
    rewrite (rd_dict_agree h h3) by (try apply hframe_agree; assumption).
    destruct (halloc h3 (CDict (rd_dict h (hc_xin c)))) as [h4 a4] eqn:E4.
    destruct (halloc_inv _ _ _ _ [] h E4 W3 (below_nil _) F3) as (-> & N4 & W4 & F4 & G4 & S4).
    rewrite (rd_dict_agree h h4) by (try apply hframe_agree; assumption).
    destruct (halloc h4 (CDict (rd_dict h (hc_xout c)))) as [h5 a5] eqn:E5.
    destruct (halloc_inv _ _ _ _ [] h E5 W4 (below_nil _) F4) as (-> & N5 & W5 & F5 & G5 & S5).
    rewrite (rd_nats_agree h h5) by (try apply hframe_agree; assumption).
    reflexivity.
  Qed.

  Lemma abs_circ_eta (h : heap) c :
    abs_circ h c = mkCirc (hc_n c) (abs_list h (rd_list h (hc_spec c))) (rd_dict h (hc_in c)) (rd_dict h (hc_out c))
                          (rd_dict h (hc_xin c)) (rd_dict h (hc_xout c)) (rd_nats h (hc_int c)).
  Proof. reflexivity. Qed.

  Lemma h_copy_circ_post (h : heap) c h' c' :
    hwf h -> cwf h c -> h_copy_circ h c = (h', c') ->
    hframe [] h h' /\ hwf h' /\ cwf h' c' /\ abs_circ h' c' = abs_circ h c /\
    Forall (fun a => h_next h <=p a) (priv c') /\ NoDup (priv c') /\ sep_circ c' /\
    rd_list h' (hc_spec c') = rd_list h (hc_spec c) /\ hc_n c' = hc_n c.
  Proof.
    intros Hw Hc E. rewrite (h_copy_circ_eq h c Hw Hc) in E.
    apply (alloc6_post h _ _ _ _ _ _ _ _ _ Hw (rd_list_below h _ Hw)) in E. exact E.
  Qed.
End HeapP2.
