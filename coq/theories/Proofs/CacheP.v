(* C11 — lemmas about the cache machine of Model/Cache.v *)
From Coq Require Import ZArith NArith List Bool Arith Lia.
From LW Require Import Base.Sx Model.Cache.
Import ListNotations.

(* ------------------------------------------------------------------------- *)
(* generic machine                                                            *)
(* ------------------------------------------------------------------------- *)
Section GenericP.
  Context {cfg key D CD U S : Type}.
  Variable snap : cfg -> key.
  Variable keq : key -> key -> bool.
  Variable dist : cfg -> res D.
  Variable cont : D -> CD.
  Variable pick : cfg -> CD -> U -> S.
  Variable pickn : cfg -> D -> U -> S.
  (* the configurations under consideration (an invariant of the reconfigurations) *)
  Variable P : cfg -> Prop.

  Local Notation obj := (@obj cfg key D CD).
  Local Notation op := (@op cfg U).
  Local Notation read_dist := (read_dist snap keq dist cont).
  Local Notation read_cont := (read_cont snap keq dist cont).
  Local Notation step := (step snap keq dist cont pick pickn).
  Local Notation run := (run snap keq dist cont pick pickn).
  Local Notation spec_out := (spec_out dist cont pick pickn).

  (* the distribution is a function of the snapshot *)
  Definition snap_determines_dist : Prop :=
    forall c1 c2, P c1 -> P c2 -> keq (snap c1) (snap c2) = true -> dist c1 = dist c2.

  (* invariant: the cache is empty, or its key is the snapshot of the
     configuration it was computed for and its values are that configuration's *)
  Definition coh (o : obj) : Prop :=
    P (live o) /\
    match cached o with
    | None => True
    | Some e => exists c, P c /\ e_key e = snap c /\ dist c = Ok (e_dist e) /\ e_cont e = cont (e_dist e)
    end.

  Definition preserves (p : op) : Prop :=
    match p with
    | Reconfigure f => forall c c', P c -> f c = Ok c' -> P c'
    | _ => True
    end.

  Lemma coh_fresh : forall c, P c -> coh (fresh c).
  Proof. intros c H; split; simpl; auto. Qed.

  Lemma read_dist_spec :
    snap_determines_dist ->
    forall o, coh o ->
      snd (read_dist o) = dist (live o) /\
      coh (fst (read_dist o)) /\
      live (fst (read_dist o)) = live o /\
      (forall d, snd (read_dist o) = Ok d ->
         exists e, cached (fst (read_dist o)) = Some e /\ e_dist e = d /\ e_cont e = cont d).
  Proof.
    intros SD o [HP HC].
    assert (RECOMP :
      forall (o : obj), P (live o) ->
        let r := match dist (live o) with
                 | Err e => (o, Err e)
                 | Ok d => ({| live := live o;
                               cached := Some {| e_key := snap (live o); e_dist := d; e_cont := cont d; e_gen := ngen o |};
                               ngen := Datatypes.S (ngen o) |}, Ok d)
                 end in
        (match cached o with None => True | Some e => exists c, P c /\ e_key e = snap c /\ dist c = Ok (e_dist e) /\ e_cont e = cont (e_dist e) end) ->
        snd r = dist (live o) /\ coh (fst r) /\ live (fst r) = live o /\
        (forall d, snd r = Ok d -> exists e, cached (fst r) = Some e /\ e_dist e = d /\ e_cont e = cont d)).
    { intros o' HP' r HC'. subst r. destruct (dist (live o')) as [d|e] eqn:E; simpl.
      - repeat split; auto.
        + exists (live o'). simpl. auto.
        + intros d' H; inversion H; subst. eexists; split; [reflexivity|]. simpl; auto.
      - repeat split; auto. intros d H; discriminate. }
    unfold Cache.read_dist, check_updates.
    destruct (cached o) as [e|] eqn:E.
    - destruct (keq (snap (live o)) (e_key e)) eqn:K; simpl.
      + rewrite E. simpl. destruct HC as (c & Pc & Hk & Hd & Hc).
        rewrite Hk in K. pose proof (SD _ _ HP Pc K) as EQ.
        repeat split; auto.
        * congruence.
        * rewrite E. exists c; auto.
        * intros d H; inversion H; subst. exists e; auto.
      + apply RECOMP; auto. rewrite E; auto.
    - simpl. apply RECOMP; auto. rewrite E; auto.
  Qed.

  Definition cont_of (c : cfg) : res CD :=
    match dist c with Ok d => Ok (cont d) | Err e => Err e end.

  Lemma read_cont_spec :
    snap_determines_dist ->
    forall o, coh o ->
      snd (read_cont true o) = cont_of (live o) /\
      coh (fst (read_cont true o)) /\
      live (fst (read_cont true o)) = live o.
  Proof.
    intros SD o H.
    destruct (read_dist_spec SD o H) as (R1 & R2 & R3 & R4).
    unfold Cache.read_cont, cont_of. simpl.
    destruct (check_updates snap keq o) eqn:CU.
    - destruct (read_dist o) as [o1 r] eqn:RD. simpl in *.
      destruct r as [d|e].
      + destruct (R4 d eq_refl) as (en & E1 & E2 & E3). rewrite E1. simpl.
        rewrite <- R1. rewrite E3. auto.
      + simpl. rewrite <- R1. auto.
    - (* no update needed: the cached continuous distribution is returned *)
      unfold check_updates in CU. destruct H as [HP HC].
      destruct (cached o) as [e|] eqn:E; [|discriminate].
      simpl. apply negb_false_iff in CU.
      destruct HC as (c & Pc & Hk & Hd & Hc). rewrite Hk in CU.
      rewrite (SD _ _ HP Pc CU), Hd, Hc. repeat split; auto.
      rewrite E. exists c; auto.
  Qed.

  (* every call answers as the cache-free specification says *)
  Lemma step_out :
    snap_determines_dist ->
    forall o p, coh o -> snd (step true o p) = spec_out (live o) p.
  Proof.
    intros SD o p H. destruct p; simpl.
    - destruct (f (live o)); reflexivity.
    - destruct (read_dist_spec SD o H) as (R1 & _). destruct (read_dist o) as [o1 r]; simpl in *.
      rewrite <- R1. destruct r; reflexivity.
    - destruct (read_cont_spec SD o H) as (R1 & _). destruct (read_cont true o) as [o1 r]; simpl in *.
      unfold cont_of in R1. destruct (dist (live o)); subst r; reflexivity.
    - destruct (read_cont_spec SD o H) as (R1 & _ & R3). destruct (read_cont true o) as [o1 r]; simpl in *.
      unfold cont_of in R1. rewrite R3. destruct (dist (live o)); subst r; reflexivity.
    - destruct (read_dist_spec SD o H) as (R1 & _ & R3 & _). destruct (read_dist o) as [o1 r]; simpl in *.
      rewrite R3, <- R1. destruct r; reflexivity.
  Qed.

  Lemma step_coh :
    snap_determines_dist ->
    forall o p, coh o -> preserves p ->
      coh (fst (step true o p)) /\ live (fst (step true o p)) = next_cfg (live o) p.
  Proof.
    intros SD o p H PR. destruct p; simpl.
    - destruct (f (live o)) as [c|e] eqn:F; simpl; split; auto.
      destruct H as [HP HC]. split; simpl; eauto.
    - destruct (read_dist_spec SD o H) as (_ & R2 & R3 & _). destruct (read_dist o); simpl in *; auto.
    - destruct (read_cont_spec SD o H) as (_ & R2 & R3). destruct (read_cont true o); simpl in *; auto.
    - destruct (read_cont_spec SD o H) as (_ & R2 & R3). destruct (read_cont true o); simpl in *; auto.
    - destruct (read_dist_spec SD o H) as (_ & R2 & R3 & _). destruct (read_dist o); simpl in *; auto.
  Qed.

  Lemma run_coh :
    snap_determines_dist ->
    forall h o, coh o -> Forall preserves h ->
      coh (run true o h) /\ live (run true o h) = fold_left next_cfg h (live o).
  Proof.
    intros SD h. induction h as [|p t IH]; intros o H F; simpl; auto.
    inversion F; subst.
    destruct (step_coh SD o p H) as [C L]; auto.
    destruct (IH _ C) as [C' L']; auto. split; auto. rewrite L', L. reflexivity.
  Qed.

  (* a freshly created object answers by the specification, whatever dist is *)
  Lemma fresh_out : forall cc c p, (cc = true \/ match p with ReadCont | Sample _ => False | _ => True end) ->
    snd (step cc (fresh c) p) = spec_out c p.
  Proof.
    intros cc c p H. destruct p; simpl; try reflexivity.
    - destruct (f c); reflexivity.
    - unfold Cache.read_dist, check_updates; simpl. destruct (dist c); reflexivity.
    - destruct H as [->|[]]. unfold Cache.read_cont, Cache.read_dist, check_updates; simpl.
      destruct (dist c); reflexivity.
    - destruct H as [->|[]]. unfold Cache.read_cont, Cache.read_dist, check_updates; simpl.
      destruct (dist c); reflexivity.
    - unfold Cache.read_dist, check_updates; simpl. destruct (dist c); reflexivity.
  Qed.

  (* T1: after every history every call returns what a freshly created object
     with the current settings returns, and the current settings are the result
     of the reconfigurations alone *)
  Theorem cache_coherent :
    snap_determines_dist ->
    forall c0 h p, P c0 -> Forall preserves h ->
      let o := run true (fresh c0) h in
      snd (step true o p) = snd (step true (fresh (live o)) p) /\
      snd (step true o p) = spec_out (live o) p /\
      live o = fold_left next_cfg h c0.
  Proof.
    intros SD c0 h p H F o.
    destruct (run_coh SD h (fresh c0) (coh_fresh c0 H) F) as [C L].
    fold o in C, L. simpl in L.
    rewrite (step_out SD o p C), fresh_out by auto. auto.
  Qed.

  (* sampling does not need a previous read *)
  Lemma sample_without_read :
    forall c u d, dist c = Ok d ->
      snd (step true (fresh c) (Sample u)) = OSample (pick c (cont d) u).
  Proof.
    intros c u d H. rewrite fresh_out by auto. simpl. rewrite H. reflexivity.
  Qed.

  (* The hypothesis is needed (finding N3 in general form): two configurations
     which the snapshot comparison cannot tell apart ... *)
  Lemma stale_read :
    forall cc c1 c2 d1, keq (snap c2) (snap c1) = true -> dist c1 = Ok d1 ->
      snd (step cc (run cc (fresh c1) [ReadDist; Reconfigure (fun _ => Ok c2)]) ReadDist) = ODist d1.
  Proof.
    intros cc c1 c2 d1 K E.
    unfold Cache.run, Cache.step, Cache.read_dist, check_updates, fresh. cbn.
    rewrite E. cbn. rewrite K. reflexivity.
  Qed.

  (* ... but have different distributions: the second read differs from a fresh object's *)
  Theorem snap_must_determine_dist :
    forall cc c1 c2 d1, keq (snap c2) (snap c1) = true -> dist c1 = Ok d1 -> dist c2 <> Ok d1 ->
      let o := run cc (fresh c1) [ReadDist; Reconfigure (fun _ => Ok c2)] in
      live o = c2 /\ snd (step cc o ReadDist) <> snd (step cc (fresh c2) ReadDist).
  Proof.
    intros cc c1 c2 d1 K E NE o. split.
    - subst o. unfold Cache.run, Cache.step, Cache.read_dist, check_updates, fresh. cbn.
      destruct (dist c1); reflexivity.
    - subst o. rewrite (stale_read cc c1 c2 d1 K E), fresh_out by auto. simpl.
      destruct (dist c2) as [d2|e]; [|discriminate]. intro H; inversion H; subst. apply NE; reflexivity.
  Qed.

  (* F7, the pinned QuickSampler: continuous_distribution does not check *)
  Lemma nocheck_sample_fresh_fails :
    forall c u, snd (step false (fresh c) (Sample u)) = OErr AttributeError.
  Proof. reflexivity. Qed.

  Lemma nocheck_sample_stale :
    forall c1 c2 d1 u, dist c1 = Ok d1 ->
      snd (step false (run false (fresh c1) [ReadDist; Reconfigure (fun _ => Ok c2)]) (Sample u))
      = OSample (pick c2 (cont d1) u).
  Proof.
    intros c1 c2 d1 u E.
    unfold Cache.run, Cache.step, Cache.read_cont, Cache.read_dist, check_updates, fresh. cbn.
    rewrite E. reflexivity.
  Qed.
End GenericP.

(* the statement without a world invariant: the snapshot determines the
   distribution on ALL configurations *)
Theorem cache_coherent_plain :
  forall {cfg key D CD U S : Type} (snap : cfg -> key) (keq : key -> key -> bool) (dist : cfg -> res D)
         (cont : D -> CD) (pick : cfg -> CD -> U -> S) (pickn : cfg -> D -> U -> S),
    (forall c1 c2, keq (snap c1) (snap c2) = true -> dist c1 = dist c2) ->
    forall c0 (h : list (@op cfg U)) p,
      let o := run snap keq dist cont pick pickn true (fresh c0) h in
      snd (step snap keq dist cont pick pickn true o p) =
      snd (step snap keq dist cont pick pickn true (fresh (live o)) p).
Proof.
  intros cfg key D CD U S snap keq dist cont pick pickn SD c0 h p.
  refine (proj1 (cache_coherent snap keq dist cont pick pickn (fun _ => True) _ c0 h p I _)).
  - intros c1 c2 _ _. apply SD.
  - induction h as [|a t IH]; constructor; auto. destruct a; simpl; auto.
Qed.

(* ------------------------------------------------------------------------- *)
(* boolean equalities of the instances                                        *)
(* ------------------------------------------------------------------------- *)
Lemma list_eqb_eq {A} (eqb : A -> A -> bool) :
  (forall a b, eqb a b = true -> a = b) -> forall l1 l2, list_eqb eqb l1 l2 = true -> l1 = l2.
Proof.
  intros H l1. induction l1 as [|a t IH]; destruct l2 as [|b t2]; simpl; intros E; try discriminate; auto.
  apply andb_true_iff in E as [E1 E2]. f_equal; auto.
Qed.

Lemma pair_eqb_eq : forall a b, pair_eqb a b = true -> a = b.
Proof.
  intros [a1 a2] [b1 b2]; unfold pair_eqb; simpl. intros E.
  apply andb_true_iff in E as [E1 E2]. apply Nat.eqb_eq in E1, E2. congruence.
Qed.

Lemma her_eqb_eq : forall a b, her_eqb a b = true -> a = b.
Proof. exact (list_eqb_eq pair_eqb pair_eqb_eq). Qed.

Lemma natlist_eqb_eq : forall a b, list_eqb Nat.eqb a b = true -> a = b.
Proof. apply list_eqb_eq. intros a b; apply Nat.eqb_eq. Qed.

Lemma skey_eqb_eq : forall a b, skey_eqb a b = true -> a = b.
Proof.
  intros [] []; unfold skey_eqb; simpl; intros E.
  repeat (apply andb_true_iff in E as [E ?]).
  repeat match goal with
         | H : N.eqb _ _ = true |- _ => apply N.eqb_eq in H
         | H : Z.eqb _ _ = true |- _ => apply Z.eqb_eq in H
         | H : her_eqb _ _ = true |- _ => apply her_eqb_eq in H
         | H : list_eqb Nat.eqb _ _ = true |- _ => apply natlist_eqb_eq in H
         end.
  congruence.
Qed.

Lemma qkey_eqb_eq : forall a b, qkey_eqb a b = true -> a = b.
Proof.
  intros [] []; unfold qkey_eqb; simpl; intros E.
  repeat (apply andb_true_iff in E as [E ?]).
  repeat match goal with
         | H : N.eqb _ _ = true |- _ => apply N.eqb_eq in H
         | H : Bool.eqb _ _ = true |- _ => apply Bool.eqb_prop in H
         | H : her_eqb _ _ = true |- _ => apply her_eqb_eq in H
         | H : list_eqb Nat.eqb _ _ = true |- _ => apply natlist_eqb_eq in H
         end.
  congruence.
Qed.

(* ------------------------------------------------------------------------- *)
(* Sampler                                                                    *)
(* ------------------------------------------------------------------------- *)
(* The circuits of the world: [wm u] is the number of (non-loss) modes of the
   circuits whose U_full has identifier [u]; input modes = modes - heralds. *)
Definition s_world (wm : N -> nat) (c : scfg) : Prop := sM c + length (sHin c) = wm (sU c).

Lemma s_snap_determines_dist :
  forall wm errs, snap_determines_dist (s_snap true) skey_eqb (s_dist errs) (s_world wm).
Proof.
  intros wm errs c1 c2 P1 P2 K. apply skey_eqb_eq in K.
  pose proof (f_equal kU K) as EU. pose proof (f_equal kHin K) as EH.
  pose proof (f_equal kIn K) as EI. simpl in *.
  assert (EM : sM c1 = sM c2) by (unfold s_world in *; rewrite EU, EH in P1; lia).
  unfold s_dist. rewrite K, EM, EI. reflexivity.
Qed.

(* the concrete reconfigurations stay inside the world when the circuits they attach do *)
Definition sstep_in_world (wm : N -> nat) (p : sstep) : Prop :=
  match p with
  | SSetCircuit u hin _ m => m + length hin = wm u
  | _ => True
  end.

Lemma s_op_preserves :
  forall wm p, sstep_in_world wm p -> preserves (s_world wm) (s_op p).
Proof.
  intros wm p W. destruct p; simpl; auto; intros c c' Pc E; unfold s_world in *.
  - inversion E; subst; simpl; auto.
  - destruct (length s =? sM c); inversion E; subst; simpl; auto.
  - destruct (b <? 2)%N; inversion E; subst; simpl; auto.
  - destruct (pur_ok pu && in_unit br && in_unit ind && in_unit thr); inversion E; subst; simpl; auto.
  - destruct which as [|[|[|w]]];
      match type of E with (if ?b then _ else _) = _ => destruct b end; inversion E; subst; simpl; auto.
  - inversion E; subst; simpl; auto.
Qed.

Theorem sampler_coherent :
  forall wm errs c0 (h : list (@op scfg Z)) p,
    s_world wm c0 -> Forall (preserves (s_world wm)) h ->
    let stp := step (s_snap true) skey_eqb (s_dist errs) (fun d => d) s_pick s_pick true in
    let o := run (s_snap true) skey_eqb (s_dist errs) (fun d => d) s_pick s_pick true (fresh c0) h in
    snd (stp o p) = snd (stp (fresh (live o)) p) /\
    snd (stp o p) = spec_out (s_dist errs) (fun d => d) s_pick s_pick (live o) p /\
    live o = fold_left next_cfg h c0.
Proof.
  intros wm errs c0 h p W F.
  exact (cache_coherent (s_snap true) skey_eqb (s_dist errs) (fun d => d) s_pick s_pick (s_world wm)
                        (s_snap_determines_dist wm errs) c0 h p W F).
Qed.

(* histories written with the concrete steps *)
Corollary sampler_steps_coherent :
  forall wm errs c0 (h : list sstep) p,
    s_world wm c0 -> Forall (sstep_in_world wm) h ->
    let stp := step (s_snap true) skey_eqb (s_dist errs) (fun d => d) s_pick s_pick true in
    let o := run (s_snap true) skey_eqb (s_dist errs) (fun d => d) s_pick s_pick true (fresh c0) (map s_op h) in
    snd (stp o (s_op p)) = snd (stp (fresh (live o)) (s_op p)).
Proof.
  intros wm errs c0 h p W F.
  apply (sampler_coherent wm errs c0 (map s_op h) (s_op p) W).
  apply Forall_map. eapply Forall_impl; [|exact F]. intros a; apply s_op_preserves.
Qed.

(* N3 on the pinned tree: heralds are not part of the snapshot *)
Definition n3_c1 : scfg := Build_scfg 0 [(2, 0)] [(2, 0)] 2 [1; 0] 0 1000000 1000000 1000000 0 0.
Definition n3_c2 : scfg := Build_scfg 0 [(2, 1)] [(2, 1)] 2 [1; 0] 0 1000000 1000000 1000000 0 0.

Lemma sampler_pinned_refuted :
  let wm := fun _ : N => 3 in
  s_world wm n3_c1 /\ s_world wm n3_c2 /\
  let stp := step (s_snap false) skey_eqb (s_dist []) (fun d => d) s_pick s_pick true in
  let o := run (s_snap false) skey_eqb (s_dist []) (fun d => d) s_pick s_pick true (fresh n3_c1)
               [ReadDist; Reconfigure (fun _ => Ok n3_c2)] in
  live o = n3_c2 /\
  snd (stp o ReadDist) = ODist (s_snap true n3_c1) /\
  snd (stp (fresh n3_c2) ReadDist) = ODist (s_snap true n3_c2) /\
  s_snap true n3_c1 <> s_snap true n3_c2.
Proof.
  vm_compute. repeat split; try reflexivity. intro H; discriminate.
Qed.

(* ------------------------------------------------------------------------- *)
(* QuickSampler                                                               *)
(* ------------------------------------------------------------------------- *)
Definition q_world (wm : N -> nat) (c : qcfg) : Prop := qM c + length (qHin c) = wm (qU c).

Lemma q_snap_determines_dist :
  forall wm errs, snap_determines_dist (q_snap true true) qkey_eqb (q_dist errs) (q_world wm).
Proof.
  intros wm errs c1 c2 P1 P2 K. apply qkey_eqb_eq in K.
  pose proof (f_equal jU K) as EU. pose proof (f_equal jHin K) as EH.
  pose proof (f_equal jIn K) as EI. simpl in *.
  assert (EM : qM c1 = qM c2) by (unfold q_world in *; rewrite EU, EH in P1; lia).
  unfold q_dist. rewrite K, EM, EI. reflexivity.
Qed.

Definition qstep_in_world (wm : N -> nat) (p : qstep) : Prop :=
  match p with
  | QSetCircuit u hin _ m => m + length hin = wm u
  | _ => True
  end.

Lemma q_op_preserves :
  forall wm p, qstep_in_world wm p -> preserves (q_world wm) (q_op p).
Proof.
  intros wm p W. destruct p; simpl; auto; intros c c' Pc E; unfold q_world in *.
  - inversion E; subst; simpl; auto.
  - destruct (length s =? qM c); inversion E; subst; simpl; auto.
  - inversion E; subst; simpl; auto.
  - inversion E; subst; simpl; auto.
Qed.

Theorem quick_coherent :
  forall wm errs c0 (h : list (@op qcfg Z)) p,
    q_world wm c0 -> Forall (preserves (q_world wm)) h ->
    let stp := step (q_snap true true) qkey_eqb (q_dist errs) (fun d => d) q_pick q_pick true in
    let o := run (q_snap true true) qkey_eqb (q_dist errs) (fun d => d) q_pick q_pick true (fresh c0) h in
    snd (stp o p) = snd (stp (fresh (live o)) p) /\
    snd (stp o p) = spec_out (q_dist errs) (fun d => d) q_pick q_pick (live o) p /\
    live o = fold_left next_cfg h c0.
Proof.
  intros wm errs c0 h p W F.
  exact (cache_coherent (q_snap true true) qkey_eqb (q_dist errs) (fun d => d) q_pick q_pick (q_world wm)
                        (q_snap_determines_dist wm errs) c0 h p W F).
Qed.

Corollary quick_steps_coherent :
  forall wm errs c0 (h : list qstep) p,
    q_world wm c0 -> Forall (qstep_in_world wm) h ->
    let stp := step (q_snap true true) qkey_eqb (q_dist errs) (fun d => d) q_pick q_pick true in
    let o := run (q_snap true true) qkey_eqb (q_dist errs) (fun d => d) q_pick q_pick true (fresh c0) (map q_op h) in
    snd (stp o (q_op p)) = snd (stp (fresh (live o)) (q_op p)).
Proof.
  intros wm errs c0 h p W F.
  apply (quick_coherent wm errs c0 (map q_op h) (q_op p) W).
  apply Forall_map. eapply Forall_impl; [|exact F]. intros a; apply q_op_preserves.
Qed.

(* With the snapshot holding only the post-selection OBJECT (N12 unrepaired) the
   machine is still coherent as long as no attached object is ever edited in
   place: [pv o] is the fixed rule set of object [o]. *)
Definition q_world_immutable_ps (wm : N -> nat) (pv : N -> N) (c : qcfg) : Prop :=
  q_world wm c /\ qPsV c = pv (qPsO c).

Lemma q_snap_obj_determines_dist :
  forall wm pv errs,
    snap_determines_dist (q_snap true false) qkey_eqb (q_dist errs) (q_world_immutable_ps wm pv).
Proof.
  intros wm pv errs c1 c2 [P1 V1] [P2 V2] K. apply qkey_eqb_eq in K.
  pose proof (f_equal jU K) as EU. pose proof (f_equal jHin K) as EHi.
  pose proof (f_equal jHout K) as EHo. pose proof (f_equal jIn K) as EI.
  pose proof (f_equal jPsO K) as EO. pose proof (f_equal jPc K) as EP. simpl in *.
  assert (EM : qM c1 = qM c2) by (unfold q_world in *; rewrite EU, EHi in P1; lia).
  assert (EV : qPsV c1 = qPsV c2) by congruence.
  unfold q_dist, q_snap. simpl. rewrite EU, EHi, EHo, EI, EO, EP, EM, EV. reflexivity.
Qed.

Theorem quick_identity_snapshot_partial :
  forall wm pv errs c0 (h : list (@op qcfg Z)) p,
    q_world_immutable_ps wm pv c0 -> Forall (preserves (q_world_immutable_ps wm pv)) h ->
    let stp := step (q_snap true false) qkey_eqb (q_dist errs) (fun d => d) q_pick q_pick true in
    let o := run (q_snap true false) qkey_eqb (q_dist errs) (fun d => d) q_pick q_pick true (fresh c0) h in
    snd (stp o p) = snd (stp (fresh (live o)) p).
Proof.
  intros wm pv errs c0 h p W F.
  exact (proj1 (cache_coherent (q_snap true false) qkey_eqb (q_dist errs) (fun d => d) q_pick q_pick
                               (q_world_immutable_ps wm pv) (q_snap_obj_determines_dist wm pv errs)
                               c0 h p W F)).
Qed.

(* the pinned tree *)
Definition f7_c1 : qcfg := Build_qcfg 0 [] [] 2 [1; 0] 0 1 true.
Definition f7_c2 : qcfg := Build_qcfg 0 [] [] 2 [1; 1] 0 1 true.
Definition n12_c2 : qcfg := Build_qcfg 0 [] [] 2 [1; 0] 0 2 true.      (* same object, a rule added in place *)

Lemma quick_pinned_refuted :
  (* F7a: sample() on a fresh object raises, for every configuration *)
  (forall errs c u,
     snd (step (q_snap false false) qkey_eqb (q_dist errs) (fun d => d) q_pick q_pick false (fresh c) (Sample u))
     = OErr AttributeError) /\
  (* F7b: after a change of the input, sample() still uses the old distribution *)
  (let stp := step (q_snap false false) qkey_eqb (q_dist []) (fun d => d) q_pick q_pick false in
   let o := run (q_snap false false) qkey_eqb (q_dist []) (fun d => d) q_pick q_pick false (fresh f7_c1)
                [ReadDist; Reconfigure (q_reconf (QSetInput [1; 1]))] in
   live o = f7_c2 /\
   snd (stp o (Sample 5%Z)) = OSample (q_snap true true f7_c1, 5%Z) /\
   snd (step (q_snap true true) qkey_eqb (q_dist []) (fun d => d) q_pick q_pick true (fresh f7_c2) (Sample 5%Z))
   = OSample (q_snap true true f7_c2, 5%Z)) /\
  (* N12: with F7 and N3 repaired, a rule added in place to the attached object goes unnoticed *)
  (let stp := step (q_snap true false) qkey_eqb (q_dist []) (fun d => d) q_pick q_pick true in
   let o := run (q_snap true false) qkey_eqb (q_dist []) (fun d => d) q_pick q_pick true (fresh f7_c1)
                [ReadDist; Reconfigure (q_reconf (QSetPostSelect 0 2))] in
   live o = n12_c2 /\
   snd (stp o ReadDist) = ODist (q_snap true true f7_c1) /\
   snd (stp (fresh n12_c2) ReadDist) = ODist (q_snap true true n12_c2) /\
   q_snap true true f7_c1 <> q_snap true true n12_c2).
Proof.
  split; [|split].
  - intros. reflexivity.
  - vm_compute. repeat split; reflexivity.
  - vm_compute. repeat split; try reflexivity. intro H; discriminate.
Qed.

(* ------------------------------------------------------------------------- *)
(* Analyzer                                                                   *)
(* ------------------------------------------------------------------------- *)
Section AnalyzerP.
  Context {cfg Inp Exp Pr Perf ER : Type}.
  Variable probs : cfg -> Inp -> res Pr.
  Variable perf : Pr -> Inp -> Perf.
  Variable erate : Pr -> Inp -> Exp -> res ER.

  Local Notation astate := (@astate cfg Pr Perf ER).
  Local Notation analyze := (analyze probs perf erate).
  Local Notation astep := (astep probs perf erate).
  Local Notation arun := (arun probs perf erate).

  (* what one call computes, written without any object state *)
  Definition analysis_of (c : cfg) (i : Inp) (x : option Exp) : res (@aresult Pr Perf ER) :=
    match probs c i with
    | Err e => Err e
    | Ok p =>
        match x with
        | None => Ok {| r_probs := p; r_perf := perf p i; r_err := None |}
        | Some ex =>
            match erate p i ex with
            | Err e => Err e
            | Ok er => Ok {| r_probs := p; r_perf := perf p i; r_err := Some er |}
            end
        end
    end.

  Lemma analyze_result :
    forall (st : astate) i x, snd (analyze false st i x) = analysis_of (a_cfg st) i x.
  Proof.
    intros st i x. unfold Cache.analyze, analysis_of.
    destruct (probs (a_cfg st) i) as [p|e]; [|reflexivity].
    destruct x as [ex|]; [|reflexivity].
    destruct (erate p i ex); reflexivity.
  Qed.

  Lemma astep_cfg :
    forall old (st : astate) p,
      a_cfg (fst (astep old st p)) =
      match p with AReconfigure f => match f (a_cfg st) with Ok c => c | Err _ => a_cfg st end | _ => a_cfg st end.
  Proof.
    intros old st p. destruct p; simpl.
    - destruct (f (a_cfg st)); reflexivity.
    - unfold Cache.analyze. destruct (probs (a_cfg st) i); simpl; auto.
      destruct x; simpl; auto. destruct (erate p i e); reflexivity.
  Qed.

  (* for every history: analyze returns exactly what this call computed from the
     current circuit; in particular no error_rate without `expected`, and the
     same result as a brand-new analyzer *)
  Theorem analysis_only_this_call :
    forall c0 (h : list (@aop cfg Inp Exp)) i x,
      let st := arun false (afresh c0) h in
      snd (analyze false st i x) = analysis_of (a_cfg st) i x /\
      snd (analyze false st i x) = snd (analyze false (afresh (a_cfg st)) i x) /\
      (forall r, snd (analyze false st i None) = Ok r -> r_err r = None).
  Proof.
    intros c0 h i x st. repeat split.
    - apply analyze_result.
    - rewrite !analyze_result. reflexivity.
    - intros r H. rewrite analyze_result in H. unfold analysis_of in H.
      destruct (probs (a_cfg st) i); inversion H; reflexivity.
  Qed.

  (* N4 on the pinned tree: the attribute of an earlier call is copied *)
  Lemma analysis_pinned_refuted :
    forall c i ex p er, probs c i = Ok p -> erate p i ex = Ok er ->
      exists r, snd (analyze true (arun true (afresh c) [AAnalyze i (Some ex)]) i None) = Ok r /\
                r_err r = Some er /\
                analysis_of c i None = Ok {| r_probs := p; r_perf := perf p i; r_err := None |}.
  Proof.
    intros c i ex p er Hp He. simpl. unfold Cache.analyze at 2. simpl. rewrite Hp, He. simpl.
    unfold Cache.analyze. simpl. rewrite Hp. simpl. eexists; repeat split.
    unfold analysis_of. rewrite Hp. reflexivity.
  Qed.
End AnalyzerP.
