(* The SLOS dictionary machine of Model/Fock.v computes permanents:
   coefficient(t) * prod t! = perm U[expand t | expand ins], and its key set
   is exactly the Fock basis of the photon number. *)
From Coq Require Import ZArith Arith Lia Ring_theory Ring List Bool Permutation.
From LW Require Import Base.Num Base.Sums Base.Mat Model.State Model.Fock Proofs.PermP.
Import ListNotations.
Open Scope nat_scope.

Section Slos.
  Context {R : Type} {r : ops R} {SR : StarRing r} {ZM : ZMorph r}.
  Let Rr := sr_ring (o:=r).
  Add Ring Kr : Rr.
  Local Notation "0" := (k0 r) : K_scope.
  Local Notation "1" := (k1 r) : K_scope.
  Local Notation "a + b" := (kadd r a b) : K_scope.
  Local Notation "a * b" := (kmul r a b) : K_scope.
  Local Notation suml := (suml r).
  Local Notation sumn := (sumn r).
  Local Notation perm_ml := (perm_ml r).
  Local Notation kofnat := (kofnat r).
  Notation mat := (@mat R).
  Notation fdict := (@fdict R).

  Definition fd_keys (d : fdict) : list (list nat) := map fst d.
  Definition fd_val (d : fdict) (t : list nat) : R :=
    match fd_get d t with Some v => v | None => 0%K end.

  (* ---------------- dictionaries ---------------- *)
  Lemma fd_get_none (d : fdict) t : fd_get d t = None <-> ~ In t (fd_keys d).
  Proof.
    induction d as [|[k v] d IH]; simpl.
    - split; [intros _ []|reflexivity].
    - destruct (nlist_eqb k t) eqn:E.
      + apply nlist_eqb_eq in E. subst. split; [discriminate|]. intros H. exfalso. apply H. left. reflexivity.
      + apply nlist_eqb_neq in E. rewrite IH. split.
        * intros H [H1|H1]; [contradiction|]. apply H. exact H1.
        * intros H H1. apply H. right. exact H1.
  Qed.

  Lemma fd_get_in (d : fdict) t : In t (fd_keys d) -> exists v, fd_get d t = Some v.
  Proof.
    intros H. destruct (fd_get d t) as [v|] eqn:E; [exists v; reflexivity|].
    apply fd_get_none in E. contradiction.
  Qed.

  Lemma fd_get_val (d : fdict) t : In t (fd_keys d) -> fd_get d t = Some (fd_val d t).
  Proof. intros H. unfold fd_val. destruct (fd_get_in d t H) as [v ->]. reflexivity. Qed.

  Lemma fd_add_keys (d : fdict) k v t :
    In t (fd_keys (fd_add r d k v)) <-> In t (fd_keys d) \/ t = k.
  Proof.
    induction d as [|[k' v'] d IH]; simpl.
    - split; [intros [H|[]]; right; symmetry; exact H|intros [[]|H]; left; symmetry; exact H].
    - destruct (nlist_eqb k' k) eqn:E; simpl.
      + apply nlist_eqb_eq in E. subst. split; [intros H; left; exact H|].
        intros [H|H]; [exact H|left; symmetry; exact H].
      + rewrite IH. tauto.
  Qed.

  Lemma fd_add_nodup (d : fdict) k v : NoDup (fd_keys d) -> NoDup (fd_keys (fd_add r d k v)).
  Proof.
    induction d as [|[k' v'] d IH]; simpl; intros H.
    - constructor; [intros []|constructor].
    - inversion H as [|? ? Hk Hd]; subst. destruct (nlist_eqb k' k) eqn:E; simpl.
      + constructor; assumption.
      + constructor; [|apply IH; exact Hd]. intros Hin. apply fd_add_keys in Hin.
        destruct Hin as [Hin|Hin]; [contradiction|]. apply nlist_eqb_neq in E. congruence.
  Qed.

  Lemma fd_add_val (d : fdict) k v t :
    fd_val (fd_add r d k v) t = (fd_val d t + (if nlist_eqb k t then v else 0))%K.
  Proof.
    unfold fd_val. induction d as [|[k' v'] d IH]; simpl.
    - destruct (nlist_eqb k t); ring.
    - destruct (nlist_eqb k' k) eqn:E; simpl.
      + apply nlist_eqb_eq in E. subst. destruct (nlist_eqb k t); [reflexivity|ring].
      + destruct (nlist_eqb k' t) eqn:E2.
        * apply nlist_eqb_eq in E2. subst. rewrite (proj2 (nlist_eqb_neq k t)); [ring|].
          apply nlist_eqb_neq in E. congruence.
        * exact IH.
  Qed.

  Lemma fd_add_all_keys (d1 d2 : fdict) t :
    In t (fd_keys (fd_add_all r d1 d2)) <-> In t (fd_keys d1) \/ In t (fd_keys d2).
  Proof.
    unfold fd_add_all. revert d1. induction d2 as [|[k v] d2 IH]; intros d1; simpl.
    - tauto.
    - rewrite IH, fd_add_keys. intuition.
  Qed.

  Lemma fd_add_all_nodup (d1 d2 : fdict) : NoDup (fd_keys d1) -> NoDup (fd_keys (fd_add_all r d1 d2)).
  Proof.
    unfold fd_add_all. revert d1. induction d2 as [|[k v] d2 IH]; intros d1 H; simpl; [exact H|].
    apply IH. apply fd_add_nodup. exact H.
  Qed.

  Lemma fd_add_all_val (d1 d2 : fdict) t :
    fd_val (fd_add_all r d1 d2) t =
    (fd_val d1 t + suml d2 (fun kv => if nlist_eqb (fst kv) t then snd kv else 0))%K.
  Proof.
    unfold fd_add_all. revert d1. induction d2 as [|[k v] d2 IH]; intros d1; simpl.
    - ring.
    - rewrite IH, fd_add_val. ring.
  Qed.

  (* a keyed sum over a duplicate-free dictionary picks the entry *)
  Lemma suml_fd_pick (d : fdict) s (g : R -> R) :
    NoDup (fd_keys d) ->
    suml d (fun kv => if nlist_eqb (fst kv) s then g (snd kv) else 0%K) =
    match fd_get d s with Some v => g v | None => 0%K end.
  Proof.
    induction d as [|[k v] d IH]; intros H; simpl; [reflexivity|].
    inversion H as [|? ? Hk Hd]; subst. destruct (nlist_eqb k s) eqn:E.
    - apply nlist_eqb_eq in E. subst. rewrite suml_zero'; [ring|].
      intros [k' v'] Hin. simpl. destruct (nlist_eqb k' s) eqn:E'; [|reflexivity].
      apply nlist_eqb_eq in E'. subst. exfalso. apply Hk. apply (in_map fst) in Hin. exact Hin.
    - rewrite IH by exact Hd. ring.
  Qed.

  (* ---------------- one photon ---------------- *)
  Definition photon_fold (U : mat) (d : fdict) (i : nat) (l : list nat) (acc : fdict) : fdict :=
    fold_left (fun out j => fd_add_all r out (ladder r d j (U j i))) l acc.

  Lemma ladder_keys (d : fdict) j c : fd_keys (ladder r d j c) = map (incr j) (fd_keys d).
  Proof. unfold fd_keys, ladder. rewrite !map_map. reflexivity. Qed.

  Lemma photon_fold_keys U d i l acc t :
    In t (fd_keys (photon_fold U d i l acc)) <->
    In t (fd_keys acc) \/ exists j s, In j l /\ In s (fd_keys d) /\ t = incr j s.
  Proof.
    unfold photon_fold. revert acc. induction l as [|j l IH]; intros acc; simpl.
    - split; [intros H; left; exact H|]. intros [H|[j [s [[] _]]]]. exact H.
    - rewrite IH, fd_add_all_keys, ladder_keys, in_map_iff. split.
      + intros [[H|[s [Hs Hin]]]|[j' [s [Hj [Hs Ht]]]]].
        * left. exact H.
        * right. exists j, s. split; [left; reflexivity|]. split; [exact Hin|symmetry; exact Hs].
        * right. exists j', s. split; [right; exact Hj|]. split; assumption.
      + intros [H|[j' [s [[Hj|Hj] [Hs Ht]]]]].
        * left. left. exact H.
        * subst j'. left. right. exists s. split; [symmetry; exact Ht|exact Hs].
        * right. exists j', s. split; [exact Hj|]. split; assumption.
  Qed.

  Lemma photon_fold_nodup U d i l acc :
    NoDup (fd_keys acc) -> NoDup (fd_keys (photon_fold U d i l acc)).
  Proof.
    unfold photon_fold. revert acc. induction l as [|j l IH]; intros acc H; simpl; [exact H|].
    apply IH. apply fd_add_all_nodup. exact H.
  Qed.

  Lemma photon_fold_val U d i l acc t :
    fd_val (photon_fold U d i l acc) t =
    (fd_val acc t +
     suml l (fun j => suml d (fun kv => if nlist_eqb (incr j (fst kv)) t
                                        then (snd kv * U j i)%K else 0)))%K.
  Proof.
    unfold photon_fold. revert acc. induction l as [|j l IH]; intros acc; simpl.
    - ring.
    - rewrite IH, fd_add_all_val. unfold ladder. rewrite suml_map. simpl. ring.
  Qed.

  (* ---------------- the invariant ---------------- *)
  Definition slos_inv (n : nat) (U : mat) (cols : list nat) (d : fdict) : Prop :=
    NoDup (fd_keys d) /\
    (forall t, In t (fd_keys d) <-> length t = n /\ osum t = length cols) /\
    (forall t, length t = n -> osum t = length cols ->
               (fd_val d t * kofnat (fact_prod t))%K = perm_ml U (expand t) cols).

  Lemma osum_pos_nth t : 0 < osum t -> exists j, 0 < nth j t 0.
  Proof.
    induction t as [|x t IH]; intros H; [simpl in H; lia|].
    rewrite osum_cons in H. destruct x as [|x].
    - destruct IH as [j Hj]; [lia|]. exists (S j). exact Hj.
    - exists 0. simpl. lia.
  Qed.

  Lemma slos_inv_init n U : slos_inv n U [] [(repeat 0 n, 1%K)].
  Proof.
    split; [|split].
    - simpl. constructor; [intros []|constructor].
    - intros t. simpl. split.
      + intros [<-|[]]. rewrite repeat_length, osum_repeat0. split; reflexivity.
      + intros [Hl Hs]. left. rewrite (osum_zero t Hs), Hl. reflexivity.
    - intros t Hl Hs. simpl in Hs. rewrite (osum_zero t Hs), Hl.
      unfold fd_val. simpl. rewrite nlist_eqb_refl, fact_prod_repeat0, kofnat_1.
      unfold expand. rewrite expand_from_repeat0. simpl. ring.
  Qed.

  Lemma slos_inv_step n U cols d i :
    slos_inv n U cols d -> slos_inv n U (i :: cols) (slos_photon r n U d i).
  Proof.
    intros [Hnd [Hkeys Hval]].
    change (slos_photon r n U d i) with (photon_fold U d i (seq 0 n) []).
    split; [|split].
    - apply photon_fold_nodup. constructor.
    - intros t. rewrite photon_fold_keys. simpl. split.
      + intros [[]|[j [s [Hj [Hs Ht]]]]]. apply in_seq in Hj. apply Hkeys in Hs.
        destruct Hs as [Hl Hs]. subst t. rewrite incr_length, osum_incr by lia. split; lia.
      + intros [Hl Hs]. right. destruct (osum_pos_nth t) as [j Hj]; [lia|].
        pose proof (nth_pos_lt j t Hj) as Hjl.
        exists j, (decr j t). split; [apply in_seq; lia|]. split.
        * apply Hkeys. rewrite decr_length. split; [exact Hl|].
          pose proof (osum_decr j t Hj). lia.
        * symmetry. apply incr_decr. exact Hj.
    - intros t Hl Hs. simpl in Hs.
      rewrite photon_fold_val, suml_seq, perm_ml_expand_step, Hl.
      change (fd_val [] t) with 0%K.
      transitivity (sumn n (fun j => suml d (fun kv => if nlist_eqb (incr j (fst kv)) t
                                                      then snd kv * U j i else 0))
                    * kofnat (fact_prod t))%K; [ring|].
      rewrite <- sumn_mul_r. apply sumn_ext. intros j Hj.
      destruct (Nat.eq_dec (nth j t 0) 0) as [Hz|Hnz].
      + (* no key can be raised to t in mode j *)
        rewrite Hz, kofnat_0. rewrite suml_zero'; [ring|].
        intros [k v] Hin. simpl. destruct (nlist_eqb (incr j k) t) eqn:E; [|reflexivity].
        exfalso. apply nlist_eqb_eq in E. subst t.
        assert (Hk : In k (fd_keys d)) by (apply (in_map fst) in Hin; exact Hin).
        apply Hkeys in Hk. destruct Hk as [Hkl _].
        rewrite nth_incr_same in Hz by lia. discriminate.
      + assert (Hpos : 0 < nth j t 0) by lia.
        rewrite (suml_ext d _ (fun kv => if nlist_eqb (fst kv) (decr j t)
                                         then (snd kv * U j i)%K else 0%K)).
        2:{ intros [k v] Hin. simpl.
            destruct (nlist_eqb (incr j k) t) eqn:E1; destruct (nlist_eqb k (decr j t)) eqn:E2;
              try reflexivity; exfalso.
            - apply nlist_eqb_eq in E1. apply nlist_eqb_neq in E2. apply E2.
              subst t. symmetry. apply decr_incr.
            - apply nlist_eqb_neq in E1. apply nlist_eqb_eq in E2. apply E1.
              subst k. apply incr_decr. exact Hpos. }
        rewrite (suml_fd_pick d (decr j t) (fun v => (v * U j i)%K) Hnd).
        assert (Hdl : length (decr j t) = n) by (rewrite decr_length; exact Hl).
        assert (Hds : osum (decr j t) = length cols) by (pose proof (osum_decr j t Hpos); lia).
        rewrite <- (Hval (decr j t) Hdl Hds).
        assert (Hin : In (decr j t) (fd_keys d)) by (apply Hkeys; split; assumption).
        unfold fd_val. destruct (fd_get_in d _ Hin) as [v ->].
        rewrite <- (incr_decr j t Hpos) at 1.
        rewrite fact_prod_incr by lia. rewrite nth_decr_same, kofnat_mul.
        replace (S (pred (nth j t 0))) with (nth j t 0) by lia. ring.
  Qed.

  Lemma slos_inv_fold n U l cols d :
    slos_inv n U cols d -> slos_inv n U (rev l ++ cols) (fold_left (slos_photon r n U) l d).
  Proof.
    revert cols d. induction l as [|a l IH]; intros cols d H; simpl; [exact H|].
    rewrite <- app_assoc. simpl. apply IH. apply slos_inv_step. exact H.
  Qed.

  Lemma slos_inv_perm n U cols cols' d :
    Permutation cols cols' -> slos_inv n U cols d -> slos_inv n U cols' d.
  Proof.
    intros HP [H1 [H2 H3]]. split; [exact H1|]. rewrite <- (Permutation_length HP).
    split; [exact H2|]. intros t Hl Hs. rewrite (H3 t Hl Hs). apply perm_ml_cols_perm. exact HP.
  Qed.

  (* after any sequence of photons *)
  Theorem slos_photons_inv n U (ps : list nat) :
    slos_inv n U ps (fold_left (slos_photon r n U) ps [(repeat 0 n, 1%K)]).
  Proof.
    apply slos_inv_perm with (rev ps ++ []).
    - rewrite app_nil_r. apply Permutation_sym, Permutation_rev.
    - apply slos_inv_fold. apply slos_inv_init.
  Qed.

  (* ---------------- (S1) SLOS = permanent ---------------- *)
  Theorem slos_keys_nodup n U ins : NoDup (map fst (slos r n U ins)).
  Proof. exact (proj1 (slos_photons_inv n U (expand ins))). Qed.

  Theorem slos_keys n U ins t :
    In t (map fst (slos r n U ins)) <-> length t = n /\ osum t = osum ins.
  Proof.
    rewrite <- (expand_length ins).
    exact (proj1 (proj2 (slos_photons_inv n U (expand ins))) t).
  Qed.

  Theorem slos_perm n U ins t :
    length t = n -> osum t = osum ins ->
    exists c, fd_get (slos r n U ins) t = Some c /\
              (c * kofZ r (Z.of_nat (fact_prod t)))%K = perm_ml U (expand t) (expand ins).
  Proof.
    intros Hl Hs. destruct (slos_photons_inv n U (expand ins)) as [_ [Hk Hv]].
    rewrite expand_length in Hk, Hv.
    exists (fd_val (slos r n U ins) t). split.
    - apply fd_get_val. apply Hk. split; assumption.
    - apply Hv; assumption.
  Qed.

  Theorem slos_absent n U ins t :
    ~ (length t = n /\ osum t = osum ins) -> fd_get (slos r n U ins) t = None.
  Proof. intros H. apply fd_get_none. intros Hin. apply H. apply slos_keys in Hin. exact Hin. Qed.

  (* in terms of the permanent backend *)
  Corollary slos_amp_perm n U ins outs :
    length outs = n -> osum outs = osum ins ->
    exists c, fd_get (slos r n U ins) outs = Some c /\
              (c * kofZ r (Z.of_nat (fact_prod outs)))%K = amp_perm r U ins outs.
  Proof. apply slos_perm. Qed.
End Slos.
