(* Rank toolkit for the wiring theorem of Circuit.add (property C02):
   freec as a rank function, the index map of iterated mode insertion,
   and the exact effect of the two parent loops of Circuit.add. *)
From Coq Require Import ZArith List Bool Arith Lia Permutation.
From LW Require Import Base.Sx Base.Num Base.Mat Model.Circuit Model.Display Proofs.CompileP Proofs.CircuitP Proofs.DisplayP Proofs.WiringDefs.
Import ListNotations.

(* ================= A. rank toolkit ================= *)

Lemma memb_iff x A y B : (In x A <-> In y B) -> memb x A = memb y B.
Proof.
  intros H. apply Bool.eq_true_iff_eq. rewrite !memb_in. exact H.
Qed.

Lemma memb_false x l : memb x l = false <-> ~ In x l.
Proof.
  rewrite <- memb_in. destruct (memb x l); split; intros H; congruence.
Qed.

Lemma freec_S_in V x : In x V -> freec V (S x) = freec V x.
Proof. intros H. rewrite freec_S. apply memb_in in H. rewrite H. lia. Qed.

Lemma freec_S_out V x : ~ In x V -> freec V (S x) = S (freec V x).
Proof. intros H. rewrite freec_S. apply memb_false in H. rewrite H. lia. Qed.

Lemma freec_0 V : freec V 0 = 0.
Proof. reflexivity. Qed.

Lemma freec_nil x : freec [] x = x.
Proof.
  induction x as [|x IH]; [reflexivity|]. rewrite freec_S_out by (intros []). rewrite IH. reflexivity.
Qed.

Lemma freec_ext A B x : (forall y, In y A <-> In y B) -> freec A x = freec B x.
Proof.
  intros H. induction x as [|x IH]; [reflexivity|].
  rewrite !freec_S, IH. rewrite (memb_iff x A x B (H x)). reflexivity.
Qed.

Lemma freec_lt H x y : x < y -> ~ In x H -> freec H x < freec H y.
Proof.
  intros Hlt Hx. pose proof (freec_mono H (S x) y Hlt) as Hm.
  rewrite freec_S_out in Hm by exact Hx. lia.
Qed.

Lemma freec_inj H x y : ~ In x H -> ~ In y H -> freec H x = freec H y -> x = y.
Proof.
  intros Hx Hy E. destruct (Nat.lt_trichotomy x y) as [Hlt|[Heq|Hgt]]; [|exact Heq|].
  - pose proof (freec_lt H x y Hlt Hx). lia.
  - pose proof (freec_lt H y x Hgt Hy). lia.
Qed.

Lemma freec_le_self H x : freec H x <= x.
Proof.
  induction x as [|x IH]; [rewrite freec_0; lia|]. rewrite freec_S. destruct (memb x H); lia.
Qed.

Lemma in_map_bump t H x : In (bump t x) (map (bump t) H) <-> In x H.
Proof.
  split; intros Hin.
  - apply in_map_iff in Hin as (y & E & Hy). apply bump_inj in E. subst. exact Hy.
  - apply in_map. exact Hin.
Qed.

Lemma bump_below t x : x < t -> bump t x = x.
Proof. intros H. unfold bump. destruct (Nat.leb_spec t x); lia. Qed.

Lemma bump_above t x : t <= x -> bump t x = S x.
Proof. intros H. unfold bump. destruct (Nat.leb_spec t x); lia. Qed.

Lemma bump_le_S t x : bump t x <= S x.
Proof. unfold bump. destruct (Nat.leb_spec t x); lia. Qed.

Lemma bump_ge t x : x <= bump t x.
Proof. unfold bump. destruct (Nat.leb_spec t x); lia. Qed.

Lemma bump_mono t a b : a < b -> bump t a < bump t b.
Proof. intros H. unfold bump. destruct (Nat.leb_spec t a), (Nat.leb_spec t b); lia. Qed.

(* inserting an empty (non-herald) position t into a layout whose herald set is H *)
Lemma freec_bump_lt t H x : x <= t -> freec (map (bump t) H) x = freec H x.
Proof.
  induction x as [|x IH]; intros Hle; [reflexivity|].
  rewrite !freec_S, IH by lia. f_equal.
  rewrite (memb_iff x (map (bump t) H) x H); [reflexivity|].
  rewrite <- (in_map_bump t H x). rewrite bump_below by lia. reflexivity.
Qed.

Lemma freec_bump_ge t H x : t <= x -> freec (map (bump t) H) (S x) = S (freec H x).
Proof.
  induction 1 as [|x Hle IH].
  - rewrite freec_S_out by (intros Hin; apply in_map_iff in Hin as (y & E & _); exact (bump_ne _ _ E)).
    rewrite freec_bump_lt by lia. reflexivity.
  - rewrite (freec_S _ (S x)), IH, (freec_S H x).
    rewrite (memb_iff (S x) (map (bump t) H) x H); [lia|].
    rewrite <- (in_map_bump t H x). rewrite bump_above by lia. reflexivity.
Qed.

Lemma insert_map_mono (f : nat -> nat) x l : (forall a b, a <= b <-> f a <= f b) ->
  insert_nat (f x) (map f l) = map f (insert_nat x l).
Proof.
  intros Hf. induction l as [|y l IH]; simpl; [reflexivity|].
  assert (E : (f x <=? f y) = (x <=? y)).
  { apply Bool.eq_true_iff_eq. rewrite !Nat.leb_le. symmetry. apply Hf. }
  rewrite E. destruct (x <=? y); simpl; [reflexivity|]. rewrite IH. reflexivity.
Qed.

Lemma sort_map_mono (f : nat -> nat) l : (forall a b, a <= b <-> f a <= f b) ->
  sort_nat (map f l) = map f (sort_nat l).
Proof.
  intros Hf. induction l as [|x l IH]; simpl; [reflexivity|].
  rewrite IH. apply insert_map_mono, Hf.
Qed.

(* adding a largest element to the herald set *)
Lemma freec_snoc_le L h z : z <= h -> freec (L ++ [h]) z = freec L z.
Proof.
  induction z as [|z IH]; intros Hle; [reflexivity|].
  rewrite !freec_S, IH by lia. f_equal.
  rewrite (memb_iff z (L ++ [h]) z L); [reflexivity|].
  rewrite in_app_iff. simpl. split; [intros [Hin|[E|[]]]; [exact Hin|lia]|intros Hin; left; exact Hin].
Qed.

Lemma freec_snoc_gt L h z : h < z -> ~ In h L -> S (freec (L ++ [h]) z) = freec L z.
Proof.
  intros Hlt Hh. induction Hlt as [|z Hlt IH].
  - rewrite freec_S_in by (apply in_or_app; right; left; reflexivity).
    rewrite freec_snoc_le by lia. rewrite freec_S_out by exact Hh. reflexivity.
  - rewrite (freec_S _ z), (freec_S L z).
    rewrite (memb_iff z (L ++ [h]) z L); [lia|].
    rewrite in_app_iff. simpl. split; [intros [Hin|[E|[]]]; [exact Hin|lia]|intros Hin; left; exact Hin].
Qed.

(* ================= B. the index map of the parent ================= *)

Lemma mins_nil x : mins [] x = x.
Proof. reflexivity. Qed.

Lemma mins_cons t ts x : mins (t :: ts) x = mins ts (bump t x).
Proof. reflexivity. Qed.

Lemma mins_app ts1 ts2 x : mins (ts1 ++ ts2) x = mins ts2 (mins ts1 x).
Proof. unfold mins. apply fold_left_app. Qed.

Lemma mins_snoc ts t x : mins (ts ++ [t]) x = bump t (mins ts x).
Proof. rewrite mins_app. reflexivity. Qed.

Lemma mins_mono ts a b : a < b -> mins ts a < mins ts b.
Proof.
  revert a b. induction ts as [|t ts IH]; intros a b H; [exact H|].
  rewrite !mins_cons. apply IH, bump_mono, H.
Qed.

Lemma mins_inj ts a b : mins ts a = mins ts b -> a = b.
Proof.
  intros E. destruct (Nat.lt_trichotomy a b) as [Hlt|[Heq|Hgt]]; [|exact Heq|].
  - pose proof (mins_mono ts a b Hlt). lia.
  - pose proof (mins_mono ts b a Hgt). lia.
Qed.

Lemma mins_ge ts x : x <= mins ts x.
Proof.
  revert x. induction ts as [|t ts IH]; intros x; [rewrite mins_nil; lia|].
  rewrite mins_cons. pose proof (bump_ge t x). specialize (IH (bump t x)). lia.
Qed.

Lemma mins_le_len ts x : mins ts x <= x + length ts.
Proof.
  revert x. induction ts as [|t ts IH]; intros x; [rewrite mins_nil; simpl; lia|].
  rewrite mins_cons. pose proof (bump_le_S t x). specialize (IH (bump t x)). simpl. lia.
Qed.

Lemma mins_fix_below ts x : (forall t, In t ts -> x < t) -> mins ts x = x.
Proof.
  induction ts as [|t ts IH]; intros H; [reflexivity|].
  rewrite mins_cons, bump_below by (apply H; left; reflexivity).
  apply IH. intros t' Ht'. apply H. right. exact Ht'.
Qed.

Lemma ascl_snoc_inv L h : ascl (L ++ [h]) -> ascl L /\ (forall y, In y L -> y <= h).
Proof.
  induction L as [|x L IH]; simpl; intros H; [split; [exact Logic.I|intros y []]|].
  destruct H as [Hx Ha]. destruct (IH Ha) as [Ha' Hle]. split; [split; [|exact Ha']|].
  - intros y Hy. apply Hx. apply in_or_app. left. exact Hy.
  - intros y [<-|Hy]; [apply Hx; apply in_or_app; right; left; reflexivity|apply Hle, Hy].
Qed.

Lemma nodup_snoc_inv (L : list nat) h : NoDup (L ++ [h]) -> NoDup L /\ ~ In h L.
Proof.
  intros H. apply NoDup_remove in H. rewrite app_nil_r in H. exact H.
Qed.

Lemma ascl_cons_lt h L : ascl (h :: L) -> NoDup (h :: L) -> forall y, In y L -> h < y.
Proof.
  intros [Hh _] Hn y Hy. inversion Hn as [|? ? Hnh _]; subst.
  specialize (Hh y Hy). assert (h <> y) by (intros ->; contradiction). lia.
Qed.

(* the rank characterisation, for any strictly ascending list of insertion offsets *)
Lemma mins_rank m L : ascl L -> NoDup L ->
  (forall i, m <= i ->
     m <= mins (map (fun hm => m + hm) L) i /\
     ~ In (mins (map (fun hm => m + hm) L) i - m) L /\
     freec L (mins (map (fun hm => m + hm) L) i - m) = i - m) /\
  (forall x, m <= x -> ~ In (x - m) L -> exists i, m <= i /\ mins (map (fun hm => m + hm) L) i = x).
Proof.
  induction L as [|h L IH] using rev_ind; intros Ha Hn.
  - split.
    + intros i Hi. cbn [map]. rewrite mins_nil. split; [lia|]. split; [intros []|apply freec_nil].
    + intros x Hx _. exists x. split; [lia|reflexivity].
  - apply ascl_snoc_inv in Ha as [Ha Hle].
    apply nodup_snoc_inv in Hn as [Hn Hh].
    assert (Hlt : forall y, In y L -> y < h).
    { intros y Hy. specialize (Hle y Hy). assert (y <> h) by (intros ->; contradiction). lia. }
    destruct (IH Ha Hn) as [IH1 IH2]. clear IH.
    rewrite map_app. cbn [map]. split.
    + intros i Hi. rewrite mins_snoc. destruct (IH1 i Hi) as (G1 & G2 & G3).
      remember (mins (map (fun hm => m + hm) L) i) as y eqn:Ey. clear Ey.
      destruct (Nat.le_gt_cases (m + h) y) as [Hc|Hc].
      * rewrite bump_above by exact Hc. split; [lia|].
        replace (S y - m) with (S (y - m)) by lia. split.
        -- intros Hin. apply in_app_or in Hin as [Hin|[E|[]]]; [apply Hlt in Hin; lia|lia].
        -- pose proof (freec_snoc_gt L h (S (y - m)) ltac:(lia) Hh) as E.
           rewrite (freec_S_out L (y - m) G2) in E. lia.
      * rewrite bump_below by exact Hc. split; [lia|]. split.
        -- intros Hin. apply in_app_or in Hin as [Hin|[E|[]]]; [contradiction|lia].
        -- rewrite freec_snoc_le by lia. exact G3.
    + intros x Hx Hnin.
      assert (Hx1 : ~ In (x - m) L) by (intros Hin; apply Hnin, in_or_app; left; exact Hin).
      assert (Hx2 : x - m <> h) by (intros E; apply Hnin, in_or_app; right; left; symmetry; exact E).
      destruct (Nat.lt_ge_cases x (m + h)) as [Hc|Hc].
      * destruct (IH2 x Hx Hx1) as (i & Hi & E). exists i. split; [exact Hi|].
        rewrite mins_snoc, E. apply bump_below. exact Hc.
      * assert (Hp : ~ In (x - 1 - m) L) by (intros Hin; apply Hlt in Hin; lia).
        destruct (IH2 (x - 1) ltac:(lia) Hp) as (i & Hi & E). exists i. split; [exact Hi|].
        rewrite mins_snoc, E. rewrite bump_above by lia. lia.
Qed.

Lemma mins_all_fire m B L : forall x, ascl L -> NoDup L -> (forall k, In k L -> k < B) ->
  m + B <= x + length L -> mins (map (fun hm => m + hm) L) x = x + length L.
Proof.
  induction L as [|h L IH]; intros x Ha Hn Hb Hle; [cbn [map length]; rewrite mins_nil; lia|].
  assert (HF : Forall (fun y => y < B) (h :: L)) by (apply Forall_forall; exact Hb).
  pose proof (ascl_bound B L h Ha Hn HF) as Hh. simpl in Hle.
  cbn [map]. rewrite mins_cons, bump_above by lia.
  destruct Ha as [_ Ha]. inversion Hn as [|? ? _ Hn']; subst.
  rewrite IH; [simpl; lia|exact Ha|exact Hn'| |lia].
  intros k Hk. apply Hb. right. exact Hk.
Qed.

Theorem oldf_spec m H : NoDup H ->
  (forall a b, a < b -> oldf m H a < oldf m H b) /\
  (forall i, i < m -> oldf m H i = i) /\
  (forall i, m <= i -> m <= oldf m H i /\ ~ In (oldf m H i - m) H /\ freec H (oldf m H i - m) = i - m) /\
  (forall x, m <= x -> ~ In (x - m) H -> exists i, m <= i /\ oldf m H i = x) /\
  (forall i, oldf m H i <= i + length H) /\
  (forall B x, (forall k, In k H -> k < B) -> m + B <= x + length H -> oldf m H x = x + length H).
Proof.
  intros Hn. unfold oldf.
  pose proof (sort_ascl H) as Ha. pose proof (sort_nodup H Hn) as Hn'.
  destruct (mins_rank m (sort_nat H) Ha Hn') as [R1 R2].
  split; [intros a b Hab; apply mins_mono, Hab|].
  split.
  { intros i Hi. apply mins_fix_below. intros t Ht. apply in_map_iff in Ht as (hm & <- & _). lia. }
  split.
  { intros i Hi. destruct (R1 i Hi) as (G1 & G2 & G3). split; [exact G1|]. split.
    - intros Hin. apply G2, sort_in, Hin.
    - rewrite <- G3. apply freec_ext. intros y. symmetry. apply sort_in. }
  split.
  { intros x Hx Hnin. apply R2; [exact Hx|]. intros Hin. apply Hnin, sort_in, Hin. }
  split.
  { intros i. pose proof (mins_le_len (map (fun hm => m + hm) (sort_nat H)) i) as Hl.
    rewrite map_length, sort_length in Hl. exact Hl. }
  intros B x Hb Hle. rewrite <- (sort_length H). apply (mins_all_fire m B); try assumption.
  - intros k Hk. apply Hb, sort_in, Hk.
  - rewrite sort_length. exact Hle.
Qed.

(* ================= C. the two parent loops of Circuit.add ================= *)

Lemma map_key_id (d : dict) : map (fun kv : nat * nat => (mins [] (fst kv), snd kv)) d = d.
Proof.
  induction d as [|[k v] d IH]; cbn [map fst snd]; [reflexivity|]. rewrite IH, mins_nil. reflexivity.
Qed.

Lemma map_mins_nil (l : list nat) : map (mins []) l = l.
Proof.
  induction l as [|x l IH]; cbn [map]; [reflexivity|]. rewrite IH, mins_nil. reflexivity.
Qed.

Lemma dkeys_map_key (f : nat -> nat) (d : dict) :
  dkeys (map (fun kv : nat * nat => (f (fst kv), snd kv)) d) = map f (dkeys d).
Proof. unfold dkeys. rewrite !map_map. reflexivity. Qed.

Section Loops.
  Context {K : Type} (o : ops K).

  Lemma parent_step_fields m (p : circ (K:=K)) hm :
    NoDup (dkeys (c_in p)) -> NoDup (dkeys (c_out p)) ->
    c_n (parent_step o m p hm) = S (c_n p) /\
    c_spec (parent_step o m p hm) = aem_spec o (m + hm) (c_spec p) /\
    c_int (parent_step o m p hm) = map (bump (m + hm)) (c_int p) ++ [m + hm] /\
    c_in (parent_step o m p hm) = map (fun kv => (bump (m + hm) (fst kv), snd kv)) (c_in p) /\
    c_out (parent_step o m p hm) = map (fun kv => (bump (m + hm) (fst kv), snd kv)) (c_out p) /\
    NoDup (dkeys (c_in (parent_step o m p hm))) /\
    NoDup (dkeys (c_out (parent_step o m p hm))).
  Proof.
    intros Hi Ho. unfold parent_step, add_empty_mode. simpl.
    rewrite <- !bump_dict_id by assumption.
    repeat split; unfold bump_dict; apply dict_of_nodup.
  Qed.

  Lemma parent_fold_gen m L : forall c : circ (K:=K),
    ascl L -> NoDup L -> NoDup (dkeys (c_in c)) -> NoDup (dkeys (c_out c)) ->
    c_n (fold_left (parent_step o m) L c) = c_n c + length L /\
    c_spec (fold_left (parent_step o m) L c) =
      fold_left (fun s p => aem_spec o p s) (map (fun hm => m + hm) L) (c_spec c) /\
    c_int (fold_left (parent_step o m) L c) =
      map (mins (map (fun hm => m + hm) L)) (c_int c) ++ map (fun hm => m + hm) L /\
    c_in (fold_left (parent_step o m) L c) =
      map (fun kv => (mins (map (fun hm => m + hm) L) (fst kv), snd kv)) (c_in c) /\
    c_out (fold_left (parent_step o m) L c) =
      map (fun kv => (mins (map (fun hm => m + hm) L) (fst kv), snd kv)) (c_out c).
  Proof.
    induction L as [|h L IH]; intros c Ha Hn Hi Ho.
    - cbn [fold_left map length]. rewrite map_mins_nil, !map_key_id, app_nil_r.
      repeat split; lia.
    - pose proof (ascl_cons_lt h L Ha Hn) as Hlt.
      destruct Ha as [_ Ha]. inversion Hn as [|? ? _ Hn']; subst.
      destruct (parent_step_fields m c h Hi Ho) as (E1 & E2 & E3 & E4 & E5 & E6 & E7).
      destruct (IH (parent_step o m c h) Ha Hn' E6 E7) as (F1 & F2 & F3 & F4 & F5).
      cbn [fold_left map length].
      rewrite F1, F2, F3, F4, F5, E1, E2, E3, E4, E5.
      split; [lia|]. split; [reflexivity|]. split; [|split].
      + rewrite map_app, map_map, <- app_assoc. cbn [map app].
        rewrite (mins_fix_below (map (fun hm => m + hm) L) (m + h)).
        * reflexivity.
        * intros t Ht. apply in_map_iff in Ht as (y & <- & Hy). apply Hlt in Hy. lia.
      + rewrite map_map. reflexivity.
      + rewrite map_map. reflexivity.
  Qed.

  Theorem parent_fold_spec m (c : circ (K:=K)) (H : list nat) :
    NoDup H -> NoDup (dkeys (c_in c)) -> NoDup (dkeys (c_out c)) ->
    let c1 := fold_left (parent_step o m) (sort_nat H) c in
    c_n c1 = c_n c + length H /\
    c_spec c1 = fold_left (fun s p => aem_spec o p s) (map (fun hm => m + hm) (sort_nat H)) (c_spec c) /\
    c_int c1 = map (oldf m H) (c_int c) ++ map (fun hm => m + hm) (sort_nat H) /\
    c_in c1 = map (fun kv => (oldf m H (fst kv), snd kv)) (c_in c) /\
    c_out c1 = map (fun kv => (oldf m H (fst kv), snd kv)) (c_out c).
  Proof.
    intros Hn Hi Ho. cbv zeta.
    destruct (parent_fold_gen m (sort_nat H) c (sort_ascl H) (sort_nodup H Hn) Hi Ho) as (F1 & F2 & F3 & F4 & F5).
    rewrite sort_length in F1. unfold oldf.
    repeat split; assumption.
  Qed.

  Lemma herald_fold_gen m (L : dict) : forall p : circ (K:=K),
    NoDup (dkeys L) ->
    (forall k, In k (dkeys L) -> ~ In (k + m) (dkeys (c_in p)) /\ ~ In (k + m) (dkeys (c_out p))) ->
    c_n (fold_left (herald_step m) L p) = c_n p /\
    c_spec (fold_left (herald_step m) L p) = c_spec p /\
    c_int (fold_left (herald_step m) L p) = c_int p /\
    c_in (fold_left (herald_step m) L p) = c_in p ++ map (fun kv => (fst kv + m, snd kv)) L /\
    c_out (fold_left (herald_step m) L p) = c_out p ++ map (fun kv => (fst kv + m, snd kv)) L.
  Proof.
    induction L as [|[k v] L IH]; intros p Hn Hf.
    - cbn [fold_left map]. rewrite !app_nil_r. repeat split.
    - cbn [fold_left map]. cbn [dkeys map fst] in Hn. inversion Hn as [|? ? Hk Hn']; subst.
      destruct (Hf k (or_introl eq_refl)) as [Hki Hko].
      assert (Ein : c_in (herald_step m p (k, v)) = c_in p ++ [(k + m, v)]).
      { unfold herald_step. cbn [c_in fst snd]. apply dset_fresh, Hki. }
      assert (Eout : c_out (herald_step m p (k, v)) = c_out p ++ [(k + m, v)]).
      { unfold herald_step. cbn [c_out fst snd]. apply dset_fresh, Hko. }
      destruct (IH (herald_step m p (k, v)) Hn') as (F1 & F2 & F3 & F4 & F5).
      { intros k' Hk'. rewrite Ein, Eout. unfold dkeys. rewrite !map_app. cbn [map fst].
        destruct (Hf k' (or_intror Hk')) as [G1 G2].
        assert (k' <> k) by (intros ->; contradiction).
        split; intros Hin; apply in_app_or in Hin as [Hin|[E|[]]]; try contradiction; lia. }
      rewrite F1, F2, F3, F4, F5, Ein, Eout, <- !app_assoc. cbn [fst snd app].
      repeat split.
  Qed.

  Theorem herald_fold_spec m (L : dict) (p : circ (K:=K)) :
    NoDup (dkeys L) ->
    (forall k, In k (dkeys L) -> ~ In (k + m) (dkeys (c_in p)) /\ ~ In (k + m) (dkeys (c_out p))) ->
    let c2 := fold_left (herald_step m) L p in
    c_n c2 = c_n p /\ c_spec c2 = c_spec p /\ c_int c2 = c_int p /\
    c_in c2 = c_in p ++ map (fun kv => (fst kv + m, snd kv)) L /\
    c_out c2 = c_out p ++ map (fun kv => (fst kv + m, snd kv)) L.
  Proof. intros Hn Hf. cbv zeta. apply herald_fold_gen; assumption. Qed.
End Loops.
