(* Lemmas about Model/Param.v (property C10): the parameter store machine,
   late binding, freezing, parameter collection. *)
From Coq Require Import ZArith List Bool Arith Lia Permutation.
From LW Require Import Base.Sx Base.Num Base.Sums Base.Mat Model.Circuit Model.World Model.Param
     Proofs.CompileP Proofs.CircuitP.
Import ListNotations.

Section ParamP.
  Context {K : Type} {o : ops K}.
  Notation comp := (@comp K).
  Notation circ := (@circ K).
  Notation val := (@val K).
  Notation env := (@env K).
  Notation param := (@param K).
  Notation store := (@store K).
  Notation pstate := (@pstate K).
  Notation hstate := (@hstate K).
  Notation world := (@world K).

  (* ================= 1. the store machine ================= *)

  (* "the value lies within the bounds": a numeric value satisfies every bound
     that is set; a non-numeric value carries no bound at all *)
  Definition p_ok (p : param) : Prop :=
    match p_val p with
    | VNum x => (forall m, p_min p = Some m -> kleb o m (t1 x) = true) /\
                (forall m, p_max p = Some m -> kleb o (t1 x) m = true)
    | VOther => p_min p = None /\ p_max p = None
    end.
  Definition store_ok (st : store) : Prop := Forall p_ok st.

  Lemma klt_false a b : klt o a b = false <-> kleb o b a = true.
  Proof. unfold klt. destruct (kleb o b a); simpl; split; congruence. Qed.

  (* ---- exact behaviour of the three setters ---- *)
  Lemma set_min_spec p b :
    set_min o p b =
    match b with
    | BNone => (with_min p None, Ok tt)
    | BOther => (p, Err ParameterBoundsError)
    | BNum m => match p_val p with
                | VNum x => if kleb o m (t1 x) then (with_min p (Some m), Ok tt) else (p, Err ParameterBoundsError)
                | VOther => (p, Err ParameterBoundsError)
                end
    end.
  Proof.
    unfold set_min, klt. destruct b as [|m|]; [reflexivity| |]; destruct (p_val p) as [x|]; try reflexivity.
    destruct (kleb o m (t1 x)); reflexivity.
  Qed.

  Lemma set_max_spec p b :
    set_max o p b =
    match b with
    | BNone => (with_max p None, Ok tt)
    | BOther => (p, Err ParameterBoundsError)
    | BNum m => match p_val p with
                | VNum x => if kleb o (t1 x) m then (with_max p (Some m), Ok tt) else (p, Err ParameterBoundsError)
                | VOther => (p, Err ParameterBoundsError)
                end
    end.
  Proof.
    unfold set_max, klt. destruct b as [|m|]; [reflexivity| |]; destruct (p_val p) as [x|]; try reflexivity.
    destruct (kleb o (t1 x) m); reflexivity.
  Qed.

  Definition within (p : param) (x : K) : bool :=
    match p_min p with Some m => kleb o m x | None => true end &&
    match p_max p with Some m => kleb o x m | None => true end.

  Lemma set_val_spec p v :
    set_val o p v =
    match v with
    | VOther => if has_bounds p then (p, Err ParameterValueError) else (with_val p v, Ok tt)
    | VNum x => if within p (t1 x) then (with_val p v, Ok tt) else (p, Err ParameterValueError)
    end.
  Proof.
    unfold set_val, within, klt. destruct v as [x|]; [|reflexivity].
    destruct (p_min p) as [m|]; destruct (p_max p) as [m'|]; simpl;
      repeat match goal with |- context [kleb o ?a ?b] => destruct (kleb o a b) end; reflexivity.
  Qed.

  (* ---- a rejected setter call returns the object untouched ---- *)
  Lemma set_min_err p b p' e : set_min o p b = (p', Err e) -> p' = p.
  Proof.
    rewrite set_min_spec. destruct b as [|m|]; [discriminate| |congruence].
    destruct (p_val p) as [x|]; [destruct (kleb o m (t1 x))|]; congruence.
  Qed.
  Lemma set_max_err p b p' e : set_max o p b = (p', Err e) -> p' = p.
  Proof.
    rewrite set_max_spec. destruct b as [|m|]; [discriminate| |congruence].
    destruct (p_val p) as [x|]; [destruct (kleb o (t1 x) m)|]; congruence.
  Qed.
  Lemma set_val_err p v p' e : set_val o p v = (p', Err e) -> p' = p.
  Proof.
    rewrite set_val_spec. destruct v as [x|]; [destruct (within p (t1 x))|destruct (has_bounds p)]; congruence.
  Qed.

  (* ---- the setters preserve "value within bounds", accepted or not ---- *)
  Lemma set_min_ok p b p' r : p_ok p -> set_min o p b = (p', r) -> p_ok p'.
  Proof.
    intros H. rewrite set_min_spec. unfold p_ok in *.
    destruct b as [|m|]; [| |intros E; injection E as <- _; exact H].
    - intros E; injection E as <- _. simpl. destruct (p_val p); [destruct H as [_ H]; split; [discriminate|exact H]|].
      destruct H; split; [reflexivity|assumption].
    - destruct (p_val p) as [x|] eqn:Ev; [|intros E; injection E as <- _; rewrite Ev; exact H].
      destruct (kleb o m (t1 x)) eqn:El; [|intros E; injection E as <- _; rewrite Ev; exact H].
      intros E; injection E as <- _. simpl. rewrite Ev. destruct H as [_ H]. split; [|exact H].
      intros m' E'. injection E' as <-. exact El.
  Qed.
  Lemma set_max_ok p b p' r : p_ok p -> set_max o p b = (p', r) -> p_ok p'.
  Proof.
    intros H. rewrite set_max_spec. unfold p_ok in *.
    destruct b as [|m|]; [| |intros E; injection E as <- _; exact H].
    - intros E; injection E as <- _. simpl. destruct (p_val p); [destruct H as [H _]; split; [exact H|discriminate]|].
      destruct H; split; [assumption|reflexivity].
    - destruct (p_val p) as [x|] eqn:Ev; [|intros E; injection E as <- _; rewrite Ev; exact H].
      destruct (kleb o (t1 x) m) eqn:El; [|intros E; injection E as <- _; rewrite Ev; exact H].
      intros E; injection E as <- _. simpl. rewrite Ev. destruct H as [H _]. split; [exact H|].
      intros m' E'. injection E' as <-. exact El.
  Qed.
  Lemma set_val_ok p v p' r : p_ok p -> set_val o p v = (p', r) -> p_ok p'.
  Proof.
    intros H. rewrite set_val_spec. destruct v as [x|].
    - destruct (within p (t1 x)) eqn:W; [|intros E; injection E as <- _; exact H]. intros E; injection E as <- _.
      unfold p_ok, within in *. simpl. apply andb_true_iff in W as [W1 W2].
      split; intros m E; rewrite E in *; assumption.
    - destruct (has_bounds p) eqn:B; [intros E; injection E as <- _; exact H|]. intros E; injection E as <- _.
      unfold p_ok, has_bounds in *. simpl. destruct (p_min p), (p_max p); try discriminate. split; reflexivity.
  Qed.

  Lemma new_param_ok v bd lab p : new_param o v bd lab = Ok p -> p_ok p.
  Proof.
    unfold new_param. intros H.
    assert (H0 : forall l, p_ok (mkParam v None None l)).
    { intros l. unfold p_ok. simpl. destruct v; split; try reflexivity; discriminate. }
    destruct lab; try discriminate;
      (destruct bd as [| |[|bmin [|bmax [|? ?]]]]; try discriminate;
       [injection H as <-; apply H0|];
       destruct (is_num v); [|discriminate];
       destruct (set_min o _ bmin) as [p1 [[]|x]] eqn:E1; [|discriminate];
       destruct (set_max o p1 bmax) as [p2 [[]|x]] eqn:E2; [|discriminate];
       injection H as <-; eapply set_max_ok; [|exact E2]; eapply set_min_ok; [|exact E1]; apply H0).
  Qed.

  (* creation with a bounds list succeeds exactly when the value is numeric and
     both setters accept; in particular then min <= value <= max *)
  Lemma new_param_bounds v bmin bmax lab p :
    new_param o v (BdList [bmin; bmax]) lab = Ok p -> exists x, v = VNum x /\ p_val p = v.
  Proof.
    unfold new_param. intros H. destruct lab; try discriminate;
      (destruct v as [x|]; [|discriminate]; exists x; split; [reflexivity|]; simpl in H;
       rewrite set_min_spec in H; simpl in H;
       destruct bmin as [|m|]; [| |discriminate];
       [|destruct (kleb o m (t1 x)); [|discriminate]];
       rewrite set_max_spec in H; simpl in H;
       (destruct bmax as [|m'|]; [| |discriminate];
        [|destruct (kleb o (t1 x) m'); [|discriminate]]);
       injection H as <-; reflexivity).
  Qed.

  (* a parameter without bounds accepts every value *)
  Lemma set_val_unbounded p v : has_bounds p = false -> set_val o p v = (with_val p v, Ok tt).
  Proof.
    intros H. rewrite set_val_spec. unfold within, has_bounds in *.
    destruct (p_min p), (p_max p); try discriminate. destruct v; reflexivity.
  Qed.

  (* ---- the store ---- *)
  Lemma sset_same (st : store) id p : nth_error st id = Some p -> sset st id p = st.
  Proof.
    revert id; induction st as [|q st IH]; intros [|id] H; simpl in *; try discriminate.
    - injection H as ->. reflexivity.
    - f_equal. apply IH. exact H.
  Qed.
  Lemma sset_ok (st : store) id p : store_ok st -> p_ok p -> store_ok (sset st id p).
  Proof.
    unfold store_ok. intros H Hp. revert id; induction H as [|q st Hq Hst IH]; intros [|id]; simpl;
      constructor; auto.
  Qed.
  Lemma sset_length (st : store) id p : length (sset st id p) = length st.
  Proof. revert id; induction st as [|q st IH]; intros [|id]; simpl; auto. Qed.

  Lemma supd_ok (st : store) id f st' r :
    (forall p p' r, p_ok p -> f p = (p', r) -> p_ok p') ->
    store_ok st -> supd st id f = (st', r) -> store_ok st'.
  Proof.
    intros Hf H. unfold supd. destruct (nth_error st id) as [p|] eqn:E; [|congruence].
    destruct (f p) as [p' r'] eqn:Ef. intros E'; injection E' as <- _.
    apply sset_ok; [exact H|]. eapply Hf; [|exact Ef].
    unfold store_ok in H. rewrite Forall_forall in H. apply H. eapply nth_error_In; exact E.
  Qed.
  Lemma supd_err (st : store) id f st' e :
    (forall p p' e, f p = (p', Err e) -> p' = p) -> supd st id f = (st', Err e) -> st' = st.
  Proof.
    intros Hf. unfold supd. destruct (nth_error st id) as [p|] eqn:E; [|congruence].
    destruct (f p) as [p' r'] eqn:Ef. intros E'; injection E' as <- ->.
    apply Hf in Ef. subst. apply sset_same. exact E.
  Qed.

  Lemma raw_param_ok v : p_ok (raw_param v).
  Proof. unfold p_ok, raw_param. simpl. destruct v; split; try reflexivity; discriminate. Qed.

  Lemma store_ok_app st p : store_ok st -> p_ok p -> store_ok (st ++ [p]).
  Proof. intros H Hp. apply Forall_app. split; [exact H|constructor; [exact Hp|constructor]]. Qed.

  Lemma pstep_ok s c s' r : store_ok (fst s) -> pstep o s c = (s', r) -> store_ok (fst s').
  Proof.
    destruct s as [st ds]. simpl. intros H. destruct c as [v bd lab|id v|id b|id b|d items|d key x|d key]; simpl.
    - destruct (new_param o v bd lab) as [p|x] eqn:E; intros E'; injection E' as <- _; simpl; [|exact H].
      apply store_ok_app; [exact H|]. eapply new_param_ok; exact E.
    - destruct (supd st id _) as [st' r'] eqn:E. intros E'; injection E' as <- _. simpl.
      eapply supd_ok; [|exact H|exact E]. intros p p' r0 Hp Hs. cbv beta in Hs. exact (set_val_ok _ _ _ _ Hp Hs).
    - destruct (supd st id _) as [st' r'] eqn:E. intros E'; injection E' as <- _. simpl.
      eapply supd_ok; [|exact H|exact E]. intros p p' r0 Hp Hs. cbv beta in Hs. exact (set_min_ok _ _ _ _ Hp Hs).
    - destruct (supd st id _) as [st' r'] eqn:E. intros E'; injection E' as <- _. simpl.
      eapply supd_ok; [|exact H|exact E]. intros p p' r0 Hp Hs. cbv beta in Hs. exact (set_max_ok _ _ _ _ Hp Hs).
    - match goal with |- context [fold_left ?f items ?a] => set (F := f); set (a0 := a) end.
      assert (G : store_ok (fst (fold_left F items a0))).
      { assert (H0 : store_ok (fst a0)) by exact H. clearbody a0. clear H.
        revert a0 H0. induction items as [|kv items IH]; intros a0 H0; simpl; [exact H0|].
        apply IH. destruct a0 as [st1 pd]. unfold F. destruct (snd kv); simpl; [|exact H0].
        apply store_ok_app; [exact H0|apply raw_param_ok]. }
      destruct (fold_left F items a0) as [st' pd]. intros E'; injection E' as <- _. exact G.
    - destruct (pool_get ds d) as [pd|]; [|intros E'; injection E' as <- _; exact H].
      destruct (dget pd key) as [id|]; destruct x as [v|id']; try (intros E'; injection E' as <- _; exact H).
      destruct (supd st id _) as [st' r'] eqn:E. intros E'; injection E' as <- _. simpl.
      eapply supd_ok; [|exact H|exact E]. intros p p' r0 Hp Hs. cbv beta in Hs. exact (set_val_ok _ _ _ _ Hp Hs).
    - destruct (pool_get ds d) as [pd|]; [|intros E'; injection E' as <- _; exact H].
      destruct (dmem pd key); intros E'; injection E' as <- _; exact H.
  Qed.

  Lemma pstep_err s c s' e : pstep o s c = (s', Err e) -> s' = s.
  Proof.
    destruct s as [st ds]. destruct c as [v bd lab|id v|id b|id b|d items|d key x|d key]; simpl.
    - destruct (new_param o v bd lab); congruence.
    - destruct (supd st id _) as [st' r'] eqn:E. intros E'; injection E' as <- ->.
      f_equal. eapply supd_err; [|exact E]. intros p p' e0. apply set_val_err.
    - destruct (supd st id _) as [st' r'] eqn:E. intros E'; injection E' as <- ->.
      f_equal. eapply supd_err; [|exact E]. intros p p' e0. apply set_min_err.
    - destruct (supd st id _) as [st' r'] eqn:E. intros E'; injection E' as <- ->.
      f_equal. eapply supd_err; [|exact E]. intros p p' e0. apply set_max_err.
    - match goal with |- context [fold_left ?f items ?a] => destruct (fold_left f items a) end. discriminate.
    - destruct (pool_get ds d) as [pd|]; [|congruence].
      destruct (dget pd key) as [id|]; destruct x as [v|id']; try congruence.
      destruct (supd st id _) as [st' r'] eqn:E. intros E'; injection E' as <- ->.
      f_equal. eapply supd_err; [|exact E]. intros p p' e0. apply set_val_err.
    - destruct (pool_get ds d) as [pd|]; [|congruence]. destruct (dmem pd key); congruence.
  Qed.

  (* ================= 2. histories ================= *)
  Definition h_store (s : hstate) : store := fst (fst s).
  Definition h_world (s : hstate) : world := snd s.

  Lemma upd_err (w : world) id f w' e : upd w id f = (w', Err e) -> w' = w.
  Proof. unfold upd. destruct (wget w id) as [c|]; [destruct (f c)|]; congruence. Qed.

  Lemma step_err e (w : world) x w' er : step o e w x = (w', Err er) -> w' = w.
  Proof.
    destruct x; simpl; try discriminate; try apply upd_err.
    - destruct (wget w sub); [apply upd_err|congruence].
    - destruct (wget w a), (wget w b); try congruence. destruct (op_plus _ _); congruence.
    - destruct (wget w a); congruence.
  Qed.

  Lemma fix_loss_err_err (st : store) x r e : fix_loss_err st x r = Err e -> exists e', r = Err e'.
  Proof.
    unfold fix_loss_err. destruct r as [u|e0]; [|intros _; eexists; reflexivity].
    destruct (loss_arg x); discriminate.
  Qed.

  Lemma hstep_err s h s' e : hstep o s h = (s', Err e) -> s' = s.
  Proof.
    destruct s as [[st ds] w].
    destruct h; unfold hstep; cbv beta iota zeta; try (intros E; injection E as <- _; reflexivity).
    - destruct (pstep o (st, ds) c) as [ps' [u|x]] eqn:E; simpl; intros E'; [discriminate|].
      injection E' as <- _. apply pstep_err in E. subst. reflexivity.
    - destruct (step o (env_of_store o st) w x) as [w' r] eqn:E.
      destruct (fix_loss_err st x r) as [u|x0] eqn:F; simpl; intros E'; [discriminate|].
      injection E' as <- _.
      apply fix_loss_err_err in F as [e' ->]. apply step_err in E. subst. reflexivity.
    - destruct (wget w a); intros E; [discriminate|]. injection E as <- _. reflexivity.
  Qed.

  Lemma hstep_read s h : is_read h = true -> fst (hstep o s h) = s.
  Proof. destruct s as [[st ds] w]. destruct h; try discriminate; reflexivity. Qed.

  Lemma hstep_ok s h : store_ok (h_store s) -> store_ok (h_store (fst (hstep o s h))).
  Proof.
    destruct s as [[st ds] w]. unfold h_store. cbn [fst]. intros H.
    destruct h; unfold hstep; cbv beta iota zeta; try exact H.
    - destruct (pstep o (st, ds) c) as [ps' r] eqn:E. cbn [fst]. eapply (pstep_ok (st, ds)); [exact H|exact E].
    - destruct (step o (env_of_store o st) w x). exact H.
    - destruct (wget w a); exact H.
  Qed.

  Lemma hrun_ok hs : forall s, store_ok (h_store s) ->
    store_ok (h_store (fst (hrun o s hs))) /\
    Forall (fun rs => store_ok (h_store (snd rs))) (snd (hrun o s hs)).
  Proof.
    induction hs as [|h hs IH]; intros s H; simpl; [split; [exact H|constructor]|].
    pose proof (hstep_ok s h H) as H1. destruct (hstep o s h) as [s1 r]. simpl in H1.
    destruct (IH s1 H1) as [I1 I2]. destruct (hrun o s1 hs) as [s2 rs]. simpl in *.
    split; [exact I1|constructor; [exact H1|exact I2]].
  Qed.

  Theorem bounds_invariant hs :
    store_ok (h_store (hfinal o hinit hs)) /\
    Forall (fun rs => store_ok (h_store (snd rs))) (snd (hrun o hinit hs)).
  Proof. apply hrun_ok. constructor. Qed.

  (* a rejected step leaves the whole state - parameters, dictionaries,
     circuits - as it was, after any history *)
  Lemma hfinal_snoc s hs h : hfinal o s (hs ++ [h]) = fst (hstep o (hfinal o s hs) h).
  Proof.
    unfold hfinal. revert s. induction hs as [|a hs IH]; intros s; simpl.
    - destruct (hstep o s h) as [s1 r]. reflexivity.
    - destruct (hstep o s a) as [s1 r]. specialize (IH s1).
      destruct (hrun o s1 (hs ++ [h])) as [s2 rs2]. destruct (hrun o s1 hs) as [s3 rs3]. exact IH.
  Qed.

  Theorem rejected_update_no_change s hs h e :
    snd (hstep o (hfinal o s hs) h) = Err e -> hfinal o s (hs ++ [h]) = hfinal o s hs.
  Proof.
    intros H. rewrite hfinal_snoc. destruct (hstep o (hfinal o s hs) h) as [s1 r] eqn:E.
    simpl in *. subst r. apply hstep_err in E. exact E.
  Qed.

  (* reads never change anything either *)
  Theorem read_no_change s hs h : is_read h = true -> hfinal o s (hs ++ [h]) = hfinal o s hs.
  Proof. intros H. rewrite hfinal_snoc. apply hstep_read. exact H. Qed.

  (* ================= 3. late binding and freezing ================= *)
  Lemma getv_freeze e e' (v : val) : getv e' (freeze_val e v) = getv e v.
  Proof. destruct v; reflexivity. Qed.

  Lemma cadd_freeze e e' (c : comp) : forall st, cadd o e' (freeze_comp e c) st = cadd o e c st.
  Proof.
    induction c as [m1 m2 v cv|m v|m v|ms|sw|m k V|sp m1 m2 hin hout IH] using comp_ind'; intros st;
      try reflexivity.
    - destruct st as [[n U]|x]; [|reflexivity]. simpl. rewrite getv_freeze. reflexivity.
    - destruct st as [[n U]|x]; [|reflexivity]. simpl. rewrite getv_freeze. reflexivity.
    - destruct st as [[n U]|x]; [|reflexivity]. simpl. rewrite getv_freeze. reflexivity.
    - change (freeze_comp e (Group sp m1 m2 hin hout)) with (Group (map (freeze_comp e) sp) m1 m2 hin hout).
      rewrite !cadd_group. revert st. induction IH as [|c sp Hc _ IHsp]; intros st; [reflexivity|].
      simpl map. rewrite !cadd_list_cons, Hc. apply IHsp.
  Qed.

  Lemma cadd_list_freeze e e' (sp : list comp) st :
    cadd_list o e' (freeze_spec e sp) st = cadd_list o e sp st.
  Proof.
    revert st. induction sp as [|c sp IH]; intros st; [reflexivity|].
    unfold freeze_spec in *. simpl map. rewrite !cadd_list_cons, cadd_freeze. apply IH.
  Qed.

  (* live binding: compiling with the current values = compiling the circuit in
     which every Parameter is replaced by its current value (no environment) *)
  Theorem live_binding e e' (c : circ) : build o e c = build o e' (freeze e c).
  Proof. unfold build, freeze. simpl. rewrite cadd_list_freeze. reflexivity. Qed.

  Lemma no_ref_freeze e (c : comp) : no_ref (freeze_comp e c) = true.
  Proof.
    induction c as [m1 m2 v cv|m v|m v|ms|sw|m k V|sp m1 m2 hin hout IH] using comp_ind'; try reflexivity;
      try (destruct v; reflexivity).
    simpl. rewrite forallb_forall. intros y Hy. apply in_map_iff in Hy as (x & <- & Hx).
    rewrite Forall_forall in IH. apply IH. exact Hx.
  Qed.

  Lemma no_ref_circ_freeze e (c : circ) : no_ref_circ (freeze e c) = true.
  Proof.
    unfold no_ref_circ, freeze, freeze_spec. simpl. rewrite forallb_forall. intros y Hy.
    apply in_map_iff in Hy as (x & <- & _). apply no_ref_freeze.
  Qed.

  Lemma freeze_no_ref e (c : comp) : no_ref c = true -> freeze_comp e c = c.
  Proof.
    induction c as [m1 m2 v cv|m v|m v|ms|sw|m k V|sp m1 m2 hin hout IH] using comp_ind'; intros H;
      try reflexivity; try (destruct v; [reflexivity|discriminate]).
    simpl in *. f_equal. rewrite forallb_forall in H. rewrite Forall_forall in IH.
    rewrite <- (map_id sp) at 2. apply map_ext_in. intros x Hx. apply IH; [exact Hx|apply H; exact Hx].
  Qed.

  Lemma freeze_spec_no_ref e (sp : list comp) : forallb no_ref sp = true -> freeze_spec e sp = sp.
  Proof.
    intros H. unfold freeze_spec. rewrite <- (map_id sp) at 2. apply map_ext_in. intros x Hx.
    apply freeze_no_ref. rewrite forallb_forall in H. apply H. exact Hx.
  Qed.

  (* a circuit without Parameter references compiles to the same thing in every environment *)
  Theorem no_ref_build_const e1 e2 (c : circ) : no_ref_circ c = true -> build o e1 c = build o e2 c.
  Proof.
    intros H. rewrite (live_binding e1 e2 c). unfold freeze, copy_circ.
    rewrite freeze_spec_no_ref by exact H. destruct c; reflexivity.
  Qed.

  Theorem frozen_is_constant e e1 e2 (c : circ) :
    build o e1 (freeze e c) = build o e2 (freeze e c) /\ build o e1 (freeze e c) = build o e c.
  Proof. rewrite <- !(live_binding e _ c). split; reflexivity. Qed.

  (* freezing is idempotent: a frozen copy of a frozen copy is the frozen copy, whatever
     environment the second freeze is taken in; a circuit without references is its own
     frozen copy *)
  Theorem freeze_no_ref_circ e (c : circ) : no_ref_circ c = true -> freeze e c = c.
  Proof.
    intros H. unfold freeze, copy_circ. rewrite freeze_spec_no_ref by exact H.
    destruct c; reflexivity.
  Qed.

  Theorem freeze_idem e e' (c : circ) : freeze e' (freeze e c) = freeze e c.
  Proof. apply freeze_no_ref_circ, no_ref_circ_freeze. Qed.

  (* ================= 4. get_all_params ================= *)
  Lemma add_new_in acc l i : In i (add_new acc l) <-> In i acc \/ In i l.
  Proof.
    unfold add_new. revert acc. induction l as [|a l IH]; intros acc; simpl; [tauto|].
    rewrite IH. destruct (existsb (Nat.eqb a) acc) eqn:E.
    - apply existsb_exists in E as (y & Hy & Ey). apply Nat.eqb_eq in Ey. subst y.
      split; [tauto|]. intros [H|[H|H]]; subst; tauto.
    - rewrite in_app_iff. simpl. tauto.
  Qed.
  Lemma nodup_snoc (l : list nat) a : NoDup l -> ~ In a l -> NoDup (l ++ [a]).
  Proof.
    induction 1 as [|x l Hx Hl IH]; simpl; intros Hn; [constructor; [intros []|constructor]|].
    constructor.
    - rewrite in_app_iff. simpl. intros [Hi|[<-|[]]]; [contradiction|]. apply Hn. left; reflexivity.
    - apply IH. intros Hin. apply Hn. right. exact Hin.
  Qed.
  Lemma add_new_nodup acc l : NoDup acc -> NoDup (add_new acc l).
  Proof.
    unfold add_new. revert acc. induction l as [|a l IH]; intros acc H; simpl; [exact H|].
    apply IH. destruct (existsb (Nat.eqb a) acc) eqn:E; [exact H|].
    apply nodup_snoc; [exact H|]. intros Hx. assert (existsb (Nat.eqb a) acc = true); [|congruence].
    apply existsb_exists. exists a. split; [exact Hx|apply Nat.eqb_refl].
  Qed.
  Lemma add_new_app acc l1 l2 : add_new acc (l1 ++ l2) = add_new (add_new acc l1) l2.
  Proof. unfold add_new. apply fold_left_app. Qed.

  Lemma fold_add_new (f : comp -> list nat) sp acc :
    fold_left (fun a x => add_new a (f x)) sp acc = add_new acc (flat_map f sp).
  Proof.
    revert acc. induction sp as [|c sp IH]; intros acc; simpl; [reflexivity|].
    rewrite IH, add_new_app. reflexivity.
  Qed.

  (* the list is the first-occurrence de-duplication of the references of the unpacked spec *)
  Lemma get_all_params_eq (c : circ) :
    get_all_params c = add_new [] (flat_map comp_refs1 (unpack_spec (c_spec c))).
  Proof. unfold get_all_params. apply fold_add_new. Qed.

  Lemma comp_refs_gfree (x : comp) : gfree x = true -> comp_refs x = comp_refs1 x.
  Proof. destruct x; try reflexivity. discriminate. Qed.

  Lemma refs_unpack_flat (sp : list comp) :
    flat_spec sp = true -> flat_map comp_refs1 (unpack_spec sp) = spec_refs sp.
  Proof.
    unfold flat_spec, spec_refs, unpack_spec. induction sp as [|c sp IH]; intros H; [reflexivity|].
    simpl in H. apply andb_true_iff in H as [Hc Hsp]. simpl. rewrite flat_map_app, IH by exact Hsp. f_equal.
    destruct c as [| | | | | |g m1 m2 hin hout]; try (simpl; rewrite ?app_nil_r; reflexivity).
    simpl in *. clear -Hc. induction g as [|x g IHg]; [reflexivity|].
    simpl in Hc. apply andb_true_iff in Hc as [Hx Hg]. simpl. rewrite IHg by exact Hg.
    rewrite comp_refs_gfree by exact Hx. reflexivity.
  Qed.

  Theorem params_listed_once (c : circ) :
    NoDup (get_all_params c) /\
    (flat_spec (c_spec c) = true ->
       get_all_params c = add_new [] (spec_refs (c_spec c)) /\
       forall id, In id (get_all_params c) <-> In id (spec_refs (c_spec c))).
  Proof.
    split; [rewrite get_all_params_eq; apply add_new_nodup; constructor|].
    intros H. rewrite get_all_params_eq, refs_unpack_flat by exact H. split; [reflexivity|].
    intros id. rewrite add_new_in. simpl. tauto.
  Qed.

  Lemma comp_refs_no_ref (c : comp) : no_ref c = true -> comp_refs c = [].
  Proof.
    induction c as [m1 m2 v cv|m v|m v|ms|sw|m k V|sp m1 m2 hin hout IH] using comp_ind'; intros H;
      try reflexivity; try (destruct v; [reflexivity|discriminate]).
    simpl in *. rewrite forallb_forall in H. rewrite Forall_forall in IH.
    induction sp as [|x sp IHsp]; [reflexivity|]. simpl.
    rewrite (IH x (or_introl eq_refl) (H x (or_introl eq_refl))). simpl.
    apply IHsp; intros y Hy; [apply IH|apply H]; right; exact Hy.
  Qed.

  Lemma comp_refs1_no_ref (c : comp) : no_ref c = true -> comp_refs1 c = [].
  Proof. destruct c; try reflexivity; destruct v; try reflexivity; discriminate. Qed.

  Lemma no_ref_unpack (sp : list comp) :
    forallb no_ref sp = true -> forallb no_ref (unpack_spec sp) = true.
  Proof.
    unfold unpack_spec. induction sp as [|c sp IH]; intros H; [reflexivity|].
    simpl in H. apply andb_true_iff in H as [Hc Hsp]. simpl. rewrite forallb_app, IH by exact Hsp.
    rewrite andb_true_r. destruct c; simpl; rewrite ?andb_true_r; exact Hc.
  Qed.

  Theorem no_ref_lists_none (c : circ) : no_ref_circ c = true -> get_all_params c = [].
  Proof.
    intros H. rewrite get_all_params_eq. apply no_ref_unpack in H.
    induction (unpack_spec (c_spec c)) as [|x l IH]; [reflexivity|].
    simpl in H. apply andb_true_iff in H as [Hx Hl]. simpl. rewrite comp_refs1_no_ref by exact Hx. apply IH. exact Hl.
  Qed.

  Theorem frozen_lists_none e (c : circ) :
    get_all_params (freeze e c) = [] /\ spec_refs (c_spec (freeze e c)) = [].
  Proof.
    split; [apply no_ref_lists_none, no_ref_circ_freeze|].
    pose proof (no_ref_circ_freeze e c) as H. unfold no_ref_circ in H. unfold spec_refs.
    induction (c_spec (freeze e c)) as [|x l IH]; [reflexivity|].
    simpl in H. apply andb_true_iff in H as [Hx Hl]. simpl. rewrite comp_refs_no_ref by exact Hx. apply IH. exact Hl.
  Qed.

  (* ================= 5. invalid values surface at compile time ================= *)
  (* Parameters sitting in a reflectivity or a loss, through groups *)
  Fixpoint unit_refs (c : comp) : list nat :=
    match c with
    | BS _ _ v _ => val_refs v
    | LossC _ v => val_refs v
    | Group sp _ _ _ _ => flat_map unit_refs sp
    | _ => []
    end.

  Lemma cadd_invalid e (c : comp) id :
    In id (unit_refs c) -> in01 o (t1 (e id)) = false -> forall st, exists x, cadd o e c st = Err x.
  Proof.
    intros Hin Hbad.
    induction c as [m1 m2 v cv|m v|m v|ms|sw|m k V|sp m1 m2 hin hout IH] using comp_ind'; intros st;
      try (destruct Hin; fail).
    - destruct v as [x|i]; [destruct Hin|]. destruct Hin as [->|[]].
      destruct st as [[n U]|x]; [|eexists; reflexivity]. simpl. rewrite Hbad. eexists; reflexivity.
    - destruct v as [x|i]; [destruct Hin|]. destruct Hin as [->|[]].
      destruct st as [[n U]|x]; [|eexists; reflexivity]. simpl. rewrite Hbad. eexists; reflexivity.
    - rewrite cadd_group. simpl in Hin. revert st. induction IH as [|c sp Hc _ IHsp]; intros st; [destruct Hin|].
      simpl in Hin. apply in_app_or in Hin. rewrite cadd_list_cons. destruct Hin as [Hin|Hin].
      + destruct (Hc Hin st) as [x ->]. exists x. apply cadd_list_err.
      + apply IHsp. exact Hin.
  Qed.

  Theorem invalid_value_surfaces e (c : circ) id :
    In id (flat_map unit_refs (c_spec c)) -> in01 o (t1 (e id)) = false ->
    build o e c = Err CircuitCompilationError.
  Proof.
    intros Hin Hbad. unfold build.
    assert (G : forall sp st, In id (flat_map unit_refs sp) -> exists x, cadd_list o e sp st = Err x).
    { induction sp as [|x sp IH]; intros st H; [destruct H|]. simpl in H. apply in_app_or in H.
      rewrite cadd_list_cons. destruct H as [H|H].
      - destruct (cadd_invalid e x id H Hbad st) as [y ->]. exists y. apply cadd_list_err.
      - apply IH. exact H. }
    destruct (G (c_spec c) (Ok (c_n c, mid (co o))) Hin) as [x ->]. reflexivity.
  Qed.

  (* the same for a value that a freeze has substituted *)
  Corollary invalid_value_surfaces_frozen e e' (c : circ) id :
    In id (flat_map unit_refs (c_spec c)) -> in01 o (t1 (e id)) = false ->
    build o e' (freeze e c) = Err CircuitCompilationError.
  Proof. intros H1 H2. rewrite <- (live_binding e e' c). apply invalid_value_surfaces with id; assumption. Qed.

  (* store level: what a U_full read in a history returns *)
  Lemma env_of_store_num st id p x :
    nth_error st id = Some p -> p_val p = VNum x -> env_of_store o st id = x.
  Proof. intros H1 H2. unfold env_of_store. rewrite H1, H2. reflexivity. Qed.
  (* ================= 6. groups never nest in reachable circuits ================= *)
  Lemma fold_left_inv {A B} (I : A -> Prop) (g : A -> B -> A) l : forall a,
    (forall a b, I a -> I (g a b)) -> I a -> I (fold_left g l a).
  Proof. induction l as [|b l IH]; intros a Hg Ha; simpl; [exact Ha|]. apply IH; [exact Hg|apply Hg; exact Ha]. Qed.

  Definition gfree_spec (sp : list comp) : bool := forallb gfree sp.

  Lemma gfree_aem t (c : comp) : gfree (aem o t c) = gfree c.
  Proof. destruct c; try reflexivity. simpl. destruct (_ && _); reflexivity. Qed.
  Lemma gfree_shift d (c : comp) : gfree (shift_comp d c) = gfree c.
  Proof. destruct c; reflexivity. Qed.
  Lemma gfree_freeze e (c : comp) : gfree (freeze_comp e c) = gfree c.
  Proof. destruct c; reflexivity. Qed.

  Lemma forallb_map_eq {A} (f : A -> bool) (g : A -> A) l : (forall x, f (g x) = f x) -> forallb f (map g l) = forallb f l.
  Proof. intros H. induction l as [|x l IH]; simpl; [reflexivity|]. rewrite H, IH. reflexivity. Qed.

  Lemma flat_aem t (c : comp) : flat (aem o t c) = flat c.
  Proof. destruct c; try reflexivity; simpl. - destruct (_ && _); reflexivity. - apply forallb_map_eq, gfree_aem. Qed.
  Lemma flat_shift d (c : comp) : flat (shift_comp d c) = flat c.
  Proof. destruct c; try reflexivity; simpl. apply forallb_map_eq, gfree_shift. Qed.
  Lemma flat_freeze e (c : comp) : flat (freeze_comp e c) = flat c.
  Proof. destruct c; try reflexivity; simpl. apply forallb_map_eq, gfree_freeze. Qed.
  Lemma gfree_flat (c : comp) : gfree c = true -> flat c = true.
  Proof. destruct c; try reflexivity. discriminate. Qed.

  Lemma gfree_spec_flat (sp : list comp) : gfree_spec sp = true -> flat_spec sp = true.
  Proof. unfold gfree_spec, flat_spec. rewrite !forallb_forall. intros H x Hx. apply gfree_flat, H, Hx. Qed.

  Lemma unpack_gfree (sp : list comp) : flat_spec sp = true -> gfree_spec (unpack_spec sp) = true.
  Proof.
    unfold flat_spec, gfree_spec, unpack_spec. induction sp as [|c sp IH]; intros H; [reflexivity|].
    simpl in H. apply andb_true_iff in H as [Hc Hsp]. simpl. rewrite forallb_app, IH by exact Hsp.
    rewrite andb_true_r. destruct c; try reflexivity. exact Hc.
  Qed.

  Lemma flat_spec_aem t (sp : list comp) : flat_spec (aem_spec o t sp) = flat_spec sp.
  Proof. unfold flat_spec, aem_spec. apply forallb_map_eq, flat_aem. Qed.
  Lemma gfree_spec_aem t (sp : list comp) : gfree_spec (aem_spec o t sp) = gfree_spec sp.
  Proof. unfold gfree_spec, aem_spec. apply forallb_map_eq, gfree_aem. Qed.
  Lemma flat_spec_shift d (sp : list comp) : flat_spec (shift_spec d sp) = flat_spec sp.
  Proof. unfold flat_spec, shift_spec. apply forallb_map_eq, flat_shift. Qed.
  Lemma gfree_spec_shift d (sp : list comp) : gfree_spec (shift_spec d sp) = gfree_spec sp.
  Proof. unfold gfree_spec, shift_spec. apply forallb_map_eq, gfree_shift. Qed.
  Lemma flat_spec_app (sp1 sp2 : list comp) : flat_spec (sp1 ++ sp2) = flat_spec sp1 && flat_spec sp2.
  Proof. apply forallb_app. Qed.
  Lemma gfree_spec_app (sp1 sp2 : list comp) : gfree_spec (sp1 ++ sp2) = gfree_spec sp1 && gfree_spec sp2.
  Proof. apply forallb_app. Qed.

  Lemma op_add_flat (c sub : circ) mode g c' :
    flat_spec (c_spec c) = true -> flat_spec (c_spec sub) = true ->
    op_add o c sub mode g = Ok c' -> flat_spec (c_spec c') = true.
  Proof.
    intros Hc Hs H. unfold op_add in H.
    destruct (mode_ok c (map_mode (c_int c) mode)) as [m|] eqn:Em; simpl bind in H; [|discriminate].
    cbv zeta in H.
    match type of H with (if ?b then _ else _) = _ => destruct b; [discriminate|] end.
    assert (P2 : forall (w1 : circ) f1 f2 l1,
               (forall p hm, flat_spec (c_spec p) = true -> flat_spec (c_spec (f1 p hm)) = true) ->
               (forall p kv, flat_spec (c_spec p) = true -> flat_spec (c_spec (f2 p kv)) = true) ->
               flat_spec (c_spec (fold_left f2 (c_in w1) (fold_left (B:=nat) f1 l1 c))) = true).
    { intros w1 f1 f2 l1 H1 H2.
      apply (fold_left_inv (fun p : circ => flat_spec (c_spec p) = true)); [exact H2|].
      apply (fold_left_inv (fun p : circ => flat_spec (c_spec p) = true)); [exact H1|exact Hc]. }
    destruct (g || negb (length (c_in (copy_circ sub)) =? 0)) eqn:Eg.
    - (* grouped: the unpacked copy is group-free and stays so *)
      match type of H with context [fold_left ?f ?l ?a] =>
        assert (I1 : gfree_spec (snd (fold_left f l a)) = true);
        [apply (fold_left_inv (fun acc : circ * list comp => gfree_spec (snd acc) = true));
         [intros [w sp] i Hp; simpl in *; match goal with |- context [if ?b then _ else _] => destruct b end;
          simpl; [rewrite gfree_spec_aem|]; exact Hp|]
        |destruct (fold_left f l a) as [w1 sp1]]
      end.
      + simpl snd. match goal with |- context [if ?b then _ else _] => destruct b end.
        * apply unpack_gfree. exact Hs.
        * rewrite gfree_spec_app. simpl. rewrite andb_true_r. apply unpack_gfree. exact Hs.
      + simpl in I1. injection H as <-. unfold app_spec, set_spec. simpl.
        rewrite flat_spec_app, P2.
        * simpl. rewrite andb_true_r.
          change (gfree_spec (shift_spec m sp1) = true). rewrite gfree_spec_shift. exact I1.
        * intros p hm Hp. simpl. rewrite flat_spec_aem. exact Hp.
        * intros p kv Hp. exact Hp.
    - match type of H with context [fold_left ?f ?l ?a] =>
        assert (I1 : flat_spec (snd (fold_left f l a)) = true);
        [apply (fold_left_inv (fun acc : circ * list comp => flat_spec (snd acc) = true));
         [intros [w sp] i Hp; simpl in *; match goal with |- context [if ?b then _ else _] => destruct b end;
          simpl; [rewrite flat_spec_aem|]; exact Hp|]
        |destruct (fold_left f l a) as [w1 sp1]]
      end.
      + simpl snd. match goal with |- context [if ?b then _ else _] => destruct b end.
        * exact Hs.
        * rewrite flat_spec_app. simpl. rewrite andb_true_r. exact Hs.
      + simpl in I1. injection H as <-. unfold app_spec, set_spec. simpl.
        rewrite flat_spec_app, P2, flat_spec_shift.
        * exact I1.
        * intros p hm Hp. simpl. rewrite flat_spec_aem. exact Hp.
        * intros p kv Hp. exact Hp.
  Qed.

  (* ---- every API call keeps groups un-nested ---- *)
  Ltac dbind H a E :=
    match type of H with
    | bind ?x _ = _ => destruct x as [a|] eqn:E; simpl bind in H; [|discriminate]
    end.
  Ltac dif H :=
    match type of H with
    | (if ?b then _ else _) = _ => destruct b; try discriminate
    end.
  Ltac fin H Hc :=
    injection H as <-; unfold app_spec, set_spec; simpl; rewrite ?flat_spec_app, ?Hc; reflexivity.

  Lemma op_bs_flat e (c : circ) m1 m2 r l cv c' :
    flat_spec (c_spec c) = true -> op_bs o e c m1 m2 r l cv = Ok c' -> flat_spec (c_spec c') = true.
  Proof. intros Hc H. unfold op_bs in H. dbind H a Ea. dif H. dbind H b Eb. dbind H u Eu. dif H. dif H; fin H Hc. Qed.
  Lemma op_ps_flat e (c : circ) m phi l c' :
    flat_spec (c_spec c) = true -> op_ps o e c m phi l = Ok c' -> flat_spec (c_spec c') = true.
  Proof. intros Hc H. unfold op_ps in H. dbind H a Ea. dbind H u Eu. dif H; fin H Hc. Qed.
  Lemma op_loss_flat e (c : circ) m l c' :
    flat_spec (c_spec c) = true -> op_loss o e c m l = Ok c' -> flat_spec (c_spec c') = true.
  Proof. intros Hc H. unfold op_loss in H. dbind H a Ea. dbind H u Eu. fin H Hc. Qed.
  Lemma op_barrier_flat (c : circ) ms c' :
    flat_spec (c_spec c) = true -> op_barrier c ms = Ok c' -> flat_spec (c_spec c') = true.
  Proof. intros Hc H. unfold op_barrier in H. dbind H a Ea. fin H Hc. Qed.
  Lemma op_mode_swaps_flat (c : circ) sw c' :
    flat_spec (c_spec c) = true -> op_mode_swaps c sw = Ok c' -> flat_spec (c_spec c') = true.
  Proof. intros Hc H. unfold op_mode_swaps in H. dbind H a Ea. dbind H b Eb. dif H. fin H Hc. Qed.
  Lemma op_herald_flat (c : circ) n im om c' :
    flat_spec (c_spec c) = true -> op_herald c n im om = Ok c' -> flat_spec (c_spec c') = true.
  Proof. intros Hc H. unfold op_herald in H. dbind H a Ea. dbind H b Eb. dif H. dif H. injection H as <-. exact Hc. Qed.
  Lemma op_plus_flat (a b c' : circ) :
    flat_spec (c_spec a) = true -> flat_spec (c_spec b) = true -> op_plus a b = Ok c' -> flat_spec (c_spec c') = true.
  Proof. intros Ha Hb H. unfold op_plus in H. dif H. dif H. injection H as <-. simpl. rewrite flat_spec_app, Ha, Hb. reflexivity. Qed.
  Lemma unpack_groups_flat (c : circ) : flat_spec (c_spec c) = true -> flat_spec (c_spec (unpack_groups c)) = true.
  Proof. intros H. simpl. apply gfree_spec_flat, unpack_gfree, H. Qed.
  Lemma freeze_flat e (c : circ) : flat_spec (c_spec c) = true -> flat_spec (c_spec (freeze e c)) = true.
  Proof. intros H. unfold freeze, freeze_spec. simpl. unfold flat_spec. rewrite forallb_map_eq by apply flat_freeze. exact H. Qed.

  Definition world_flat (w : world) : Prop := forall cid c, wget w cid = Some c -> flat_spec (c_spec c) = true.

  Lemma wget_wset (w : world) id c cid : wget (wset w id c) cid = if Nat.eqb id cid then Some c else wget w cid.
  Proof.
    induction w as [|[i c0] w IH]; simpl.
    - reflexivity.
    - destruct (Nat.eqb_spec i id) as [->|Hne]; simpl.
      + destruct (Nat.eqb_spec id cid); reflexivity.
      + rewrite IH. destruct (Nat.eqb_spec i cid) as [->|Hne']; [|reflexivity].
        destruct (Nat.eqb_spec id cid); [congruence|reflexivity].
  Qed.
  Lemma world_flat_set (w : world) id c : world_flat w -> flat_spec (c_spec c) = true -> world_flat (wset w id c).
  Proof.
    intros Hw Hc cid c0. rewrite wget_wset. destruct (Nat.eqb id cid); [intros E; injection E as <-; exact Hc|apply Hw].
  Qed.
  Lemma upd_flat (w : world) id f :
    world_flat w -> (forall c c', flat_spec (c_spec c) = true -> f c = Ok c' -> flat_spec (c_spec c') = true) ->
    world_flat (fst (upd w id f)).
  Proof.
    intros Hw Hf. unfold upd. destruct (wget w id) as [c|] eqn:E; [|exact Hw].
    destruct (f c) as [c'|x] eqn:Ef; [|exact Hw]. simpl. apply world_flat_set; [exact Hw|].
    eapply Hf; [eapply Hw; exact E|exact Ef].
  Qed.

  Lemma step_flat e (w : world) x : world_flat w -> world_flat (fst (step o e w x)).
  Proof.
    intros Hw. destruct x; simpl.
    - apply world_flat_set; [exact Hw|reflexivity].
    - apply world_flat_set; [exact Hw|reflexivity].
    - apply upd_flat; [exact Hw|]. intros c c' Hc. apply op_bs_flat, Hc.
    - apply upd_flat; [exact Hw|]. intros c c' Hc. apply op_ps_flat, Hc.
    - apply upd_flat; [exact Hw|]. intros c c' Hc. apply op_loss_flat, Hc.
    - apply upd_flat; [exact Hw|]. intros c c' Hc. apply op_barrier_flat, Hc.
    - apply upd_flat; [exact Hw|]. intros c c' Hc. apply op_mode_swaps_flat, Hc.
    - apply upd_flat; [exact Hw|]. intros c c' Hc. apply op_herald_flat, Hc.
    - destruct (wget w sub) as [s|] eqn:Es; [|exact Hw].
      apply upd_flat; [exact Hw|]. intros c c' Hc. apply op_add_flat; [exact Hc|eapply Hw; exact Es].
    - destruct (wget w a) as [ca|] eqn:Ea; [|exact Hw]. destruct (wget w b) as [cb|] eqn:Eb; [|exact Hw].
      destruct (op_plus ca cb) as [c|x] eqn:Ep; [|exact Hw]. simpl.
      apply world_flat_set; [exact Hw|]. eapply op_plus_flat; [eapply Hw; exact Ea|eapply Hw; exact Eb|exact Ep].
    - destruct (wget w a) as [ca|] eqn:Ea; [|exact Hw]. simpl.
      apply world_flat_set; [exact Hw|]. eapply Hw; exact Ea.
    - apply upd_flat; [exact Hw|]. intros c c' Hc E. injection E as <-. apply unpack_groups_flat, Hc.
  Qed.

  Lemma hstep_flat (s : hstate) h : world_flat (snd s) -> world_flat (snd (fst (hstep o s h))).
  Proof.
    destruct s as [[st ds] w]. cbn [snd]. intros Hw.
    destruct h; unfold hstep; cbv beta iota zeta; try exact Hw.
    - destruct (pstep o (st, ds) c). exact Hw.
    - pose proof (step_flat (env_of_store o st) w x Hw) as H. destruct (step o (env_of_store o st) w x). exact H.
    - destruct (wget w a) as [ca|] eqn:Ea; [|exact Hw]. cbn [fst snd].
      apply world_flat_set; [exact Hw|]. apply freeze_flat. eapply Hw; exact Ea.
  Qed.

  Lemma hfinal_flat hs : forall s : hstate, world_flat (snd s) -> world_flat (snd (hfinal o s hs)).
  Proof.
    unfold hfinal. induction hs as [|h hs IH]; intros s H; simpl; [exact H|].
    pose proof (hstep_flat s h H) as H1. destruct (hstep o s h) as [s1 r]. specialize (IH s1 H1).
    destruct (hrun o s1 hs). exact IH.
  Qed.

  Theorem api_specs_flat hs cid c :
    wget (snd (hfinal o hinit hs)) cid = Some c -> flat_spec (c_spec c) = true.
  Proof. apply (hfinal_flat hs hinit). intros i c0 H. discriminate. Qed.

  Lemma read_u_spec (s : hstate) cid c :
    wget (snd s) cid = Some c ->
    snd (hstep o s (RU cid)) =
    match build o (env_of_store o (fst (fst s))) c with Ok u => Ok (OUni u) | Err x => Err x end.
  Proof. destruct s as [[st ds] w]. simpl. intros ->. reflexivity. Qed.

  (* the circuit object a step may assign or mutate *)
  Definition written (h : @hop K) : option nat :=
    match h with
    | HC x => Some (match x with
                    | ONew id _ | OUnitary id _ _ | OBs id _ _ _ _ _ | OPs id _ _ _ | OLoss id _ _
                    | OBarrier id _ | OSwaps id _ | OHerald id _ _ _ | OAdd id _ _ _ | OUnpack id => id
                    | OPlus new _ _ | OCopy new _ => new
                    end)
    | HFreeze new _ => Some new
    | _ => None
    end.

  Lemma upd_other (w : world) id f cid : id <> cid -> wget (fst (upd w id f)) cid = wget w cid.
  Proof.
    intros Hne. unfold upd. destruct (wget w id) as [c|]; [|reflexivity]. destruct (f c); [|reflexivity].
    simpl. rewrite wget_wset. destruct (Nat.eqb_spec id cid); [contradiction|reflexivity].
  Qed.

  Lemma hstep_frame (s : hstate) h cid :
    written h <> Some cid -> wget (snd (fst (hstep o s h))) cid = wget (snd s) cid.
  Proof.
    destruct s as [[st ds] w]. cbn [snd]. intros Hw.
    destruct h; unfold hstep; cbv beta iota zeta; try reflexivity.
    - destruct (pstep o (st, ds) c). reflexivity.
    - assert (G : wget (fst (step o (env_of_store o st) w x)) cid = wget w cid).
      { destruct x; simpl in *;
          try (apply upd_other; congruence);
          try (rewrite wget_wset; match goal with |- context [Nat.eqb ?a ?b] => destruct (Nat.eqb_spec a b) end; congruence).
        - destruct (wget w sub); [apply upd_other; congruence|reflexivity].
        - destruct (wget w a), (wget w b); try reflexivity. destruct (op_plus _ _); [|reflexivity]. simpl.
          rewrite wget_wset. destruct (Nat.eqb_spec new cid); congruence.
        - destruct (wget w a); [|reflexivity]. simpl. rewrite wget_wset. destruct (Nat.eqb_spec new cid); congruence. }
      destruct (step o (env_of_store o st) w x). exact G.
    - destruct (wget w a); [|reflexivity]. cbn [fst snd]. rewrite wget_wset.
      simpl in Hw. destruct (Nat.eqb_spec new cid); congruence.
  Qed.

  Lemma hfinal_frame hs cid : forall s : hstate,
    Forall (fun h => written h <> Some cid) hs -> wget (snd (hfinal o s hs)) cid = wget (snd s) cid.
  Proof.
    unfold hfinal. induction hs as [|h hs IH]; intros s H; simpl; [reflexivity|].
    inversion H as [|? ? Hh Hhs]; subst.
    pose proof (hstep_frame s h cid Hh) as H1. destruct (hstep o s h) as [s1 r]. specialize (IH s1 Hhs).
    destruct (hrun o s1 hs). simpl in *. congruence.
  Qed.

  (* a frozen copy keeps the unitary of the moment it was taken: whatever
     happens afterwards to parameters, dictionaries and the other circuits, a
     U_full read of the copy returns what the original returned then *)
  Theorem frozen_copy_keeps_moment (s : hstate) new a ca hs :
    wget (snd s) a = Some ca ->
    Forall (fun h => written h <> Some new) hs ->
    let s1 := fst (hstep o s (HFreeze new a)) in
    snd (hstep o (hfinal o s1 hs) (RU new)) = snd (hstep o s (RU a)) /\
    snd (hstep o (hfinal o s1 hs) (RParams new)) = Ok (ONats []).
  Proof.
    intros Ha Hhs s1.
    assert (E1 : wget (snd s1) new = Some (freeze (env_of_store o (fst (fst s))) ca)).
    { subst s1. destruct s as [[st ds] w]. simpl in *. rewrite Ha. simpl. rewrite wget_wset, Nat.eqb_refl. reflexivity. }
    pose proof (hfinal_frame hs new s1 Hhs) as E2. rewrite E1 in E2.
    split.
    - rewrite (read_u_spec _ _ _ E2), (read_u_spec _ _ _ Ha).
      rewrite <- (live_binding (env_of_store o (fst (fst s))) _ ca). reflexivity.
    - destruct (hfinal o s1 hs) as [[st' ds'] w']. simpl in *. rewrite E2.
      rewrite (proj1 (frozen_lists_none _ ca)). reflexivity.
  Qed.

  (* live binding along a history: as long as the circuit object itself is not
     touched, a U_full read after ANY sequence of parameter / dictionary /
     other-circuit calls is the compilation under the store of that moment *)
  Theorem live_read_after_history (s : hstate) cid c hs :
    wget (snd s) cid = Some c ->
    Forall (fun h => written h <> Some cid) hs ->
    let s' := hfinal o s hs in
    snd (hstep o s' (RU cid)) =
    match build o (env_of_store o (fst (fst s'))) c with Ok u => Ok (OUni u) | Err x => Err x end.
  Proof.
    intros Hc Hhs s'. apply read_u_spec. unfold s'. rewrite (hfinal_frame hs cid s Hhs). exact Hc.
  Qed.
End ParamP.

(* ================= 7. the reals; an executable toy instance ================= *)
From Coq Require Import Reals Lra.
From LW Require Import Base.RInst.

Theorem bounds_invariant_reals (hs : list (@hop R)) (p : @param R) (x : R * R * R) :
  In p (fst (fst (hfinal rops hinit hs))) -> p_val p = VNum x ->
  (forall m, p_min p = Some m -> (m <= t1 x)%R) /\ (forall m, p_max p = Some m -> (t1 x <= m)%R).
Proof.
  intros Hin Hv. destruct (bounds_invariant (o:=rops) hs) as [H _].
  unfold store_ok, h_store in H. rewrite Forall_forall in H. specialize (H p Hin).
  unfold p_ok in H. rewrite Hv in H. destruct H as [H1 H2].
  split; intros m E; apply rleb_true; [apply H1|apply H2]; exact E.
Qed.

(* integers as scalars: enough to RUN histories inside Coq for the examples
   (reflectivity 0 or 1 has integer amplitudes) *)
Definition zops : ops Z :=
  mkOps Z 0%Z 1%Z Z.add Z.mul Z.sub Z.opp (fun x => x) (fun x => x) Z.eqb Z.leb (fun z => z).

Definition c10_example_history : list (@hop Z) :=
  [ HP (PNew (VNum (0, 0, 1))%Z (BdList [BNum 0%Z; BNum 1%Z]) LabNone);
    HC (ONew 0 2); HC (OBs 0 0%Z None (Ref 0) (Lit (0, 1, 0)%Z) Rx);
    HC (ONew 1 3); HC (OAdd 1 0 1%Z true);
    HP (PSet 0 (VNum (2, 0, 0))%Z);                           (* rejected: above the maximum *)
    HP (PSetMax 0 BNone); HP (PSet 0 (VNum (2, 0, 0))%Z);     (* accepted now; invalid for a beam splitter *)
    HFreeze 2 1; RParams 1; RParams 2; RU 1; RU 2; RGet 0 ].

Lemma C10_example :
  map (fun rs => match fst rs with
                 | Ok (ONats l) => Some (inl l)
                 | Ok (OVal (VNum x)) => Some (inr (t1 x))
                 | Ok _ => Some (inl [])
                 | Err e => None
                 end) (snd (hrun zops hinit c10_example_history))
  = [Some (inl []); Some (inl []); Some (inl []); Some (inl []); Some (inl []); None; Some (inl []); Some (inl []);
     Some (inl []); Some (inl [0]); Some (inl []); None; None; Some (inr 2%Z)] /\
  flat_map unit_refs (c_spec (match wget (snd (hfinal zops hinit c10_example_history)) 1 with
                              | Some c => c | None => new_circ 0 end)) = [0].
Proof. vm_compute. split; reflexivity. Qed.
