(* The pool of circuits (Model/World.v): frame properties (property C08). *)
From Coq Require Import ZArith List Bool Arith Lia.
From LW Require Import Base.Sx Base.Num Base.Mat Model.Circuit Model.World.
Import ListNotations.

Section WorldP.
  Context {K : Type} (o : ops K).
  Notation circ := (@circ K).
  Notation world := (@world K).
  Notation op := (@op K).

  Lemma wget_wset_same (w : world) id c : wget (wset w id c) id = Some c.
  Proof.
    induction w as [|[i c'] w IH]; simpl; [rewrite Nat.eqb_refl; reflexivity|].
    destruct (Nat.eqb_spec i id) as [->|Hne]; simpl; [rewrite Nat.eqb_refl; reflexivity|].
    apply Nat.eqb_neq in Hne. rewrite Hne. exact IH.
  Qed.

  Lemma wget_wset_other (w : world) id j c : j <> id -> wget (wset w id c) j = wget w j.
  Proof.
    intros Hj. induction w as [|[i c'] w IH]; simpl.
    - replace (id =? j) with false by (symmetry; apply Nat.eqb_neq; lia). reflexivity.
    - destruct (Nat.eqb_spec i id) as [->|Hne]; simpl.
      + replace (id =? j) with false by (symmetry; apply Nat.eqb_neq; lia). reflexivity.
      + destruct (i =? j); [reflexivity|exact IH].
  Qed.

  (* the only object a call may change *)
  Definition target (x : op) : nat :=
    match x with
    | ONew id _ | OUnitary id _ _ | OBs id _ _ _ _ _ | OPs id _ _ _ | OLoss id _ _
    | OBarrier id _ | OSwaps id _ | OHerald id _ _ _ | OAdd id _ _ _ | OUnpack id => id
    | OPlus new _ _ | OCopy new _ => new
    end.

  Lemma upd_frame (w : world) id f j : j <> id -> wget (fst (upd w id f)) j = wget w j.
  Proof.
    intros Hj. unfold upd. destruct (wget w id) as [c|]; [|reflexivity].
    destruct (f c); simpl; [apply wget_wset_other; exact Hj|reflexivity].
  Qed.

  Lemma upd_err (w : world) id f x : snd (upd w id f) = Err x -> fst (upd w id f) = w.
  Proof.
    unfold upd. destruct (wget w id) as [c|]; [|reflexivity].
    destruct (f c); simpl; [discriminate|reflexivity].
  Qed.

  (* a call changes no object other than its target: in particular the circuit
     passed to add, the operands of +, the source of copy *)
  Theorem step_frame e (w : world) (x : op) j :
    j <> target x -> wget (fst (step o e w x)) j = wget w j.
  Proof.
    intros Hj. destruct x; simpl in *; try (apply upd_frame; exact Hj);
      try (apply wget_wset_other; exact Hj).
    - destruct (wget w sub); [apply upd_frame; exact Hj|reflexivity].
    - destruct (wget w a), (wget w b); try reflexivity.
      destruct (op_plus c c0); simpl; [apply wget_wset_other; exact Hj|reflexivity].
    - destruct (wget w a); simpl; [apply wget_wset_other; exact Hj|reflexivity].
  Qed.

  (* a call that raises changes nothing at all *)
  Theorem step_err_unchanged e (w : world) (x : op) err :
    snd (step o e w x) = Err err -> fst (step o e w x) = w.
  Proof.
    destruct x; simpl; try (apply upd_err); try discriminate.
    - destruct (wget w sub); [apply upd_err|reflexivity].
    - destruct (wget w a), (wget w b); try reflexivity.
      destruct (op_plus c c0); simpl; [discriminate|reflexivity].
    - destruct (wget w a); simpl; [discriminate|reflexivity].
  Qed.

  (* over whole histories: an object never targeted keeps its state *)
  Theorem run_frame e (p : list op) : forall (w : world) j,
    (forall x, In x p -> j <> target x) -> wget (fst (run o e w p)) j = wget w j.
  Proof.
    induction p as [|x p IH]; intros w j H; simpl; [reflexivity|].
    destruct (step o e w x) as [w' r] eqn:E. destruct (run o e w' p) as [w'' rs] eqn:E'. simpl.
    assert (Hw : w'' = fst (run o e w' p)) by (rewrite E'; reflexivity).
    rewrite Hw, IH by (intros y Hy; apply H; right; exact Hy).
    assert (Hw' : w' = fst (step o e w x)) by (rewrite E; reflexivity).
    rewrite Hw'. apply step_frame. apply H. left. reflexivity.
  Qed.

  (* editing a sub-circuit after it was added does not change the parent *)
  Corollary parent_independent_of_later_sub_edits e (w : world) parent (later : list op) :
    (forall x, In x later -> parent <> target x) ->
    wget (fst (run o e w later)) parent = wget w parent.
  Proof. apply run_frame. Qed.
End WorldP.
