(* C01 end to end: construction programs over real parameter values. *)
From Coq Require Import Reals Lra ZArith List Bool Arith Lia.
From LW Require Import Base.Sx Base.Num Base.Sums Base.Mat Base.Embed Base.RInst
     Model.Circuit Proofs.CompileP Proofs.CircuitP.
Import ListNotations.
Open Scope nat_scope.

(* ---- generic part: values stay compilable ---- *)
Section Vals.
  Context {K : Type} {o : ops K} {SRK : StarRing o}.
  Notation comp := (@comp K).
  Notation circ := (@circ K).

  Definition vinv (e : env (K:=K)) (c : circ) : Prop := Forall (vals_ok (o:=o) e) (c_spec c).

  Lemma cadd_list_ok e sp : Forall (vals_ok (o:=o) e) sp -> forall n U,
    exists n' U', cadd_list o e sp (Ok (n, U)) = Ok (n', U').
  Proof.
    induction 1 as [|c sp Hc _ IH]; intros n U; [do 2 eexists; reflexivity|].
    destruct (cadd_ok e c n U Hc) as (n1 & U1 & E). rewrite cadd_list_cons, E. apply IH.
  Qed.

  Lemma vinv_app e (c : circ) sp : vinv e c -> Forall (vals_ok (o:=o) e) sp -> vinv e (app_spec c sp).
  Proof. unfold vinv, app_spec, set_spec. simpl. intros H1 H2. apply Forall_app. split; assumption. Qed.

  Ltac dbind H a E :=
    match type of H with
    | bind ?x _ = _ => destruct x as [a|] eqn:E; simpl in H; [|discriminate]
    end.
  Ltac dif H E :=
    match type of H with
    | (if ?b then _ else _) = _ => destruct b eqn:E; try discriminate
    end.

  Lemma check_loss_ok e l u : check_loss o e l = Ok u -> in01 o (t1 (getv e l)) = true.
  Proof. unfold check_loss. destruct (in01 o (t1 (getv e l))); [reflexivity|discriminate]. Qed.

  Lemma op_bs_vinv e c m1 m2 x l cv c' :
    vinv e c -> op_bs o e c m1 m2 (Lit x) l cv = Ok c' -> vinv e c'.
  Proof.
    intros Hi H. unfold op_bs in H. dbind H a Ea. dif H Eab. dbind H b Eb. dbind H u Eu. dif H Ev.
    apply check_loss_ok in Eu. apply negb_false_iff in Ev. simpl in Ev.
    destruct (loss_positive o l); injection H as <-.
    - apply vinv_app; [apply vinv_app; [assumption|]|]; repeat (constructor; try assumption).
    - apply vinv_app; [assumption|]; repeat (constructor; try assumption).
  Qed.

  Lemma op_ps_vinv e c m phi l c' : vinv e c -> op_ps o e c m phi l = Ok c' -> vinv e c'.
  Proof.
    intros Hi H. unfold op_ps in H. dbind H a Ea. dbind H u Eu. apply check_loss_ok in Eu.
    destruct (loss_positive o l); injection H as <-.
    - apply vinv_app; [apply vinv_app; [assumption|]|]; repeat (constructor; try assumption); exact I.
    - apply vinv_app; [assumption|]; repeat (constructor; try assumption); exact I.
  Qed.

  Lemma op_loss_vinv e c m l c' : vinv e c -> op_loss o e c m l = Ok c' -> vinv e c'.
  Proof.
    intros Hi H. unfold op_loss in H. dbind H a Ea. dbind H u Eu. apply check_loss_ok in Eu.
    injection H as <-. apply vinv_app; [assumption|]; repeat (constructor; try assumption).
  Qed.

  Lemma op_barrier_vinv e c ms c' : vinv e c -> op_barrier c ms = Ok c' -> vinv e c'.
  Proof.
    intros Hi H. unfold op_barrier in H. dbind H r Er. injection H as <-.
    apply vinv_app; [assumption|]; repeat constructor.
  Qed.

  Lemma op_mode_swaps_vinv e c sw c' : vinv e c -> op_mode_swaps c sw = Ok c' -> vinv e c'.
  Proof.
    intros Hi H. unfold op_mode_swaps in H. dbind H ks Ek. dbind H vs Ev. dif H Es. injection H as <-.
    apply vinv_app; [assumption|]; repeat constructor.
  Qed.

  Lemma op_add_unitary_vinv e (c : circ) k V mode c' :
    c_int c = [] -> vinv e c -> op_add o c (unitary_circ k V) mode false = Ok c' ->
    vinv e c' /\ c_int c' = [].
  Proof.
    intros Hint Hi H. apply op_add_simple in H; try reflexivity; try assumption.
    destruct H as (m & -> & Hle & ->). split; [|exact Hint].
    apply vinv_app; [assumption|]. simpl. repeat constructor.
  Qed.
End Vals.

(* ---- real parameter values ---- *)
Definition rbs (r : R) : val (K:=R) := Lit (r, sqrt r, sqrt (1 - r))%R.
Definition rloss (l : R) : val (K:=R) := Lit (l, sqrt (1 - l), sqrt l)%R.
Definition rphase (phi : R) : val (K:=R) := Lit (phi, cos phi, sin phi)%R.
Definition renv : env (K:=R) := fun _ => (0, 0, 0)%R.

Lemma in01_R x : in01 rops x = true -> (0 <= x <= 1)%R.
Proof.
  unfold in01. intros H. apply andb_true_iff in H as [H1 H2].
  apply (proj1 (rleb_true _ _)) in H1. apply (proj1 (rleb_true _ _)) in H2.
  change (k0 rops) with 0%R in H1. change (k1 rops) with 1%R in H2. lra.
Qed.

Lemma rbs_ok r : val_ok (o:=rops) renv (rbs r).
Proof.
  unfold val_ok, rbs, unit_amp. simpl. intros H. apply in01_R in H.
  unfold t1, t2, t3 in *. simpl in *. rewrite !sqrt_sqrt by lra. lra.
Qed.

Lemma rloss_ok l : val_ok (o:=rops) renv (rloss l).
Proof.
  unfold val_ok, rloss, unit_amp. simpl. intros H. apply in01_R in H.
  unfold t1, t2, t3 in *. simpl in *. rewrite !sqrt_sqrt by lra. lra.
Qed.

Lemma rphase_ok phi : ph_ok (o:=rops) renv (rphase phi).
Proof.
  unfold ph_ok, rphase, unit_amp. simpl. unfold t2, t3. simpl.
  pose proof (sin2_cos2 phi) as H. unfold Rsqr in H. lra.
Qed.

(* ---- construction programs ---- *)
Inductive prim : Type :=
| PBs (m1 : Z) (m2 : option Z) (r loss : R) (cv : conv)
| PPs (m : Z) (phi loss : R)
| PLoss (m : Z) (loss : R)
| PBarrier (ms : option (list Z))
| PSwaps (sw : list (Z * Z))
| PUnitary (k : nat) (V : mat (K:=C)) (mode : Z).      (* circuit.add(Unitary(V), mode) *)

Definition prim_call (c : circ (K:=R)) (p : prim) : res (circ (K:=R)) :=
  match p with
  | PBs m1 m2 r l cv => op_bs rops renv c m1 m2 (rbs r) (rloss l) cv
  | PPs m phi l => op_ps rops renv c m (rphase phi) (rloss l)
  | PLoss m l => op_loss rops renv c m (rloss l)
  | PBarrier ms => op_barrier c ms
  | PSwaps sw => op_mode_swaps c sw
  | PUnitary k V mode => op_add rops c (unitary_circ k V) mode false
  end.
(* a rejected call leaves the circuit as it was *)
Definition prim_step (c : circ (K:=R)) (p : prim) : circ (K:=R) :=
  match prim_call c p with Ok c' => c' | Err _ => c end.
Definition blocks_unitary (p : prim) : Prop :=
  match p with PUnitary k V _ => unitary cops k V | _ => True end.

Definition good (n : nat) (c : circ (K:=R)) : Prop :=
  c_n c = n /\ c_int c = [] /\ inv (o:=rops) renv c /\ vinv (o:=rops) renv c.

Lemma prim_step_good n c p : blocks_unitary p -> good n c -> good n (prim_step c p).
Proof.
  intros Hb (Hn & Hint & Hi & Hv). unfold prim_step.
  destruct (prim_call c p) as [c'|] eqn:E; [|repeat split; assumption].
  destruct p as [m1 m2 r l cv|m phi l|m l|ms|sw|k V mode]; simpl in E.
  - destruct (op_bs_inv renv c m1 m2 (rbs r) (rloss l) cv c' (rbs_ok r) (rloss_ok l) Hi E) as [H1 H2].
    repeat split; [congruence| |assumption|eapply op_bs_vinv; eassumption].
    unfold op_bs in E. clear -E Hint.
    repeat match type of E with
           | bind ?x _ = _ => destruct x; simpl in E; [|discriminate]
           | (if ?b then _ else _) = _ => destruct b; try discriminate
           end; injection E as <-; exact Hint.
  - destruct (op_ps_inv renv c m (rphase phi) (rloss l) c' (rphase_ok phi) (rloss_ok l) Hi E) as [H1 H2].
    repeat split; [congruence| |assumption|eapply op_ps_vinv; eassumption].
    unfold op_ps in E. clear -E Hint.
    repeat match type of E with
           | bind ?x _ = _ => destruct x; simpl in E; [|discriminate]
           | (if ?b then _ else _) = _ => destruct b; try discriminate
           end; injection E as <-; exact Hint.
  - destruct (op_loss_inv renv c m (rloss l) c' (rloss_ok l) Hi E) as [H1 H2].
    repeat split; [congruence| |assumption|eapply op_loss_vinv; eassumption].
    unfold op_loss in E. clear -E Hint.
    repeat match type of E with
           | bind ?x _ = _ => destruct x; simpl in E; [|discriminate]
           end; injection E as <-; exact Hint.
  - destruct (op_barrier_inv renv c ms c' Hi E) as [H1 H2].
    repeat split; [congruence| |assumption|eapply op_barrier_vinv; eassumption].
    unfold op_barrier in E. clear -E Hint.
    repeat match type of E with
           | bind ?x _ = _ => destruct x; simpl in E; [|discriminate]
           end; injection E as <-; exact Hint.
  - destruct (op_mode_swaps_inv renv c sw c' Hi E) as [H1 H2].
    repeat split; [congruence| |assumption|eapply op_mode_swaps_vinv; eassumption].
    unfold op_mode_swaps in E. clear -E Hint.
    repeat match type of E with
           | bind ?x _ = _ => destruct x; simpl in E; [|discriminate]
           | (if ?b then _ else _) = _ => destruct b; try discriminate
           end; injection E as <-; exact Hint.
  - simpl in Hb. destruct (op_add_unitary_inv renv c k V mode c' Hint Hb Hi E) as [H1 H2].
    destruct (op_add_unitary_vinv renv c k V mode c' Hint Hv E) as [H3 H4].
    repeat split; [congruence|assumption|assumption|assumption].
Qed.

Lemma prog_good n prog :
  Forall blocks_unitary prog -> good n (fold_left prim_step prog (new_circ n)).
Proof.
  intros H. assert (G : good n (new_circ (K:=R) n)) by (repeat split; constructor).
  revert G. generalize (new_circ (K:=R) n). induction H as [|p prog Hp _ IH]; intros c G; simpl; [exact G|].
  apply IH. apply prim_step_good; assumption.
Qed.

Theorem c01_main n prog :
  Forall blocks_unitary prog ->
  let c := fold_left prim_step prog (new_circ n) in
  c_n c = n /\
  exists U_full,
    build rops renv c = Ok (n + n_loss_list (c_spec c), U_full) /\
    unitary cops (n + n_loss_list (c_spec c)) U_full /\
    meq n U_full (prod_small_list (o:=rops) renv n (c_spec c) (mid cops)).
Proof.
  intros Hb c. destruct (prog_good n prog Hb) as (Hn & Hint & Hi & Hv). fold c in Hn, Hint, Hi, Hv.
  split; [exact Hn|].
  destruct (cadd_list_ok renv (c_spec c) Hv (c_n c) (mid (co rops))) as (n' & U' & E).
  assert (B : build rops renv c = Ok (n', U')) by (unfold build; rewrite E; reflexivity).
  destruct (build_unitary renv c n' U' Hi B) as [Hd HU].
  pose proof (build_leading_block renv c n' U' Hi B) as HL.
  rewrite Hn in *. subst n'. exists U'. split; [exact B|]. split; [exact HU|exact HL].
Qed.
