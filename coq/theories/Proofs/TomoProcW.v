(* Witnesses for C16 computed in Q(sqrt 2)(i) by vm_compute:
   - regression theorems about the definitions of the PINNED tree (findings F8, F9, repaired in
     /repo by daa21e7 and 00f76fe): [*_pinned_refuted_w];
   - the same inputs through the repaired definitions (non-vacuity of the general theorems). *)
From Coq Require Import ZArith List Bool Arith Lia Permutation.
From LW Require Import Base.Sx Base.Num Base.Sums Base.Mat Base.QI2 Model.Tomo Proofs.TomoStateP Proofs.TomoProcP Proofs.TomoProcG.
Import ListNotations.

(* ------------------------------------------------------------- witnesses (vm_compute) *)
From Coq Require QArith Qcanon.

Section Decide.
  Context {K : Type} {o : ops K} {UI : UnitInv o}.
  Lemma meq_of_forallb n (A B : @mat K) :
    forallb (fun i => forallb (fun j => keqb o (A i j) (B i j)) (seq 0 n)) (seq 0 n) = true -> meq n A B.
  Proof.
    intros H i j Hi Hj. rewrite forallb_forall in H.
    assert (Hi' : In i (seq 0 n)) by (apply in_seq; lia). specialize (H i Hi'). rewrite forallb_forall in H.
    assert (Hj' : In j (seq 0 n)) by (apply in_seq; lia). apply ui_eqb. exact (H j Hj').
  Qed.
  Lemma neq_of_keqb (x y : K) : keqb o x y = false -> x <> y.
  Proof. intros H E. apply ui_eqb in E. congruence. Qed.
End Decide.

Notation QI2 := ((Qcanon.Qc * Qcanon.Qc) * (Qcanon.Qc * Qcanon.Qc))%type.

(* the S gate and its noiseless MLE data vector *)
Definition w_S : nat -> nat -> QI2 := smat qi2ops qi2_i.
Definition w_D : nat -> nat -> QI2 := kron qi2ops 2 (pauli_mat qi2ops qi2_i PX) (pauli_mat qi2ops qi2_i PY).

Lemma w_S_unitary : unitary qi2ops 2 w_S.
Proof. split; apply meq_of_forallb; vm_compute; reflexivity. Qed.

Definition res_get {A} (d : A) (r : res A) : A := match r with Ok x => x | Err _ => d end.
Definition w_nij : list ((instr * mstr) * QI2) :=
  res_get [] (mle_nij qi2ops 1 (req_canonical 1 false)
                (process_ideal qi2ops qi2_i qi2_h 1 w_S (istrings mle_inputs 1) (req_canonical 1 false))).
Definition w_nv : list QI2 := res_get [] (n_vec_from_data qi2ops 1 w_nij).

Lemma w_nij_eq :
  mle_nij qi2ops 1 (req_canonical 1 false)
          (process_ideal qi2ops qi2_i qi2_h 1 w_S (istrings mle_inputs 1) (req_canonical 1 false)) = Ok w_nij.
Proof. vm_compute. reflexivity. Qed.
Lemma w_nv_eq : n_vec_from_data qi2ops 1 w_nij = Ok w_nv.
Proof. vm_compute. reflexivity. Qed.

Lemma w_D_hermitian : hermitian qi2ops 4 w_D.
Proof. apply meq_of_forallb. vm_compute. reflexivity. Qed.
Lemma w_grad_wrong :
  hs_inner qi2ops 4 (gradient_pinned qi2ops qi2_i 1 (mle_start qi2ops 1) w_nv) w_D <> dir_deriv_pinned qi2ops qi2_i 1 (mle_start qi2ops 1) w_nv w_D.
Proof. apply neq_of_keqb. vm_compute. reflexivity. Qed.
Lemma w_grad_conj_right :
  hs_inner qi2ops 4 (mconj qi2ops (gradient_pinned qi2ops qi2_i 1 (mle_start qi2ops 1) w_nv)) w_D = dir_deriv_pinned qi2ops qi2_i 1 (mle_start qi2ops 1) w_nv w_D.
Proof. apply (proj1 (ui_eqb (o:=qi2ops) _ _)). vm_compute. reflexivity. Qed.

(* F8 (pinned tree): on the noiseless data of the S gate, at the starting point of pgdb, the matrix that
   the old [_gradient] returned is NOT the gradient of the cost (its Hilbert-Schmidt inner product with
   the Hermitian direction X (x) Y differs from the directional derivative); its complex
   conjugate is. *)
Theorem mle_gradient_pinned_refuted_w :
  exists nij nv,
    mle_nij qi2ops 1 (req_canonical 1 false)
            (process_ideal qi2ops qi2_i qi2_h 1 w_S (istrings mle_inputs 1) (req_canonical 1 false)) = Ok nij /\
    n_vec_from_data qi2ops 1 nij = Ok nv /\
    hermitian qi2ops 4 w_D /\
    hs_inner qi2ops 4 (gradient_pinned qi2ops qi2_i 1 (mle_start qi2ops 1) nv) w_D
      <> dir_deriv_pinned qi2ops qi2_i 1 (mle_start qi2ops 1) nv w_D /\
    hs_inner qi2ops 4 (mconj qi2ops (gradient_pinned qi2ops qi2_i 1 (mle_start qi2ops 1) nv)) w_D
      = dir_deriv_pinned qi2ops qi2_i 1 (mle_start qi2ops 1) nv w_D.
Proof.
  exists w_nij, w_nv. split; [exact w_nij_eq|]. split; [exact w_nv_eq|]. split; [exact w_D_hermitian|].
  split; [exact w_grad_wrong|exact w_grad_conj_right].
Qed.

(* Ry with cos = 3/5, sin = 4/5: real, not symmetric *)
Definition qz (a : Z) (b : positive) : QArith_base.Q := QArith_base.Qmake a b.
Definition w_Ry : nat -> nat -> QI2 :=
  m22 qi2ops (qi2_of (qz 3 5) (qz 0 1) (qz 0 1) (qz 0 1)) (qi2_of (qz (-4) 5) (qz 0 1) (qz 0 1) (qz 0 1))
             (qi2_of (qz 4 5) (qz 0 1) (qz 0 1) (qz 0 1)) (qi2_of (qz 3 5) (qz 0 1) (qz 0 1) (qz 0 1)).

Lemma w_Ry_unitary : unitary qi2ops 2 w_Ry.
Proof. split; apply meq_of_forallb; vm_compute; reflexivity. Qed.

Theorem li_eq_reference_pinned_refuted_w :
  forall solve req, pinv_contract (o:=qi2ops) solve -> Permutation req (req_canonical 1 false) ->
  exists J, li_process_pinned qi2ops qi2_i solve 1 req (process_ideal qi2ops qi2_i qi2_h 1 w_Ry (istrings li_inputs 1) req) = Ok J /\
            ~ meq 4 J (choi_from_unitary qi2ops 2 w_Ry).
Proof.
  intros solve req Hs Hp.
  destruct (li_pinned_returns_choi_of_transpose (TR:=qi2_tomo) solve w_Ry req Hs (proj1 w_Ry_unitary) Hp) as [J [E M]].
  exists J. split; [exact E|]. intros M'.
  assert (H : choi_T (o:=qi2ops) w_Ry 0 1 = choi_from_unitary qi2ops 2 w_Ry 0 1).
  { rewrite <- (M 0 1) by lia. apply M'; lia. }
  revert H. apply neq_of_keqb. vm_compute. reflexivity.
Qed.

(* ---- the same witnesses through the REPAIRED definitions ---- *)
Lemma w_grad_repaired :
  hs_inner qi2ops 4 (gradient qi2ops qi2_i 1 (mle_start qi2ops 1) w_nv) w_D
  = dir_deriv qi2ops qi2_i 1 (mle_start qi2ops 1) w_nv w_D.
Proof. apply (proj1 (ui_eqb (o:=qi2ops) _ _)). vm_compute. reflexivity. Qed.

(* a concrete realisation of pinv for the one-qubit LI system: the left inverse L1 *)
Definition w_solve (N : nat) (T : nat -> nat -> QI2) (b : nat -> QI2) : nat -> QI2 :=
  fun x => sumn qi2ops 16 (fun r => kmul qi2ops (L1 (o:=qi2ops) (ii:=qi2_i) (hh:=qi2_h) x r) (b r)).

Lemma w_li_Ry_computed :
  match li_process qi2ops qi2_i w_solve 1 (rev (req_canonical 1 false))
          (process_ideal qi2ops qi2_i qi2_h 1 w_Ry (istrings li_inputs 1) (rev (req_canonical 1 false))) with
  | Ok J => forallb (fun i => forallb (fun j => keqb qi2ops (J i j) (choi_from_unitary qi2ops 2 w_Ry i j)) (seq 0 4)) (seq 0 4)
  | Err _ => false
  end = true.
Proof. vm_compute. reflexivity. Qed.

Lemma w_Ry_not_symmetric : w_Ry 0 1 <> w_Ry 1 0.
Proof. apply neq_of_keqb. vm_compute. reflexivity. Qed.

(* 1/(d+1) exists in Q(sqrt 2)(i) for d = 2 and d = 4 *)
Lemma w_third : kmul qi2ops (kadd qi2ops (ofnat qi2ops (2 ^ 1)) (k1 qi2ops)) (qi2_of (qz 1 3) (qz 0 1) (qz 0 1) (qz 0 1)) = k1 qi2ops.
Proof. apply (proj1 (ui_eqb (o:=qi2ops) _ _)). vm_compute. reflexivity. Qed.
Lemma w_fifth : kmul qi2ops (kadd qi2ops (ofnat qi2ops (2 ^ 2)) (k1 qi2ops)) (qi2_of (qz 1 5) (qz 0 1) (qz 0 1) (qz 0 1)) = k1 qi2ops.
Proof. apply (proj1 (ui_eqb (o:=qi2ops) _ _)). vm_compute. reflexivity. Qed.

(* ---- the pinned LI agreed with the reference exactly for symmetric V ---- *)
Section PinnedPartial.
  Context {K : Type} {o : ops K} {ii hh : K} {TR : TomoRing o ii hh}.
  Theorem li_pinned_symmetric solve (V : nat -> nat -> K) req :
    pinv_contract (o:=o) solve -> lunit o 2 V -> Permutation req (req_canonical 1 false) ->
    meq 2 (mtrans V) V ->
    exists J, li_process_pinned o ii solve 1 req (process_ideal o ii hh 1 V (istrings li_inputs 1) req) = Ok J /\
              meq 4 J (choi_from_unitary o 2 V).
  Proof.
    intros Hs HV Hp Hsym.
    destruct (li_pinned_returns_choi_of_transpose (TR:=TR) solve V req Hs HV Hp) as [J [E M]].
    exists J. split; [exact E|]. eapply meq_trans; [exact M|]. apply choi_T_symmetric. exact Hsym.
  Qed.
End PinnedPartial.

Theorem mle_gradient_pinned_refuted_V :
  exists (V D : nat -> nat -> QI2) nij nv,
    unitary qi2ops 2 V /\
    mle_nij qi2ops 1 (req_canonical 1 false)
            (process_ideal qi2ops qi2_i qi2_h 1 V (istrings mle_inputs 1) (req_canonical 1 false)) = Ok nij /\
    n_vec_from_data qi2ops 1 nij = Ok nv /\
    hermitian qi2ops 4 D /\
    hs_inner qi2ops 4 (gradient_pinned qi2ops qi2_i 1 (mle_start qi2ops 1) nv) D
      <> dir_deriv_pinned qi2ops qi2_i 1 (mle_start qi2ops 1) nv D /\
    hs_inner qi2ops 4 (mconj qi2ops (gradient_pinned qi2ops qi2_i 1 (mle_start qi2ops 1) nv)) D
      = dir_deriv_pinned qi2ops qi2_i 1 (mle_start qi2ops 1) nv D.
Proof.
  exists w_S, w_D, w_nij, w_nv. split; [exact w_S_unitary|]. split; [exact w_nij_eq|]. split; [exact w_nv_eq|].
  split; [exact w_D_hermitian|]. split; [exact w_grad_wrong|exact w_grad_conj_right].
Qed.
