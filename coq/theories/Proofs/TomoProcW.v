(* Witnesses for C16 computed in Q(sqrt 2)(i) by vm_compute (refutations F8, F9). *)
From Coq Require Import ZArith List Bool Arith Lia Permutation.
From LW Require Import Base.Sx Base.Num Base.Sums Base.Mat Base.QI2 Model.Tomo Proofs.TomoStateP Proofs.TomoProcP.
Import ListNotations.

(* ------------------------------------------------------------- witnesses (vm_compute) *)
From Coq Require QArith Qcanon.

Section Decide.
  Context {K : Type} {o : ops K} {UI : UnitInv o}.
  Lemma meq_of_forallb n (A B : @mat K) :
    forallb (fun i => forallb (fun j => keqb o (A i j) (B i j)) (seq 0 n)) (seq 0 n) = true -> meq n A B.
  Proof.
    intros H i j Hi Hj. rewrite forallb_forall in H.
    assert (Hi' : In i (seq 0 n)) by (apply in_seq; lia). specialize (H i Hi'). rewrite forallb_forall in H.
    assert (Hj' : In j (seq 0 n)) by (apply in_seq; lia). apply ui_eqb. exact (H j Hj').
  Qed.
  Lemma neq_of_keqb (x y : K) : keqb o x y = false -> x <> y.
  Proof. intros H E. apply ui_eqb in E. congruence. Qed.
End Decide.

Notation QI2 := ((Qcanon.Qc * Qcanon.Qc) * (Qcanon.Qc * Qcanon.Qc))%type.

(* the S gate and its noiseless MLE data vector *)
Definition w_S : nat -> nat -> QI2 := smat qi2ops qi2_i.
Definition w_D : nat -> nat -> QI2 := kron qi2ops 2 (pauli_mat qi2ops qi2_i PX) (pauli_mat qi2ops qi2_i PY).

Lemma w_S_unitary : unitary qi2ops 2 w_S.
Proof. split; apply meq_of_forallb; vm_compute; reflexivity. Qed.

Definition w_check : bool :=
  match mle_nij qi2ops 1 (req_canonical 1 false)
                (process_ideal qi2ops qi2_i qi2_h 1 w_S (istrings mle_inputs 1) (req_canonical 1 false)) with
  | Ok nij =>
      match n_vec_from_data qi2ops 1 nij with
      | Ok nv =>
          forallb (fun i => forallb (fun j => keqb qi2ops (madj qi2ops w_D i j) (w_D i j)) (seq 0 4)) (seq 0 4)
          && negb (keqb qi2ops (hs_inner qi2ops 4 (gradient qi2ops qi2_i 1 (mle_start qi2ops 1) nv) w_D)
                               (dir_deriv qi2ops qi2_i 1 (mle_start qi2ops 1) nv w_D))
          && keqb qi2ops (hs_inner qi2ops 4 (mconj qi2ops (gradient qi2ops qi2_i 1 (mle_start qi2ops 1) nv)) w_D)
                         (dir_deriv qi2ops qi2_i 1 (mle_start qi2ops 1) nv w_D)
      | Err _ => false
      end
  | Err _ => false
  end.

Lemma w_check_true : w_check = true.
Proof. vm_compute. reflexivity. Qed.

Theorem mle_gradient_refuted_w :
  exists nij nv,
    mle_nij qi2ops 1 (req_canonical 1 false)
            (process_ideal qi2ops qi2_i qi2_h 1 w_S (istrings mle_inputs 1) (req_canonical 1 false)) = Ok nij /\
    n_vec_from_data qi2ops 1 nij = Ok nv /\
    hermitian qi2ops 4 w_D /\
    hs_inner qi2ops 4 (gradient qi2ops qi2_i 1 (mle_start qi2ops 1) nv) w_D
      <> dir_deriv qi2ops qi2_i 1 (mle_start qi2ops 1) nv w_D /\
    hs_inner qi2ops 4 (mconj qi2ops (gradient qi2ops qi2_i 1 (mle_start qi2ops 1) nv)) w_D
      = dir_deriv qi2ops qi2_i 1 (mle_start qi2ops 1) nv w_D.
Proof.
  pose proof w_check_true as H. unfold w_check in H.
  destruct (mle_nij qi2ops 1 (req_canonical 1 false)
             (process_ideal qi2ops qi2_i qi2_h 1 w_S (istrings mle_inputs 1) (req_canonical 1 false))) as [nij|e] eqn:E1;
    [|discriminate H].
  destruct (n_vec_from_data qi2ops 1 nij) as [nv|e] eqn:E2; [|discriminate H].
  apply andb_true_iff in H as [H H3]. apply andb_true_iff in H as [H1 H2].
  exists nij, nv. split; [first [reflexivity|exact E1]|]. split; [exact E2|]. split; [|split].
  - apply meq_of_forallb. exact H1.
  - apply neq_of_keqb. apply negb_true_iff. exact H2.
  - apply (proj1 (ui_eqb (o:=qi2ops) _ _)). exact H3.
Qed.

(* Ry with cos = 3/5, sin = 4/5: real, not symmetric *)
Definition qz (a : Z) (b : positive) : QArith_base.Q := QArith_base.Qmake a b.
Definition w_Ry : nat -> nat -> QI2 :=
  m22 qi2ops (qi2_of (qz 3 5) (qz 0 1) (qz 0 1) (qz 0 1)) (qi2_of (qz (-4) 5) (qz 0 1) (qz 0 1) (qz 0 1))
             (qi2_of (qz 4 5) (qz 0 1) (qz 0 1) (qz 0 1)) (qi2_of (qz 3 5) (qz 0 1) (qz 0 1) (qz 0 1)).

Lemma w_Ry_unitary : unitary qi2ops 2 w_Ry.
Proof. split; apply meq_of_forallb; vm_compute; reflexivity. Qed.

Theorem li_eq_reference_refuted_w :
  forall solve req, pinv_contract (o:=qi2ops) solve -> Permutation req (req_canonical 1 false) ->
  exists J, li_process qi2ops qi2_i solve 1 req (process_ideal qi2ops qi2_i qi2_h 1 w_Ry (istrings li_inputs 1) req) = Ok J /\
            ~ meq 4 J (choi_from_unitary qi2ops 2 w_Ry).
Proof.
  intros solve req Hs Hp.
  destruct (li_returns_choi_of_transpose (TR:=qi2_tomo) solve w_Ry req Hs (proj1 w_Ry_unitary) Hp) as [J [E M]].
  exists J. split; [exact E|]. intros M'.
  assert (H : choi_T (o:=qi2ops) w_Ry 0 1 = choi_from_unitary qi2ops 2 w_Ry 0 1).
  { rewrite <- (M 0 1) by lia. apply M'; lia. }
  revert H. apply neq_of_keqb. vm_compute. reflexivity.
Qed.
