(* Lemmas about Model/State.v (property C18 and users of herald bookkeeping). *)
From Coq Require Import ZArith List Bool Arith Lia Permutation Sorted.
From LW Require Import Base.Sx Model.State.
Import ListNotations.
Open Scope Z_scope.

(* ---- equality ---- *)
Lemma st_eqb_eq s t : st_eqb s t = true <-> s = t.
Proof.
  revert t; induction s as [|x s IH]; intros [|y t]; simpl; split; intros H;
    try reflexivity; try discriminate.
  - apply andb_true_iff in H as [H1 H2]. apply Z.eqb_eq in H1. apply IH in H2. congruence.
  - injection H as -> ->. rewrite Z.eqb_refl. simpl. apply IH. reflexivity.
Qed.

(* ---- + ---- *)
Lemma st_add_assoc s t u : st_add (st_add s t) u = st_add s (st_add t u).
Proof. unfold st_add. symmetry. apply app_assoc. Qed.

Lemma st_n_photons_add s t : st_n_photons (st_add s t) = st_n_photons s + st_n_photons t.
Proof. unfold st_add, st_n_photons. induction s as [|x s IH]; simpl; lia. Qed.

Lemma st_n_modes_add s t : st_n_modes (st_add s t) = (st_n_modes s + st_n_modes t)%nat.
Proof. apply app_length. Qed.

(* ---- merge ---- *)
Lemma zip_add_comm s t : zip_add s t = zip_add t s.
Proof. revert t; induction s as [|x s IH]; intros [|y t]; simpl; try reflexivity. rewrite IH. f_equal. lia. Qed.

Lemma zip_add_length s t : length s = length t -> length (zip_add s t) = length s.
Proof. revert t; induction s as [|x s IH]; intros [|y t] H; simpl in *; try lia. rewrite IH; lia. Qed.

Lemma zip_add_assoc s t u : zip_add (zip_add s t) u = zip_add s (zip_add t u).
Proof.
  revert t u; induction s as [|x s IH]; intros [|y t] [|z u]; simpl; try reflexivity.
  rewrite IH. f_equal. lia.
Qed.

Lemma zip_add_photons s t :
  length s = length t -> st_n_photons (zip_add s t) = st_n_photons s + st_n_photons t.
Proof.
  unfold st_n_photons. revert t; induction s as [|x s IH]; intros [|y t] H; simpl in *; try lia.
  rewrite IH by lia. lia.
Qed.

Lemma st_merge_comm s t : st_merge s t = st_merge t s.
Proof. unfold st_merge. rewrite Nat.eqb_sym. destruct (length t =? length s)%nat; [|reflexivity]. rewrite zip_add_comm. reflexivity. Qed.

Lemma st_merge_ok s t : st_merge s t = Ok (zip_add s t) <-> length s = length t.
Proof.
  unfold st_merge. destruct (Nat.eqb_spec (length s) (length t)); split; intros; try reflexivity; try assumption; try discriminate; contradiction.
Qed.

Lemma st_merge_err s t : length s <> length t -> st_merge s t = Err ValueError.
Proof. unfold st_merge. intros H. apply Nat.eqb_neq in H. rewrite H. reflexivity. Qed.

Lemma st_merge_assoc s t u r1 r2 :
  st_merge s t = Ok r1 -> st_merge t u = Ok r2 -> st_merge r1 u = st_merge s r2.
Proof.
  unfold st_merge.
  destruct (Nat.eqb_spec (length s) (length t)) as [E1|]; [|discriminate].
  destruct (Nat.eqb_spec (length t) (length u)) as [E2|]; [|discriminate].
  intros H1 H2. injection H1 as <-. injection H2 as <-.
  rewrite !zip_add_length by lia.
  replace (length s =? length u)%nat with true by (symmetry; apply Nat.eqb_eq; lia).
  replace (length s =? length t)%nat with true by (symmetry; apply Nat.eqb_eq; lia).
  rewrite zip_add_assoc. reflexivity.
Qed.

(* neutral elements: the empty state for +, the vacuum of the same size for merge *)
Lemma zip_add_vacuum s : zip_add s (repeat 0 (length s)) = s.
Proof. induction s as [|x s IH]; simpl; [reflexivity|]. rewrite IH, Z.add_0_r. reflexivity. Qed.

Lemma st_neutral (s : state) :
  st_add s [] = s /\ st_add [] s = s /\
  st_merge s (repeat 0 (length s)) = Ok s /\ st_merge (repeat 0 (length s)) s = Ok s.
Proof.
  assert (M : st_merge s (repeat 0 (length s)) = Ok s).
  { rewrite <- (zip_add_vacuum s) at 3. apply st_merge_ok. rewrite repeat_length. reflexivity. }
  repeat split; [apply app_nil_r | exact M | rewrite st_merge_comm; exact M].
Qed.

(* ---- slicing ---- *)
Lemma py_slice_length {A} (l : list A) a b :
  length (py_slice l a b) =
  (Nat.min (clamp_slice (length l) b (length l)) (length l) - clamp_slice (length l) a 0)%nat.
Proof. unfold py_slice. rewrite firstn_length, skipn_length. lia. Qed.

Lemma nth_firstn_lt {A} n (l : list A) k d : (k < n)%nat -> nth k (firstn n l) d = nth k l d.
Proof.
  revert l k; induction n as [|n IH]; intros l k H; [lia|].
  destruct l as [|x l]; [reflexivity|]. destruct k; simpl; [reflexivity|]. apply IH. lia.
Qed.

Lemma nth_skipn' {A} a (l : list A) k d : nth k (skipn a l) d = nth (a + k) l d.
Proof.
  revert l; induction a as [|a IH]; intros l; [reflexivity|].
  destruct l as [|x l]; simpl; [destruct k; reflexivity|]. apply IH.
Qed.

Lemma py_slice_nth {A} (l : list A) a b k d :
  (k < length (py_slice l a b))%nat ->
  nth k (py_slice l a b) d = nth (clamp_slice (length l) a 0 + k) l d.
Proof.
  unfold py_slice. intros H. rewrite firstn_length, skipn_length in H.
  rewrite nth_firstn_lt by lia. rewrite nth_skipn'. reflexivity.
Qed.

Lemma py_slice_full {A} (l : list A) : py_slice l None None = l.
Proof. unfold py_slice. simpl. rewrite Nat.sub_0_r. apply firstn_all. Qed.

(* ---- slicing and + undo each other ---- *)
Lemma clamp_slice_le len x d : (d <= len)%nat -> (clamp_slice len x d <= len)%nat.
Proof.
  intros Hd. unfold clamp_slice. destruct x as [v|]; [|exact Hd].
  set (w := if v <? 0 then v + Z.of_nat len else v).
  destruct (w <? 0) eqn:E2; [lia|].
  destruct (Z.of_nat len <? w) eqn:E3; [lia|].
  apply Z.ltb_ge in E2, E3. lia.
Qed.

(* s[:k] + s[k:] == s for EVERY integer k (negative and out of range included) *)
Lemma py_slice_split {A} (l : list A) (k : Z) :
  py_slice l None (Some k) ++ py_slice l (Some k) None = l.
Proof.
  unfold py_slice.
  pose proof (clamp_slice_le (length l) (Some k) (length l) (le_n _)) as H1.
  assert (H0 : clamp_slice (length l) (Some k) 0%nat = clamp_slice (length l) (Some k) (length l))
    by reflexivity.
  rewrite H0. set (c := clamp_slice (length l) (Some k) (length l)) in *.
  cbn [clamp_slice]. rewrite Nat.sub_0_r. cbn [skipn].
  rewrite (firstn_all2 (skipn c l)) by (rewrite skipn_length; lia).
  apply firstn_skipn.
Qed.

(* (s + t)[:len s] == s and (s + t)[len s:] == t *)
Lemma py_slice_app_left {A} (s t : list A) :
  py_slice (s ++ t) None (Some (Z.of_nat (length s))) = s.
Proof.
  unfold py_slice. cbn [clamp_slice]. rewrite app_length.
  destruct (Z.ltb_spec (Z.of_nat (length s)) 0) as [E1|E1]; [lia|].
  destruct (Z.ltb_spec (Z.of_nat (length s)) 0) as [E1'|_]; [lia|].
  destruct (Z.ltb_spec (Z.of_nat (length s + length t)) (Z.of_nat (length s))) as [E2|E2]; [lia|].
  rewrite Nat2Z.id, Nat.sub_0_r. cbn [skipn].
  rewrite firstn_app, Nat.sub_diag, firstn_all. cbn [firstn]. apply app_nil_r.
Qed.

Lemma py_slice_app_right {A} (s t : list A) :
  py_slice (s ++ t) (Some (Z.of_nat (length s))) None = t.
Proof.
  unfold py_slice. cbn [clamp_slice]. rewrite app_length.
  destruct (Z.ltb_spec (Z.of_nat (length s)) 0) as [E1|E1]; [lia|].
  destruct (Z.ltb_spec (Z.of_nat (length s)) 0) as [E1'|_]; [lia|].
  destruct (Z.ltb_spec (Z.of_nat (length s + length t)) (Z.of_nat (length s))) as [E2|E2]; [lia|].
  rewrite Nat2Z.id. rewrite skipn_app, Nat.sub_diag, skipn_all. cbn [skipn app].
  apply firstn_all2. lia.
Qed.

Lemma st_slice_split_photons (s : state) (k : Z) :
  st_n_photons (st_slice s None (Some k)) + st_n_photons (st_slice s (Some k) None) = st_n_photons s.
Proof.
  rewrite <- st_n_photons_add. unfold st_add, st_slice. rewrite py_slice_split. reflexivity.
Qed.

(* ---- heralds: insertion then removal ---- *)
Fixpoint keep_idx {A} (i : nat) (keep : nat -> bool) (l : list A) : list A :=
  match l with
  | [] => []
  | x :: l' => if keep i then x :: keep_idx (S i) keep l' else keep_idx (S i) keep l'
  end.

Fixpoint count_some (f i : nat) (h : nat -> option Z) : nat :=
  match f with
  | O => O
  | S f' => ((if h i then 1 else 0) + count_some f' (S i) h)%nat
  end.

Lemma count_some_le f i h : (count_some f i h <= f)%nat.
Proof. revert i; induction f as [|f IH]; intros i; simpl; [lia|]. specialize (IH (S i)). destruct (h i); lia. Qed.

Lemma add_her_length f i h st r : add_her f i h st = Ok r -> length r = f.
Proof.
  revert i st r; induction f as [|f IH]; intros i st r H; simpl in H.
  - injection H as <-. reflexivity.
  - destruct (h i).
    + destruct (add_her f (S i) h st) eqn:E; simpl in H; [|discriminate]. injection H as <-. simpl. erewrite IH; eauto.
    + destruct st as [|x st']; [discriminate|].
      destruct (add_her f (S i) h st') eqn:E; simpl in H; [|discriminate]. injection H as <-. simpl. erewrite IH; eauto.
Qed.

Lemma add_her_keep f i h st r :
  add_her f i h st = Ok r -> (count_some f i h + length st = f)%nat ->
  keep_idx i (fun j => match h j with Some _ => false | None => true end) r = st.
Proof.
  revert i st r; induction f as [|f IH]; intros i st r H Hc; simpl in *.
  - injection H as <-. destruct st; simpl in *; [reflexivity|lia].
  - destruct (h i) eqn:Hi.
    + destruct (add_her f (S i) h st) eqn:E; simpl in H; [|discriminate]. injection H as <-.
      simpl. rewrite Hi. apply IH; [assumption|lia].
    + destruct st as [|x st']; [discriminate|].
      destruct (add_her f (S i) h st') eqn:E; simpl in H; [|discriminate]. injection H as <-.
      simpl. rewrite Hi. f_equal. apply IH; [assumption|simpl in Hc; lia].
Qed.

Lemma add_her_total f i h st :
  (count_some f i h + length st = f)%nat -> exists r, add_her f i h st = Ok r.
Proof.
  revert i st; induction f as [|f IH]; intros i st Hc; simpl in *; [eexists; reflexivity|].
  destruct (h i).
  - destruct (IH (S i) st ltac:(lia)) as [r ->]. eexists; reflexivity.
  - destruct st as [|x st']; [pose proof (count_some_le f (S i) h); simpl in Hc; lia|].
    destruct (IH (S i) st' ltac:(simpl in Hc; lia)) as [r ->]. eexists; reflexivity.
Qed.

Lemma add_her_nth_herald f i h st r j v :
  add_her f i h st = Ok r -> (i <= j < i + f)%nat -> h j = Some v -> nth (j - i) r 0 = v.
Proof.
  revert i st r; induction f as [|f IH]; intros i st r H Hj Hv; [lia|]. simpl in H.
  destruct (Nat.eq_dec j i) as [->|Hne].
  - rewrite Hv in H. destruct (add_her f (S i) h st); simpl in H; [|discriminate].
    injection H as <-. rewrite Nat.sub_diag. reflexivity.
  - replace (j - i)%nat with (S (j - S i)) by lia.
    destruct (h i).
    + destruct (add_her f (S i) h st) eqn:E; simpl in H; [|discriminate]. injection H as <-.
      simpl. eapply IH; eauto. lia.
    + destruct st as [|x st']; [discriminate|].
      destruct (add_her f (S i) h st') eqn:E; simpl in H; [|discriminate]. injection H as <-.
      simpl. eapply IH; eauto. lia.
Qed.

(* popping positions in strictly descending order = dropping those positions *)
Lemma keep_idx_ext {A} i k1 k2 (l : list A) :
  (forall j, (i <= j < i + length l)%nat -> k1 j = k2 j) -> keep_idx i k1 l = keep_idx i k2 l.
Proof.
  revert i; induction l as [|x l IH]; intros i H; simpl; [reflexivity|].
  rewrite (H i) by (simpl; lia). rewrite IH by (intros; apply H; simpl; lia). reflexivity.
Qed.

Lemma keep_idx_all {A} i (l : list A) : keep_idx i (fun _ => true) l = l.
Proof. revert i; induction l as [|x l IH]; intros i; simpl; [reflexivity|]. rewrite IH. reflexivity. Qed.

Lemma keep_idx_true {A} i keep (l : list A) :
  (forall j, (i <= j)%nat -> keep j = true) -> keep_idx i keep l = l.
Proof.
  intros H. rewrite (keep_idx_ext i keep (fun _ => true)) by (intros; apply H; lia). apply keep_idx_all.
Qed.

Lemma keep_idx_remove_nth {A} i m keep (l : list A) :
  (m < length l)%nat -> (forall j, (i + m <= j)%nat -> keep j = true) ->
  keep_idx i keep (remove_nth m l) =
  keep_idx i (fun j => keep j && negb (j =? i + m)%nat) l.
Proof.
  revert i m; induction l as [|x l IH]; intros i m Hm Hk; simpl in *; [lia|].
  destruct m as [|m].
  - rewrite Nat.add_0_r, Nat.eqb_refl, andb_false_r. simpl.
    rewrite keep_idx_true by (intros; apply Hk; lia).
    rewrite keep_idx_true; [reflexivity|].
    intros j Hj. rewrite Hk by lia. replace (j =? i)%nat with false by (symmetry; apply Nat.eqb_neq; lia). reflexivity.
  - simpl. replace (i =? i + S m)%nat with false by (symmetry; apply Nat.eqb_neq; lia).
    rewrite andb_true_r.
    rewrite (IH (S i) m) by (try lia; intros; apply Hk; lia).
    replace (S i + m)%nat with (i + S m)%nat by lia. reflexivity.
Qed.

Lemma remove_nth_length {A} m (l : list A) : (m < length l)%nat -> length (remove_nth m l) = (length l - 1)%nat.
Proof.
  revert m; induction l as [|x l IH]; intros m H; simpl in *; [lia|].
  destruct m; simpl; [lia|]. rewrite IH by lia. lia.
Qed.

(* strictly descending lists *)
Fixpoint desc (l : list nat) : Prop :=
  match l with
  | [] => True
  | m :: l' => (forall x, In x l' -> (x < m)%nat) /\ desc l'
  end.

Lemma pops_keep ms (s : state) :
  desc ms -> (forall m, In m ms -> (m < length s)%nat) ->
  pops ms s = Ok (keep_idx 0 (fun j => negb (existsb (Nat.eqb j) ms)) s).
Proof.
  revert s; induction ms as [|m ms IH]; intros s Hd Hr; simpl.
  - rewrite keep_idx_all. reflexivity.
  - destruct Hd as [Hlt Hd].
    replace (m <? length s)%nat with true by (symmetry; apply Nat.ltb_lt; apply Hr; left; reflexivity).
    rewrite IH; [|assumption|].
    2:{ intros x Hx. rewrite remove_nth_length by (apply Hr; left; reflexivity).
        specialize (Hlt x Hx). specialize (Hr m (or_introl eq_refl)). lia. }
    f_equal. rewrite (keep_idx_remove_nth 0 m).
    + apply keep_idx_ext. intros j _. simpl. rewrite negb_orb, andb_comm. reflexivity.
    + apply Hr. left. reflexivity.
    + intros j Hj. simpl in Hj. apply negb_true_iff. apply not_true_is_false. intros E.
      apply existsb_exists in E as (x & Hx & Ex). apply Nat.eqb_eq in Ex. subst x.
      specialize (Hlt j Hx). lia.
Qed.

(* sort_desc of a duplicate-free list is strictly descending with the same elements *)
Lemma insert_desc_in m l x : In x (insert_desc m l) <-> x = m \/ In x l.
Proof.
  induction l as [|y l IH]; simpl; [intuition|].
  destruct (y <=? m)%nat; simpl; [intuition|]. rewrite IH. intuition.
Qed.

Lemma sort_desc_in l x : In x (sort_desc l) <-> In x l.
Proof.
  induction l as [|y l IH]; simpl; [reflexivity|]. rewrite insert_desc_in, IH. intuition.
Qed.

Lemma insert_desc_desc m l : desc l -> ~ In m l -> desc (insert_desc m l).
Proof.
  induction l as [|y l IH]; intros Hd Hn; simpl; [split; [intros x []|exact I]|].
  destruct Hd as [Hlt Hd].
  destruct (Nat.leb_spec y m) as [Hle|Hgt].
  - simpl. split; [|split; assumption].
    intros x [<-|Hx]; [simpl in Hn; lia|]. specialize (Hlt x Hx). lia.
  - simpl. split.
    + intros x Hx. apply insert_desc_in in Hx as [->|Hx]; [lia|auto].
    + apply IH; [assumption|]. intros H. apply Hn. right. assumption.
Qed.

Lemma sort_desc_desc l : NoDup l -> desc (sort_desc l).
Proof.
  induction 1 as [|x l Hn Hnd IH]; simpl; [exact I|].
  apply insert_desc_desc; [assumption|]. rewrite sort_desc_in. assumption.
Qed.

(* counting the herald positions below n *)

Lemma count_some_ext f i h1 h2 :
  (forall j, (i <= j)%nat -> h1 j = h2 j) -> count_some f i h1 = count_some f i h2.
Proof.
  revert i; induction f as [|f IH]; intros i H; simpl; [reflexivity|].
  rewrite (H i) by lia. rewrite (IH (S i)) by (intros; apply H; lia). reflexivity.
Qed.

Definition hkeys (h : hdict) : list nat := map fst h.

Lemma hlookup_none h i : hlookup h i = None <-> ~ In i (hkeys h).
Proof.
  induction h as [|[k v] h IH]; simpl; [intuition|].
  destruct (Nat.eqb_spec k i) as [->|Hne]; [split; [discriminate|intros H; exfalso; apply H; left; reflexivity]|].
  rewrite IH. intuition.
Qed.

Lemma count_some_keys h f i :
  NoDup (hkeys h) -> (forall k, In k (hkeys h) -> (i <= k < i + f)%nat) ->
  count_some f i (hlookup h) = length h.
Proof.
  revert i h; induction f as [|f IH]; intros i h Hnd Hr; simpl.
  - destruct h as [|[k v] h]; [reflexivity|]. specialize (Hr k (or_introl eq_refl)). lia.
  - destruct (hlookup h i) eqn:E.
    + (* i is a key: remove it *)
      assert (Hin : In i (hkeys h)).
      { destruct (in_dec Nat.eq_dec i (hkeys h)) as [H|H]; [exact H|]. apply hlookup_none in H. congruence. }
      (* split h around the key *)
      assert (exists h', length h = S (length h') /\ NoDup (hkeys h') /\
                         (forall k, In k (hkeys h') -> In k (hkeys h) /\ k <> i) /\
                         (forall j, j <> i -> hlookup h' j = hlookup h j)) as (h' & Hl & Hnd' & Hsub & Hlk).
      { clear -Hnd Hin. induction h as [|[k v] h IH]; [destruct Hin|]. simpl in *.
        inversion Hnd as [|? ? Hn Hnd']; subst.
        destruct (Nat.eq_dec k i) as [->|Hne].
        - exists h. repeat split; try assumption; try reflexivity.
          + right; assumption.
          + intros ->. contradiction.
          + intros j Hj. replace (i =? j)%nat with false by (symmetry; apply Nat.eqb_neq; lia). reflexivity.
        - destruct Hin as [->|Hin]; [contradiction|].
          destruct (IH Hnd' Hin) as (h' & Hl & Hnd'' & Hsub & Hlk).
          exists ((k, v) :: h'). simpl. repeat split.
          + lia.
          + constructor; [|assumption]. intros H. apply Hsub in H as [H _]. contradiction.
          + destruct H as [<-|H]; [left; reflexivity|right; apply Hsub; assumption].
          + destruct H as [<-|H]; [assumption|apply Hsub; assumption].
          + intros j Hj. rewrite Hlk by assumption. reflexivity. }
      rewrite Hl. f_equal. rewrite <- (IH (S i) h' Hnd').
      * simpl. f_equal. apply count_some_ext. intros j Hj. symmetry. apply Hlk. lia.
      * intros k Hk. apply Hsub in Hk as [Hk Hne]. specialize (Hr k Hk). lia.
    + apply hlookup_none in E. apply IH; [assumption|].
      intros k Hk. specialize (Hr k Hk). assert (k <> i) by (intros ->; contradiction). lia.
Qed.

(* the round trip *)
Lemma herald_roundtrip (st : state) (h : hdict) :
  NoDup (hkeys h) -> (forall k, In k (hkeys h) -> (k < length st + length h)%nat) ->
  exists full, add_heralds_to_state st h = Ok full /\
               length full = (length st + length h)%nat /\
               (forall k v, hlookup h k = Some v -> nth k full 0 = v) /\
               remove_heralds_from_state full (hkeys h) = Ok st.
Proof.
  intros Hnd Hr. unfold add_heralds_to_state, remove_heralds_from_state.
  destruct h as [|kv h'] eqn:Eh.
  { exists st. simpl. rewrite Nat.add_0_r. repeat split; try reflexivity. intros k v H; discriminate. }
  rewrite <- Eh in *. clear Eh kv h'.
  set (n := (length st + length h)%nat).
  assert (Hc : (count_some n 0 (hlookup h) + length st = n)%nat).
  { rewrite count_some_keys; [unfold n; lia|assumption|]. intros k Hk. specialize (Hr k Hk). lia. }
  destruct (add_her_total n 0 (hlookup h) st Hc) as [full Hfull].
  assert (Hlen := add_her_length _ _ _ _ _ Hfull).
  exists full. split; [destruct h; [simpl in *; exact Hfull|exact Hfull]|]. split; [exact Hlen|]. split.
  - intros k v Hv. assert (Hk : In k (hkeys h)).
    { destruct (in_dec Nat.eq_dec k (hkeys h)) as [H|H]; [exact H|]. apply hlookup_none in H. congruence. }
    specialize (Hr k Hk). replace k with (k - 0)%nat at 1 by lia.
    eapply add_her_nth_herald; eauto. lia.
  - rewrite pops_keep.
    + f_equal. rewrite <- (add_her_keep n 0 (hlookup h) st full Hfull Hc).
      apply keep_idx_ext. intros j _.
      destruct (hlookup h j) eqn:E.
      * apply negb_false_iff. apply existsb_exists. exists j. split; [|apply Nat.eqb_refl].
        apply (proj2 (sort_desc_in _ _)). destruct (in_dec Nat.eq_dec j (hkeys h)) as [H|H]; [exact H|]. apply hlookup_none in H. congruence.
      * apply negb_true_iff. apply not_true_is_false. intros H. apply existsb_exists in H as (x & Hx & Ex).
        apply Nat.eqb_eq in Ex. subst x. apply (proj1 (sort_desc_in _ _)) in Hx.
        apply (proj1 (hlookup_none h j)) in E. apply E. exact Hx.
    + apply sort_desc_desc. assumption.
    + intros m Hm. apply (proj1 (sort_desc_in _ _)) in Hm. rewrite Hlen. apply Hr. assumption.
Qed.

(* ---- annotated states: per-mode label multisets ---- *)
Lemma insert_asc_perm x l : Permutation (insert_asc x l) (x :: l).
Proof.
  induction l as [|y l IH]; simpl; [reflexivity|].
  destruct (x <=? y); [reflexivity|]. rewrite IH. apply perm_swap.
Qed.

Lemma sort_asc_perm l : Permutation (sort_asc l) l.
Proof. induction l as [|x l IH]; simpl; [reflexivity|]. rewrite insert_asc_perm, IH. reflexivity. Qed.

Lemma insert_asc_comm x y l : insert_asc x (insert_asc y l) = insert_asc y (insert_asc x l).
Proof.
  induction l as [|z l IH]; simpl.
  - destruct (Z.leb_spec x y), (Z.leb_spec y x); try reflexivity; try lia.
    assert (x = y) by lia. subst. reflexivity.
  - destruct (Z.leb_spec y z), (Z.leb_spec x z); simpl;
      repeat match goal with |- context [?a <=? ?b] => destruct (Z.leb_spec a b) end;
      try reflexivity; try lia; try (rewrite IH; reflexivity);
      try (assert (x = y) by lia; subst; reflexivity).
Qed.

Lemma sort_asc_canonical l l' : Permutation l l' -> sort_asc l = sort_asc l'.
Proof.
  induction 1 as [|x l l' _ IH|x y l|l l' l'' _ IH1 _ IH2]; simpl.
  - reflexivity.
  - rewrite IH. reflexivity.
  - apply insert_asc_comm.
  - congruence.
Qed.

Lemma sort_asc_eq_iff l l' : sort_asc l = sort_asc l' <-> Permutation l l'.
Proof.
  split; [|apply sort_asc_canonical]. intros H.
  rewrite <- (sort_asc_perm l), H. apply sort_asc_perm.
Qed.

Lemma zlist_eqb_eq s t : zlist_eqb s t = true <-> s = t.
Proof. exact (st_eqb_eq s t). Qed.

Lemma an_eqb_eq a b : an_eqb a b = true <-> a = b.
Proof.
  revert b; induction a as [|x a IH]; intros [|y b]; simpl; split; intros H;
    try reflexivity; try discriminate.
  - apply andb_true_iff in H as [H1 H2]. apply zlist_eqb_eq in H1. apply IH in H2. congruence.
  - injection H as -> ->. apply andb_true_iff. split; [apply zlist_eqb_eq|apply IH]; reflexivity.
Qed.

Lemma an_make_eq_iff a b :
  an_make a = an_make b <-> Forall2 (@Permutation Z) a b.
Proof.
  unfold an_make. revert b; induction a as [|x a IH]; intros [|y b]; simpl; split; intros H;
    try discriminate; try (inversion H; fail); try constructor; try reflexivity.
  - injection H as H1 H2. apply sort_asc_eq_iff. assumption.
  - injection H as H1 H2. apply IH. assumption.
  - inversion H; subst. f_equal; [apply sort_asc_eq_iff; assumption|apply IH; assumption].
Qed.

Lemma an_eq_iff_multisets a b :
  an_eqb (an_make a) (an_make b) = true <-> Forall2 (@Permutation Z) a b.
Proof. rewrite an_eqb_eq. apply an_make_eq_iff. Qed.

Lemma zip_app_perm a b : length a = length b -> Forall2 (@Permutation Z) (zip_app a b) (zip_app b a).
Proof.
  revert b; induction a as [|x a IH]; intros [|y b] H; simpl in *; try discriminate; constructor.
  - apply Permutation_app_comm.
  - apply IH. lia.
Qed.

Lemma an_merge_comm a b : an_merge a b = an_merge b a.
Proof.
  unfold an_merge. rewrite (Nat.eqb_sym (length b)).
  destruct (Nat.eqb_spec (length a) (length b)) as [E|]; [|reflexivity].
  f_equal. apply an_make_eq_iff. apply zip_app_perm. assumption.
Qed.

Lemma an_make_length a : length (an_make a) = length a.
Proof. apply map_length. Qed.

Lemma sort_asc_length l : length (sort_asc l) = length l.
Proof. apply Permutation_length, sort_asc_perm. Qed.

Lemma an_n_photons_make a : an_n_photons (an_make a) = an_n_photons a.
Proof.
  unfold an_make, an_n_photons. induction a as [|x a IH]; simpl; [reflexivity|].
  rewrite sort_asc_length, IH. reflexivity.
Qed.

Lemma an_n_photons_zip a b :
  length a = length b -> an_n_photons (zip_app a b) = (an_n_photons a + an_n_photons b)%nat.
Proof.
  unfold an_n_photons. revert b; induction a as [|x a IH]; intros [|y b] H; simpl in *; try discriminate; [reflexivity|].
  rewrite app_length, IH by lia. lia.
Qed.

Lemma an_merge_photons a b r :
  an_merge a b = Ok r -> an_n_photons r = (an_n_photons a + an_n_photons b)%nat.
Proof.
  unfold an_merge. destruct (Nat.eqb_spec (length a) (length b)) as [E|]; [|discriminate].
  intros H. injection H as <-. rewrite an_n_photons_make. apply an_n_photons_zip. assumption.
Qed.

Lemma an_add_photons a b : an_n_photons (an_add a b) = (an_n_photons a + an_n_photons b)%nat.
Proof.
  unfold an_add. rewrite an_n_photons_make. unfold an_n_photons.
  induction a as [|x a IH]; simpl; [reflexivity|]. rewrite IH. lia.
Qed.

Lemma sort_asc_idem l : sort_asc (sort_asc l) = sort_asc l.
Proof. apply sort_asc_canonical, sort_asc_perm. Qed.

Lemma an_make_idem a : an_make (an_make a) = an_make a.
Proof. unfold an_make. rewrite map_map. apply map_ext. intros. apply sort_asc_idem. Qed.

(* annotated states: a[:k] + a[k:] == a for every canonical a (= an_make raw) and every integer k *)
Lemma an_slice_split (raw : list (list Z)) (k : Z) :
  let a := an_make raw in
  an_add (an_slice a None (Some k)) (an_slice a (Some k) None) = a.
Proof.
  intros a. unfold an_add, an_slice.
  assert (E : an_make (py_slice a None (Some k)) ++ an_make (py_slice a (Some k) None)
              = an_make (py_slice a None (Some k) ++ py_slice a (Some k) None))
    by (unfold an_make; symmetry; apply map_app).
  rewrite E, py_slice_split. unfold a. rewrite !an_make_idem. reflexivity.
Qed.

(* ---- fock basis ---- *)
Definition nsum (l : list nat) : nat := fold_right Nat.add 0%nat l.

Lemma nsum_app l1 l2 : nsum (l1 ++ l2) = (nsum l1 + nsum l2)%nat.
Proof. unfold nsum. induction l1; simpl; lia. Qed.

Lemma fock_sums_sound len total s :
  In s (fock_sums len total) -> length s = len /\ nsum s = total.
Proof.
  revert total s; induction len as [|len IH]; intros total s H; [destruct H|].
  destruct len as [|len'].
  - simpl in H. destruct H as [<-|[]]. simpl. split; [reflexivity|lia].
  - change (fock_sums (S (S len')) total) with
      (flat_map (fun v => map (fun p => p ++ [v]) (fock_sums (S len') (total - v))) (seq 0 (S total))) in H.
    apply in_flat_map in H as (v & Hv & H). apply in_map_iff in H as (p & <- & Hp).
    apply IH in Hp as [Hl Hs]. apply in_seq in Hv.
    rewrite app_length, nsum_app, Hl, Hs. simpl. split; lia.
Qed.

Lemma fock_sums_complete len total s :
  (0 < len)%nat -> length s = len -> nsum s = total -> In s (fock_sums len total).
Proof.
  revert total s; induction len as [|len IH]; intros total s Hpos Hl Hs; [lia|].
  destruct len as [|len'].
  - destruct s as [|x [|y s]]; simpl in Hl; try lia. simpl in Hs. simpl. left. f_equal. lia.
  - change (fock_sums (S (S len')) total) with
      (flat_map (fun v => map (fun p => p ++ [v]) (fock_sums (S len') (total - v))) (seq 0 (S total))).
    destruct (exists_last (l:=s)) as (p & v & ->); [intros ->; simpl in Hl; lia|].
    rewrite app_length in Hl. rewrite nsum_app in Hs. simpl in Hl, Hs.
    apply in_flat_map. exists v. split; [apply in_seq; lia|].
    apply in_map_iff. exists p. split; [reflexivity|]. apply IH; lia.
Qed.
