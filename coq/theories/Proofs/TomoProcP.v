(* Lemmas for C16 (process tomography, gate fidelity, MLE pieces) about Model/Tomo.v. *)
From Coq Require Import ZArith List Bool Arith Lia Ring_theory Ring Permutation.
From LW Require Import Base.Sx Base.Num Base.Sums Base.Mat Base.QI2 Model.Tomo Proofs.TomoStateP.
Import ListNotations.

(* ------------------------------------------------ bookkeeping of the results *)
Lemma skipn_plus {A} (a b : nat) (l : list A) : skipn (a + b) l = skipn b (skipn a l).
Proof.
  revert l. induction a as [|a IH]; intros l; [reflexivity|].
  destruct l as [|x l]; simpl; [destruct b; reflexivity|apply IH].
Qed.

Lemma chunk_flat_map {A B} (g : A -> list B) (num : nat) (inputs : list A) (i : nat) (d : A) :
  (forall x, length (g x) = num) -> i < length inputs ->
  firstn num (skipn (num * i) (flat_map g inputs)) = g (nth i inputs d).
Proof.
  intros Hg. revert i. induction inputs as [|a l IH]; intros i Hi; simpl in Hi; [lia|].
  destruct i as [|i].
  - rewrite Nat.mul_0_r. simpl. rewrite firstn_app, <- (Hg a), Nat.sub_diag, firstn_all. simpl. apply app_nil_r.
  - simpl flat_map. replace (num * S i) with (length (g a) + num * i) by (rewrite Hg; lia).
    rewrite skipn_plus. rewrite skipn_app, skipn_all, Nat.sub_diag. simpl. apply IH. lia.
Qed.

Lemma in_combine_seq {A} (l : list A) (d : A) : forall s i x,
  In (i, x) (combine (seq s (length l)) l) -> s <= i < s + length l /\ nth (i - s) l d = x.
Proof.
  induction l as [|a l IH]; intros s i x H; simpl in H; [destruct H|].
  destruct H as [H|H].
  - injection H as <- <-. rewrite Nat.sub_diag. simpl. split; [lia|reflexivity].
  - apply IH in H as [H1 H2]. split; [simpl; lia|].
    replace (i - s) with (S (i - S s)) by lia. exact H2.
Qed.

Lemma instr_eqb_eq a : forall b, instr_eqb a b = true <-> a = b.
Proof.
  induction a as [|x a IH]; intros [|y b]; simpl; split; intros H; try reflexivity; try discriminate.
  - apply andb_true_iff in H as [H1 H2]. apply IH in H2. subst. destruct x, y; simpl in H1; try discriminate; reflexivity.
  - injection H as -> ->. apply andb_true_iff. split; [destruct y; reflexivity|apply IH; reflexivity].
Qed.

(* noiseless bookkeeping: if the callback answers experiment (i, s) with [dat i s],
   every (input, measurement string) gets the data of its I->Z setting *)
Lemma run_required_family {V} (dat : instr -> mstr -> V) n inputs req :
  1 <= n -> Permutation req (req_canonical n false) ->
  run_required n inputs req (map (fun im => dat (fst im) (snd im)) (experiments inputs req))
  = Ok (concat (map (fun i => map (fun c => ((i, c), dat i (replIZ c))) (tomo_measurements n false)) inputs)).
Proof.
  intros Hn Hp. unfold run_required.
  assert (E : map (fun im => dat (fst im) (snd im)) (experiments inputs req)
              = flat_map (fun i => map (fun s => dat i s) req) inputs).
  { unfold experiments. induction inputs as [|a l IH]; [reflexivity|]. simpl.
    rewrite map_app, IH, map_map. reflexivity. }
  rewrite E.
  rewrite (mapM_ok _ (fun ii_in => (snd ii_in, combine req (map (fun s => dat (snd ii_in) s) req)))).
  2:{ intros [i x] Hin. apply (in_combine_seq inputs x) in Hin as [Hi Hx]. cbn [fst snd].
      rewrite (chunk_flat_map _ (length req) inputs i x) by (try lia; intros; apply map_length).
      rewrite Nat.sub_0_r in Hx. rewrite Hx, map_length, Nat.eqb_refl. reflexivity. }
  cbn [bind].
  rewrite (mapM_ok _ (fun in_rd => map (fun c => ((fst in_rd, c), dat (fst in_rd) (replIZ c))) (tomo_measurements n false))).
  2:{ intros in_rd Hin. apply in_map_iff in Hin as [[i x] [<- _]]. cbn [fst snd].
      apply mapM_ok. intros c Hc. rewrite (dict_get_map (fun s => dat x s)); [reflexivity|].
      apply (Permutation_in _ (Permutation_sym Hp)). apply replIZ_in_req; assumption. }
  cbn [bind]. rewrite map_map. f_equal. f_equal.
  clear. generalize 0. induction inputs as [|a l IH]; intros s; [reflexivity|]. simpl. rewrite IH. reflexivity.
Qed.

(* ------------------------------------------------------------ general algebra *)
Section General.
  Context {K : Type} {o : ops K} {ii hh : K} {TR : TomoRing o ii hh}.
  Let R := sr_ring (o:=o).
  Add Ring Kg : R.
  Local Notation "a + b" := (kadd o a b).
  Local Notation "a * b" := (kmul o a b).
  Local Notation "a - b" := (ksub o a b).
  Local Notation "- a" := (kopp o a).
  Local Notation one := (k1 o).
  Local Notation zero := (k0 o).
  Local Notation conj := (kconj o).
  Local Notation sumn := (sumn o).
  Local Notation suml := (suml o).
  Local Notation hpow := (hpow (o:=o) (hh:=hh)).

  Lemma half_hh : half o = hh * hh.
  Proof. unfold half, two. apply ui_inv. exact tr_hh. Qed.
  Lemma kinv_two : kinv o (one + one) = hh * hh.
  Proof. exact half_hh. Qed.

  Lemma sumn_const n c : sumn (2 ^ n) (fun _ => c) = pow2 o n * c.
  Proof.
    induction n as [|n IH]; [simpl; ring|].
    rewrite Nat.pow_succ_r', (Nat.mul_comm 2), sumn_prod. simpl pow2. unfold two.
    rewrite (sumn_ext _ _ (fun _ => c + c)) by (intros; simpl; ring).
    rewrite sumn_add, IH. ring.
  Qed.

  Lemma trace_cyclic d (A B : @mat K) : trace o d (mmul o d A B) = trace o d (mmul o d B A).
  Proof.
    unfold trace, mmul. rewrite sumn_swap. apply sumn_ext. intros k _. apply sumn_ext. intros l _. ring.
  Qed.

  (* a unitary (V^+ V = 1) preserves the trace *)
  Lemma out_rho_trace d V rho : lunit o d V -> trace o d (out_rho o d V rho) = trace o d rho.
  Proof.
    intros HV. unfold out_rho. rewrite trace_cyclic.
    rewrite (trace_compat _ _ (mmul o d (mmul o d (madj o V) V) rho)).
    - apply trace_compat. eapply meq_trans; [apply mmul_compat; [exact HV|apply meq_refl]|apply mmul_id_l].
    - intros i j _ _. symmetry. apply mmul_assoc.
  Qed.

  (* ---- _tp_proj makes the partial trace the identity, every n ---- *)
  Lemma div_mod_block dim i k : k < dim -> (i * dim + k) / dim = i /\ (i * dim + k) mod dim = k.
  Proof.
    intros Hk. split.
    - rewrite Nat.div_add_l by lia. rewrite Nat.div_small by lia. lia.
    - rewrite Nat.add_comm, Nat.mod_add by lia. apply Nat.mod_small. lia.
  Qed.

  Lemma div_mod_block2 dim k i : i < dim -> (k * dim + i) / dim = k /\ (k * dim + i) mod dim = i.
  Proof. intros Hi. apply div_mod_block. exact Hi. Qed.

  Theorem tp_proj_spec n (choi : @mat K) i j : i < 2 ^ n -> j < 2 ^ n ->
    partial_trace o (2 ^ n) (tp_proj o n choi) i j = mid o i j.
  Proof.
    intros Hi Hj. unfold partial_trace, tp_proj.
    rewrite (sumn_ext _ _ (fun k => choi (k * 2 ^ n + i)%nat (k * 2 ^ n + j)%nat -
       (sumn (2 ^ n) (fun k0 => choi (k0 * 2 ^ n + i)%nat (k0 * 2 ^ n + j)%nat) - mid o i j) * kinv o (pow2 o n))).
    - rewrite sumn_sub, sumn_const.
      rewrite kinv_pow2.
      transitivity (sumn (2 ^ n) (fun k => choi (k * 2 ^ n + i)%nat (k * 2 ^ n + j)%nat) -
                    (pow2 o n * hpow n) * (sumn (2 ^ n) (fun k0 => choi (k0 * 2 ^ n + i)%nat (k0 * 2 ^ n + j)%nat) - mid o i j));
        [ring|]. rewrite pow2_hpow. ring.
    - intros k Hk. unfold kron.
      destruct (div_mod_block2 (2 ^ n) k i Hi) as [E1 E2]. destruct (div_mod_block2 (2 ^ n) k j Hj) as [E3 E4].
      rewrite E1, E2, E3, E4. unfold partial_trace.
      replace (mid o k k) with one by (unfold mid; rewrite Nat.eqb_refl; reflexivity). ring.
  Qed.

  (* the pinned projection made the partial trace over the INPUT factor the identity (unitality) *)
  Theorem tp_proj_pinned_spec n (choi : @mat K) i j : i < 2 ^ n -> j < 2 ^ n ->
    partial_trace_pinned o (2 ^ n) (tp_proj_pinned o n choi) i j = mid o i j.
  Proof.
    intros Hi Hj. unfold partial_trace_pinned, tp_proj_pinned.
    rewrite (sumn_ext _ _ (fun k => choi (i * 2 ^ n + k)%nat (j * 2 ^ n + k)%nat -
       (sumn (2 ^ n) (fun k0 => choi (i * 2 ^ n + k0)%nat (j * 2 ^ n + k0)%nat) - mid o i j) * kinv o (pow2 o n))).
    - rewrite sumn_sub, sumn_const.
      rewrite kinv_pow2.
      transitivity (sumn (2 ^ n) (fun k => choi (i * 2 ^ n + k)%nat (j * 2 ^ n + k)%nat) -
                    (pow2 o n * hpow n) * (sumn (2 ^ n) (fun k0 => choi (i * 2 ^ n + k0)%nat (j * 2 ^ n + k0)%nat) - mid o i j));
        [ring|]. rewrite pow2_hpow. ring.
    - intros k Hk. unfold kron.
      destruct (div_mod_block (2 ^ n) i k Hk) as [E1 E2]. destruct (div_mod_block (2 ^ n) j k Hk) as [E3 E4].
      rewrite E1, E2, E3, E4. unfold partial_trace_pinned.
      replace (mid o k k) with one by (unfold mid; rewrite Nat.eqb_refl; reflexivity). ring.
  Qed.

  (* which factor is the right one: the partial trace over the OUTPUT factor of the reference Choi matrix
     of any matrix V is the (transposed, conjugated) Gram matrix of V's columns, hence the identity for
     every V with V^dagger V = 1 - the reference is a fixed point of the repaired projection's constraint *)
  Theorem choi_from_unitary_partial_trace d (V : @mat K) i j : i < d -> j < d ->
    partial_trace o d (choi_from_unitary o d V) i j = sumn d (fun k => V k i * conj (V k j)).
  Proof.
    intros Hi Hj. unfold partial_trace, choi_from_unitary, vec. apply sumn_ext. intros k Hk.
    destruct (div_mod_block2 d k i Hi) as [E1 E2]. destruct (div_mod_block2 d k j Hj) as [E3 E4].
    rewrite E1, E2, E3, E4. reflexivity.
  Qed.
End General.

(* ------------------------------------------------ linear inversion, one qubit *)
Lemma eqb_split_m m a k : 0 < m -> ((a / m =? k / m) && (a mod m =? k mod m)) = (a =? k).
Proof.
  intros Hm. destruct (Nat.eqb_spec a k) as [->|Hne].
  - rewrite !Nat.eqb_refl. reflexivity.
  - destruct (Nat.eqb_spec (a / m) (k / m)) as [E1|]; [|reflexivity].
    destruct (Nat.eqb_spec (a mod m) (k mod m)) as [E2|]; [|reflexivity].
    exfalso. apply Hne. rewrite (Nat.div_mod_eq a m), (Nat.div_mod_eq k m). rewrite E1, E2. reflexivity.
Qed.

Section LI1.
  Context {K : Type} {o : ops K} {ii hh : K} {TR : TomoRing o ii hh}.
  Let R := sr_ring (o:=o).
  Add Ring Kl : R.
  Local Notation "a + b" := (kadd o a b).
  Local Notation "a * b" := (kmul o a b).
  Local Notation "a - b" := (ksub o a b).
  Local Notation "- a" := (kopp o a).
  Local Notation one := (k1 o).
  Local Notation zero := (k0 o).
  Local Notation conj := (kconj o).
  Local Notation sumn := (sumn o).
  Local Notation suml := (suml o).
  Local Notation pauli_mat := (pauli_mat o ii).
  Local Notation rho_mat := (rho_mat o ii).

  Ltac conj_push :=
    repeat first [rewrite sr_conj_add | rewrite sr_conj_mul | rewrite sr_conj_opp | rewrite sr_conj_1
                 | rewrite sr_conj_0 | rewrite tr_hh_conj | rewrite (tr_ii_conj (o:=o) (ii:=ii) (hh:=hh))
                 | rewrite sr_conj_inv].
  Ltac norm := cbv - [kadd kmul ksub kopp kinv kconj k0 k1]; rewrite ?(kinv_two (hh:=hh)); conj_push.
  Ltac poly Hii :=
    first [ ring | ring [Hii]
      | match goal with |- _ = ?r => transitivity (((one+one)*(hh*hh)) * r); [ring | rewrite tr_hh; ring] end
      | match goal with |- _ = ?r => transitivity (((one+one)*(hh*hh)) * r); [ring [Hii] | rewrite tr_hh; ring] end
      | match goal with |- _ = ?r => transitivity (((one+one)*(hh*hh)) * (((one+one)*(hh*hh)) * r)); [ring [Hii] | rewrite !tr_hh; ring] end ].

  Lemma mid_split_m m a k : 0 < m -> mid o (a / m) (k / m) * mid o (a mod m) (k mod m) = mid o a k.
  Proof.
    intros Hm. unfold mid. rewrite <- (eqb_split_m m a k Hm).
    destruct (a / m =? k / m), (a mod m =? k mod m); simpl; ring.
  Qed.

  Definition choi_T (V : @mat K) : @mat K := choi_from_unitary o 2 (mtrans V).

  (* the preparation circuits make the states of RHO_MAPPING *)
  Lemma prep_rho1_spec l : meq 2 (prep_rho1 o ii hh l) (rho_mat l).
  Proof.
    assert (Hii := tr_ii (o:=o)).
    intros i j Hi Hj. destruct i as [|[|i]]; [| |lia]; (destruct j as [|[|j]]; [| |lia]); destruct l; norm; poly Hii.
  Qed.

  Lemma rho_trace l : trace o 2 (rho_mat l) = one.
  Proof. assert (Hii := tr_ii (o:=o)). destruct l; norm; poly Hii. Qed.

  (* every row equation of the LI system holds at choi_from_unitary(V), for EVERY matrix V *)
  Lemma li_row_identity (V : @mat K) i m : In i li_inputs ->
    sumn 16 (fun x => li_row o ii 1 ([i], [m]) x * vec 4 (choi_from_unitary o 2 V) x)
    = pauli_expect (o:=o) (ii:=ii) 1 (out_rho o 2 V (rho_mat i)) [m].
  Proof.
    intros Hi. assert (Hii := tr_ii (o:=o)).
    unfold li_inputs in Hi. simpl in Hi.
    destruct Hi as [<-|[<-|[<-|[<-|[]]]]]; destruct m; norm; poly Hii.
  Qed.

  (* ... and with the rows of the pinned tree it holds at choi(V^T) *)
  Lemma li_row_pinned_identity (V : @mat K) i m : In i li_inputs ->
    sumn 16 (fun x => li_row_pinned o ii 1 ([i], [m]) x * vec 4 (choi_T V) x)
    = pauli_expect (o:=o) (ii:=ii) 1 (out_rho o 2 V (rho_mat i)) [m].
  Proof.
    intros Hi. assert (Hii := tr_ii (o:=o)).
    unfold li_inputs in Hi. simpl in Hi.
    destruct Hi as [<-|[<-|[<-|[<-|[]]]]]; destruct m; norm; poly Hii.
  Qed.

  (* ---- the 16 x 16 LI matrix has a left inverse: dual bases ---- *)
  Definition li_keys1 : list (instr * mstr) :=
    flat_map (fun i => map (fun m => ([i], [m])) meas_keys) li_inputs.
  Definition T1 : @mat K := fun r x => li_row o ii 1 (nth r li_keys1 ([], [])) x.
  Definition T1p : @mat K := fun r x => li_row_pinned o ii 1 (nth r li_keys1 ([], [])) x.

  Definition kappa (l : inlab) : @mat K :=
    let a := - ((one + ii) * (hh * hh)) in
    let b := - ((one - ii) * (hh * hh)) in
    match l with
    | ZP => m22 o one a b zero
    | ZM => m22 o zero a b one
    | XP => m22 o zero one one zero
    | YP => m22 o zero ii (- ii) zero
    | _ => mzero o
    end.
  (* x = (b, a, b', a') for the repaired rows (Pauli index first), (a, b, a', b') for the pinned ones *)
  Definition L1 : @mat K := fun x r =>
    let k := nth r li_keys1 ([], []) in
    let i := hd ZP (fst k) in let m := hd PI (snd k) in
    (hh * hh) * (kappa i ((x / 4) mod 2)%nat ((x mod 4) mod 2)%nat * pauli_mat m (x / 4 / 2)%nat (x mod 4 / 2)%nat).
  Definition L1p : @mat K := fun x r =>
    let k := nth r li_keys1 ([], []) in
    let i := hd ZP (fst k) in let m := hd PI (snd k) in
    (hh * hh) * (kappa i (x / 4 / 2)%nat (x mod 4 / 2)%nat * pauli_mat m ((x / 4) mod 2)%nat ((x mod 4) mod 2)%nat).

  Lemma dualK i j i' j' : i < 2 -> j < 2 -> i' < 2 -> j' < 2 ->
    sumn 4 (fun a => kappa (nth a li_inputs ZP) i j * rho_mat (nth a li_inputs ZP) i' j') = mid o i i' * mid o j j'.
  Proof.
    intros Hi Hj Hi' Hj'. assert (Hii := tr_ii (o:=o)).
    destruct i as [|[|i]]; [| |lia]; (destruct j as [|[|j]]; [| |lia]);
    (destruct i' as [|[|i']]; [| |lia]); (destruct j' as [|[|j']]; [| |lia]); norm; poly Hii.
  Qed.

  Lemma dualP a b a' b' : a < 2 -> b < 2 -> a' < 2 -> b' < 2 ->
    sumn 4 (fun m => (hh * hh) * (pauli_mat (nth m meas_keys PI) a b * conj (pauli_mat (nth m meas_keys PI) a' b')))
    = mid o a a' * mid o b b'.
  Proof.
    intros Ha Hb Ha' Hb'. assert (Hii := tr_ii (o:=o)).
    destruct a as [|[|a]]; [| |lia]; (destruct b as [|[|b]]; [| |lia]);
    (destruct a' as [|[|a']]; [| |lia]); (destruct b' as [|[|b']]; [| |lia]); norm; poly Hii.
  Qed.

  Lemma li_keys1_nth a b : a < 4 -> b < 4 ->
    nth (a * 4 + b) li_keys1 ([], []) = ([nth a li_inputs ZP], [nth b meas_keys PI]).
  Proof.
    intros Ha Hb.
    destruct a as [|[|[|[|a]]]]; [| | | |lia]; (destruct b as [|[|[|[|b]]]]; [| | | |lia]); reflexivity.
  Qed.

  Lemma idx16 y : y < 16 -> y / 4 / 2 < 2 /\ y mod 4 / 2 < 2 /\ (y / 4) mod 2 < 2 /\ (y mod 4) mod 2 < 2.
  Proof.
    intros Hy. repeat split; try (apply Nat.mod_upper_bound; lia).
    - apply Nat.div_lt_upper_bound; [lia|]. apply Nat.div_lt_upper_bound; lia.
    - apply Nat.div_lt_upper_bound; [lia|]. apply Nat.mod_upper_bound. lia.
  Qed.

  Lemma L1_T1 x x' : x < 16 -> x' < 16 -> sumn 16 (fun r => L1 x r * T1 r x') = mid o x x'.
  Proof.
    intros Hx Hx'. change 16 with (4 * 4)%nat. rewrite sumn_prod.
    destruct (idx16 x Hx) as [B1 [B2 [B3 B4]]]. destruct (idx16 x' Hx') as [C1 [C2 [C3 C4]]].
    rewrite (sumn_ext 4 _ (fun a => sumn 4 (fun b =>
      (kappa (nth a li_inputs ZP) ((x / 4) mod 2) ((x mod 4) mod 2) * rho_mat (nth a li_inputs ZP) ((x' / 4) mod 2) ((x' mod 4) mod 2)) *
      ((hh * hh) * (pauli_mat (nth b meas_keys PI) (x / 4 / 2) (x mod 4 / 2) *
                    conj (pauli_mat (nth b meas_keys PI) (x' / 4 / 2) (x' mod 4 / 2))))))).
    - rewrite sumn_pair_mul, dualK, dualP by assumption.
      rewrite <- (mid_split_m 4 x x') by lia.
      rewrite <- (mid_split_m 2 (x / 4) (x' / 4)), <- (mid_split_m 2 (x mod 4) (x' mod 4)) by lia. ring.
    - intros a Ha. apply sumn_ext. intros b Hb. unfold L1, T1. rewrite (li_keys1_nth a b Ha Hb).
      cbn [fst snd hd]. unfold li_row, vec, kron, mconj. cbn [fst snd kfold fold_left].
      change (2 ^ 1) with 2. change (2 * 2)%nat with 4.
      rewrite sr_conj_mul, sr_conj_inv. ring.
  Qed.

  Lemma L1p_T1p x x' : x < 16 -> x' < 16 -> sumn 16 (fun r => L1p x r * T1p r x') = mid o x x'.
  Proof.
    intros Hx Hx'. change 16 with (4 * 4)%nat. rewrite sumn_prod.
    destruct (idx16 x Hx) as [B1 [B2 [B3 B4]]]. destruct (idx16 x' Hx') as [C1 [C2 [C3 C4]]].
    rewrite (sumn_ext 4 _ (fun a => sumn 4 (fun b =>
      (kappa (nth a li_inputs ZP) (x / 4 / 2) (x mod 4 / 2) * rho_mat (nth a li_inputs ZP) (x' / 4 / 2) (x' mod 4 / 2)) *
      ((hh * hh) * (pauli_mat (nth b meas_keys PI) ((x / 4) mod 2) ((x mod 4) mod 2) *
                    conj (pauli_mat (nth b meas_keys PI) ((x' / 4) mod 2) ((x' mod 4) mod 2))))))).
    - rewrite sumn_pair_mul, dualK, dualP by assumption.
      rewrite <- (mid_split_m 4 x x') by lia.
      rewrite <- (mid_split_m 2 (x / 4) (x' / 4)), <- (mid_split_m 2 (x mod 4) (x' mod 4)) by lia. ring.
    - intros a Ha. apply sumn_ext. intros b Hb. unfold L1p, T1p. rewrite (li_keys1_nth a b Ha Hb).
      cbn [fst snd hd]. unfold li_row_pinned, vec, kron, mconj. cbn [fst snd kfold fold_left].
      change (2 ^ 1) with 2. change (2 * 2)%nat with 4.
      rewrite sr_conj_mul, sr_conj_inv. ring.
  Qed.

  (* a matrix with a left inverse has a trivial kernel *)
  Lemma left_inverse_kernel N (L T : @mat K) :
    (forall x x', x < N -> x' < N -> sumn N (fun r => L x r * T r x') = mid o x x') ->
    forall y : nat -> K, (forall r, r < N -> sumn N (fun x => T r x * y x) = zero) ->
    forall x, x < N -> y x = zero.
  Proof.
    intros HL y H x Hx.
    transitivity (sumn N (fun x' => mid o x x' * y x')).
    { rewrite (sumn_single N x) by (try assumption; intros k _ Hk; unfold mid; apply Nat.eqb_neq in Hk;
                                      rewrite Nat.eqb_sym, Hk; ring).
      unfold mid. rewrite Nat.eqb_refl. ring. }
    rewrite (sumn_ext N _ (fun x' => sumn N (fun r => L x r * (T r x' * y x')))).
    - rewrite sumn_swap. apply sumn_zero'. intros r Hr. rewrite sumn_mul_l, H by assumption. ring.
    - intros x' Hx'. rewrite <- (HL x x') by assumption. rewrite <- sumn_mul_r. apply sumn_ext. intros; ring.
  Qed.

  Lemma T1_kernel (y : nat -> K) : (forall r, r < 16 -> sumn 16 (fun x => T1 r x * y x) = zero) ->
    forall x, x < 16 -> y x = zero.
  Proof. apply (left_inverse_kernel 16 L1 T1). exact L1_T1. Qed.
  Lemma T1p_kernel (y : nat -> K) : (forall r, r < 16 -> sumn 16 (fun x => T1p r x * y x) = zero) ->
    forall x, x < 16 -> y x = zero.
  Proof. apply (left_inverse_kernel 16 L1p T1p). exact L1p_T1p. Qed.

  Lemma pauli_expect_compat n rho rho' c : meq (2 ^ n) rho rho' ->
    pauli_expect (o:=o) (ii:=ii) n rho c = pauli_expect (o:=o) (ii:=ii) n rho' c.
  Proof.
    intros H. unfold pauli_expect. apply sumn_ext. intros k Hk. apply sumn_ext. intros l Hl.
    rewrite H by assumption. reflexivity.
  Qed.

  Lemma out_rho_compat d V rho rho' : meq d rho rho' -> meq d (out_rho o d V rho) (out_rho o d V rho').
  Proof.
    intros H. unfold out_rho. apply mmul_compat; [|apply meq_refl]. apply mmul_compat; [apply meq_refl|exact H].
  Qed.

  (* np.linalg.pinv(T) @ b on a square system.  CONTRACT: if the system is
     consistent and T has a trivial kernel (full column rank), the result is
     the (unique) solution. *)
  Definition pinv_contract (solve : nat -> @mat K -> (nat -> K) -> nat -> K) : Prop :=
    forall N (T : @mat K) (b x0 : nat -> K),
      (forall r, r < N -> sumn N (fun x => T r x * x0 x) = b r) ->
      (forall y, (forall r, r < N -> sumn N (fun x => T r x * y x) = zero) -> forall x, x < N -> y x = zero) ->
      forall x, x < N -> solve N T b x = x0 x.

  Lemma istrings_1 keys : istrings keys 1 = map (fun p => [p]) keys.
  Proof. reflexivity. Qed.

  (* noiseless expectation values of a unitary process, one qubit *)
  Lemma process_expectations V (inputs : list inlab) :
    lunit o 2 V ->
    expectations o (concat (map (fun i => map (fun c => ((i, c),
        ideal_data o ii hh 1 (replIZ c) (out_rho o 2 V (in_rho o ii hh i)))) (tomo_measurements 1 false))
        (istrings inputs 1)))
    = Ok (map (fun k => (k, pauli_expect (o:=o) (ii:=ii) 1 (out_rho o 2 V (in_rho o ii hh (fst k))) (snd k)))
              (concat (map (fun i => map (fun c => (i, c)) (tomo_measurements 1 false)) (istrings inputs 1)))).
  Proof.
    intros HV. unfold expectations.
    assert (G : forall l : list instr, (forall i, In i l -> exists p, i = [p]) ->
      mapM (fun kd : (instr * mstr) * data => do e <- expectation o (snd (fst kd)) (snd kd); Ok (fst kd, e))
           (concat (map (fun i => map (fun c => ((i, c),
              ideal_data o ii hh 1 (replIZ c) (out_rho o 2 V (in_rho o ii hh i)))) (tomo_measurements 1 false)) l))
      = Ok (map (fun k => (k, pauli_expect (o:=o) (ii:=ii) 1 (out_rho o 2 V (in_rho o ii hh (fst k))) (snd k)))
                (concat (map (fun i => map (fun c => (i, c)) (tomo_measurements 1 false)) l)))).
    { intros l Hl.
      rewrite (mapM_ok _ (fun kd => (fst kd, pauli_expect (o:=o) (ii:=ii) 1 (out_rho o 2 V (in_rho o ii hh (fst (fst kd)))) (snd (fst kd))))).
      - f_equal. rewrite !concat_map, !map_map. f_equal; try (apply map_ext; intros i; rewrite !map_map; reflexivity).
      - intros kd Hkd. apply in_concat in Hkd as [seg [Hseg Hkd]].
        apply in_map_iff in Hseg as [i [<- Hi]]. apply in_map_iff in Hkd as [c [<- Hc]]. cbn [fst snd].
        destruct (Hl i Hi) as [p ->].
        rewrite expectation_ideal; [reflexivity| |].
        + unfold tomo_measurements in Hc. apply strings_length_elem in Hc; [exact Hc|lia].
        + change (2 ^ 1) with 2. rewrite out_rho_trace by exact HV.
          change (in_rho o ii hh [p]) with (prep_rho1 o ii hh p).
          rewrite (trace_compat _ _ _ (prep_rho1_spec p)). apply rho_trace. }
    apply G. intros i Hi. rewrite istrings_1 in Hi. apply in_map_iff in Hi as [p [<- _]]. exists p. reflexivity.
  Qed.

  (* LI with any row function whose system is solved by J0 and has a trivial kernel returns J0 *)
  Lemma li_gen_solution (row : nat -> instr * mstr -> nat -> K) (J0 : @mat K) solve V req :
    pinv_contract solve -> lunit o 2 V -> Permutation req (req_canonical 1 false) ->
    (forall i m, In i li_inputs ->
       sumn 16 (fun x => row 1 ([i], [m]) x * vec 4 J0 x)
       = pauli_expect (o:=o) (ii:=ii) 1 (out_rho o 2 V (rho_mat i)) [m]) ->
    (forall y : nat -> K, (forall r, r < 16 -> sumn 16 (fun x => row 1 (nth r li_keys1 ([], [])) x * y x) = zero) ->
       forall x, x < 16 -> y x = zero) ->
    exists J, li_process_gen o row solve 1 req (process_ideal o ii hh 1 V (istrings li_inputs 1) req) = Ok J /\
              meq 4 J J0.
  Proof.
    intros Hs HV Hp Hrow Hker. unfold li_process_gen, process_ideal.
    rewrite (run_required_family (fun i s => ideal_data o ii hh 1 s (out_rho o 2 V (in_rho o ii hh i)))) by (try lia; exact Hp).
    cbn [bind]. rewrite (process_expectations V li_inputs HV). cbn [bind].
    eexists. split; [reflexivity|].
    set (lams := map _ _).
    assert (HN : length lams = 16) by reflexivity. rewrite HN.
    assert (Hk : forall r, r < 16 -> fst (nth r lams ([], [], zero)) = nth r li_keys1 ([], [])).
    { intros r Hr. do 16 (destruct r as [|r]; [reflexivity|]). lia. }
    assert (Hb : forall r, r < 16 -> snd (nth r lams ([], [], zero)) =
              pauli_expect (o:=o) (ii:=ii) 1 (out_rho o 2 V (in_rho o ii hh (fst (nth r li_keys1 ([], []))))) (snd (nth r li_keys1 ([], [])))).
    { intros r Hr. do 16 (destruct r as [|r]; [reflexivity|]). lia. }
    intros r c Hr Hc. unfold unvec. change (2 ^ 1 * 2 ^ 1)%nat with 4.
    rewrite (Hs 16 _ _ (vec 4 J0)).
    - unfold vec. destruct (div_mod_block 4 r c Hc) as [E1 E2]. rewrite E1, E2. reflexivity.
    - intros q Hq. rewrite Hk, Hb by assumption.
      assert (Hq' : exists a b, a < 4 /\ b < 4 /\ q = (a * 4 + b)%nat).
      { exists (q / 4), (q mod 4). repeat split.
        - apply Nat.div_lt_upper_bound; lia.
        - apply Nat.mod_upper_bound; lia.
        - rewrite (Nat.div_mod_eq q 4) at 1. lia. }
      destruct Hq' as [a [b [Ha [Hb' ->]]]]. rewrite (li_keys1_nth a b Ha Hb'). cbn [fst snd].
      rewrite Hrow.
      + apply pauli_expect_compat. apply out_rho_compat. apply meq_sym. apply prep_rho1_spec.
      + destruct a as [|[|[|[|a]]]]; simpl; try tauto. lia.
    - intros y Hy. apply Hker. intros q Hq. rewrite <- (Hy q Hq). apply sumn_ext. intros x _.
      rewrite Hk by assumption. reflexivity.
    - destruct r as [|[|[|[|r]]]]; [| | | |lia]; lia.
  Qed.

  (* the repaired code: LI on noiseless data returns choi_from_unitary(V) itself *)
  Theorem li_returns_choi_from_unitary solve V req :
    pinv_contract solve -> lunit o 2 V -> Permutation req (req_canonical 1 false) ->
    exists J, li_process o ii solve 1 req (process_ideal o ii hh 1 V (istrings li_inputs 1) req) = Ok J /\
              meq 4 J (choi_from_unitary o 2 V).
  Proof.
    intros Hs HV Hp. apply (li_gen_solution (li_row o ii) (choi_from_unitary o 2 V) solve V req Hs HV Hp).
    - intros i m Hi. apply li_row_identity. exact Hi.
    - exact T1_kernel.
  Qed.

  (* the pinned tree: LI returned the Choi matrix of the TRANSPOSE *)
  Theorem li_pinned_returns_choi_of_transpose solve V req :
    pinv_contract solve -> lunit o 2 V -> Permutation req (req_canonical 1 false) ->
    exists J, li_process_pinned o ii solve 1 req (process_ideal o ii hh 1 V (istrings li_inputs 1) req) = Ok J /\
              meq 4 J (choi_T V).
  Proof.
    intros Hs HV Hp. apply (li_gen_solution (li_row_pinned o ii) (choi_T V) solve V req Hs HV Hp).
    - intros i m Hi. apply li_row_pinned_identity. exact Hi.
    - exact T1p_kernel.
  Qed.

  (* symmetric V: both conventions coincide *)
  Lemma choi_T_symmetric V : meq 2 (mtrans V) V -> meq 4 (choi_T V) (choi_from_unitary o 2 V).
  Proof.
    intros H r c Hr Hc. unfold choi_T, choi_from_unitary, vec.
    assert (B : forall y, y < 4 -> y / 2 < 2 /\ y mod 2 < 2).
    { intros y Hy. split; [apply Nat.div_lt_upper_bound; lia|apply Nat.mod_upper_bound; lia]. }
    destruct (B r Hr), (B c Hc). rewrite !H by assumption. reflexivity.
  Qed.
End LI1.

(* ------------------------------------------------------ gate fidelity, one qubit *)
Section GF1.
  Context {K : Type} {o : ops K} {ii hh : K} {TR : TomoRing o ii hh}.
  Let R := sr_ring (o:=o).
  Add Ring Kgf : R.
  Local Notation "a + b" := (kadd o a b).
  Local Notation "a * b" := (kmul o a b).
  Local Notation "a - b" := (ksub o a b).
  Local Notation "- a" := (kopp o a).
  Local Notation one := (k1 o).
  Local Notation zero := (k0 o).
  Local Notation conj := (kconj o).
  Local Notation sumn := (sumn o).
  Local Notation suml := (suml o).
  Local Notation pauli_mat := (pauli_mat o ii).
  Local Notation rho_mat := (rho_mat o ii).
  Local Notation kappa := (kappa (o:=o) (ii:=ii) (hh:=hh)).

  Ltac conj_push :=
    repeat first [rewrite sr_conj_add | rewrite sr_conj_mul | rewrite sr_conj_opp | rewrite sr_conj_1
                 | rewrite sr_conj_0 | rewrite tr_hh_conj | rewrite (tr_ii_conj (o:=o) (ii:=ii) (hh:=hh))
                 | rewrite sr_conj_inv].
  Ltac norm := cbv - [kadd kmul ksub kopp kinv kconj k0 k1]; rewrite ?(kinv_two (hh:=hh)); conj_push.
  Ltac poly Hii :=
    first [ ring | ring [Hii] | ring [Hii (tr_hh (o:=o) (ii:=ii) (hh:=hh))]
      | match goal with |- _ = ?r => transitivity (((one+one)*(hh*hh)) * r); [ring | rewrite tr_hh; ring] end
      | match goal with |- _ = ?r => transitivity (((one+one)*(hh*hh)) * r); [ring [Hii] | rewrite tr_hh; ring] end
      | match goal with |- _ = ?r => transitivity (((one+one)*(hh*hh)) * (((one+one)*(hh*hh)) * r)); [ring [Hii] | rewrite !tr_hh; ring] end ].

  (* coefficients of I, X, Y, Z in the basis rho(Z+), rho(Z-), rho(X+), rho(Y+) *)
  Definition alpha0 (i : nat) : nat -> K :=
    let two := one + one in
    match i with
    | 0 => fun j => match j with 0 | 1 => one | _ => zero end
    | 1 => fun j => match j with 0 | 1 => - one | 2 => two | _ => zero end
    | 2 => fun j => match j with 0 | 1 => - one | 3 => two | _ => zero end
    | 3 => fun j => match j with 0 => one | 1 => - one | _ => zero end
    | _ => fun _ => zero
    end.

  Lemma alpha0_solves i x : i < 4 -> x < 4 ->
    sumn 4 (fun j => basis_vectors o ii 1 x j * alpha0 i j) = vec 2 (nth i (u_basis o ii 1) (mid o)) x.
  Proof.
    intros Hi Hx. assert (Hii := tr_ii (o:=o)).
    destruct i as [|[|[|[|i]]]]; [| | | |lia]; (destruct x as [|[|[|[|x]]]]; [| | | |lia]); norm; poly Hii.
  Qed.

  Lemma basis_left_inverse j j' : j < 4 -> j' < 4 ->
    sumn 4 (fun x => vec 2 (kappa (nth j li_inputs ZP)) x * basis_vectors o ii 1 x j') = mid o j j'.
  Proof.
    intros Hj Hj'. assert (Hii := tr_ii (o:=o)).
    destruct j as [|[|[|[|j]]]]; [| | | |lia]; (destruct j' as [|[|[|[|j']]]]; [| | | |lia]); norm; poly Hii.
  Qed.

  Lemma basis_kernel (y : nat -> K) : (forall x, x < 4 -> sumn 4 (fun j => basis_vectors o ii 1 x j * y j) = zero) ->
    forall j, j < 4 -> y j = zero.
  Proof.
    intros H j Hj.
    transitivity (sumn 4 (fun j' => mid o j j' * y j')).
    { rewrite (sumn_single 4 j) by (try assumption; intros k _ Hk; unfold mid; apply Nat.eqb_neq in Hk;
                                     rewrite Nat.eqb_sym, Hk; ring).
      unfold mid. rewrite Nat.eqb_refl. ring. }
    rewrite (sumn_ext 4 _ (fun j' => sumn 4 (fun x => vec 2 (kappa (nth j li_inputs ZP)) x * (basis_vectors o ii 1 x j' * y j')))).
    - rewrite sumn_swap. apply sumn_zero'. intros x Hx. rewrite sumn_mul_l, H by assumption. ring.
    - intros j' Hj'. rewrite <- (basis_left_inverse j j') by assumption. rewrite <- sumn_mul_r. apply sumn_ext. intros; ring.
  Qed.

  (* the sum of GateFidelity.process as a function of the alpha coefficients and the
     reconstructed density matrices *)
  Definition gf_F (U : @mat K) (u r : @mat K) : K :=
    trace o 2 (mmul o 2 (mmul o 2 (mmul o 2 U (madj o u)) (madj o U)) r).
  Definition gf_total (a : nat -> nat -> K) (Rs : nat -> @mat K) (U : @mat K) : K :=
    sumn 4 (fun i => sumn 4 (fun j => a i j * gf_F U (nth i (u_basis o ii 1) (mid o)) (Rs j))).

  Lemma gf_total_identity (U V : @mat K) :
    gf_total alpha0 (fun j => out_rho o 2 V (rho_mat (nth j li_inputs ZP))) U
    = (one + one) * (trace o 2 (mmul o 2 (madj o U) V) * conj (trace o 2 (mmul o 2 (madj o U) V))).
  Proof. assert (Hii := tr_ii (o:=o)). norm. poly Hii. Qed.

  Lemma gf_F_compat U u r r' : meq 2 r r' -> gf_F U u r = gf_F U u r'.
  Proof. intros H. unfold gf_F. apply trace_compat. apply mmul_compat; [apply meq_refl|exact H]. Qed.

  Lemma gf_total_ext a a' Rs Rs' U :
    (forall i j, i < 4 -> j < 4 -> a i j = a' i j) -> (forall j, j < 4 -> meq 2 (Rs j) (Rs' j)) ->
    gf_total a Rs U = gf_total a' Rs' U.
  Proof.
    intros Ha HR. unfold gf_total. apply sumn_ext. intros i Hi. apply sumn_ext. intros j Hj.
    rewrite Ha by assumption. rewrite (gf_F_compat U _ _ _ (HR j Hj)). reflexivity.
  Qed.

  Lemma suml_combine4 (a0 a1 a2 a3 : nat -> K) (u0 u1 u2 u3 r0 r1 r2 r3 : @mat K) (F : @mat K -> @mat K -> K) :
    suml (combine [a0; a1; a2; a3] [u0; u1; u2; u3]) (fun au =>
      suml (combine (seq 0 4) [r0; r1; r2; r3]) (fun jr => fst au (fst jr) * F (snd au) (snd jr)))
    = sumn 4 (fun i => sumn 4 (fun j =>
        nth i [a0; a1; a2; a3] (fun _ => zero) j * F (nth i [u0; u1; u2; u3] (mid o)) (nth j [r0; r1; r2; r3] (mid o)))).
  Proof. simpl. ring. Qed.

  Lemma results_of_input_family (D : instr -> mstr -> data (K:=K)) l : In l li_inputs ->
    results_of_input [l] (concat (map (fun i => map (fun c => ((i, c), D i (replIZ c))) (tomo_measurements 1 false))
                                      (istrings li_inputs 1)))
    = map (fun c => (c, D [l] (replIZ c))) (tomo_measurements 1 false).
  Proof. intros Hl. unfold li_inputs in Hl. simpl in Hl. destruct Hl as [<-|[<-|[<-|[<-|[]]]]]; reflexivity. Qed.

  Lemma input_density V l : lunit o 2 V -> In l li_inputs ->
    exists Rl, density o ii 1 (map (fun c => (c, ideal_data o ii hh 1 (replIZ c) (out_rho o 2 V (in_rho o ii hh [l]))))
                                   (tomo_measurements 1 false)) = Ok Rl /\
               meq 2 Rl (out_rho o 2 V (rho_mat l)).
  Proof.
    intros HV Hl.
    destruct (density_ideal (hh:=hh) 1 (out_rho o 2 V (in_rho o ii hh [l]))) as [Rl [E M]]; [lia| |].
    - change (2 ^ 1) with 2. rewrite out_rho_trace by exact HV.
      change (in_rho o ii hh [l]) with (prep_rho1 o ii hh l).
      rewrite (trace_compat _ _ _ (prep_rho1_spec l)). apply rho_trace.
    - exists Rl. split; [exact E|]. eapply meq_trans; [exact M|]. apply out_rho_compat. apply prep_rho1_spec.
  Qed.

  Theorem gate_fidelity_formula solve U V req i3 :
    pinv_contract (o:=o) solve -> lunit o 2 V -> Permutation req (req_canonical 1 false) ->
    (one + one + one) * i3 = one ->
    gf_process o ii solve 1 req (process_ideal o ii hh 1 V (istrings li_inputs 1) req) U
    = Ok ((trace o 2 (mmul o 2 (madj o U) V) * conj (trace o 2 (mmul o 2 (madj o U) V)) + ofnat o 2) *
          kinv o (ofnat o 2 * (ofnat o 2 + one))).
  Proof.
    intros Hs HV Hp H3. unfold gf_process, process_ideal.
    rewrite (run_required_family (fun i s => ideal_data o ii hh 1 s (out_rho o 2 V (in_rho o ii hh i)))) by (try lia; exact Hp).
    cbn [bind].
    destruct (input_density V ZP HV) as [R0 [E0 M0]]; [simpl; tauto|].
    destruct (input_density V ZM HV) as [R1 [E1 M1]]; [simpl; tauto|].
    destruct (input_density V XP HV) as [R2 [E2 M2]]; [simpl; tauto|].
    destruct (input_density V YP HV) as [R3 [E3 M3]]; [simpl; tauto|].
    change (istrings li_inputs 1) with [[ZP]; [ZM]; [XP]; [YP]] at 2.
    cbn [mapM].
    rewrite !(results_of_input_family (fun i s => ideal_data o ii hh 1 s (out_rho o 2 V (in_rho o ii hh i)))) by (simpl; tauto).
    rewrite E0, E1, E2, E3. cbn [bind]. f_equal.
    (* the total *)
    set (B := basis_vectors o ii 1).
    assert (Ha : forall i j, i < 4 -> j < 4 ->
              solve 4 B (vec 2 (nth i (u_basis o ii 1) (mid o))) j = alpha0 i j).
    { intros i j Hi Hj. apply (Hs 4 B _ (alpha0 i)); try assumption.
      - intros x Hx. apply alpha0_solves; assumption.
      - intros y Hy. apply basis_kernel. exact Hy. }
    unfold alpha_mat. change (4 ^ 1) with 4. change (2 ^ 1) with 2. fold B.
    change (u_basis o ii 1) with [kfold o pauli_mat [PI]; kfold o pauli_mat [PX]; kfold o pauli_mat [PY]; kfold o pauli_mat [PZ]].
    cbn [map length].
    rewrite (suml_combine4 _ _ _ _ _ _ _ _ R0 R1 R2 R3 (gf_F U)).
    change [kfold o pauli_mat [PI]; kfold o pauli_mat [PX]; kfold o pauli_mat [PY]; kfold o pauli_mat [PZ]] with (u_basis o ii 1).
    set (t := trace o 2 (mmul o 2 (madj o U) V)).
    match goal with |- (?tot + _) * _ = _ => assert (Et : tot = (one + one) * (t * conj t)) end.
    { unfold t. rewrite <- gf_total_identity. unfold gf_total.
      apply sumn_ext; intros i Hi; apply sumn_ext; intros j Hj. f_equal.
      - destruct i as [|[|[|[|i]]]]; [| | | |lia]; cbn [nth].
        + exact (Ha 0 j ltac:(lia) Hj).
        + exact (Ha 1 j ltac:(lia) Hj).
        + exact (Ha 2 j ltac:(lia) Hj).
        + exact (Ha 3 j ltac:(lia) Hj).
      - apply gf_F_compat. destruct j as [|[|[|[|j]]]]; [| | | |lia]; cbn [nth]; assumption. }
    rewrite Et. change (ofnat o 2) with ((zero + one) + one).
    assert (K12 : kinv o ((zero + one + one) * (zero + one + one) * (zero + one + one + one)) = hh * hh * (hh * hh) * i3).
    { apply ui_inv.
      transitivity (((one + one) * (hh * hh)) * ((one + one) * (hh * hh)) * ((one + one + one) * i3)); [ring|].
      rewrite tr_hh, H3. ring. }
    assert (K6 : kinv o ((zero + one + one) * (zero + one + one + one)) = hh * hh * i3).
    { apply ui_inv.
      transitivity (((one + one) * (hh * hh)) * ((one + one + one) * i3)); [ring|].
      rewrite tr_hh, H3. ring. }
    rewrite K12, K6. ring [(tr_hh (o:=o) (ii:=ii) (hh:=hh))].
  Qed.

  (* target = the gate itself: fidelity one *)
  Corollary gate_fidelity_same solve V req i3 :
    pinv_contract (o:=o) solve -> unitary o 2 V -> Permutation req (req_canonical 1 false) ->
    (one + one + one) * i3 = one ->
    gf_process o ii solve 1 req (process_ideal o ii hh 1 V (istrings li_inputs 1) req) V = Ok one.
  Proof.
    intros Hs [HV _] Hp H3. rewrite (gate_fidelity_formula solve V V req i3 Hs HV Hp H3). f_equal.
    assert (Et : trace o 2 (mmul o 2 (madj o V) V) = one + one).
    { rewrite (trace_compat _ _ _ HV). unfold trace, mid. simpl. ring. }
    rewrite Et. change (ofnat o 2) with ((zero + one) + one).
    assert (K6 : kinv o ((zero + one + one) * (zero + one + one + one)) = hh * hh * i3).
    { apply ui_inv.
      transitivity (((one + one) * (hh * hh)) * ((one + one + one) * i3)); [ring|].
      rewrite tr_hh, H3. ring. }
    rewrite K6, sr_conj_add, sr_conj_1.
    transitivity (((one + one) * (hh * hh)) * ((one + one + one) * i3)); [ring|].
    rewrite tr_hh, H3. ring.
  Qed.
End GF1.

(* ------------------------------------------------------ MLE pieces, one qubit *)
Section MLE1.
  Context {K : Type} {o : ops K} {ii hh : K} {TR : TomoRing o ii hh}.
  Let R := sr_ring (o:=o).
  Add Ring Kml : R.
  Local Notation "a + b" := (kadd o a b).
  Local Notation "a * b" := (kmul o a b).
  Local Notation "a - b" := (ksub o a b).
  Local Notation "- a" := (kopp o a).
  Local Notation one := (k1 o).
  Local Notation zero := (k0 o).
  Local Notation conj := (kconj o).
  Local Notation sumn := (sumn o).
  Local Notation suml := (suml o).
  Local Notation pauli_mat := (pauli_mat o ii).
  Local Notation rho_mat := (rho_mat o ii).

  Ltac conj_push :=
    repeat first [rewrite sr_conj_add | rewrite sr_conj_mul | rewrite sr_conj_opp | rewrite sr_conj_1
                 | rewrite sr_conj_0 | rewrite tr_hh_conj | rewrite (tr_ii_conj (o:=o) (ii:=ii) (hh:=hh))
                 | rewrite sr_conj_inv].
  Ltac norm := cbv - [kadd kmul ksub kopp kinv kconj k0 k1]; rewrite ?(kinv_two (hh:=hh)); conj_push.

  (* the two rows of _a_mat for input l, observable m: projectors (1 +- P_m)/2 *)
  Definition a_row1 (l : inlab) (m : pauli) (s : bool) : nat -> K :=
    fun x => vec 4 (kron o 2%nat (fun i j => (mid o i j + sg o s * pauli_mat m i j) * half o) (mtrans (rho_mat l))) x
             * kinv o (pow2 o 2).
  Definition a_row1_pinned (l : inlab) (m : pauli) (s : bool) : nat -> K :=
    fun x => vec 4 (kron o 2%nat (rho_mat l) (mtrans (fun i j => (mid o i j + sg o s * pauli_mat m i j) * half o))) x
             * kinv o (pow2 o 2).

  Lemma a_rows_1 :
    a_rows o ii 1 = flat_map (fun l => flat_map (fun m => [a_row1 l m false; a_row1 l m true]) [PX; PY; PZ]) mle_inputs.
  Proof. reflexivity. Qed.
  Lemma a_rows_pinned_1 :
    a_rows_pinned o ii 1
    = flat_map (fun l => flat_map (fun m => [a_row1_pinned l m false; a_row1_pinned l m true]) [PX; PY; PZ]) mle_inputs.
  Proof. reflexivity. Qed.

  Lemma kinv_four : kinv o ((one + one) * ((one + one) * one)) = hh * hh * (hh * hh).
  Proof.
    apply ui_inv. transitivity (((one + one) * (hh * hh)) * ((one + one) * (hh * hh))); [ring|]. rewrite tr_hh. ring.
  Qed.

  (* the probability the model assigns to outcome +-1 of observable m on input l, times the
     weight 1/4 of _a_mat: (tr +- <P_m>)/2 / 4 for the state V rho_l V^+ *)
  Definition born_pm (V : @mat K) (l : inlab) (m : pauli) (s : bool) : K :=
    (trace o 2 (out_rho o 2 V (rho_mat l)) + sg o s * pauli_expect (o:=o) (ii:=ii) 1 (out_rho o 2 V (rho_mat l)) [m])
    * (hh * hh) * (hh * hh * (hh * hh)).

  (* forward model of the MLE at the reference choi_from_unitary(V) itself - for every matrix V *)
  Lemma mle_forward_row (V : @mat K) l m s : In m [PX; PY; PZ] ->
    sumn 16 (fun x => a_row1 l m s x * vec 4 (mtrans (choi_from_unitary o 2 V)) x) = born_pm V l m s.
  Proof.
    intros Hm. assert (Hii := tr_ii (o:=o)). simpl in Hm. unfold born_pm.
    destruct Hm as [<-|[<-|[<-|[]]]]; destruct l, s; norm; rewrite ?kinv_four;
      first [ring | ring [Hii] | ring [Hii (tr_hh (o:=o) (ii:=ii) (hh:=hh))]].
  Qed.

  (* on the pinned tree the same holds at the CONJUGATE of what LI returned *)
  Lemma mle_forward_row_pinned (V : @mat K) l m s : In m [PX; PY; PZ] ->
    sumn 16 (fun x => a_row1_pinned l m s x * vec 4 (mtrans (mconj o (choi_T (o:=o) V))) x) = born_pm V l m s.
  Proof.
    intros Hm. assert (Hii := tr_ii (o:=o)). simpl in Hm. unfold born_pm.
    destruct Hm as [<-|[<-|[<-|[]]]]; destruct l, s; norm; rewrite ?kinv_four;
      first [ring | ring [Hii] | ring [Hii (tr_hh (o:=o) (ii:=ii) (hh:=hh))]].
  Qed.

  (* _p_vec before clipping, the whole vector, in the order of the rows of _a_mat *)
  Theorem mle_forward_model (V : @mat K) :
    p_lin o ii 1 (choi_from_unitary o 2 V)
    = flat_map (fun l => flat_map (fun m => [born_pm V l m false; born_pm V l m true]) [PX; PY; PZ]) mle_inputs.
  Proof.
    unfold p_lin, p_lin_of. rewrite a_rows_1. change (4 ^ 1 * 4 ^ 1)%nat with 16. change (4 ^ 1)%nat with 4.
    unfold mle_inputs. cbn [flat_map map app].
    repeat (f_equal; [apply mle_forward_row; simpl; tauto|]). f_equal. apply mle_forward_row; simpl; tauto.
  Qed.

  Theorem mle_forward_model_pinned (V : @mat K) :
    p_lin_of o (a_rows_pinned o ii 1) 1 (mconj o (choi_T (o:=o) V))
    = flat_map (fun l => flat_map (fun m => [born_pm V l m false; born_pm V l m true]) [PX; PY; PZ]) mle_inputs.
  Proof.
    unfold p_lin_of. rewrite a_rows_pinned_1. change (4 ^ 1 * 4 ^ 1)%nat with 16. change (4 ^ 1)%nat with 4.
    unfold mle_inputs. cbn [flat_map map app].
    repeat (f_equal; [apply mle_forward_row_pinned; simpl; tauto|]). f_equal. apply mle_forward_row_pinned; simpl; tauto.
  Qed.
End MLE1.

