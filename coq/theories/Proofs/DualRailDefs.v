(* Shared vocabulary of the photonic-level (dual-rail) correctness theorems of C12 / C15
   (Proofs/DualRailP.v and friends).  Definitions only.

   A computational basis state of nq qubits is a bit list [b] of length nq, qubit 0 first
   (the convention of Model/Gates.v: [bits], [dr]; the emitted operations of the converter
   address qubit q on modes 2q, 2q+1).  A qubit-level operator is a function
   V : list bool -> list bool -> T with V b' b = <b'| V |b>; only its values on [bits nq]
   matter. *)
From Coq Require Import ZArith List Bool Arith Lia.
From LW Require Import Base.Num Base.Sums Model.Gates Proofs.ConvertP.
Import ListNotations.
Open Scope nat_scope.

(* the dual-rail Fock state of b as natural-number occupations: znat (dr b) *)
Definition drn (b : list bool) : list nat :=
  flat_map (fun x : bool => if x then [0; 1] else [1; 0]) b.

(* the k entries of b from position q on; b with the entries from position q on replaced by x *)
Definition slice {A} (b : list A) (q k : nat) : list A := firstn k (skipn q b).
Definition splice {A} (b : list A) (q : nat) (x : list A) : list A :=
  firstn q b ++ x ++ skipn (q + length x) b.

Definition qmat (T : Type) : Type := list bool -> list bool -> T.

(* the k-qubit operator M applied to the adjacent qubits q, ..., q+k-1, composed AFTER V:
   ((M on q..q+k-1) . V) b' b = sum_x M[b'|block, x] V[b' with block := x, b] *)
Definition lift_blk {T} (t : ops T) (M : qmat T) (q k : nat) (V : qmat T) : qmat T :=
  fun b' b => suml t (bits k) (fun x => kmul t (M (slice b' q k) x) (V (splice b' q x) b)).

(* exchange of the qubits qa and qb of a basis state ([transp] of ConvertP), and the SWAP
   gate composed after V *)
Definition swapbits (qa qb : nat) (b : list bool) : list bool :=
  map (fun p => nth (transp qa qb p) b false) (seq 0 (length b)).
Definition lift_swap {T} (qa qb : nat) (V : qmat T) : qmat T :=
  fun b' b => V (swapbits qa qb b') b.

(* the identity operator *)
Definition qid {T} (t : ops T) : qmat T := fun b' b => delta t b' b.

(* a single-qubit matrix given by its four entries (C13: named_sq / named_rq, indices idx1) as
   an operator on bit lists of length 1 *)
Definition m1_of {K} (N : nat -> nat -> K) : qmat K := fun b' b => N (idx1 b') (idx1 b).
