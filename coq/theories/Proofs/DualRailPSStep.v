(* The combinatorial core of the dual-rail step lemma in the presence of POST-SELECTED gates
   (C12, allow_post_selection = True; DESIGN "### C12").  Generalises Proofs/DualRailStep.v:
   the parent's statement is restricted to outputs whose pair count is 1 on every qubit of a
   set D of "dead" qubits (rule qubits that no later multi-qubit gate touches); the added gate is
   either leak-free (single-qubit, heralded) or post-selected (only its dual-rail table is known:
   photon-number conservation then forces a non-dual-rail output to have a pair count <> 1 on at
   least two of its qubits, one of which is dead afterwards by the analyser's guarantee).
   The structural part of the section is the one of DualRailStep.v. *)
From Coq Require Import ZArith List Bool Arith Lia Permutation Ring_theory Ring.
From LW Require Import Base.Sx Base.Num Base.Sums Base.Mat Model.State Model.Circuit Model.Fock Model.Gates
     Proofs.StateP Proofs.PermP Proofs.FockUnitP Proofs.DisplayP Proofs.WiringDefs Proofs.WiringSwaps
     Proofs.WiringRank Proofs.WiringP Proofs.WiringAmpFock Proofs.DualRailDefs Proofs.DualRailFull Proofs.DualRailStep.
Import ListNotations.
Open Scope nat_scope.

(* ---- pair counts ---- *)
(* photons on the two modes of qubit q of a visible state *)
Definition cnt (v : list nat) (q : nat) : nat := nth (2 * q) v 0 + nth (2 * q + 1) v 0.
(* every qubit q < nq of the set Dd carries exactly one photon *)
Definition okD (nq : nat) (Dd : nat -> bool) (v : list nat) : bool :=
  forallb (fun q => implb (Dd q) (cnt v q =? 1)) (seq 0 nq).

Lemma okD_spec nq Dd v : okD nq Dd v = true <-> forall q, q < nq -> Dd q = true -> cnt v q = 1.
Proof.
  unfold okD. rewrite forallb_forall. split.
  - intros H q Hq Hd. specialize (H q ltac:(apply in_seq; lia)). rewrite Hd in H. apply Nat.eqb_eq. exact H.
  - intros H q Hq. apply in_seq in Hq. destruct (Dd q) eqn:E; [|reflexivity]. apply Nat.eqb_eq. apply H; [lia|exact E].
Qed.

Lemma okD_false nq Dd v : okD nq Dd v = false -> exists q, q < nq /\ Dd q = true /\ cnt v q <> 1.
Proof.
  unfold okD. intros H.
  assert (G : forall l, forallb (fun q => implb (Dd q) (cnt v q =? 1)) l = false ->
                        exists q, In q l /\ Dd q = true /\ cnt v q <> 1).
  { induction l as [|a l IH]; [discriminate|]. cbn [forallb]. intros E.
    destruct (implb (Dd a) (cnt v a =? 1)) eqn:Ea.
    - destruct (IH E) as (q & Hq & H1 & H2). exists q. split; [right; exact Hq|]. split; assumption.
    - exists a. split; [left; reflexivity|]. destruct (Dd a); [|discriminate]. split; [reflexivity|].
      apply Nat.eqb_neq. exact Ea. }
  destruct (G _ H) as (q & Hq & H1 & H2). apply in_seq in Hq. exists q. split; [lia|]. split; assumption.
Qed.

Lemma cnt_drn b q : q < length b -> cnt (drn b) q = 1.
Proof.
  intros Hq. unfold cnt. rewrite drn_nth_even, drn_nth_odd.
  replace (q <? length b) with true by (symmetry; apply Nat.ltb_lt; exact Hq). destruct (nth q b false); reflexivity.
Qed.

Lemma okD_drn nq Dd b : length b = nq -> okD nq Dd (drn b) = true.
Proof. intros Hl. apply okD_spec. intros q Hq _. apply cnt_drn. lia. Qed.

Lemma cnt_slice v q k i : i < k -> cnt (slice v (2 * q) (2 * k)) i = cnt v (q + i).
Proof.
  intros Hi. unfold cnt. rewrite !nth_slice by lia. f_equal; f_equal; lia.
Qed.

Lemma cnt_cons2 a c w i : cnt (a :: c :: w) (S i) = cnt w i.
Proof. unfold cnt. replace (2 * S i) with (S (S (2 * i))) by lia. replace (S (S (2 * i)) + 1) with (S (S (2 * i + 1))) by lia. reflexivity. Qed.

Lemma pairs_one_osum k : forall w, length w = 2 * k -> (forall i, i < k -> cnt w i = 1) -> osum w = k.
Proof.
  induction k as [|k IH]; intros w Hl H.
  - destruct w; [reflexivity|discriminate].
  - destruct w as [|a [|c w]]; try (simpl in Hl; lia).
    rewrite !osum_cons. rewrite (IH w) by (try (simpl in Hl; lia); intros i Hi; rewrite <- cnt_cons2 with (a:=a) (c:=c); apply H; lia).
    specialize (H 0 ltac:(lia)). unfold cnt in H. simpl in H. lia.
Qed.

(* k photons on k pairs with at most one pair count different from 1: all pair counts are 1 *)
Lemma at_most_one_bad k : forall w, length w = 2 * k -> osum w = k ->
  (forall i j, i < k -> j < k -> i <> j -> cnt w i = 1 \/ cnt w j = 1) -> forall i, i < k -> cnt w i = 1.
Proof.
  induction k as [|k IH]; intros w Hl Hs H i Hi; [lia|].
  destruct w as [|a [|c w]]; try (simpl in Hl; lia).
  rewrite !osum_cons in Hs.
  assert (Lw : length w = 2 * k) by (simpl in Hl; lia).
  assert (C0 : cnt (a :: c :: w) 0 = a + c) by (unfold cnt; simpl; lia).
  destruct (Nat.eq_dec (a + c) 1) as [E|E].
  - destruct i as [|i]; [rewrite C0; exact E|]. rewrite cnt_cons2. apply (IH w Lw ltac:(lia)); [|lia].
    intros i' j' Hi' Hj' Hne. rewrite <- (cnt_cons2 a c w i'), <- (cnt_cons2 a c w j'). apply H; lia.
  - exfalso. assert (G : forall j, j < k -> cnt w j = 1).
    { intros j Hj. destruct (H 0 (S j) ltac:(lia) ltac:(lia) ltac:(lia)) as [H0|H0]; [rewrite C0 in H0; contradiction|].
      rewrite cnt_cons2 in H0. exact H0. }
    rewrite (pairs_one_osum k w Lw G) in Hs. lia.
Qed.

(* all pair counts 1: a dual-rail state *)
Lemma all_one_dr k : forall w, length w = 2 * k -> (forall i, i < k -> cnt w i = 1) ->
  exists b', length b' = k /\ w = drn b'.
Proof.
  induction k as [|k IH]; intros w Hl H.
  - exists []. destruct w; [split; reflexivity|discriminate].
  - destruct w as [|a [|c w]]; try (simpl in Hl; lia).
    destruct (IH w ltac:(simpl in Hl; lia)) as (b' & Lb & ->).
    { intros i Hi. rewrite <- cnt_cons2 with (a:=a) (c:=c). apply H. lia. }
    specialize (H 0 ltac:(lia)). unfold cnt in H. simpl in H.
    destruct a as [|[|a]]; destruct c as [|[|c]]; try lia.
    + exists (true :: b'). split; [simpl; lia|reflexivity].
    + exists (false :: b'). split; [simpl; lia|reflexivity].
Qed.

Section WiredPS.
  Context {R : Type} {r : ops R} {SR : StarRing r} {ZM : ZMorph r}.
  Let Rr := sr_ring (o:=r).
  Add Ring Kdrps : Rr.
  Local Notation "0" := (k0 r) : K_scope.
  Local Notation "1" := (k1 r) : K_scope.
  Local Notation "a * b" := (kmul r a b) : K_scope.
  Notation mat := (@mat R).

  Variable ninv : nat -> R.
  Hypothesis ninv_spec : forall k, 0 < k -> kmul r (kofnat r k) (ninv k) = k1 r.

  (* parent: nP modes, ancillas int, lP loss modes, heralds hinP / houtP; nq qubits *)
  Variables (nP lP nq : nat) (int : list nat) (hinP houtP : dict).
  (* gate: nS = 2k + h modes, heralds hS_in / hS_out; added on qubits q .. q+k-1 *)
  Variables (nS h k q : nat) (hS_in hS_out : dict).
  Variables (old loc phi_in phi_out : nat -> nat).
  Let nR := nP + h.
  Let D := nR + lP.
  Let ins := dkeys hS_in.
  Let outs := dkeys hS_out.
  Let visP := vis nP int.
  Let hin' := dmap old hinP ++ dmap phi_in hS_in.
  Let hout' := dmap old houtP ++ dmap phi_in hS_in.

  (* ---- the parent's shape ---- *)
  Hypothesis int_nodup : NoDup int.
  Hypothesis int_lt : forall i, In i int -> i < nP.
  Hypothesis nP_eq : nP = 2 * nq + length int.
  Hypothesis hinP_keys : forall i, In i (dkeys hinP) <-> In i int.
  Hypothesis houtP_keys : forall i, In i (dkeys houtP) <-> In i int.
  Hypothesis hinP_nodup : NoDup (dkeys hinP).
  Hypothesis houtP_nodup : NoDup (dkeys houtP).
  Hypothesis hinP_le1 : forall kv, In kv hinP -> snd kv <= 1.
  Hypothesis houtP_le1 : forall kv, In kv houtP -> snd kv <= 1.
  Hypothesis hP_sum : osum (dvals hinP) = osum (dvals houtP).
  (* ---- the gate's shape ---- *)
  Hypothesis nS_eq : nS = 2 * k + h.
  Hypothesis hS_in_len : length hS_in = h.
  Hypothesis hS_out_len : length hS_out = h.
  Hypothesis ins_nodup : NoDup ins.
  Hypothesis outs_nodup : NoDup outs.
  Hypothesis ins_lt : forall i, In i ins -> i < nS.
  Hypothesis outs_lt : forall i, In i outs -> i < nS.
  Hypothesis hS_vals : dvals hS_out = dvals hS_in.
  Hypothesis hS_le1 : forall kv, In kv hS_in -> snd kv <= 1.
  Hypothesis qk_le : q + k <= nq.
  (* ---- the wiring ---- *)
  Hypothesis old_mono : forall a b, a < b -> old a < old b.
  Hypothesis old_lt : forall i, i < nP -> old i < nR.
  Hypothesis old_loss : forall l, old (nP + l) = nR + l.
  Hypothesis loc_lt : forall j, j < h -> loc j < nR /\ forall i, old i <> loc j.
  Hypothesis loc_inj : forall j j', j < h -> j' < h -> loc j = loc j' -> j = j'.
  Hypothesis phi_her : forall j, j < h -> phi_in (nth j ins 0) = loc j /\ phi_out (nth j outs 0) = loc j.
  Hypothesis phi_open : forall j, j < 2 * k ->
      phi_in (nth j (vis nS ins) 0) = old (nth (2 * q + j) visP 0) /\
      phi_out (nth j (vis nS outs) 0) = old (nth (2 * q + j) visP 0).
  Hypothesis phi_inj : forall i j, i < nS -> j < nS -> (phi_in i = phi_in j -> i = j) /\ (phi_out i = phi_out j -> i = j).

  (* ---- elementary consequences ---- *)
  Lemma old_inj a b : old a = old b -> a = b.
  Proof.
    intros E. destruct (lt_eq_lt_dec a b) as [[H|H]|H]; [|exact H|];
      apply old_mono in H; lia.
  Qed.

  Lemma visP_length : length visP = 2 * nq.
  Proof. unfold visP. rewrite vis_length by assumption. lia. Qed.

  Lemma visP_nth j : j < 2 * nq -> nth j visP 0 < nP /\ ~ In (nth j visP 0) int.
  Proof. intros Hj. apply vis_in. apply nth_In. fold visP. rewrite visP_length. exact Hj. Qed.

  Lemma hP_len : length hinP = length int /\ length houtP = length int.
  Proof.
    split.
    - rewrite <- (map_length fst hinP). apply Permutation_length. apply NoDup_Permutation; assumption.
    - rewrite <- (map_length fst houtP). apply Permutation_length. apply NoDup_Permutation; assumption.
  Qed.

  (* every mode of the result below nR is an old parent mode or a new ancilla *)
  Lemma pigeon z : z < nR -> (exists p, p < nP /\ z = old p) \/ (exists j, j < h /\ z = loc j).
  Proof.
    intros Hz.
    pose proof (seq_split_perm old nP nR old_lt (fun i j _ _ E => old_inj i j E)) as P.
    assert (Hin : In z (map old (seq 0 nP) ++ offm old nP nR)).
    { eapply Permutation_in; [exact P|]. apply in_seq. lia. }
    apply in_app_or in Hin as [Hin|Hin].
    - left. apply in_map_iff in Hin as (p & <- & Hp). apply in_seq in Hp. exists p. split; [lia|reflexivity].
    - right.
      assert (Lo : length (offm old nP nR) = h).
      { apply Permutation_length in P. rewrite app_length, map_length, !seq_length in P. unfold nR in *. lia. }
      assert (Incl : incl (map loc (seq 0 h)) (offm old nP nR)).
      { intros y Hy. apply in_map_iff in Hy as (j & <- & Hj). apply in_seq in Hj.
        apply offm_in. destruct (loc_lt j ltac:(lia)) as [H1 H2]. split; [exact H1|]. intros i _. apply H2. }
      assert (ND : NoDup (map loc (seq 0 h))).
      { apply nodup_map_inj_in; [|apply seq_NoDup]. intros a b Ha Hb. apply in_seq in Ha, Hb. apply loc_inj; lia. }
      assert (Incl' : incl (offm old nP nR) (map loc (seq 0 h))).
      { apply NoDup_length_incl; [exact ND| |exact Incl]. rewrite map_length, seq_length. lia. }
      apply Incl' in Hin. apply in_map_iff in Hin as (j & <- & Hj). apply in_seq in Hj. exists j. split; [lia|reflexivity].
  Qed.

  Lemma ins_nth_map : map phi_in ins = map loc (seq 0 h).
  Proof.
    assert (Li : length ins = h) by (unfold ins, dkeys; rewrite map_length; exact hS_in_len).
    apply (nth_ext _ _ 0 0); [rewrite !map_length, seq_length; exact Li|].
    intros j Hj. rewrite map_length in Hj.
    rewrite (nth_indep (map phi_in ins) 0 (phi_in 0)) by (rewrite map_length; exact Hj). rewrite map_nth.
    rewrite (nth_indep (map loc (seq 0 h)) 0 (loc 0)) by (rewrite map_length, seq_length; lia). rewrite map_nth.
    rewrite seq_nth by lia. apply (phi_her j). lia.
  Qed.

  (* the keys of the result's herald dictionaries *)
  Lemma keys' (hP : dict) : dkeys (dmap old hP ++ dmap phi_in hS_in) = map old (dkeys hP) ++ map loc (seq 0 h).
  Proof. rewrite dkeys_app, !dkeys_dmap. fold ins. rewrite ins_nth_map. reflexivity. Qed.

  (* the visible modes of the result are the images of the parent's visible modes *)
  Lemma vis' (hP : dict) : (forall i, In i (dkeys hP) <-> In i int) ->
    vis nR (dkeys (dmap old hP ++ dmap phi_in hS_in)) = map old visP.
  Proof.
    intros HK. apply sasc_ext; [apply vis_sasc|apply sasc_map; [exact old_mono|apply vis_sasc]|].
    intros z. split.
    - intros Hv. apply vis_in in Hv as [Hz Hn]. rewrite keys' in Hn. apply in_map_iff.
      destruct (pigeon z Hz) as [(p & Hp & ->)|(j & Hj & ->)].
      + exists p. split; [reflexivity|]. apply vis_in. split; [exact Hp|].
        intros Hi. apply Hn. apply in_or_app. left. apply in_map. apply HK. exact Hi.
      + exfalso. apply Hn. apply in_or_app. right. apply in_map. apply in_seq. lia.
    - intros Hm. apply in_map_iff in Hm as (p & <- & Hp). apply vis_in in Hp as [Hp Hi].
      apply vis_in. split; [apply old_lt, Hp|]. rewrite keys'. intros H. apply in_app_or in H as [H|H].
      + apply in_map_iff in H as (i & E & Hi'). apply old_inj in E. subst i. apply Hi, HK, Hi'.
      + apply in_map_iff in H as (j & E & Hj). apply in_seq in Hj. destruct (loc_lt j ltac:(lia)) as [_ H2]. exact (H2 p (eq_sym E)).
  Qed.

  Lemma keys'_nodup (hP : dict) : (forall i, In i (dkeys hP) <-> In i int) -> NoDup (dkeys hP) ->
    NoDup (dkeys (dmap old hP ++ dmap phi_in hS_in)) /\
    (forall z, In z (dkeys (dmap old hP ++ dmap phi_in hS_in)) -> z < nR) /\
    length (dmap old hP ++ dmap phi_in hS_in) = length int + h.
  Proof.
    intros HK HN. rewrite keys'. split; [|split].
    - apply nodup_app.
      + apply nodup_map_inj_in; [|exact HN]. intros a b _ _. apply old_inj.
      + apply nodup_map_inj_in; [|apply seq_NoDup]. intros a b Ha Hb. apply in_seq in Ha, Hb. apply loc_inj; lia.
      + intros z H1 H2. apply in_map_iff in H1 as (i & <- & _). apply in_map_iff in H2 as (j & E & Hj).
        apply in_seq in Hj. destruct (loc_lt j ltac:(lia)) as [_ H3]. exact (H3 i (eq_sym E)).
    - intros z Hz. apply in_app_or in Hz as [Hz|Hz].
      + apply in_map_iff in Hz as (i & <- & Hi). apply old_lt, int_lt, HK, Hi.
      + apply in_map_iff in Hz as (j & <- & Hj). apply in_seq in Hj. apply loc_lt. lia.
    - rewrite app_length. unfold dmap. rewrite !map_length, hS_in_len. f_equal.
      rewrite <- (map_length fst hP). apply Permutation_length. apply NoDup_Permutation; assumption.
  Qed.

  (* a full state of the result, read along old, is a full state of the parent *)
  Lemma restr_full (hP : dict) v z : (forall i, In i (dkeys hP) <-> In i int) ->
    full_st nR lP (dmap old hP ++ dmap phi_in hS_in) v z ->
    full_st nP lP hP v (restr old (nP + lP) z).
  Proof.
    intros HK (L1 & H1 & V1 & Z1).
    split; [apply restr_length|]. split; [|split].
    - intros kv Hkv. assert (Hk : fst kv < nP) by (apply int_lt, HK; unfold dkeys; apply in_map; exact Hkv).
      rewrite nth_restr by lia. apply (H1 (old (fst kv), snd kv)). apply in_or_app. left.
      unfold dmap. apply in_map_iff. exists kv. split; [reflexivity|exact Hkv].
    - intros j Hj. rewrite (vis_ext nP (dkeys hP) int HK) in Hj |- *. fold visP in Hj |- *.
      assert (Hp : nth j visP 0 < nP) by (apply visP_nth; rewrite <- visP_length; exact Hj).
      rewrite nth_restr by lia. rewrite (vis' hP HK) in V1.
      specialize (V1 j). rewrite map_length in V1. specialize (V1 Hj).
      rewrite (nth_indep (map old visP) 0 (old 0)) in V1 by (rewrite map_length; exact Hj). rewrite map_nth in V1. exact V1.
    - intros i Hi. destruct (lt_dec i (nP + lP)) as [Hl|Hl].
      + rewrite nth_restr by exact Hl. replace i with (nP + (i - nP)) by lia. rewrite old_loss. apply Z1. lia.
      + apply nth_overflow. rewrite restr_length. lia.
  Qed.

  (* photon number of a full state of the result *)
  Lemma full'_osum (hP : dict) v z : (forall i, In i (dkeys hP) <-> In i int) -> NoDup (dkeys hP) ->
    length v = 2 * nq -> full_st nR lP (dmap old hP ++ dmap phi_in hS_in) v z ->
    osum z = osum v + (osum (dvals hP) + osum (dvals hS_in)).
  Proof.
    intros HK HN Hv F. destruct (keys'_nodup hP HK HN) as (N1 & N2 & N3).
    rewrite (full_st_osum _ _ _ _ _ F N1 N2).
    - rewrite dvals_app, !dvals_dmap, osum_app. reflexivity.
    - rewrite (vis' hP HK), map_length, visP_length. exact Hv.
  Qed.

  (* modes of the gate: heralds and open modes *)
  Lemma nS_split i : i < nS -> (exists j, j < h /\ i = nth j ins 0) \/ (exists j, j < 2 * k /\ i = nth j (vis nS ins) 0).
  Proof.
    intros Hi. assert (Li : length ins = h) by (unfold ins, dkeys; rewrite map_length; exact hS_in_len).
    destruct (in_dec Nat.eq_dec i ins) as [H|H].
    - left. destruct (In_nth _ _ 0 H) as (j & Hj & E). exists j. split; [lia|symmetry; exact E].
    - right. assert (Hv : In i (vis nS ins)) by (apply vis_in; split; assumption).
      destruct (In_nth _ _ 0 Hv) as (j & Hj & E). exists j. split; [|symmetry; exact E].
      rewrite vis_length in Hj by assumption. lia.
  Qed.

  Lemma phi_in_lt i : i < nS -> phi_in i < nR.
  Proof.
    intros Hi. destruct (nS_split i Hi) as [(j & Hj & ->)|(j & Hj & ->)].
    - rewrite (proj1 (phi_her j Hj)). apply loc_lt, Hj.
    - rewrite (proj1 (phi_open j Hj)). apply old_lt. apply visP_nth. lia.
  Qed.

  (* the image of phi_in: the new ancillas and the block's visible modes *)
  Lemma phi_in_img z : (exists i, i < nS /\ phi_in i = z) <->
    (exists j, j < h /\ z = loc j) \/ (exists j, j < 2 * k /\ z = old (nth (2 * q + j) visP 0)).
  Proof.
    assert (Li : length ins = h) by (unfold ins, dkeys; rewrite map_length; exact hS_in_len).
    split.
    - intros (i & Hi & <-). destruct (nS_split i Hi) as [(j & Hj & ->)|(j & Hj & ->)].
      + left. exists j. split; [exact Hj|apply phi_her, Hj].
      + right. exists j. split; [exact Hj|apply phi_open, Hj].
    - intros [(j & Hj & ->)|(j & Hj & ->)].
      + exists (nth j ins 0). split; [apply ins_lt, nth_In; lia|apply phi_her, Hj].
      + exists (nth j (vis nS ins) 0). split; [|apply phi_open, Hj].
        assert (Hv : In (nth j (vis nS ins) 0) (vis nS ins)) by (apply nth_In; rewrite vis_length by assumption; lia).
        apply vis_in in Hv. tauto.
  Qed.

  (* ---- reading a full state of the result ---- *)
  Section ReadFull.
    Variables (hP : dict) (v z : list nat).
    Hypothesis HK : forall i, In i (dkeys hP) <-> In i int.
    Hypothesis Fz : full_st nR lP (dmap old hP ++ dmap phi_in hS_in) v z.

    Lemma full'_len : length z = D.
    Proof. destruct Fz as (L1 & _). exact L1. Qed.

    Lemma full'_vis j : j < 2 * nq -> nth (old (nth j visP 0)) z 0 = nth j v 0.
    Proof.
      intros Hj. destruct Fz as (_ & _ & V1 & _). rewrite (vis' hP HK) in V1.
      specialize (V1 j). rewrite map_length, visP_length in V1. specialize (V1 Hj).
      rewrite (nth_indep (map old visP) 0 (old 0)) in V1 by (rewrite map_length, visP_length; exact Hj).
      rewrite map_nth in V1. exact V1.
    Qed.

    Lemma full'_old i a : In (i, a) hP -> nth (old i) z 0 = a.
    Proof.
      intros Hi. destruct Fz as (_ & H1 & _). apply (H1 (old i, a)). apply in_or_app. left.
      unfold dmap. apply in_map_iff. exists (i, a). split; [reflexivity|exact Hi].
    Qed.

    Lemma full'_new kv : In kv hS_in -> nth (phi_in (fst kv)) z 0 = snd kv.
    Proof.
      intros Hi. destruct Fz as (_ & H1 & _). apply (H1 (phi_in (fst kv), snd kv)). apply in_or_app. right.
      unfold dmap. apply in_map_iff. exists kv. split; [reflexivity|exact Hi].
    Qed.

    Lemma full'_loc j : j < h -> nth (loc j) z 0 = snd (nth j hS_in (0, 0)).
    Proof.
      intros Hj. rewrite <- (proj1 (phi_her j Hj)).
      assert (E : nth j ins 0 = fst (nth j hS_in (0, 0))) by apply nth_dkeys.
      rewrite E. apply full'_new. apply nth_In. lia.
    Qed.

    Lemma full'_loss i : nR <= i -> nth i z 0 = 0.
    Proof. destruct Fz as (_ & _ & _ & Z1). apply Z1. Qed.
  End ReadFull.

  Lemma hin'_le1 kv : In kv hin' -> snd kv <= 1.
  Proof.
    unfold hin', dmap. intros H. apply in_app_or in H as [H|H]; apply in_map_iff in H as (kv0 & <- & H); cbn [snd];
      [apply hinP_le1|apply hS_le1]; exact H.
  Qed.
  Lemma hout'_le1 kv : In kv hout' -> snd kv <= 1.
  Proof.
    unfold hout', dmap. intros H. apply in_app_or in H as [H|H]; apply in_map_iff in H as (kv0 & <- & H); cbn [snd];
      [apply houtP_le1|apply hS_le1]; exact H.
  Qed.

  Lemma ninv_1 : ninv 1 = 1%K.
  Proof.
    pose proof (ninv_spec 1 ltac:(lia)) as H. rewrite kofnat_1 in H. rewrite <- H. ring.
  Qed.

  (* a mode old i of a parent ancilla is outside the image of phi_in *)
  Lemma anc_off i : In i int -> forall i', i' < nS -> phi_in i' <> old i.
  Proof.
    intros Hi i' Hi' E.
    destruct (proj1 (phi_in_img (old i)) (ex_intro _ i' (conj Hi' E))) as [(j & Hj & E')|(j & Hj & E')].
    - destruct (loc_lt j Hj) as [_ H2]. exact (H2 i E').
    - apply old_inj in E'. subst i. apply (visP_nth (2 * q + j)); [lia|exact Hi].
  Qed.

  Lemma loss_off l' i' : i' < nS -> phi_in i' <> nR + l'.
  Proof. intros Hi' E. pose proof (phi_in_lt i' Hi'). lia. Qed.

  Lemma loc_off_old j : j < h -> forall i, i < nP + lP -> old i <> loc j.
  Proof. intros Hj i _. apply loc_lt, Hj. Qed.


  (* ================================================================ *)
  (* amplitudes                                                        *)
  (* ================================================================ *)
  Variables (UP US UR : mat) (Kc kG : R) (V M : qmat R).
  (* dead qubits before / after the added gate *)
  Variables (Dd Dd' : nat -> bool).

  Hypothesis HTB : forall x y L, length x = D -> length y = D -> fock_enum L D (osum x) ->
    amp_perm r UR x y =
    suml r L (fun t =>
      kmul r (kmul r
        (kmul r (pass_factor r phi_in nS D t y) (amp_perm r US (restr phi_in nS t) (restr phi_out nS y)))
        (kmul r (pass_factor r old (nP + lP) D x t) (amp_perm r UP (restr old (nP + lP) x) (restr old (nP + lP) t))))
        (ninv (fact_prod t))).

  Hypothesis IHP : forall b x y v, In b (bits nq) -> length v = 2 * nq ->
    full_st nP lP hinP (drn b) x -> full_st nP lP houtP v y -> okD nq Dd v = true ->
    (forall b', In b' (bits nq) -> v = drn b' -> amp_perm r UP x y = kmul r Kc (V b' b) /\ amp_factor x y = 1) /\
    ((forall b', In b' (bits nq) -> v <> drn b') -> amp_perm r UP x y = k0 r).

  (* the gate: its dual-rail table ... *)
  Hypothesis GF1 : forall b b' xs ys, In b (bits k) -> In b' (bits k) ->
    full_st nS 0 hS_in (drn b) xs -> full_st nS 0 hS_out (drn b') ys ->
    amp_perm r US xs ys = kmul r kG (M b' b).
  (* ... and either zero leakage, or (post-selected) at most one of its qubits is not dead afterwards *)
  Hypothesis GF2 :
    (forall b w xs ys, In b (bits k) -> length w = 2 * k ->
       full_st nS 0 hS_in (drn b) xs -> full_st nS 0 hS_out w ys ->
       (forall b', In b' (bits k) -> w <> drn b') -> amp_perm r US xs ys = k0 r) \/
    (forall i j, i < k -> j < k -> i <> j -> Dd' (q + i) = true \/ Dd' (q + j) = true).
  (* off the block the dead qubits stay dead *)
  Hypothesis HDsub : forall p, p < nq -> p < q \/ q + k <= p -> Dd p = true -> Dd' p = true.
  (* a dead qubit q+i inside the block (single-qubit gates; swaps): the gate gives amplitude 0 from a
     state with a wrong photon number on that qubit to every output that is fine on the qubits of
     the block that are dead afterwards *)
  Hypothesis Hblk : forall i, i < k -> Dd (q + i) = true ->
    forall w_in w_out xs ys, length w_in = 2 * k -> length w_out = 2 * k ->
      full_st nS 0 hS_in w_in xs -> full_st nS 0 hS_out w_out ys ->
      cnt w_in i <> 1 -> (forall j, j < k -> Dd' (q + j) = true -> cnt w_out j = 1) ->
      amp_perm r US xs ys = k0 r.

  Section OnePair.
    Variables (b : list bool) (v x y : list nat).
    Hypothesis Hb : In b (bits nq).
    Hypothesis Hv : length v = 2 * nq.
    Hypothesis Fx : full_st nR lP hin' (drn b) x.
    Hypothesis Fy : full_st nR lP hout' v y.
    Hypothesis HokV : okD nq Dd' v = true.

    Let term (t : list nat) : R :=
      kmul r (kmul r
        (kmul r (pass_factor r phi_in nS D t y) (amp_perm r US (restr phi_in nS t) (restr phi_out nS y)))
        (kmul r (pass_factor r old (nP + lP) D x t) (amp_perm r UP (restr old (nP + lP) x) (restr old (nP + lP) t))))
        (ninv (fact_prod t)).
    Let Tm (b'' : list bool) : list nat := mkfull nR lP hout' (drn b'').

    Lemma Tm_full b'' : In b'' (bits nq) -> full_st nR lP hout' (drn b'') (Tm b'').
    Proof.
      intros Hb''. destruct (keys'_nodup houtP houtP_keys houtP_nodup) as (N1 & N2 & N3).
      apply mkfull_full; [exact N1|exact N2|]. fold hout'. unfold hout'. rewrite N3, drn_length.
      apply in_bits_length in Hb''. unfold nR. lia.
    Qed.

    Lemma x_le1 : le1 x.
    Proof. eapply full_st_le1; [exact Fx|exact hin'_le1|intros p; apply drn_le1]. Qed.

    Lemma xP_full : full_st nP lP hinP (drn b) (restr old (nP + lP) x).
    Proof. apply restr_full; [exact hinP_keys|exact Fx]. Qed.

    (* an intermediate state through which both pass factors let photons through *)
    Section Mid.
      Variable t : list nat.
      Hypothesis Lt : length t = D.
      Hypothesis E1 : offocc old (nP + lP) D x = offocc old (nP + lP) D t.
      Hypothesis E2 : offocc phi_in nS D t = offocc phi_in nS D y.

      Lemma mid_old i a : In (i, a) houtP -> nth (old i) t 0 = a.
      Proof.
        intros Hi. assert (Hint : In i int) by (apply houtP_keys; unfold dkeys; apply in_map_iff; exists (i, a); auto).
        rewrite (offocc_eq_nth phi_in nS D t y E2 (old i)).
        - eapply full'_old; [exact Fy|exact Hi].
        - pose proof (old_lt i (int_lt i Hint)). unfold D. lia.
        - apply anc_off. exact Hint.
      Qed.

      Lemma mid_loc j : j < h -> nth (loc j) t 0 = nth (loc j) x 0.
      Proof.
        intros Hj. symmetry. apply (offocc_eq_nth old (nP + lP) D x t E1 (loc j)).
        - destruct (loc_lt j Hj). unfold D. lia.
        - apply loc_off_old. exact Hj.
      Qed.

      Lemma mid_loss i : nR <= i -> nth i t 0 = 0.
      Proof.
        intros Hi. destruct (lt_dec i D) as [Hl|Hl]; [|apply nth_overflow; lia].
        rewrite (offocc_eq_nth phi_in nS D t y E2 i Hl).
        - eapply full'_loss; [exact Fy|exact Hi].
        - intros i' Hi' E. pose proof (phi_in_lt i' Hi'). lia.
      Qed.

      Let wt := map (fun p => nth (old p) t 0) visP.

      Lemma tP_full : full_st nP lP houtP wt (restr old (nP + lP) t).
      Proof.
        split; [apply restr_length|]. split; [|split].
        - intros [i a] Hkv. cbn [fst snd].
          assert (Hi : i < nP) by (apply int_lt, houtP_keys; unfold dkeys; apply in_map_iff; exists (i, a); auto).
          rewrite nth_restr by lia. apply mid_old. exact Hkv.
        - intros j Hj. rewrite (vis_ext nP (dkeys houtP) int houtP_keys) in Hj |- *. fold visP in Hj |- *.
          assert (Hp : nth j visP 0 < nP) by (apply visP_nth; rewrite <- visP_length; exact Hj).
          rewrite nth_restr by lia. unfold wt.
          rewrite (nth_indep (map (fun p => nth (old p) t 0) visP) 0 (nth (old 0) t 0)) by (rewrite map_length; exact Hj).
          rewrite (map_nth (fun p => nth (old p) t 0)). reflexivity.
        - intros i Hi. destruct (lt_dec i (nP + lP)) as [Hl|Hl].
          + rewrite nth_restr by exact Hl. replace i with (nP + (i - nP)) by lia. rewrite old_loss. apply mid_loss. lia.
          + apply nth_overflow. rewrite restr_length. lia.
      Qed.

      Lemma t_full b'' : wt = drn b'' -> full_st nR lP hout' (drn b'') t.
      Proof.
        intros Ew. split; [exact Lt|]. split; [|split].
        - intros kv Hkv. unfold hout' in Hkv. apply in_app_or in Hkv as [Hkv|Hkv];
            unfold dmap in Hkv; apply in_map_iff in Hkv as (kv0 & <- & Hkv0); cbn [fst snd].
          + destruct kv0 as [i a]. apply mid_old. exact Hkv0.
          + destruct (In_nth _ _ (0, 0) Hkv0) as (j & Hj & Ej). rewrite hS_in_len in Hj.
            assert (Ek : fst kv0 = nth j ins 0).
            { unfold ins. rewrite nth_dkeys, Ej. reflexivity. }
            rewrite Ek, (proj1 (phi_her j Hj)), mid_loc by exact Hj.
            rewrite <- (proj1 (phi_her j Hj)), <- Ek. eapply full'_new; [exact Fx|exact Hkv0].
        - unfold hout'. rewrite (vis' houtP houtP_keys). intros j Hj. rewrite map_length in Hj.
          rewrite (nth_indep (map old visP) 0 (old 0)) by (rewrite map_length; exact Hj). rewrite map_nth.
          rewrite <- Ew. unfold wt.
          rewrite (nth_indep (map (fun p => nth (old p) t 0) visP) 0 (nth (old 0) t 0)) by (rewrite map_length; exact Hj).
          rewrite (map_nth (fun p => nth (old p) t 0)). reflexivity.
        - exact mid_loss.
      Qed.
          Lemma mid_new kv : In kv hS_in -> nth (phi_in (fst kv)) t 0 = snd kv.
      Proof.
        intros Hkv0. destruct (In_nth _ _ (0, 0) Hkv0) as (j & Hj & Ej). rewrite hS_in_len in Hj.
        assert (Ek : fst kv = nth j ins 0) by (unfold ins; rewrite nth_dkeys, Ej; reflexivity).
        rewrite Ek, (proj1 (phi_her j Hj)), mid_loc by exact Hj.
        rewrite <- (proj1 (phi_her j Hj)), <- Ek. eapply full'_new; [exact Fx|exact Hkv0].
      Qed.

      Lemma wt_nth j : j < 2 * nq -> nth j wt 0 = nth (old (nth j visP 0)) t 0.
      Proof.
        intros Hj. unfold wt.
        rewrite (nth_indep (map (fun p => nth (old p) t 0) visP) 0 (nth (old 0) t 0)) by (rewrite map_length, visP_length; exact Hj).
        rewrite (map_nth (fun p => nth (old p) t 0)). reflexivity.
      Qed.

      (* off the block the intermediate state and the output agree *)
      Lemma mid_agree j : j < 2 * nq -> j < 2 * q \/ 2 * q + 2 * k <= j -> nth j wt 0 = nth j v 0.
      Proof.
        intros Hj Hoff. rewrite wt_nth by exact Hj. rewrite <- (full'_vis houtP v y houtP_keys Fy j Hj).
        apply (offocc_eq_nth phi_in nS D t y E2).
        - pose proof (old_lt _ (proj1 (visP_nth j Hj))). unfold D. lia.
        - intros i' Hi' E.
          destruct (proj1 (phi_in_img (old (nth j visP 0))) (ex_intro _ i' (conj Hi' E))) as [(j' & Hj' & E')|(j' & Hj' & E')].
          + destruct (loc_lt j' Hj') as [_ H2]. exact (H2 _ E').
          + apply old_inj in E'.
            apply (proj1 (NoDup_nth visP 0) (vis_nodup nP int)) in E'; [lia| |]; rewrite visP_length; lia.
      Qed.

      Lemma mid_gate_in_full : full_st nS 0 hS_in (slice wt (2 * q) (2 * k)) (restr phi_in nS t).
      Proof.
        split; [rewrite restr_length; lia|]. split; [|split].
        - intros kv Hkv. assert (Hk : fst kv < nS) by (apply ins_lt; unfold ins, dkeys; apply in_map; exact Hkv).
          rewrite nth_restr by exact Hk. apply mid_new. exact Hkv.
        - fold ins. intros j Hj. rewrite vis_length in Hj by assumption.
          assert (Hj' : j < 2 * k) by (unfold ins, dkeys in Hj; rewrite map_length in Hj; lia).
          assert (Hp : nth j (vis nS ins) 0 < nS).
          { assert (Hin : In (nth j (vis nS ins) 0) (vis nS ins)) by (apply nth_In; rewrite vis_length by assumption; exact Hj).
            apply vis_in in Hin. tauto. }
          rewrite nth_restr by exact Hp. rewrite (proj1 (phi_open j Hj')).
          rewrite nth_slice by exact Hj'. rewrite wt_nth by lia. reflexivity.
        - intros i Hi. apply nth_overflow. rewrite restr_length. exact Hi.
      Qed.
    End Mid.

    Lemma gate_out_full : full_st nS 0 hS_out (slice v (2 * q) (2 * k)) (restr phi_out nS y).
    Proof.
      split; [rewrite restr_length; lia|]. split; [|split].
      - intros kv Hkv. assert (Hk : fst kv < nS) by (apply outs_lt; unfold outs, dkeys; apply in_map; exact Hkv).
        rewrite nth_restr by exact Hk.
        destruct (In_nth _ _ (0, 0) Hkv) as (j & Hj & Ej). rewrite hS_out_len in Hj.
        assert (Ek : fst kv = nth j outs 0).
        { unfold outs. rewrite nth_dkeys, Ej. reflexivity. }
        rewrite Ek, (proj2 (phi_her j Hj)), (full'_loc houtP v y Fy j Hj).
        rewrite <- nth_dvals, <- hS_vals, nth_dvals, Ej. reflexivity.
      - fold outs. intros j Hj. rewrite vis_length in Hj by assumption.
        assert (Hj' : j < 2 * k) by (unfold outs, dkeys in Hj; rewrite map_length in Hj; lia).
        assert (Hp : nth j (vis nS outs) 0 < nS).
        { assert (Hin : In (nth j (vis nS outs) 0) (vis nS outs)) by (apply nth_In; rewrite vis_length by assumption; exact Hj).
          apply vis_in in Hin. tauto. }
        rewrite nth_restr by exact Hp. rewrite (proj2 (phi_open j Hj')).
        rewrite (full'_vis houtP v y houtP_keys Fy) by lia.
        rewrite nth_slice by exact Hj'. reflexivity.
      - intros i Hi. apply nth_overflow. rewrite restr_length. exact Hi.
    Qed.

    (* photon numbers of the gate's own input and output states *)
    Lemma ins_facts : NoDup (dkeys hS_in) /\ (forall i, In i (dkeys hS_in) -> i < nS) /\
                      length (vis nS (dkeys hS_in)) = 2 * k /\ length (vis nS (dkeys hS_out)) = 2 * k.
    Proof.
      split; [exact ins_nodup|]. split; [exact ins_lt|]. split.
      - rewrite vis_length; [unfold dkeys; rewrite map_length; lia|exact ins_nodup|exact ins_lt].
      - rewrite vis_length; [unfold dkeys; rewrite map_length; lia|exact outs_nodup|exact outs_lt].
    Qed.

    Lemma gate_out_osum : osum (restr phi_out nS y) = osum (slice v (2 * q) (2 * k)) + osum (dvals hS_in).
    Proof.
      destruct ins_facts as (_ & _ & _ & L2).
      rewrite (full_st_osum _ _ _ _ _ gate_out_full outs_nodup outs_lt) by (rewrite slice_length by lia; symmetry; exact L2).
      rewrite hS_vals. reflexivity.
    Qed.

    Lemma term_off t : length t = D -> ~ In t (map Tm (bits nq)) -> term t = k0 r.
    Proof.
      intros Lt Hn. unfold term.
      destruct (list_eq_dec Nat.eq_dec (offocc old (nP + lP) D x) (offocc old (nP + lP) D t)) as [E1|E1].
      2:{ rewrite (pass_factor_neq old (nP + lP) D x t E1). ring. }
      destruct (list_eq_dec Nat.eq_dec (offocc phi_in nS D t) (offocc phi_in nS D y)) as [E2|E2].
      2:{ rewrite (pass_factor_neq phi_in nS D t y E2). ring. }
      set (wt := map (fun p => nth (old p) t 0) visP).
      assert (Lw : length wt = 2 * nq) by (unfold wt; rewrite map_length; apply visP_length).
      destruct (okD nq Dd wt) eqn:EO.
      - destruct (IHP b _ _ wt Hb Lw xP_full (tP_full t Lt E2) EO) as [_ I2].
        destruct (in_dec (list_eq_dec Nat.eq_dec) wt (map drn (bits nq))) as [Hin|Hin].
        + exfalso. apply in_map_iff in Hin as (b'' & Eb & Hb''). apply Hn. apply in_map_iff. exists b''. split; [|exact Hb''].
          apply (full_st_unique nR lP hout' (drn b'')); [apply Tm_full, Hb''|apply t_full; auto].
        + rewrite I2; [ring|]. intros b' Hb' E. apply Hin. rewrite E. apply in_map. exact Hb'.
      - (* a dead qubit of the parent already carries a wrong number of photons *)
        destruct (okD_false _ _ _ EO) as (p & Hp & HDp & Hc).
        destruct (le_lt_dec q p) as [H1|H1]; [destruct (lt_dec p (q + k)) as [H2|H2]|].
        + (* inside the block *)
          assert (Z : amp_perm r US (restr phi_in nS t) (restr phi_out nS y) = k0 r).
          { apply (Hblk (p - q) ltac:(lia) ltac:(replace (q + (p - q)) with p by lia; exact HDp)
                        (slice wt (2 * q) (2 * k)) (slice v (2 * q) (2 * k))).
            - apply slice_length. lia.
            - apply slice_length. lia.
            - exact (mid_gate_in_full t Lt E1).
            - exact gate_out_full.
            - rewrite cnt_slice by lia. replace (q + (p - q)) with p by lia. exact Hc.
            - intros j Hj HDj. rewrite cnt_slice by lia. apply (proj1 (okD_spec _ _ _) HokV); [lia|exact HDj]. }
          rewrite Z. ring.
        + exfalso. pose proof (proj1 (okD_spec _ _ _) HokV p Hp (HDsub p Hp ltac:(lia) HDp)) as Hv1.
          apply Hc. rewrite <- Hv1. unfold cnt. rewrite !(mid_agree t Lt E2) by lia. reflexivity.
        + exfalso. pose proof (proj1 (okD_spec _ _ _) HokV p Hp (HDsub p Hp ltac:(lia) HDp)) as Hv1.
          apply Hc. rewrite <- Hv1. unfold cnt. rewrite !(mid_agree t Lt E2) by lia. reflexivity.
    Qed.

    (* the collapsed terms *)
    Section On.
      Variable b'' : list bool.
      Hypothesis Hb'' : In b'' (bits nq).
      Let t := Tm b''.
      Let Ft : full_st nR lP hout' (drn b'') t := Tm_full b'' Hb''.

      Lemma t_le1 : le1 t.
      Proof. eapply full_st_le1; [exact Ft|exact hout'_le1|intros p; apply drn_le1]. Qed.

      Lemma on_E1 : offocc old (nP + lP) D x = offocc old (nP + lP) D t.
      Proof.
        unfold offocc. apply map_ext_in. intros z Hz. apply offm_in in Hz as [Hz Hoff].
        destruct (le_lt_dec nR z) as [Hn|Hn].
        { exfalso. apply (Hoff (nP + (z - nR))); [unfold D in Hz; lia|]. rewrite old_loss. lia. }
        destruct (pigeon z Hn) as [(p & Hp & ->)|(j & Hj & ->)].
        - exfalso. apply (Hoff p); [lia|reflexivity].
        - rewrite (full'_loc hinP (drn b) x Fx j Hj). symmetry. apply (full'_loc houtP (drn b'') t Ft j Hj).
      Qed.

      Lemma on_term_neq : offocc phi_in nS D t <> offocc phi_in nS D y -> term t = k0 r.
      Proof. intros E. unfold term. rewrite (pass_factor_neq phi_in nS D t y E). ring. Qed.

      Lemma on_term_eq : offocc phi_in nS D t = offocc phi_in nS D y ->
        term t = kmul r (amp_perm r US (restr phi_in nS t) (restr phi_out nS y)) (kmul r Kc (V b'' b)).
      Proof.
        intros E2. unfold term.
        rewrite (pass_factor_eq phi_in nS D t y E2), (pass_factor_eq old (nP + lP) D x t on_E1).
        rewrite (le1_fact_prod _ (le1_offocc phi_in nS D t t_le1)).
        rewrite (le1_fact_prod _ (le1_offocc old (nP + lP) D x x_le1)).
        rewrite (le1_fact_prod t t_le1), ninv_1, kofnat_1.
        assert (FtP : full_st nP lP houtP (drn b'') (restr old (nP + lP) t)) by (apply restr_full; [exact houtP_keys|exact Ft]).
        destruct (IHP b _ _ (drn b'') Hb ltac:(rewrite drn_length, (proj1 (in_bits_length _ _) Hb''); reflexivity) xP_full FtP
                     (okD_drn nq Dd b'' (proj1 (in_bits_length _ _) Hb''))) as [I1 _].
        destruct (I1 b'' Hb'' eq_refl) as [I1' _]. rewrite I1'. ring.
      Qed.

      (* agreement off the block <-> the pass factor of the gate lets the state through *)
      Lemma on_E2_agree : offocc phi_in nS D t = offocc phi_in nS D y ->
        forall j, j < 2 * nq -> j < 2 * q \/ 2 * q + 2 * k <= j -> nth j (drn b'') 0 = nth j v 0.
      Proof.
        intros E2 j Hj Hoff.
        rewrite <- (full'_vis houtP (drn b'') t houtP_keys Ft j Hj), <- (full'_vis houtP v y houtP_keys Fy j Hj).
        apply (offocc_eq_nth phi_in nS D t y E2).
        - pose proof (old_lt _ (proj1 (visP_nth j Hj))). unfold D. lia.
        - intros i' Hi' E.
          destruct (proj1 (phi_in_img (old (nth j visP 0))) (ex_intro _ i' (conj Hi' E))) as [(j' & Hj' & E')|(j' & Hj' & E')].
          + destruct (loc_lt j' Hj') as [_ H2]. exact (H2 _ E').
          + apply old_inj in E'.
            apply (proj1 (NoDup_nth visP 0) (vis_nodup nP int)) in E'; [lia| |]; rewrite visP_length; lia.
      Qed.

      Lemma on_agree_E2 : (forall j, j < 2 * nq -> j < 2 * q \/ 2 * q + 2 * k <= j -> nth j (drn b'') 0 = nth j v 0) ->
        offocc phi_in nS D t = offocc phi_in nS D y.
      Proof.
        intros Hag. unfold offocc. apply map_ext_in. intros z Hz. apply offm_in in Hz as [Hz Hoff].
        destruct (le_lt_dec nR z) as [Hn|Hn].
        { rewrite (full'_loss houtP (drn b'') t Ft z Hn), (full'_loss houtP v y Fy z Hn). reflexivity. }
        destruct (pigeon z Hn) as [(p & Hp & ->)|(j & Hj & ->)].
        - destruct (in_dec Nat.eq_dec p int) as [Hi|Hi].
          + destruct (in_dkeys houtP p (proj2 (houtP_keys p) Hi)) as [a Ha].
            rewrite (full'_old houtP (drn b'') t Ft p a Ha), (full'_old houtP v y Fy p a Ha). reflexivity.
          + assert (Hv' : In p visP) by (apply vis_in; split; assumption).
            destruct (In_nth _ _ 0 Hv') as (j & Hj & <-). rewrite visP_length in Hj.
            rewrite (full'_vis houtP (drn b'') t houtP_keys Ft j Hj), (full'_vis houtP v y houtP_keys Fy j Hj).
            destruct (lt_dec j (2 * q)) as [H1|H1]; [apply Hag; [exact Hj|left; exact H1]|].
            destruct (le_dec (2 * q + 2 * k) j) as [H2|H2]; [apply Hag; [exact Hj|right; exact H2]|].
            exfalso. destruct (proj2 (phi_in_img (old (nth j visP 0)))) as (i' & Hi' & E').
            { right. exists (j - 2 * q). split; [lia|]. f_equal. f_equal. lia. }
            exact (Hoff i' Hi' E').
        - exfalso. apply (Hoff (nth j ins 0)); [|apply phi_her, Hj].
          apply ins_lt, nth_In. unfold ins, dkeys. rewrite map_length, hS_in_len. exact Hj.
      Qed.

      (* the gate's own input and output states *)
      Lemma gate_in_full : full_st nS 0 hS_in (drn (slice b'' q k)) (restr phi_in nS t).
      Proof.
        assert (Lb : length b'' = nq) by (apply in_bits_length; exact Hb'').
        split; [rewrite restr_length; lia|]. split; [|split].
        - intros kv Hkv. assert (Hk : fst kv < nS) by (apply ins_lt; unfold ins, dkeys; apply in_map; exact Hkv).
          rewrite nth_restr by exact Hk. eapply full'_new; [exact Ft|exact Hkv].
        - fold ins. intros j Hj. rewrite vis_length in Hj by assumption.
          assert (Hj' : j < 2 * k) by (unfold ins, dkeys in Hj; rewrite map_length in Hj; lia).
          assert (Hp : nth j (vis nS ins) 0 < nS).
          { assert (Hin : In (nth j (vis nS ins) 0) (vis nS ins)) by (apply nth_In; rewrite vis_length by assumption; exact Hj).
            apply vis_in in Hin. tauto. }
          rewrite nth_restr by exact Hp. rewrite (proj1 (phi_open j Hj')).
          rewrite (full'_vis houtP (drn b'') t houtP_keys Ft) by lia.
          rewrite drn_slice, nth_slice by exact Hj'. reflexivity.
        - intros i Hi. apply nth_overflow. rewrite restr_length. exact Hi.
      Qed.

    End On.

    (* ---- the sum over the intermediate states collapses onto the dual-rail states ---- *)
    Lemma wired_sum : amp_perm r UR x y = suml r (bits nq) (fun b'' => term (Tm b'')).
    Proof.
      rewrite (HTB x y (focks D (osum x)) (full'_len hinP (drn b) x Fx) (full'_len houtP v y Fy) (focks_enum _ _)).
      change (suml r (focks D (osum x)) term = suml r (bits nq) (fun b'' => term (Tm b''))).
      apply suml_collapse.
      - apply focks_nodup.
      - apply nodup_map_inj_in; [|apply bits_nodup]. intros b1 b2 H1 H2 E. apply drn_inj.
        assert (L1 := proj1 (in_bits_length _ _) H1). assert (L2 := proj1 (in_bits_length _ _) H2).
        apply (nth_ext _ _ 0 0); [rewrite !drn_length; lia|]. intros j Hj. rewrite drn_length in Hj.
        rewrite <- (full'_vis houtP (drn b1) (Tm b1) houtP_keys (Tm_full b1 H1) j) by lia.
        rewrite <- (full'_vis houtP (drn b2) (Tm b2) houtP_keys (Tm_full b2 H2) j) by lia.
        rewrite E. reflexivity.
      - intros b'' Hb''. apply focks_spec. split; [apply (full'_len houtP (drn b'')), Tm_full, Hb''|].
        assert (L1 := proj1 (in_bits_length _ _) Hb''). assert (L2 := proj1 (in_bits_length _ _) Hb).
        rewrite (full'_osum houtP (drn b'') (Tm b'') houtP_keys houtP_nodup ltac:(rewrite drn_length; lia) (Tm_full b'' Hb'')).
        rewrite (full'_osum hinP (drn b) x hinP_keys hinP_nodup ltac:(rewrite drn_length; lia) Fx).
        rewrite !osum_drn, hP_sum. lia.
      - intros t Ht Hn. apply term_off; [apply focks_spec in Ht; tauto|exact Hn].
    Qed.

    Lemma y_le1 : le1 v -> le1 y.
    Proof. intros H. eapply full_st_le1; [exact Fy|exact hout'_le1|exact H]. Qed.

    Lemma wired_dr b' : In b' (bits nq) -> v = drn b' ->
      amp_perm r UR x y = kmul r (kmul r Kc kG) (lift_blk r M q k V b' b) /\ amp_factor x y = 1.
    Proof.
      intros Hb' Ev. assert (Lb' := proj1 (in_bits_length _ _) Hb'). split.
      2:{ unfold amp_factor. rewrite (le1_fact_prod x x_le1), (le1_fact_prod y); [reflexivity|].
          apply y_le1. rewrite Ev. intros p. apply drn_le1. }
      rewrite wired_sum.
      rewrite (suml_collapse (bits nq) (bits k) (fun x0 => splice b' q x0) (fun b'' => term (Tm b''))).
      - unfold lift_blk. rewrite <- suml_mul_l. apply suml_ext. intros x0 Hx0.
        assert (Lx0 := proj1 (in_bits_length _ _) Hx0).
        assert (Hb'' : In (splice b' q x0) (bits nq)) by (apply in_bits_length; rewrite splice_length; lia).
        assert (Ag : forall j, j < 2 * nq -> j < 2 * q \/ 2 * q + 2 * k <= j -> nth j (drn (splice b' q x0)) 0 = nth j v 0).
        { intros j Hj Hc. rewrite Ev, drn_splice, nth_splice by (rewrite !drn_length; lia). rewrite drn_length, Lx0.
          destruct (Nat.ltb_spec j (2 * q)) as [H1|H1]; [reflexivity|].
          destruct (Nat.ltb_spec j (2 * q + 2 * k)) as [H2|H2]; [lia|reflexivity]. }
        rewrite (on_term_eq _ Hb'' (on_agree_E2 _ Hb'' Ag)).
        pose proof (gate_in_full _ Hb'') as G1. rewrite <- Lx0 in G1 at 1. rewrite slice_splice in G1 by lia.
        pose proof gate_out_full as G2. rewrite Ev, <- drn_slice in G2.
        rewrite (GF1 x0 (slice b' q k) _ _ Hx0 ltac:(apply in_bits_length, slice_length; lia) G1 G2). ring.
      - apply bits_nodup.
      - apply nodup_map_inj_in; [|apply bits_nodup]. intros x1 x2 H1 H2 E.
        assert (L1 := proj1 (in_bits_length _ _) H1). assert (L2 := proj1 (in_bits_length _ _) H2).
        rewrite <- (slice_splice b' x1 q) by lia. rewrite <- (slice_splice b' x2 q) by lia. rewrite E, L1, L2. reflexivity.
      - intros x0 Hx0. assert (Lx0 := proj1 (in_bits_length _ _) Hx0). apply in_bits_length. rewrite splice_length; lia.
      - intros b'' Hb'' Hn. assert (Lb'' := proj1 (in_bits_length _ _) Hb'').
        destruct (list_eq_dec Nat.eq_dec (offocc phi_in nS D (Tm b'')) (offocc phi_in nS D y)) as [E2|E2];
          [|apply on_term_neq; assumption].
        exfalso. apply Hn. apply in_map_iff. exists (slice b'' q k). split.
        + symmetry. apply bits_agree; [lia|lia|]. intros j Hj Hc. rewrite <- Ev. apply (on_E2_agree _ Hb'' E2); [lia|exact Hc].
        + apply in_bits_length. apply slice_length. lia.
    Qed.


    Lemma wired_leak : (forall b', In b' (bits nq) -> v <> drn b') -> amp_perm r UR x y = k0 r.
    Proof.
      intros Hleak. rewrite wired_sum. apply suml_zero_in. intros b'' Hb''.
      assert (Lb'' := proj1 (in_bits_length _ _) Hb'').
      destruct (list_eq_dec Nat.eq_dec (offocc phi_in nS D (Tm b'')) (offocc phi_in nS D y)) as [E2|E2];
        [|apply on_term_neq; assumption].
      rewrite (on_term_eq _ Hb'' E2).
      assert (Lw : length (slice v (2 * q) (2 * k)) = 2 * k) by (apply slice_length; lia).
      (* the block of the output is not a dual-rail state *)
      assert (Hnd : forall bw, In bw (bits k) -> slice v (2 * q) (2 * k) <> drn bw).
      { intros bw Hbw Ew. assert (Lbw := proj1 (in_bits_length _ _) Hbw).
        apply (Hleak (splice b'' q bw)); [apply in_bits_length; rewrite splice_length; lia|].
        apply (nth_ext _ _ 0 0); [rewrite drn_length, splice_length; lia|]. intros j Hj. rewrite Hv in Hj.
        rewrite drn_splice, nth_splice by (rewrite !drn_length; lia). rewrite drn_length, Lbw.
        destruct (Nat.ltb_spec j (2 * q)) as [H1|H1]; [symmetry; apply (on_E2_agree _ Hb'' E2); [exact Hj|left; exact H1]|].
        destruct (Nat.ltb_spec j (2 * q + 2 * k)) as [H2|H2]; [|symmetry; apply (on_E2_agree _ Hb'' E2); [exact Hj|right; exact H2]].
        rewrite <- Ew, nth_slice by lia. f_equal. lia. }
      destruct GF2 as [GL|GP].
      - rewrite (GL (slice b'' q k) _ _ _ ltac:(apply in_bits_length, slice_length; lia) Lw
                    (gate_in_full _ Hb'') gate_out_full Hnd). ring.
      - (* post-selected gate: photon-number conservation *)
        destruct (Nat.eq_dec (osum (restr phi_in nS (Tm b''))) (osum (restr phi_out nS y))) as [Eo|Eo].
        + exfalso. rewrite gate_out_osum in Eo.
          destruct ins_facts as (_ & _ & L1 & _).
          rewrite (full_st_osum _ _ _ _ _ (gate_in_full _ Hb'') ins_nodup ins_lt) in Eo
            by (rewrite drn_length, slice_length by lia; symmetry; exact L1).
          rewrite osum_drn, slice_length in Eo by lia.
          assert (Hall : forall i, i < k -> cnt (slice v (2 * q) (2 * k)) i = 1).
          { apply (at_most_one_bad k _ Lw ltac:(lia)). intros i j Hi Hj Hne.
            rewrite !cnt_slice by assumption.
            destruct (GP i j Hi Hj Hne) as [Hd|Hd]; [left|right];
              apply (proj1 (okD_spec _ _ _) HokV); try exact Hd; lia. }
          destruct (all_one_dr k _ Lw Hall) as (bw & Lbw & Ew).
          exact (Hnd bw (proj2 (in_bits_length _ _) Lbw) Ew).
        + assert (Z : amp_perm r US (restr phi_in nS (Tm b'')) (restr phi_out nS y) = k0 r).
          { unfold amp_perm. apply perm_ml_length. rewrite !expand_length. intros E. apply Eo. symmetry. exact E. }
          rewrite Z. ring.
    Qed.
  End OnePair.

  (* the step with post-selection, in relational form *)
  Theorem wired_step_ps b x y v : In b (bits nq) -> length v = 2 * nq ->
    full_st nR lP hin' (drn b) x -> full_st nR lP hout' v y -> okD nq Dd' v = true ->
    (forall b', In b' (bits nq) -> v = drn b' ->
       amp_perm r UR x y = kmul r (kmul r Kc kG) (lift_blk r M q k V b' b) /\ amp_factor x y = 1) /\
    ((forall b', In b' (bits nq) -> v <> drn b') -> amp_perm r UR x y = k0 r).
  Proof.
    intros Hb Hv Fx Fy Hok. split.
    - intros b' Hb' E. exact (wired_dr b v x y Hb Hv Fx Fy Hok b' Hb' E).
    - intros H. exact (wired_leak b v x y Hb Hv Fx Fy Hok H).
  Qed.
End WiredPS.
