(* C15 T2, second half: the dual-rail outcome frequencies of the measurement circuits are
   |Kc|^2 times the Born probabilities that StateTomography's noiseless model (Model/Tomo.v
   [ideal_data], C15_state_tomo_identity) uses; the common factor cancels in
   _calculate_expectation_value, so process() returns |psi><psi| with psi = V|b>.
   Scalars: complex pairs over o with a TomoRing structure (Base/QI2.v). *)
From Coq Require Import ZArith List Bool Arith Lia Permutation Ring_theory Ring.
From LW Require Import Base.Sx Base.Num Base.Sums Base.Mat Base.QI2 Model.Circuit Model.Gates Model.Tomo Proofs.TomoStateP
     Proofs.WiringAmpFock Proofs.DualRailDefs Proofs.DualRailFull Proofs.DualRailTomo.
Import ListNotations.
Open Scope nat_scope.

(* ---- index <-> bit list (qubit 0 = most significant bit, as Tomo.bits) ---- *)
Definition idx (b : list bool) : nat := fold_left (fun a x => 2 * a + b2n x) b 0.

Lemma idx_snoc b x : idx (b ++ [x]) = 2 * idx b + b2n x.
Proof. unfold idx. rewrite fold_left_app. reflexivity. Qed.

Lemma b2n_lt x : b2n x < 2.
Proof. destruct x; simpl; lia. Qed.

Lemma b2n_odd k : b2n (Nat.odd k) = k mod 2.
Proof.
  rewrite (Nat.div_mod k 2) at 1 by lia.
  rewrite Nat.add_comm, Nat.odd_add_mul_2.
  pose proof (Nat.mod_upper_bound k 2 ltac:(lia)) as H. destruct (k mod 2) as [|[|m]]; [reflexivity|reflexivity|lia].
Qed.

Lemma tbits_idx b : Tomo.bits (length b) (idx b) = b.
Proof.
  induction b as [|x b IH] using rev_ind; [reflexivity|].
  rewrite app_length, Nat.add_1_r, idx_snoc. cbn [Tomo.bits].
  replace (2 * idx b + b2n x) with (idx b * 2 + b2n x) by lia.
  destruct (split_index (idx b) (b2n x) (b2n_lt x)) as (E1 & _ & E3). rewrite E1, E3, IH.
  destruct x; reflexivity.
Qed.

Lemma idx_tbits n : forall k, k < 2 ^ n -> idx (Tomo.bits n k) = k.
Proof.
  induction n as [|n IH]; intros k Hk; [simpl in Hk; unfold idx; simpl; lia|].
  cbn [Tomo.bits]. rewrite idx_snoc, IH by (apply half_index_lt; exact Hk). rewrite b2n_odd.
  pose proof (Nat.div_mod k 2 ltac:(lia)). lia.
Qed.

Lemma idx_lt b : idx b < 2 ^ length b.
Proof.
  induction b as [|x b IH] using rev_ind; [unfold idx; simpl; lia|].
  rewrite app_length, Nat.add_1_r, idx_snoc, Nat.pow_succ_r'. pose proof (b2n_lt x). lia.
Qed.

Lemma bits_perm n : Permutation (Gates.bits n) (map (Tomo.bits n) (seq 0 (2 ^ n))).
Proof.
  apply NoDup_Permutation.
  - apply bits_nodup.
  - apply nodup_map_inj_in; [|apply seq_NoDup]. intros a b Ha Hb E. apply in_seq in Ha, Hb.
    rewrite <- (idx_tbits n a), <- (idx_tbits n b), E by lia. reflexivity.
  - intros x. rewrite in_bits_length, in_map_iff. split.
    + intros Hl. exists (idx x). split; [rewrite <- Hl; apply tbits_idx|]. apply in_seq. pose proof (idx_lt x). rewrite Hl in H. lia.
    + intros (k & <- & _). apply TomoStateP.bits_length.
Qed.

Section Born.
  Context {K : Type} (o : ops K) (ii hh : K * K) {TR : TomoRing (cplx o) ii hh}.
  Notation T := (K * K)%type.
  Notation t := (cplx o).
  Let Rr := sr_ring (o:=t).
  Add Ring Kborn : Rr.
  Notation mm := (meas_mat t ii hh).
  Local Notation "a * b" := (kmul t a b).
  Local Notation conj := (kconj t).

  Lemma suml_perm {A} (l l' : list A) (f : A -> T) : Permutation l l' -> suml t l f = suml t l' f.
  Proof.
    induction 1 as [|x l l' H IH|x y l|l l' l'' H1 IH1 H2 IH2]; unfold suml in *; cbn [fold_right].
    - reflexivity.
    - rewrite IH. reflexivity.
    - ring.
    - congruence.
  Qed.

  Lemma suml_mapt {A B} (h : A -> B) (l : list A) (f : B -> T) : suml t (map h l) f = suml t l (fun a => f (h a)).
  Proof. induction l as [|a l IH]; [reflexivity|]. unfold suml in *. cbn [map fold_right]. rewrite IH. reflexivity. Qed.

  Lemma suml_bits n (f : list bool -> T) : suml t (Gates.bits n) f = sumn t (2 ^ n) (fun k => f (Tomo.bits n k)).
  Proof. rewrite (suml_perm _ _ f (bits_perm n)), suml_mapt, suml_seq. reflexivity. Qed.

  Lemma tprod_snoc (Us : list (@mat T)) U : forall z x a c, length z = length Us -> length x = length Us ->
    tprod o (Us ++ [U]) (z ++ [a]) (x ++ [c]) = tprod o Us z x * U (b2n a) (b2n c).
  Proof.
    induction Us as [|U0 Us IH]; intros z x a c Hz Hx.
    - destruct z, x; try discriminate. cbn [app tprod]. unfold co, Circuit.T. ring.
    - destruct z as [|a0 z], x as [|c0 x]; try discriminate. cbn [app tprod].
      rewrite IH by (simpl in *; lia). unfold co, Circuit.T. ring.
  Qed.

  (* the tensor product on bit lists is np.kron folded over the setting *)
  Lemma tprod_kfold (s : mstr) : forall z k, z < 2 ^ length s -> k < 2 ^ length s ->
    tprod o (map mm s) (Tomo.bits (length s) z) (Tomo.bits (length s) k) = kfold t mm s z k.
  Proof.
    induction s as [|g s IH] using rev_ind; intros z k Hz Hk.
    - simpl in Hz, Hk. replace z with 0 by lia. replace k with 0 by lia. reflexivity.
    - rewrite app_length, Nat.add_1_r in *. cbn [Tomo.bits]. rewrite map_app. cbn [map].
      rewrite tprod_snoc by (rewrite map_length; apply TomoStateP.bits_length).
      rewrite IH by (apply half_index_lt; assumption).
      rewrite (kfold_snoc (o:=t) mm s g z k Hz Hk), !b2n_odd. reflexivity.
  Qed.

  Lemma tprod_kfold' (s : mstr) m z k : length s = m -> z < 2 ^ m -> k < 2 ^ m ->
    tprod o (map mm s) (Tomo.bits m z) (Tomo.bits m k) = kfold t mm s z k.
  Proof. intros <-. apply tprod_kfold. Qed.

  (* ---- frequencies ---- *)
  Variables (n : nat) (Kc : T) (V : qmat T) (b : list bool).
  Definition psi (k : nat) : T := V (Tomo.bits n k) b.
  (* the amplitude C15_photonic_setting_circuit gives to the dual-rail outcome z of setting s *)
  Definition phot_amp (s : mstr) (z : nat) : T :=
    Kc * suml t (Gates.bits n) (fun x => tprod o (map mm s) (Tomo.bits n z) x * V x b).
  Definition phot_freq (s : mstr) (z : nat) : T := phot_amp s z * conj (phot_amp s z).
  Definition phot_data (s : mstr) : @data T := map (fun z => (dual_rail n z, phot_freq s z)) (seq 0 (2 ^ n)).

  Lemma phot_amp_eq s z : length s = n -> z < 2 ^ n ->
    phot_amp s z = Kc * sumn t (2 ^ n) (fun k => kfold t mm s z k * psi k).
  Proof.
    intros Hs Hz. unfold phot_amp. f_equal. rewrite suml_bits. apply sumn_ext. intros k Hk.
    rewrite (tprod_kfold' s n z k Hs Hz Hk). reflexivity.
  Qed.

  Theorem phot_born s z : length s = n -> z < 2 ^ n ->
    phot_freq s z = (Kc * conj Kc) * born t (2 ^ n) (kfold t mm s) (density_from_state t psi) z.
  Proof.
    intros Hs Hz. unfold phot_freq. rewrite phot_amp_eq by assumption.
    set (a := fun k => kfold t mm s z k * psi k).
    assert (EB : born t (2 ^ n) (kfold t mm s) (density_from_state t psi) z = sumn t (2 ^ n) a * conj (sumn t (2 ^ n) a)).
    { unfold born, density_from_state.
      transitivity (sumn t (2 ^ n) (fun k => sumn t (2 ^ n) (fun l => a k * conj (a l)))).
      - apply sumn_ext. intros k _. apply sumn_ext. intros l _. unfold a. rewrite sr_conj_mul. ring.
      - rewrite (sumn_pair_mul (o:=t) _ _ a (fun l => conj (a l))). rewrite <- sumn_conj. reflexivity. }
    rewrite EB. change (sumn t (2 ^ n) (fun k => kfold t mm s z k * psi k)) with (sumn t (2 ^ n) a).
    rewrite sr_conj_mul. ring.
  Qed.

  (* ---- a common unit factor on the counts does not change an expectation value ---- *)
  Definition scale (kap : T) (d : @data T) : @data T := map (fun sc => (fst sc, kap * snd sc)) d.

  Lemma scale_sum (kap : T) (d : @data T) : forall ms : list bool,
    suml t (combine ms (map (fun sc : list Z * T => (fst sc, kap * snd sc)) d)) (fun mc => sg t (fst mc) * snd (snd mc))
    = kap * suml t (combine ms d) (fun mc => sg t (fst mc) * snd (snd mc)).
  Proof.
    induction d as [|x d IH]; intros [|m ms]; unfold suml in *; cbn [map combine fold_right fst snd]; try ring.
    rewrite IH. ring.
  Qed.

  Lemma expectation_scaled (c : mstr) (d : @data T) (kap w r : T) :
    kap * w = k1 t -> suml t d snd = k1 t ->
    expectation t c d = Ok r -> expectation t c (scale kap d) = Ok r.
  Proof.
    intros Hkw Hnc. unfold expectation, scale. rewrite mapM_map. cbn [fst].
    destruct (mapM (fun sc => mult_aux c 0 (fst sc)) d) as [ms|] eqn:Em; [|discriminate]. cbn [bind].
    rewrite Hnc, (keqb_one_zero (o:=t)), (kinv_one (o:=t)).
    intros H. apply (f_equal (fun x => match x with Ok v => v | Err _ => k0 t end)) in H. cbv beta iota in H. subst r.
    assert (Enc : suml t (map (fun sc : list Z * T => (fst sc, kap * snd sc)) d) snd = kap).
    { rewrite suml_mapt. cbn [snd]. rewrite suml_mul_l, Hnc. ring. }
    rewrite Enc.
    assert (Hk0 : keqb t kap (k0 t) = false).
    { destruct (keqb t kap (k0 t)) eqn:E; [|reflexivity]. apply ui_eqb in E. exfalso.
      apply (ui_neq (o:=t)). rewrite <- Hkw, E. ring. }
    rewrite Hk0, (ui_inv kap w Hkw). f_equal.
    pose proof (scale_sum kap d ms) as Ee.
    rewrite Ee. transitivity ((kap * w) * (suml t (combine ms d) (fun mc => sg t (fst mc) * snd (snd mc)) * k1 t)); [ring|].
    rewrite Hkw. ring.
  Qed.

  Lemma ideal_total s rho : length s = n -> trace t (2 ^ n) rho = k1 t ->
    suml t (ideal_data t ii hh n s rho) snd = k1 t.
  Proof.
    intros Hs Ht. unfold ideal_data. rewrite suml_mapt. cbn [snd]. rewrite suml_seq.
    rewrite (born_total n s rho Hs). exact Ht.
  Qed.

  (* StateTomography.process on the photonic frequencies of every requested setting *)
  Theorem phot_tomography (req : list mstr) (w : T) :
    1 <= n -> Permutation req (req_canonical n false) -> (Kc * conj Kc) * w = k1 t ->
    sumn t (2 ^ n) (fun k => psi k * conj (psi k)) = k1 t ->
    exists R, st_process t ii n req (map phot_data req) = Ok R /\
              meq (2 ^ n) R (density_from_state t psi).
  Proof.
    intros Hn Hp Hkw Hnorm.
    set (rho := density_from_state t psi).
    assert (Ht : trace t (2 ^ n) rho = k1 t) by exact Hnorm.
    assert (Hreq : forall s, In s req -> length s = n).
    { intros s Hs. apply (Permutation_in _ Hp) in Hs. apply (req_canonical_in n s Hn) in Hs. tauto. }
    assert (Ed : forall s, length s = n -> phot_data s = scale (Kc * conj Kc) (ideal_data t ii hh n s rho)).
    { intros s Hs. unfold phot_data, scale, ideal_data. rewrite map_map. apply map_ext_in. intros z Hz.
      apply in_seq in Hz. cbn [fst snd]. f_equal. apply phot_born; [exact Hs|lia]. }
    destruct (density_ideal n rho Hn Ht) as (R & HR & HM). exists R. split; [|exact HM]. rewrite <- HR.
    unfold st_process. rewrite map_length, Nat.eqb_refl. unfold expand_results.
    rewrite (mapM_ok _ (fun c => (c, phot_data (replIZ c)))).
    2:{ intros c Hc. rewrite (dict_get_map phot_data); [reflexivity|].
        apply (Permutation_in _ (Permutation_sym Hp)). apply replIZ_in_req; assumption. }
    cbn [bind]. unfold density. rewrite !mapM_map. cbn [fst snd].
    assert (Em : forall c, In c (tomo_measurements n false) ->
               expectation t c (phot_data (replIZ c)) = expectation t c (ideal_data t ii hh n (replIZ c) rho)).
    { intros c Hc. unfold tomo_measurements in Hc. apply strings_length_elem in Hc; [|exact Hn].
      assert (Hl : length (replIZ c) = n) by (unfold replIZ; rewrite map_length; exact Hc).
      rewrite (Ed _ Hl), (expectation_ideal n c rho Hc Ht).
      apply (expectation_scaled c _ (Kc * conj Kc) w _ Hkw (ideal_total _ rho Hl Ht)).
      apply (expectation_ideal n c rho Hc Ht). }
    assert (EM : forall (l : list mstr), (forall c, In c l -> In c (tomo_measurements n false)) ->
      mapM (fun x => do e <- expectation t x (phot_data (replIZ x)); Ok (e * kinv t (pow2 t n), kfold t (pauli_mat t ii) x)) l =
      mapM (fun x => do e <- expectation t x (ideal_data t ii hh n (replIZ x) rho); Ok (e * kinv t (pow2 t n), kfold t (pauli_mat t ii) x)) l).
    { induction l as [|c l IH]; intros Hl; [reflexivity|]. cbn [mapM].
      rewrite (Em c (Hl c (or_introl eq_refl))). rewrite IH by (intros; apply Hl; right; assumption). reflexivity. }
    rewrite (EM _ (fun c H => H)). reflexivity.
  Qed.
End Born.
