(* The dual-rail theorems in the form quoted by Properties/C12.v and C15.v: everything stated
   with [acts_as_dual_rail] (heralds inserted by add_heralds_to_state, as Simulator.simulate
   does), obtained from the relational versions of DualRailP / DualRailConv / DualRailTomo
   through [acts_iff]. *)
From Coq Require Import ZArith NArith List Bool Arith Lia Permutation.
From LW Require Import Base.Sx Base.Num Base.Sums Base.Mat Model.State Model.Circuit Model.World Model.Fock Model.Gates
     Model.Convert Proofs.PermP Proofs.DisplayP Proofs.WiringMat Proofs.GatesP Proofs.ConvertP
     Proofs.DualRailDefs Proofs.DualRailSem Proofs.DualRailSwap Proofs.DualRailFull Proofs.DualRailStep Proofs.DualRailP
     Proofs.DualRailConv Proofs.DualRailTomo.
Import ListNotations.
Open Scope nat_scope.

Section Main.
  Context {K : Type} (o : ops K) {SRK : StarRing o} {ZMK : ZMorph o}.
  Notation T := (K * K)%type.
  Notation cq := (co o).
  Notation circ := (@circ K).
  Variable ninv : nat -> T.
  Hypothesis ninv_spec : forall k, 0 < k -> kmul cq (kofnat cq k) (ninv k) = k1 cq.

  Theorem dual_rail_initial (e : env (K:=K)) nq :
    acts_as_dual_rail o e (new_circ (2 * nq)) nq (k1 cq) (qid cq).
  Proof. apply acts_iff. exact (new_circ_acts o e nq). Qed.

  Theorem dual_rail_step (e : env (K:=K)) (c sub c' : circ) (nq q k : nat) (Kc kG : T) (V M : qmat T) (g : bool) :
    acts_as_dual_rail o e c nq Kc V -> gate_ok o e sub k kG M -> q + k <= nq ->
    (exists c0, op_add o c sub (Z.of_nat (2 * q)) g = Ok c0) /\
    (op_add o c sub (Z.of_nat (2 * q)) g = Ok c' ->
     acts_as_dual_rail o e c' nq (kmul cq Kc kG) (lift_blk cq M q k V)).
  Proof.
    intros HA Hok Hq. apply acts_iff in HA. split.
    - pose proof HA as (Sh & _). pose proof Hok as (_ & _ & Hk & HnS & _).
      exact (block_accept o c sub nq q k g Sh HnS Hk Hq).
    - intros Hadd. apply acts_iff. exact (block_step o ninv ninv_spec e c sub c' nq q k Kc kG V M g HA Hok Hq Hadd).
  Qed.

  (* SWAP of two different qubits, added at mode 0 as the converter does *)
  Theorem dual_rail_swap_step (c c' : circ) (nq qa qb : nat) (Kc : T) (V : qmat T) :
    acts_as_dual_rail o (env0 o) c nq Kc V -> qa <> qb -> qa < nq -> qb < nq ->
    exists gt, gate_SWAP o (zq (2 * qa) (2 * qa + 1)) (zq (2 * qb) (2 * qb + 1)) = Ok gt /\
      (exists c0, op_add o c (g_circ gt) 0%Z false = Ok c0) /\
      (op_add o c (g_circ gt) 0%Z false = Ok c' ->
       acts_as_dual_rail o (env0 o) c' nq Kc (lift_swap qa qb V)).
  Proof.
    intros HA Hne Ha Hb. destruct (swap_gate_ok o qa qb Hne) as (gt & Hgt & Hok).
    exists gt. split; [exact Hgt|].
    destruct (dual_rail_step (env0 o) c (g_circ gt) c' nq 0 (S (Nat.max qa qb)) Kc (k1 cq) V _ false HA Hok ltac:(lia)) as [H1 H2].
    split; [exact H1|]. intros Hadd. specialize (H2 Hadd).
    apply acts_iff in H2. apply acts_iff. rewrite (cq_mul_1_r o) in H2.
    eapply dr_acts_ext; [|exact H2]. intros b b' Hb0 Hb'.
    apply (lift_swap_eq o qa qb (S (Nat.max qa qb)) nq V b' b); try lia. exact Hb'.
  Qed.

  (* C15: the measurement circuit of a tomography setting *)
  Theorem dual_rail_setting (e : env (K:=K)) (base : circ) nq Kc (V : qmat T) (subs : list circ) (Us : list (@mat T)) :
    acts_as_dual_rail o e base nq Kc V -> Forall2 (two_mode o e) subs Us -> length subs = nq ->
    exists c', add_from o 0 subs base = Ok c' /\
      acts_as_dual_rail o e c' nq Kc (fun z b => suml cq (bits nq) (fun x => kmul cq (tprod o Us z x) (V x b))).
  Proof.
    intros HA HF Hl. apply acts_iff in HA.
    destruct (setting_acts o ninv ninv_spec e base nq Kc V subs Us HA HF Hl) as (c' & E & A).
    exists c'. split; [exact E|]. apply acts_iff. exact A.
  Qed.
End Main.

(* unfolding of the vocabulary of convert_heralded_correct *)
Lemma run_emitted_def :
  forall (K : Type) (o : ops K) (h r2 r3i qi gm r7 : K) (ang : nat -> K * K) (kcz kcx0 kcx1 : K * K)
         (ops : list eop) (c : circ (K:=K)) (nq : nat) (gs : list qgate),
    run_emitted o h r2 r3i qi gm r7 ang ops c =
      fold_left (fun r op => do c0 <- r;
                             do gt <- gate_of o h r2 r3i qi gm r7 ang op;
                             op_add o c0 (g_circ gt) (Z.of_nat (op_mode op)) false) ops (Ok c) /\
    kprod o kcz kcx0 kcx1 ops (k1 (co o)) =
      fold_left (fun a op => kmul (co o) a (match op with
                                            | ECZ true _ => kcz
                                            | ECX true 0 _ => kcx0
                                            | ECX true _ _ => kcx1
                                            | _ => k1 (co o)
                                            end)) ops (k1 (co o)) /\
    Vsrc o h ang nq gs =
      (fun b' b => sval (co o) (run_src sst (sact (co o) (m1 o h ang)) 0 gs (s_id (co o) nq)) (lab b') (lab b)) /\
    (forall s i : nat,
       m1 o h ang Gh i = m1_of (named_sq o h gH) /\
       m1 o h ang Grz i = m1_of (named_rq o gRz (fst (ang i)) (snd (ang i))) /\
       gate_of o h r2 r3i qi gm r7 ang (EGate1 Gh i s) = gate_sq o h gH /\
       gate_of o h r2 r3i qi gm r7 ang (EGate1 Grz i s) = gate_rq o gRz (fst (ang i)) (snd (ang i)) /\
       gate_of o h r2 r3i qi gm r7 ang (ECZ true s) = gate_CZ_Heralded o h r2 qi gm /\
       gate_of o h r2 r3i qi gm r7 ang (ECX true i s) = gate_CNOT_Heralded o h r2 qi gm (Z.of_nat i)).
Proof. intros. repeat split; reflexivity. Qed.
