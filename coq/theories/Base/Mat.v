(* Matrices as functions nat -> nat -> K with an explicit dimension.
   [tab] memoises a matrix as a table so that the executable models do not
   recompute products; [tab_spec] makes it invisible to the proofs. *)
From Coq Require Import ZArith Arith Lia Ring_theory Ring List Bool.
From LW Require Import Base.Num Base.Sums.
Import ListNotations.

Section Defs.
  Context {K : Type} (o : ops K).
  Definition mat := nat -> nat -> K.
  Definition mid : mat := fun i j => if Nat.eqb i j then k1 o else k0 o.
  Definition mzero : mat := fun _ _ => k0 o.
  Definition mmul (n : nat) (A B : mat) : mat :=
    fun i j => sumn o n (fun k => kmul o (A i k) (B k j)).
  Definition madj (A : mat) : mat := fun i j => kconj o (A j i).
  Definition mtrans (A : mat) : mat := fun i j => A j i.
  Definition mrows (n m : nat) (A : mat) : list (list K) :=
    map (fun i => map (fun j => A i j) (seq 0 m)) (seq 0 n).
  Definition of_rows (l : list (list K)) : mat :=
    fun i j => nth j (nth i l nil) (k0 o).
  Definition tab (n : nat) (A : mat) : mat :=
    let l := mrows n n A in fun i j => nth j (nth i l nil) (k0 o).
  Definition meq (n : nat) (A B : mat) : Prop :=
    forall i j, i < n -> j < n -> A i j = B i j.
  Definition lunit (n : nat) (U : mat) : Prop := meq n (mmul n (madj U) U) mid.
  Definition unitary (n : nat) (U : mat) : Prop := lunit n U /\ lunit n (madj U).

  (* view an n-dimensional matrix in a larger space: identity outside [0,n) *)
  Definition pad (n : nat) (U : mat) : mat :=
    fun i j => if (i <? n) && (j <? n) then U i j else mid i j.
  (* identity except for a 2x2 block on rows/columns a, b *)
  Definition embed2 (a b : nat) (u00 u01 u10 u11 : K) : mat := fun i j =>
    if i =? a then (if j =? a then u00 else if j =? b then u01 else k0 o)
    else if i =? b then (if j =? a then u10 else if j =? b then u11 else k0 o)
    else mid i j.
  Definition phase_mat (a : nat) (e : K) : mat := fun i j =>
    if i =? j then (if i =? a then e else k1 o) else k0 o.
  (* P[p j, j] = 1 *)
  Definition perm_mat (p : nat -> nat) : mat := fun i j => if i =? p j then k1 o else k0 o.
  (* identity except for a k x k block V at offset m *)
  Definition block_mat (m k : nat) (V : mat) : mat := fun i j =>
    if (m <=? i) && (i <? m + k) && (m <=? j) && (j <? m + k)
    then V (i - m) (j - m) else mid i j.
End Defs.

Section Lemmas.
  Context {K : Type} {o : ops K} {SR : StarRing o}.
  Let R := sr_ring (o:=o).
  Add Ring Kr : R.
  Local Notation "0" := (k0 o).
  Local Notation "1" := (k1 o).
  Local Notation "a + b" := (kadd o a b).
  Local Notation "a * b" := (kmul o a b).
  Local Notation "a - b" := (ksub o a b).
  Local Notation sumn := (sumn o).
  Local Notation mmul := (mmul o).
  Local Notation madj := (madj o).
  Local Notation mid := (mid o).
  Local Notation meq := (@meq K).
  Local Notation conj := (kconj o).

  Lemma meq_refl n A : meq n A A.
  Proof. intros i j _ _. reflexivity. Qed.
  Lemma meq_sym n A B : meq n A B -> meq n B A.
  Proof. intros H i j Hi Hj. symmetry. apply H; assumption. Qed.
  Lemma meq_trans n A B C : meq n A B -> meq n B C -> meq n A C.
  Proof. intros H1 H2 i j Hi Hj. rewrite H1, H2 by assumption. reflexivity. Qed.
  Lemma meq_le n m A B : m <= n -> meq n A B -> meq m A B.
  Proof. intros Hle H i j Hi Hj. apply H; lia. Qed.

  Lemma nth_mrows n m (A : mat) i j :
    i < n -> j < m -> nth j (nth i (mrows n m A) nil) 0 = A i j.
  Proof.
    intros Hi Hj. unfold mrows.
    rewrite (nth_indep _ nil (map (fun j => A 0%nat j) (seq 0 m))) by (rewrite map_length, seq_length; lia).
    rewrite (map_nth (fun i => map (fun j => A i j) (seq 0 m)) (seq 0 n) 0%nat i).
    rewrite seq_nth by lia. simpl.
    rewrite (nth_indep _ 0 (A i 0%nat)) by (rewrite map_length, seq_length; lia).
    rewrite (map_nth (fun j => A i j) (seq 0 m) 0%nat j).
    rewrite seq_nth by lia. reflexivity.
  Qed.

  Lemma tab_spec n A : meq n (tab o n A) A.
  Proof. intros i j Hi Hj. unfold tab. apply nth_mrows; assumption. Qed.

  Lemma mmul_compat n A A' B B' :
    meq n A A' -> meq n B B' -> meq n (mmul n A B) (mmul n A' B').
  Proof.
    intros HA HB i j Hi Hj. unfold Mat.mmul. apply sumn_ext.
    intros k Hk. rewrite HA, HB by assumption. reflexivity.
  Qed.

  Lemma mmul_assoc n A B C i j :
    mmul n (mmul n A B) C i j = mmul n A (mmul n B C) i j.
  Proof.
    unfold Mat.mmul.
    rewrite (sumn_ext n _ (fun k => sumn n (fun l => A i l * B l k * C k j)))
      by (intros k _; rewrite <- sumn_mul_r; reflexivity).
    rewrite sumn_swap.
    apply sumn_ext. intros l _.
    rewrite <- sumn_mul_l. apply sumn_ext. intros k _. ring.
  Qed.

  Lemma mmul_id_l n B : meq n (mmul n mid B) B.
  Proof.
    intros i j Hi Hj. unfold Mat.mmul, Mat.mid.
    rewrite (sumn_single n i) by
      (try assumption; intros k _ Hk; apply Nat.eqb_neq in Hk; rewrite Nat.eqb_sym, Hk; ring).
    rewrite Nat.eqb_refl. ring.
  Qed.

  Lemma mmul_id_r n B : meq n (mmul n B mid) B.
  Proof.
    intros i j Hi Hj. unfold Mat.mmul, Mat.mid.
    rewrite (sumn_single n j) by
      (try assumption; intros k _ Hk; apply Nat.eqb_neq in Hk; rewrite Hk; ring).
    rewrite Nat.eqb_refl. ring.
  Qed.

  Lemma madj_mmul n A B i j : madj (mmul n A B) i j = mmul n (madj B) (madj A) i j.
  Proof.
    unfold Mat.madj, Mat.mmul. rewrite sumn_conj. apply sumn_ext.
    intros k _. rewrite sr_conj_mul. ring.
  Qed.

  Lemma madj_madj A i j : madj (madj A) i j = A i j.
  Proof. unfold Mat.madj. apply sr_conj_inv. Qed.

  Lemma madj_compat n A B : meq n A B -> meq n (madj A) (madj B).
  Proof. intros H i j Hi Hj. unfold Mat.madj. rewrite H by assumption. reflexivity. Qed.

  Lemma madj_mid i j : madj mid i j = mid i j.
  Proof.
    unfold Mat.madj, Mat.mid. rewrite (Nat.eqb_sym j i).
    destruct (i =? j); [apply sr_conj_1 | apply sr_conj_0].
  Qed.

  Lemma lunit_mid n : lunit o n mid.
  Proof.
    unfold lunit. eapply meq_trans; [|apply mmul_id_r].
    apply mmul_compat; [|apply meq_refl]. intros i j _ _. apply madj_mid.
  Qed.

  Lemma unitary_mid n : unitary o n mid.
  Proof.
    split; [apply lunit_mid|]. unfold lunit.
    eapply meq_trans; [|apply lunit_mid].
    apply mmul_compat; intros i j _ _; [rewrite madj_madj; symmetry|]; apply madj_mid.
  Qed.

  Lemma lunit_mmul n A B : lunit o n A -> lunit o n B -> lunit o n (mmul n A B).
  Proof.
    unfold lunit. intros HA HB.
    (* (AB)^+ (AB) = (B^+ A^+) (A B) = B^+ ((A^+ A) B) *)
    apply meq_trans with (mmul n (mmul n (madj B) (madj A)) (mmul n A B)).
    { apply mmul_compat; [|apply meq_refl]. intros i j _ _. apply madj_mmul. }
    apply meq_trans with (mmul n (madj B) (mmul n (madj A) (mmul n A B))).
    { intros i j _ _. apply mmul_assoc. }
    apply meq_trans with (mmul n (madj B) (mmul n (mmul n (madj A) A) B)).
    { apply mmul_compat; [apply meq_refl|]. intros i j _ _. symmetry. apply mmul_assoc. }
    apply meq_trans with (mmul n (madj B) (mmul n mid B)).
    { apply mmul_compat; [apply meq_refl|]. apply mmul_compat; [exact HA|apply meq_refl]. }
    apply meq_trans with (mmul n (madj B) B); [|exact HB].
    apply mmul_compat; [apply meq_refl|apply mmul_id_l].
  Qed.

  Lemma lunit_compat n A B : meq n A B -> lunit o n A -> lunit o n B.
  Proof.
    unfold lunit. intros H HA. eapply meq_trans; [|exact HA].
    apply mmul_compat; [apply madj_compat|]; apply meq_sym; exact H.
  Qed.

  Lemma unitary_compat n A B : meq n A B -> unitary o n A -> unitary o n B.
  Proof.
    intros H [H1 H2]. split; [eapply lunit_compat; eassumption|].
    eapply lunit_compat; [|exact H2]. apply madj_compat. exact H.
  Qed.

  Lemma unitary_mmul n A B : unitary o n A -> unitary o n B -> unitary o n (mmul n A B).
  Proof.
    intros [HA1 HA2] [HB1 HB2]. split; [apply lunit_mmul; assumption|].
    apply lunit_compat with (mmul n (madj B) (madj A)).
    - intros i j _ _. symmetry. apply madj_mmul.
    - apply lunit_mmul; assumption.
  Qed.

  Lemma unitary_madj n A : unitary o n A -> unitary o n (madj A).
  Proof.
    intros [H1 H2]. split; [exact H2|].
    eapply lunit_compat; [|exact H1]. intros i j _ _. symmetry. apply madj_madj.
  Qed.

  Lemma unitary_tab n A : unitary o n A -> unitary o n (tab o n A).
  Proof. apply unitary_compat. apply meq_sym, tab_spec. Qed.
End Lemmas.
