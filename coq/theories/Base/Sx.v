(* S-expressions printed by the model runs and parsed by the harness. *)
From Coq Require Import ZArith List.
Import ListNotations.

Inductive sx : Type :=
| SI : Z -> sx
| SL : list sx -> sx.

Definition sxN (n : nat) : sx := SI (Z.of_nat n).
Definition sxB (b : bool) : sx := SI (if b then 1 else 0)%Z.
Definition sxZs (l : list Z) : sx := SL (map SI l).
Definition sxNs (l : list nat) : sx := SL (map sxN l).

(* error classes of lightworks, as an enum shared by every model *)
Inductive err : Type :=
| ModeRangeError | TypeError | ValueError | CircuitCompilationError
| PhotonNumberError | ModeMismatchError | StateError | KeyError | IndexError
| ResultCreationError | DisplayError | ParameterBoundsError | ParameterValueError
| ParameterDictError | SamplerError | PostSelectionError | AttributeError | OtherError.

Definition err_code (e : err) : Z :=
  match e with
  | ModeRangeError => 1 | TypeError => 2 | ValueError => 3 | CircuitCompilationError => 4
  | PhotonNumberError => 5 | ModeMismatchError => 6 | StateError => 7 | KeyError => 8
  | IndexError => 9 | ResultCreationError => 10 | DisplayError => 11
  | ParameterBoundsError => 12 | ParameterValueError => 13 | ParameterDictError => 14
  | SamplerError => 15 | PostSelectionError => 16 | AttributeError => 17 | OtherError => 99
  end%Z.

Inductive res (A : Type) : Type :=
| Ok : A -> res A
| Err : err -> res A.
Arguments Ok {A} _.
Arguments Err {A} _.

Definition bind {A B} (r : res A) (f : A -> res B) : res B :=
  match r with Ok a => f a | Err e => Err e end.
Notation "'do' x <- r ; k" := (bind r (fun x => k)) (at level 200, x pattern, r at level 100, k at level 200).

(* printed form of a result: SL [SI 0; payload] or SL [SI 1; SI code] *)
Definition sxRes {A} (f : A -> sx) (r : res A) : sx :=
  match r with
  | Ok a => SL [SI 0%Z; f a]
  | Err e => SL [SI 1%Z; SI (err_code e)]
  end.
