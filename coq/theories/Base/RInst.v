(* The real-number instance of the scalar operations (for statements that
   mention sqrt, cos/sin, order).  Axioms: those of the stdlib Reals. *)
From Coq Require Import Reals Lra ZArith Ring_theory.
From LW Require Import Base.Num.

Definition rops : ops R :=
  mkOps R 0%R 1%R Rplus Rmult Rminus Ropp Rinv (fun x => x)
        (fun x y => if Req_EM_T x y then true else false)
        (fun x y => if Rle_dec x y then true else false) IZR.

Lemma rops_ring : ring_theory (k0 rops) (k1 rops) (kadd rops) (kmul rops) (ksub rops) (kopp rops) eq.
Proof.
  constructor; simpl; intros; try ring.
Qed.

Global Instance rstar : StarRing rops.
Proof. constructor; simpl; intros; try reflexivity. exact rops_ring. Qed.

Lemma rleb_true x y : kleb rops x y = true <-> (x <= y)%R.
Proof. simpl. destruct (Rle_dec x y); split; intros; try assumption; try reflexivity; try discriminate; contradiction. Qed.

Definition C := (R * R)%type.
Definition cops : ops C := cplx rops.
