(* Unitarity of the elementary embeddings used by the circuit compiler. *)
From Coq Require Import ZArith Arith Lia Ring_theory Ring List Bool.
From LW Require Import Base.Num Base.Sums Base.Mat.
Import ListNotations.

Section Embed.
  Context {K : Type} {o : ops K} {SR : StarRing o}.
  Let R := sr_ring (o:=o).
  Add Ring Kr : R.
  Local Notation "0" := (k0 o).
  Local Notation "1" := (k1 o).
  Local Notation "a + b" := (kadd o a b).
  Local Notation "a * b" := (kmul o a b).
  Local Notation sumn := (sumn o).
  Local Notation mmul := (mmul o).
  Local Notation madj := (madj o).
  Local Notation mid := (mid o).
  Local Notation conj := (kconj o).

  Lemma mid_eq i : mid i i = 1.
  Proof. unfold Mat.mid. rewrite Nat.eqb_refl. reflexivity. Qed.
  Lemma mid_neq i j : i <> j -> mid i j = 0.
  Proof. intros H. unfold Mat.mid. apply Nat.eqb_neq in H. rewrite H. reflexivity. Qed.
  Lemma conj_mid i j : conj (mid i j) = mid i j.
  Proof. unfold Mat.mid. destruct (i =? j); [apply sr_conj_1 | apply sr_conj_0]. Qed.

  (* entry (i,j) of E^+ E when column i of E is the unit vector e_i *)
  Lemma gram_col_id n (E : mat) i j :
    i < n -> (forall k, k < n -> E k i = mid k i) ->
    mmul n (madj E) E i j = E i j.
  Proof.
    intros Hi Hc. unfold Mat.mmul, Mat.madj.
    rewrite (sumn_single n i); [rewrite Hc, conj_mid, mid_eq by assumption; ring|assumption|].
    intros k Hk Hne. rewrite Hc, conj_mid, mid_neq by assumption. ring.
  Qed.

  Lemma gram_col_id_r n (E : mat) i j :
    j < n -> (forall k, k < n -> E k j = mid k j) ->
    mmul n (madj E) E i j = conj (E j i).
  Proof.
    intros Hj Hc. unfold Mat.mmul, Mat.madj.
    rewrite (sumn_single n j); [rewrite Hc, mid_eq by assumption; ring|assumption|].
    intros k Hk Hne. rewrite (Hc k), mid_neq by assumption. ring.
  Qed.

  Lemma sumn_window n m k f :
    m + k <= n -> (forall x, x < n -> (x < m \/ m + k <= x) -> f x = 0) ->
    sumn n f = sumn k (fun l => f (m + l)%nat).
  Proof.
    intros Hle H. assert (E : n = (m + (k + (n - m - k)))%nat) by lia.
    rewrite E at 1. rewrite !sumn_app.
    rewrite (sumn_zero' m) by (intros; apply H; lia).
    rewrite (sumn_zero' (n - m - k)) by (intros; apply H; lia). ring.
  Qed.

  (* ---- block at an offset (covers pad as the offset-0 case) ---- *)
  Lemma madj_block m k V i j :
    madj (block_mat o m k V) i j = block_mat o m k (madj V) i j.
  Proof.
    unfold Mat.madj, block_mat.
    destruct (m <=? i) eqn:E1, (i <? m + k) eqn:E2, (m <=? j) eqn:E3, (j <? m + k) eqn:E4;
      simpl; try reflexivity; rewrite conj_mid; unfold Mat.mid; rewrite (Nat.eqb_sym j i); reflexivity.
  Qed.

  Lemma block_in m k V i j :
    m <= i < m + k -> m <= j < m + k -> block_mat o m k V i j = V (i - m)%nat (j - m)%nat.
  Proof.
    intros Hi Hj. unfold block_mat.
    replace (m <=? i) with true by (symmetry; apply Nat.leb_le; lia).
    replace (i <? m + k) with true by (symmetry; apply Nat.ltb_lt; lia).
    replace (m <=? j) with true by (symmetry; apply Nat.leb_le; lia).
    replace (j <? m + k) with true by (symmetry; apply Nat.ltb_lt; lia). reflexivity.
  Qed.

  Lemma block_out_l m k V i j :
    (i < m \/ m + k <= i) -> block_mat o m k V i j = mid i j.
  Proof.
    intros Hi. unfold block_mat.
    destruct (m <=? i) eqn:E1; [|reflexivity].
    destruct (i <? m + k) eqn:E2; [|reflexivity].
    apply Nat.leb_le in E1. apply Nat.ltb_lt in E2. lia.
  Qed.

  Lemma block_out_r m k V i j :
    (j < m \/ m + k <= j) -> block_mat o m k V i j = mid i j.
  Proof.
    intros Hj. unfold block_mat.
    destruct (m <=? j) eqn:E1; [|rewrite !andb_false_r; simpl; reflexivity].
    destruct (j <? m + k) eqn:E2; [|rewrite !andb_false_r; reflexivity].
    apply Nat.leb_le in E1. apply Nat.ltb_lt in E2. lia.
  Qed.

  Lemma lunit_block n m k V :
    m + k <= n -> lunit o k V -> lunit o n (block_mat o m k V).
  Proof.
    intros Hle HV i j Hi Hj.
    destruct (le_lt_dec m i) as [Hmi|Hmi]; [destruct (le_lt_dec (m + k) i) as [Hki|Hki]|].
    2:{ destruct (le_lt_dec m j) as [Hmj|Hmj]; [destruct (le_lt_dec (m + k) j) as [Hkj|Hkj]|].
        2:{ (* both inside *)
          unfold Mat.mmul. rewrite (sumn_window n m k) by
            (try lia; intros x Hx Hout; unfold Mat.madj; rewrite (block_out_l m k V x i), mid_neq, sr_conj_0 by lia; ring).
          rewrite (sumn_ext k _ (fun l => conj (V l (i - m)%nat) * V l (j - m)%nat)).
          - specialize (HV (i - m)%nat (j - m)%nat ltac:(lia) ltac:(lia)).
            unfold Mat.mmul, Mat.madj in HV. rewrite HV. unfold Mat.mid.
            destruct (Nat.eqb_spec i j) as [->|Hne]; [rewrite Nat.eqb_refl; reflexivity|].
            replace (i - m =? j - m) with false by (symmetry; apply Nat.eqb_neq; lia). reflexivity.
          - intros l Hl. unfold Mat.madj. rewrite !block_in by lia.
            replace (m + l - m)%nat with l by lia. reflexivity. }
        all: rewrite gram_col_id_r by (try assumption; intros; apply block_out_r; lia);
          rewrite block_out_l by lia; rewrite conj_mid; unfold Mat.mid; rewrite Nat.eqb_sym; reflexivity. }
    all: rewrite gram_col_id by (try assumption; intros; apply block_out_r; lia);
      apply block_out_l; lia.
  Qed.

  Lemma unitary_block n m k V :
    m + k <= n -> unitary o k V -> unitary o n (block_mat o m k V).
  Proof.
    intros Hle [H1 H2]. split; [apply lunit_block; assumption|].
    apply (lunit_compat n (block_mat o m k (madj V))).
    - intros i j _ _. symmetry. apply madj_block.
    - apply lunit_block; assumption.
  Qed.

  Lemma pad_block n U i j : pad o n U i j = block_mat o 0 n U i j.
  Proof.
    unfold pad, block_mat. simpl. rewrite !Nat.sub_0_r.
    destruct (i <? n), (j <? n); reflexivity.
  Qed.

  Lemma unitary_pad n m U : n <= m -> unitary o n U -> unitary o m (pad o n U).
  Proof.
    intros Hle HU. apply (unitary_compat m (block_mat o 0 n U)).
    - intros i j _ _. symmetry. apply pad_block.
    - apply unitary_block; [lia|exact HU].
  Qed.

  (* ---- 2x2 block on two distinct modes ---- *)
  Definition unit2 (u00 u01 u10 u11 : K) : Prop :=
    conj u00 * u00 + conj u10 * u10 = 1 /\ conj u00 * u01 + conj u10 * u11 = 0 /\
    conj u01 * u00 + conj u11 * u10 = 0 /\ conj u01 * u01 + conj u11 * u11 = 1.

  Lemma embed2_block a b u00 u01 u10 u11 i j :
    a <> b ->
    embed2 o a b u00 u01 u10 u11 i j =
    if (i =? a) || (i =? b) then
      if (j =? a) || (j =? b) then
        (if i =? a then (if j =? a then u00 else u01) else (if j =? a then u10 else u11))
      else 0
    else mid i j.
  Proof.
    intros Hab. unfold embed2.
    destruct (Nat.eqb_spec i a) as [->|Hia]; simpl.
    - destruct (Nat.eqb_spec j a); simpl; [reflexivity|]. destruct (j =? b); reflexivity.
    - destruct (Nat.eqb_spec i b) as [->|Hib]; simpl; [|reflexivity].
      destruct (Nat.eqb_spec j a); simpl; [reflexivity|]. destruct (j =? b); reflexivity.
  Qed.

  Lemma embed2_out_l a b u00 u01 u10 u11 i j :
    i <> a -> i <> b -> embed2 o a b u00 u01 u10 u11 i j = mid i j.
  Proof.
    intros Ha Hb. unfold embed2. apply Nat.eqb_neq in Ha, Hb. rewrite Ha, Hb. reflexivity.
  Qed.

  Lemma embed2_out_r a b u00 u01 u10 u11 i j :
    j <> a -> j <> b -> embed2 o a b u00 u01 u10 u11 i j = mid i j.
  Proof.
    intros Ha Hb. unfold embed2.
    destruct (Nat.eqb_spec i a) as [->|Hia]; [|destruct (Nat.eqb_spec i b) as [->|Hib]; [|reflexivity]].
    - apply Nat.eqb_neq in Ha, Hb. rewrite Ha, Hb. symmetry. apply mid_neq. apply Nat.eqb_neq in Ha. lia.
    - apply Nat.eqb_neq in Ha, Hb. rewrite Ha, Hb. symmetry. apply mid_neq. apply Nat.eqb_neq in Hb. lia.
  Qed.

  Lemma madj_embed2 a b u00 u01 u10 u11 i j :
    a <> b ->
    madj (embed2 o a b u00 u01 u10 u11) i j = embed2 o a b (conj u00) (conj u10) (conj u01) (conj u11) i j.
  Proof.
    intros Hab. unfold Mat.madj, embed2, Mat.mid.
    destruct (Nat.eqb_spec i a), (Nat.eqb_spec i b), (Nat.eqb_spec j a), (Nat.eqb_spec j b),
      (Nat.eqb_spec j i), (Nat.eqb_spec i j); subst; try lia; try reflexivity;
      try apply sr_conj_0; try apply sr_conj_1.
  Qed.

  Lemma lunit_embed2 n a b u00 u01 u10 u11 :
    a < n -> b < n -> a <> b -> unit2 u00 u01 u10 u11 ->
    lunit o n (embed2 o a b u00 u01 u10 u11).
  Proof.
    intros Ha Hb Hab (H00 & H01 & H10 & H11) i j Hi Hj.
    set (E := embed2 o a b u00 u01 u10 u11).
    assert (Hin : forall x y, (x = a \/ x = b) -> (y = a \/ y = b) ->
              mmul n (madj E) E x y = conj (E a x) * E a y + conj (E b x) * E b y).
    { intros x y Hx Hy. unfold Mat.mmul, Mat.madj. apply (sumn_two n a b (fun k => conj (E k x) * E k y)); try assumption.
      intros k Hk Hka Hkb. unfold E. rewrite (embed2_out_l a b _ _ _ _ k x) by assumption.
      rewrite mid_neq by (destruct Hx; subst; assumption). rewrite sr_conj_0. ring. }
    assert (Eaa : E a a = u00) by (unfold E, embed2; rewrite !Nat.eqb_refl; reflexivity).
    assert (Eab : E a b = u01).
    { unfold E, embed2. rewrite !Nat.eqb_refl. replace (b =? a) with false by (symmetry; apply Nat.eqb_neq; lia). reflexivity. }
    assert (Eba : E b a = u10).
    { unfold E, embed2. rewrite !Nat.eqb_refl. replace (b =? a) with false by (symmetry; apply Nat.eqb_neq; lia). reflexivity. }
    assert (Ebb : E b b = u11).
    { unfold E, embed2. rewrite !Nat.eqb_refl. replace (b =? a) with false by (symmetry; apply Nat.eqb_neq; lia). reflexivity. }
    destruct (Nat.eq_dec i a) as [->|Hia]; [|destruct (Nat.eq_dec i b) as [->|Hib]].
    - destruct (Nat.eq_dec j a) as [->|Hja]; [|destruct (Nat.eq_dec j b) as [->|Hjb]].
      + rewrite Hin by auto. rewrite Eaa, Eba, mid_eq. exact H00.
      + rewrite Hin by auto. rewrite Eaa, Eab, Eba, Ebb, mid_neq by assumption. exact H01.
      + rewrite gram_col_id_r by (try assumption; intros; apply embed2_out_r; assumption).
        unfold E. rewrite embed2_out_l by assumption. rewrite conj_mid. unfold Mat.mid. rewrite Nat.eqb_sym. reflexivity.
    - destruct (Nat.eq_dec j a) as [->|Hja]; [|destruct (Nat.eq_dec j b) as [->|Hjb]].
      + rewrite Hin by auto. rewrite Eaa, Eab, Eba, Ebb, mid_neq by lia. exact H10.
      + rewrite Hin by auto. rewrite Eab, Ebb, mid_eq. exact H11.
      + rewrite gram_col_id_r by (try assumption; intros; apply embed2_out_r; assumption).
        unfold E. rewrite embed2_out_l by assumption. rewrite conj_mid. unfold Mat.mid. rewrite Nat.eqb_sym. reflexivity.
    - rewrite gram_col_id by (try assumption; intros; apply embed2_out_r; assumption).
      apply embed2_out_l; assumption.
  Qed.

  Lemma unit2_adj u00 u01 u10 u11 :
    unit2 u00 u01 u10 u11 ->
    (u00 * conj u00 + u01 * conj u01 = 1 /\ u00 * conj u10 + u01 * conj u11 = 0 /\
     u10 * conj u00 + u11 * conj u01 = 0 /\ u10 * conj u10 + u11 * conj u11 = 1) ->
    unit2 (conj u00) (conj u10) (conj u01) (conj u11).
  Proof.
    intros _ (H1 & H2 & H3 & H4). unfold unit2. rewrite !sr_conj_inv. repeat split; assumption.
  Qed.

  Lemma unitary_embed2 n a b u00 u01 u10 u11 :
    a < n -> b < n -> a <> b -> unit2 u00 u01 u10 u11 ->
    unit2 (conj u00) (conj u10) (conj u01) (conj u11) ->
    unitary o n (embed2 o a b u00 u01 u10 u11).
  Proof.
    intros Ha Hb Hab H1 H2. split; [apply lunit_embed2; assumption|].
    apply (lunit_compat n (embed2 o a b (conj u00) (conj u10) (conj u01) (conj u11))).
    - intros i j _ _. symmetry. apply madj_embed2. assumption.
    - apply lunit_embed2; assumption.
  Qed.

  (* ---- phase on one mode ---- *)
  Lemma madj_phase a e i j : madj (phase_mat o a e) i j = phase_mat o a (conj e) i j.
  Proof.
    unfold Mat.madj, phase_mat. rewrite (Nat.eqb_sym j i).
    destruct (Nat.eqb_spec i j) as [->|Hne]; [|apply sr_conj_0].
    destruct (j =? a); [reflexivity|apply sr_conj_1].
  Qed.

  Lemma lunit_phase n a e : conj e * e = 1 -> lunit o n (phase_mat o a e).
  Proof.
    intros He i j Hi Hj. unfold Mat.mmul, Mat.madj.
    rewrite (sumn_single n i); try assumption.
    - unfold phase_mat. rewrite Nat.eqb_refl.
      destruct (Nat.eqb_spec i j) as [->|Hne].
      + rewrite mid_eq. destruct (j =? a); [exact He|rewrite sr_conj_1; ring].
      + rewrite mid_neq by assumption. ring.
    - intros k Hk Hne. unfold phase_mat. apply Nat.eqb_neq in Hne. rewrite Hne, sr_conj_0. ring.
  Qed.

  Lemma unitary_phase n a e : conj e * e = 1 -> unitary o n (phase_mat o a e).
  Proof.
    intros He. split; [apply lunit_phase; assumption|].
    apply (lunit_compat n (phase_mat o a (conj e))).
    - intros i j _ _. symmetry. apply madj_phase.
    - apply lunit_phase. rewrite sr_conj_inv. rewrite <- He. ring.
  Qed.

  (* ---- permutation matrices ---- *)
  Lemma lunit_perm n p :
    (forall i, i < n -> p i < n) ->
    (forall i j, i < n -> j < n -> p i = p j -> i = j) ->
    lunit o n (perm_mat o p).
  Proof.
    intros Hr Hinj i j Hi Hj. unfold Mat.mmul, Mat.madj.
    rewrite (sumn_single n (p i)); [| apply Hr; assumption |].
    - unfold perm_mat. rewrite Nat.eqb_refl, sr_conj_1.
      destruct (Nat.eqb_spec i j) as [->|Hne].
      + rewrite Nat.eqb_refl, mid_eq. ring.
      + rewrite mid_neq by assumption.
        replace (p i =? p j) with false by (symmetry; apply Nat.eqb_neq; intros E; apply Hne, Hinj; assumption).
        ring.
    - intros k Hk Hne. unfold perm_mat. apply Nat.eqb_neq in Hne. rewrite Hne, sr_conj_0. ring.
  Qed.

  Lemma madj_perm n p q :
    (forall i, i < n -> q (p i) = i) -> (forall i, i < n -> p (q i) = i) ->
    meq n (madj (perm_mat o p)) (perm_mat o q).
  Proof.
    intros Hqp Hpq i j Hi Hj. unfold Mat.madj, perm_mat.
    destruct (Nat.eqb_spec j (p i)) as [E|E], (Nat.eqb_spec i (q j)) as [E'|E'];
      try apply sr_conj_1; try apply sr_conj_0.
    - exfalso. apply E'. rewrite E, Hqp; auto.
    - exfalso. apply E. rewrite E', Hpq; auto.
  Qed.

  Lemma unitary_perm n p q :
    (forall i, i < n -> p i < n) -> (forall i, i < n -> q i < n) ->
    (forall i, i < n -> q (p i) = i) -> (forall i, i < n -> p (q i) = i) ->
    unitary o n (perm_mat o p).
  Proof.
    intros Hp Hq Hqp Hpq. split.
    - apply lunit_perm; [assumption|]. intros i j Hi Hj E.
      rewrite <- (Hqp i), <- (Hqp j), E by assumption. reflexivity.
    - apply (lunit_compat n (perm_mat o q)); [apply meq_sym, (madj_perm n p q); assumption|].
      apply lunit_perm; [assumption|]. intros i j Hi Hj E.
      rewrite <- (Hpq i), <- (Hpq j), E by assumption. reflexivity.
  Qed.
End Embed.
