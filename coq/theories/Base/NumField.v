(* Exact number fields for the gate library (C13).

   * [qext o d]   : the quadratic extension K[sqrt d] as pairs (a, b) = a + b*sqrt d over an
                    arbitrary operations record, with generic lifting of [StarRing] (needs
                    conj d = d, class [RealElt]) and of [UnitInv] (Base/QI2.v).  It generalises
                    [r2ext] of Base/QI2.v (d = 2).
   * tower A      : Q(sqrt 2)(sqrt 3)(sqrt 7), complexified with [cplx]  (CZ, CNOT, CCZ, CCNOT)
   * tower B      : Q(sqrt 2)(2^(1/4))(gamma), gamma^2 = 3/sqrt 2 - 2, complexified  (heralded gates)
     Each generator's defining relation is proved inside the tower.
   * [RingHom], [ev_ext], [ev_cplx] : evaluation of a tower element as a real / complex number
     (Coq's R, real [sqrt]) is a *-ring homomorphism, proved generically per extension level:
     if f : K -> R is a ring homomorphism and s*s = f d then (a,b) |-> f a + f b * s is one.
     Hence an equation proved by [vm_compute] in a tower is an equation between the
     corresponding real / complex numbers ([evA], [evB] and their value lemmas).
     Only this last part uses the stdlib Reals axioms. *)
From Coq Require Import ZArith QArith Qcanon Ring_theory Ring Setoid Bool List Reals Lra Qreals.
From LW Require Import Base.Num Base.QI2 Base.RInst.
Import ListNotations.

Class RealElt {K} (o : ops K) (d : K) : Prop := real_elt : kconj o d = d.

(* ------------------------------------------------------------------ K[sqrt d] *)
Section QExt.
  Context {K : Type} (o : ops K) (d : K).
  Local Notation "0" := (k0 o).
  Local Notation "1" := (k1 o).
  Local Notation "a + b" := (kadd o a b).
  Local Notation "a * b" := (kmul o a b).
  Local Notation "a - b" := (ksub o a b).
  Local Notation "- a" := (kopp o a).

  Definition qadd (x y : K * K) : K * K := (fst x + fst y, snd x + snd y).
  Definition qsub (x y : K * K) : K * K := (fst x - fst y, snd x - snd y).
  Definition qmul (x y : K * K) : K * K :=
    (fst x * fst y + d * (snd x * snd y), fst x * snd y + snd x * fst y).
  Definition qopp (x : K * K) : K * K := (- fst x, - snd x).
  Definition qconj (x : K * K) : K * K := (kconj o (fst x), kconj o (snd x)).
  Definition qnorm (x : K * K) : K := fst x * fst x - d * (snd x * snd x).
  Definition qinv (x : K * K) : K * K :=
    let n := kinv o (qnorm x) in (fst x * n, (- snd x) * n).
  Definition qeqb (x y : K * K) : bool := andb (keqb o (fst x) (fst y)) (keqb o (snd x) (snd y)).

  (* [kleb] only compares the first coordinates; it is not used on these types *)
  Definition qext : ops (K * K) :=
    mkOps (K * K) (0, 0) (1, 0) qadd qmul qsub qopp qinv qconj qeqb
          (fun x y => kleb o (fst x) (fst y)) (fun z => (kofZ o z, 0)).

  Definition qin (x : K) : K * K := (x, 0).       (* the embedding K -> K[sqrt d] *)
  Definition qgen : K * K := (0, 1).              (* sqrt d *)
End QExt.

Section QExtLaws.
  Context {K : Type} (o : ops K) (d : K).
  Context {SR : StarRing o} {RE : RealElt o d}.
  Let R := sr_ring (o:=o).
  Add Ring Kqe : R.

  Lemma qext_ring : ring_theory (k0 (qext o d)) (k1 (qext o d)) (kadd (qext o d)) (kmul (qext o d))
                                (ksub (qext o d)) (kopp (qext o d)) eq.
  Proof.
    constructor; simpl; unfold qadd, qmul, qsub, qopp; simpl; intros;
      repeat match goal with x : (K * K)%type |- _ => destruct x end; simpl;
      f_equal; ring.
  Qed.

  Global Instance qext_star : StarRing (qext o d).
  Proof.
    constructor; [exact qext_ring | ..]; simpl; unfold qadd, qmul, qconj, qopp; simpl; intros;
      repeat match goal with x : (K * K)%type |- _ => destruct x end; simpl;
      repeat first [rewrite sr_conj_add | rewrite sr_conj_mul | rewrite sr_conj_1 | rewrite sr_conj_0
                    | rewrite sr_conj_opp | rewrite sr_conj_inv | rewrite (real_elt (o:=o) (d:=d))];
      reflexivity.
  Qed.

  (* the generator squares to d; the embedding is multiplicative *)
  Lemma qgen_sq : kmul (qext o d) (qgen o) (qgen o) = qin o d.
  Proof. simpl. unfold qmul, qgen, qin. simpl. f_equal; ring. Qed.
  Lemma qin_mul x y : kmul (qext o d) (qin o x) (qin o y) = qin o (kmul o x y).
  Proof. simpl. unfold qmul, qin. simpl. f_equal; ring. Qed.
  Lemma qin_add x y : kadd (qext o d) (qin o x) (qin o y) = qin o (kadd o x y).
  Proof. simpl. unfold qadd, qin. simpl. f_equal; ring. Qed.

  Context {UI : UnitInv o}.

  Global Instance qext_unit : UnitInv (qext o d).
  Proof.
    constructor.
    - intros [p q] [r s]. simpl. unfold qmul, qinv, qnorm. simpl. intros H.
      injection H as H1 H2.
      assert (N : kinv o (ksub o (kmul o p p) (kmul o d (kmul o q q)))
                  = ksub o (kmul o r r) (kmul o d (kmul o s s))).
      { apply ui_inv.
        transitivity (ksub o (kmul o (kadd o (kmul o p r) (kmul o d (kmul o q s)))
                                     (kadd o (kmul o p r) (kmul o d (kmul o q s))))
                             (kmul o d
                                   (kmul o (kadd o (kmul o p s) (kmul o q r)) (kadd o (kmul o p s) (kmul o q r)))));
          [ring|]. rewrite H1, H2. ring. }
      rewrite N. f_equal.
      + transitivity (ksub o (kmul o r (kadd o (kmul o p r) (kmul o d (kmul o q s))))
                           (kmul o (kmul o d s) (kadd o (kmul o p s) (kmul o q r))));
          [ring|]. rewrite H1, H2. ring.
      + transitivity (ksub o (kmul o s (kadd o (kmul o p r) (kmul o d (kmul o q s))))
                           (kmul o r (kadd o (kmul o p s) (kmul o q r))));
          [ring|]. rewrite H1, H2. ring.
    - intros [a b] [c e]. simpl. unfold qeqb. simpl. rewrite andb_true_iff, !ui_eqb.
      split; [intros [-> ->]; reflexivity | intros E; injection E; auto].
    - simpl. intros E. injection E as E. exact (ui_neq E).
  Qed.
End QExtLaws.

(* a decidable equation: the boolean test computes to [true] *)
Lemma by_eqb {K} (o : ops K) {UI : UnitInv o} (x y : K) : keqb o x y = true -> x = y.
Proof. apply ui_eqb. Qed.

Definition qq (n : Z) (dd : positive) : Qc := Q2Qc (n # dd).

(* ------------------------------------------------------------------ tower A *)
(* Q(sqrt 2)(sqrt 3)(sqrt 7); coordinates (((q0,q1),(q2,q3)),((q4,q5),(q6,q7))) over the basis
   1, r2, r3, r2 r3, r7, r2 r7, r3 r7, r2 r3 r7 *)
Definition KA1 : Type := (Qc * Qc)%type.
Definition KA2 : Type := (KA1 * KA1)%type.
Definition KA : Type := (KA2 * KA2)%type.
Definition oA1 : ops KA1 := qext qcops (qq 2 1).
Definition oA2 : ops KA2 := qext oA1 (kofZ oA1 3).
Definition oA : ops KA := qext oA2 (kofZ oA2 7).
Definition TA : Type := (KA * KA)%type.
Definition cA : ops TA := cplx oA.

Global Instance reA1 : RealElt qcops (qq 2 1). Proof. reflexivity. Qed.
Global Instance reA2 : RealElt oA1 (kofZ oA1 3). Proof. reflexivity. Qed.
Global Instance reA3 : RealElt oA2 (kofZ oA2 7). Proof. reflexivity. Qed.
Global Instance oA1_star : StarRing oA1. Proof. exact (@qext_star _ qcops (qq 2 1) qc_star reA1). Qed.
Global Instance oA1_unit : UnitInv oA1. Proof. exact (@qext_unit _ qcops (qq 2 1) qc_star qc_unit). Qed.
Global Instance oA2_star : StarRing oA2. Proof. exact (@qext_star _ oA1 (kofZ oA1 3) oA1_star reA2). Qed.
Global Instance oA2_unit : UnitInv oA2. Proof. exact (@qext_unit _ oA1 (kofZ oA1 3) oA1_star oA1_unit). Qed.
Global Instance oA_star : StarRing oA. Proof. exact (@qext_star _ oA2 (kofZ oA2 7) oA2_star reA3). Qed.
Global Instance oA_unit : UnitInv oA. Proof. exact (@qext_unit _ oA2 (kofZ oA2 7) oA2_star oA2_unit). Qed.
Global Instance cA_star : StarRing cA. Proof. exact (@cplx_star _ oA oA_star). Qed.
Global Instance cA_unit : UnitInv cA. Proof. exact (@cplx_unit _ oA oA_star oA_unit). Qed.

Definition a_r2 : KA := qin oA2 (qin oA1 (qgen qcops)).     (* sqrt 2 *)
Definition a_r3 : KA := qin oA2 (qgen oA1).                 (* sqrt 3 *)
Definition a_r7 : KA := qgen oA2.                           (* sqrt 7 *)
Definition a_h : KA := kmul oA a_r2 (kinv oA (kofZ oA 2)).  (* 1/sqrt 2 *)
Definition a_r3i : KA := kmul oA a_r3 (kinv oA (kofZ oA 3)). (* 1/sqrt 3 *)

Lemma a_r2_sq : kmul oA a_r2 a_r2 = kofZ oA 2.
Proof. apply (by_eqb oA). vm_compute. reflexivity. Qed.
Lemma a_r3_sq : kmul oA a_r3 a_r3 = kofZ oA 3.
Proof. apply (by_eqb oA). vm_compute. reflexivity. Qed.
Lemma a_r7_sq : kmul oA a_r7 a_r7 = kofZ oA 7.
Proof. apply (by_eqb oA). vm_compute. reflexivity. Qed.
Lemma a_h_r2 : kmul oA a_h a_r2 = k1 oA.
Proof. apply (by_eqb oA). vm_compute. reflexivity. Qed.
Lemma a_r3i_r3 : kmul oA a_r3i a_r3 = k1 oA.
Proof. apply (by_eqb oA). vm_compute. reflexivity. Qed.

(* ------------------------------------------------------------------ tower B *)
(* Q(sqrt 2)(q)(g), q = 2^(1/4) (q^2 = sqrt 2), g = gamma (g^2 = 3/sqrt 2 - 2 = (3/2) sqrt 2 - 2);
   coordinates over the basis 1, r2, q, r2 q, g, r2 g, q g, r2 q g *)
Definition KB1 : Type := (Qc * Qc)%type.
Definition KB2 : Type := (KB1 * KB1)%type.
Definition KB : Type := (KB2 * KB2)%type.
Definition oB1 : ops KB1 := qext qcops (qq 2 1).
Definition oB2 : ops KB2 := qext oB1 (qgen qcops).
Definition b_gam2 : KB2 := qin oB1 (qq (-2) 1, qq 3 2).      (* -2 + (3/2) sqrt 2 *)
Definition oB : ops KB := qext oB2 b_gam2.
Definition TB : Type := (KB * KB)%type.
Definition cB : ops TB := cplx oB.

Global Instance reB2 : RealElt oB1 (qgen qcops). Proof. reflexivity. Qed.
Global Instance reB3 : RealElt oB2 b_gam2. Proof. reflexivity. Qed.
Global Instance oB1_star : StarRing oB1. Proof. exact (@qext_star _ qcops (qq 2 1) qc_star reA1). Qed.
Global Instance oB1_unit : UnitInv oB1. Proof. exact (@qext_unit _ qcops (qq 2 1) qc_star qc_unit). Qed.
Global Instance oB2_star : StarRing oB2. Proof. exact (@qext_star _ oB1 (qgen qcops) oB1_star reB2). Qed.
Global Instance oB2_unit : UnitInv oB2. Proof. exact (@qext_unit _ oB1 (qgen qcops) oB1_star oB1_unit). Qed.
Global Instance oB_star : StarRing oB. Proof. exact (@qext_star _ oB2 b_gam2 oB2_star reB3). Qed.
Global Instance oB_unit : UnitInv oB. Proof. exact (@qext_unit _ oB2 b_gam2 oB2_star oB2_unit). Qed.
Global Instance cB_star : StarRing cB. Proof. exact (@cplx_star _ oB oB_star). Qed.
Global Instance cB_unit : UnitInv cB. Proof. exact (@cplx_unit _ oB oB_star oB_unit). Qed.

Definition b_r2 : KB := qin oB2 (qin oB1 (qgen qcops)).     (* sqrt 2 *)
Definition b_q : KB := qin oB2 (qgen oB1).                  (* 2^(1/4) *)
Definition b_g : KB := qgen oB2.                            (* gamma *)
Definition b_h : KB := kmul oB b_r2 (kinv oB (kofZ oB 2)).  (* 1/sqrt 2 *)
Definition b_qi : KB := kmul oB b_q b_h.                    (* 2^(-1/4) = q / sqrt 2 *)

Lemma b_r2_sq : kmul oB b_r2 b_r2 = kofZ oB 2.
Proof. apply (by_eqb oB). vm_compute. reflexivity. Qed.
Lemma b_q_sq : kmul oB b_q b_q = b_r2.
Proof. apply (by_eqb oB). vm_compute. reflexivity. Qed.
Lemma b_q_pow4 : kmul oB (kmul oB b_q b_q) (kmul oB b_q b_q) = kofZ oB 2.
Proof. apply (by_eqb oB). vm_compute. reflexivity. Qed.
(* gamma^2 = 3/sqrt 2 - 2 *)
Lemma b_g_sq : kmul oB b_g b_g = ksub oB (kmul oB (kofZ oB 3) b_h) (kofZ oB 2).
Proof. apply (by_eqb oB). vm_compute. reflexivity. Qed.
Lemma b_h_r2 : kmul oB b_h b_r2 = k1 oB.
Proof. apply (by_eqb oB). vm_compute. reflexivity. Qed.
Lemma b_qi_q : kmul oB b_qi b_q = k1 oB.
Proof. apply (by_eqb oB). vm_compute. reflexivity. Qed.

(* ------------------------------------------------------------------ evaluation *)
Record RingHom {K L} (o : ops K) (p : ops L) (f : K -> L) : Prop := mkHom {
  rh_0 : f (k0 o) = k0 p;
  rh_1 : f (k1 o) = k1 p;
  rh_add : forall a b, f (kadd o a b) = kadd p (f a) (f b);
  rh_mul : forall a b, f (kmul o a b) = kmul p (f a) (f b);
  rh_sub : forall a b, f (ksub o a b) = ksub p (f a) (f b);
  rh_opp : forall a, f (kopp o a) = kopp p (f a);
  rh_conj : forall a, f (kconj o a) = kconj p (f a);
  rh_ofZ : forall z, f (kofZ o z) = kofZ p z }.

(* a + b sqrt d  |->  f a + f b * s,  s = the chosen real square root of f d *)
Definition ev_ext {K} (f : K -> R) (s : R) (x : K * K) : R := (f (fst x) + f (snd x) * s)%R.
(* a + i b  |->  (f a, f b) *)
Definition ev_cplx {K} (f : K -> R) (x : K * K) : R * R := (f (fst x), f (snd x)).

Lemma ev_ext_hom {K} (o : ops K) (d : K) (f : K -> R) (s : R) :
  RingHom o rops f -> (s * s = f d)%R -> RingHom (qext o d) rops (ev_ext f s).
Proof.
  intros H Hs. constructor; unfold ev_ext; simpl; intros;
    repeat first [rewrite (rh_add _ _ _ H) | rewrite (rh_mul _ _ _ H) | rewrite (rh_sub _ _ _ H)
                 | rewrite (rh_opp _ _ _ H) | rewrite (rh_conj _ _ _ H) | rewrite (rh_ofZ _ _ _ H)
                 | rewrite (rh_0 _ _ _ H) | rewrite (rh_1 _ _ _ H)]; simpl;
    try rewrite <- Hs; ring.
Qed.

Lemma ev_cplx_hom {K} (o : ops K) (f : K -> R) :
  RingHom o rops f -> RingHom (cplx o) cops (ev_cplx f).
Proof.
  intros H. constructor; unfold ev_cplx; simpl; unfold Num.cadd, cmul, csub, copp, cconj; simpl; intros;
    repeat first [rewrite (rh_add _ _ _ H) | rewrite (rh_mul _ _ _ H) | rewrite (rh_sub _ _ _ H)
                 | rewrite (rh_opp _ _ _ H) | rewrite (rh_ofZ _ _ _ H)
                 | rewrite (rh_0 _ _ _ H) | rewrite (rh_1 _ _ _ H)]; simpl; reflexivity.
Qed.

Definition qc2r (x : Qc) : R := Q2R (this x).

Lemma qc2r_Q2Qc q : qc2r (Q2Qc q) = Q2R q.
Proof. unfold qc2r. simpl. apply Qeq_eqR. apply Qred_correct. Qed.

Lemma qc2r_hom : RingHom qcops rops qc2r.
Proof.
  constructor; simpl; intros.
  - rewrite qc2r_Q2Qc. unfold Q2R. simpl. lra.
  - rewrite qc2r_Q2Qc. unfold Q2R. simpl. lra.
  - unfold Qcplus. rewrite qc2r_Q2Qc. apply Q2R_plus.
  - unfold Qcmult. rewrite qc2r_Q2Qc. apply Q2R_mult.
  - unfold Qcminus, Qcplus. rewrite qc2r_Q2Qc, Q2R_plus.
    change (Q2R (this (Qcopp b))) with (qc2r (Qcopp b)). unfold Qcopp. rewrite qc2r_Q2Qc, Q2R_opp.
    unfold qc2r. ring.
  - unfold Qcopp. rewrite qc2r_Q2Qc. apply Q2R_opp.
  - reflexivity.
  - rewrite qc2r_Q2Qc. unfold Q2R. simpl. field.
Qed.

Lemma ev_ext_qin {K} (o : ops K) f s x : ev_ext f s (qin o x) = (f x + f (k0 o) * s)%R.
Proof. reflexivity. Qed.
Lemma ev_ext_qgen {K} (o : ops K) f s : ev_ext f s (qgen o) = (f (k0 o) + f (k1 o) * s)%R.
Proof. reflexivity. Qed.

Lemma sqrt_sq x : (0 <= x)%R -> (sqrt x * sqrt x = x)%R.
Proof. intros. apply sqrt_def. assumption. Qed.

Lemma qc2r_qq n d : qc2r (qq n d) = (IZR n / IZR (Zpos d))%R.
Proof. unfold qq. rewrite qc2r_Q2Qc. reflexivity. Qed.

(* ---- tower A ---- *)
Definition evA1 : KA1 -> R := ev_ext qc2r (sqrt 2).
Definition evA2 : KA2 -> R := ev_ext evA1 (sqrt 3).
Definition evA : KA -> R := ev_ext evA2 (sqrt 7).
Definition evCA : TA -> R * R := ev_cplx evA.

Lemma evA1_hom : RingHom oA1 rops evA1.
Proof.
  apply ev_ext_hom; [exact qc2r_hom|]. rewrite qc2r_qq. rewrite sqrt_sq by lra. field.
Qed.
Lemma evA2_hom : RingHom oA2 rops evA2.
Proof.
  apply ev_ext_hom; [exact evA1_hom|]. rewrite (rh_ofZ _ _ _ evA1_hom). simpl. apply sqrt_sq. lra.
Qed.
Lemma evA_hom : RingHom oA rops evA.
Proof.
  apply ev_ext_hom; [exact evA2_hom|]. rewrite (rh_ofZ _ _ _ evA2_hom). simpl. apply sqrt_sq. lra.
Qed.
Lemma evCA_hom : RingHom cA cops evCA.
Proof. exact (ev_cplx_hom oA evA evA_hom). Qed.

Lemma q0r : qc2r (k0 qcops) = 0%R. Proof. exact (rh_0 _ _ _ qc2r_hom). Qed.
Lemma q1r : qc2r (k1 qcops) = 1%R. Proof. exact (rh_1 _ _ _ qc2r_hom). Qed.

Lemma evA_values :
  evA a_r2 = sqrt 2 /\ evA a_r3 = sqrt 3 /\ evA a_r7 = sqrt 7 /\
  evA a_h = (/ sqrt 2)%R /\ evA a_r3i = (/ sqrt 3)%R.
Proof.
  assert (E2 : evA a_r2 = sqrt 2).
  { unfold evA, a_r2. rewrite ev_ext_qin, (rh_0 _ _ _ evA2_hom).
    unfold evA2. rewrite ev_ext_qin, (rh_0 _ _ _ evA1_hom).
    unfold evA1. rewrite ev_ext_qgen, q0r, q1r. simpl. ring. }
  assert (E3 : evA a_r3 = sqrt 3).
  { unfold evA, a_r3. rewrite ev_ext_qin, (rh_0 _ _ _ evA2_hom).
    unfold evA2. rewrite ev_ext_qgen, (rh_0 _ _ _ evA1_hom), (rh_1 _ _ _ evA1_hom). simpl. ring. }
  assert (E7 : evA a_r7 = sqrt 7).
  { unfold evA, a_r7. rewrite ev_ext_qgen.
    rewrite (rh_0 _ _ _ evA2_hom), (rh_1 _ _ _ evA2_hom). simpl. ring. }
  assert (P2 : (0 < sqrt 2)%R) by (apply sqrt_lt_R0; lra).
  assert (P3 : (0 < sqrt 3)%R) by (apply sqrt_lt_R0; lra).
  repeat split; try assumption.
  - generalize (f_equal evA a_h_r2). rewrite (rh_mul _ _ _ evA_hom), (rh_1 _ _ _ evA_hom), E2. simpl.
    intros H. apply Rmult_eq_reg_r with (sqrt 2); [|lra]. rewrite H. field. lra.
  - generalize (f_equal evA a_r3i_r3). rewrite (rh_mul _ _ _ evA_hom), (rh_1 _ _ _ evA_hom), E3. simpl.
    intros H. apply Rmult_eq_reg_r with (sqrt 3); [|lra]. rewrite H. field. lra.
Qed.

(* ---- tower B ---- *)
Definition gamma2 : R := (3 / sqrt 2 - 2)%R.
Lemma gamma2_pos : (0 <= gamma2)%R.
Proof.
  unfold gamma2.
  assert (P2 : (0 < sqrt 2)%R) by (apply sqrt_lt_R0; lra).
  assert (S2 : (sqrt 2 * sqrt 2 = 2)%R) by (apply sqrt_sq; lra).
  assert (L : (4 / 3 <= sqrt 2)%R) by nra.
  assert (E : (3 / sqrt 2 = 3 * sqrt 2 / 2)%R) by (field_simplify_eq; [nra|lra]).
  rewrite E. lra.
Qed.

Definition evB1 : KB1 -> R := ev_ext qc2r (sqrt 2).
Definition evB2 : KB2 -> R := ev_ext evB1 (sqrt (sqrt 2)).
Definition evB : KB -> R := ev_ext evB2 (sqrt gamma2).
Definition evCB : TB -> R * R := ev_cplx evB.

Lemma evB1_hom : RingHom oB1 rops evB1.
Proof. exact evA1_hom. Qed.
Lemma evB2_hom : RingHom oB2 rops evB2.
Proof.
  apply ev_ext_hom; [exact evB1_hom|].
  unfold evB1. rewrite ev_ext_qgen, q0r, q1r.
  rewrite sqrt_sq by (apply sqrt_pos). ring.
Qed.
Lemma evB_hom : RingHom oB rops evB.
Proof.
  apply ev_ext_hom; [exact evB2_hom|].
  rewrite sqrt_sq by exact gamma2_pos.
  unfold evB2, b_gam2. rewrite ev_ext_qin, (rh_0 _ _ _ evB1_hom).
  unfold evB1, ev_ext. cbn [fst snd]. rewrite !qc2r_qq. unfold gamma2.
  assert (P2 : (0 < sqrt 2)%R) by (apply sqrt_lt_R0; lra).
  assert (S2 : (sqrt 2 * sqrt 2 = 2)%R) by (apply sqrt_sq; lra).
  simpl. assert (E : (3 / sqrt 2 = 3 * sqrt 2 / 2)%R) by (field_simplify_eq; [nra|lra]).
  rewrite E. lra.
Qed.
Lemma evCB_hom : RingHom cB cops evCB.
Proof. exact (ev_cplx_hom oB evB evB_hom). Qed.

Lemma evB_values :
  evB b_r2 = sqrt 2 /\ evB b_q = sqrt (sqrt 2) /\ evB b_g = sqrt (3 / sqrt 2 - 2) /\
  evB b_h = (/ sqrt 2)%R /\ evB b_qi = (/ sqrt (sqrt 2))%R.
Proof.
  assert (E2 : evB b_r2 = sqrt 2).
  { unfold evB, b_r2. rewrite ev_ext_qin, (rh_0 _ _ _ evB2_hom).
    unfold evB2. rewrite ev_ext_qin, (rh_0 _ _ _ evB1_hom).
    unfold evB1. rewrite ev_ext_qgen, q0r, q1r. simpl. ring. }
  assert (Eq : evB b_q = sqrt (sqrt 2)).
  { unfold evB, b_q. rewrite ev_ext_qin, (rh_0 _ _ _ evB2_hom).
    unfold evB2. rewrite ev_ext_qgen, (rh_0 _ _ _ evB1_hom), (rh_1 _ _ _ evB1_hom). simpl. ring. }
  assert (Eg : evB b_g = sqrt gamma2).
  { unfold evB, b_g. rewrite ev_ext_qgen.
    rewrite (rh_0 _ _ _ evB2_hom), (rh_1 _ _ _ evB2_hom). simpl. ring. }
  assert (P2 : (0 < sqrt 2)%R) by (apply sqrt_lt_R0; lra).
  assert (P4 : (0 < sqrt (sqrt 2))%R) by (apply sqrt_lt_R0; lra).
  repeat split; try assumption.
  - generalize (f_equal evB b_h_r2). rewrite (rh_mul _ _ _ evB_hom), (rh_1 _ _ _ evB_hom), E2. simpl.
    intros H. apply Rmult_eq_reg_r with (sqrt 2); [|lra]. rewrite H. field. lra.
  - generalize (f_equal evB b_qi_q). rewrite (rh_mul _ _ _ evB_hom), (rh_1 _ _ _ evB_hom), Eq. simpl.
    intros H. apply Rmult_eq_reg_r with (sqrt (sqrt 2)); [|lra]. rewrite H. field. lra.
Qed.
