(* Exact number fields for the gate library (C13).

   * [qext o d]   : the quadratic extension K[sqrt d] as pairs (a, b) = a + b*sqrt d over an
                    arbitrary operations record, with generic lifting of [StarRing] (needs
                    conj d = d, class [RealElt]) and of [UnitInv] (Base/QI2.v).  It generalises
                    [r2ext] of Base/QI2.v (d = 2).
   * tower A      : Q(sqrt 2)(sqrt 3)(sqrt 7), complexified with [cplx]  (CZ, CNOT, CCZ, CCNOT)
   * tower B      : Q(sqrt 2)(2^(1/4))(gamma), gamma^2 = 3/sqrt 2 - 2, complexified  (heralded gates)
     Each generator's defining relation is proved inside the tower.
   * [RingHom], [ev_ext], [ev_cplx] : evaluation of a tower element as a real / complex number
     (Coq's R, real [sqrt]) is a *-ring homomorphism, proved generically per extension level:
     if f : K -> R is a ring homomorphism and s*s = f d then (a,b) |-> f a + f b * s is one.
     Hence an equation proved by [vm_compute] in a tower is an equation between the
     corresponding real / complex numbers ([evA], [evB] and their value lemmas).
     Only this last part uses the stdlib Reals axioms. *)
From Coq Require Import ZArith QArith Qcanon Ring_theory Ring Setoid Bool List.
From LW Require Import Base.Num Base.QI2.
Import ListNotations.

Class RealElt {K} (o : ops K) (d : K) : Prop := real_elt : kconj o d = d.

(* ------------------------------------------------------------------ K[sqrt d] *)
Section QExt.
  Context {K : Type} (o : ops K) (d : K).
  Local Notation "0" := (k0 o).
  Local Notation "1" := (k1 o).
  Local Notation "a + b" := (kadd o a b).
  Local Notation "a * b" := (kmul o a b).
  Local Notation "a - b" := (ksub o a b).
  Local Notation "- a" := (kopp o a).

  Definition qadd (x y : K * K) : K * K := (fst x + fst y, snd x + snd y).
  Definition qsub (x y : K * K) : K * K := (fst x - fst y, snd x - snd y).
  Definition qmul (x y : K * K) : K * K :=
    (fst x * fst y + d * (snd x * snd y), fst x * snd y + snd x * fst y).
  Definition qopp (x : K * K) : K * K := (- fst x, - snd x).
  Definition qconj (x : K * K) : K * K := (kconj o (fst x), kconj o (snd x)).
  Definition qnorm (x : K * K) : K := fst x * fst x - d * (snd x * snd x).
  Definition qinv (x : K * K) : K * K :=
    let n := kinv o (qnorm x) in (fst x * n, (- snd x) * n).
  Definition qeqb (x y : K * K) : bool := andb (keqb o (fst x) (fst y)) (keqb o (snd x) (snd y)).

  (* [kleb] only compares the first coordinates; it is not used on these types *)
  Definition qext : ops (K * K) :=
    mkOps (K * K) (0, 0) (1, 0) qadd qmul qsub qopp qinv qconj qeqb
          (fun x y => kleb o (fst x) (fst y)) (fun z => (kofZ o z, 0)).

  Definition qin (x : K) : K * K := (x, 0).       (* the embedding K -> K[sqrt d] *)
  Definition qgen : K * K := (0, 1).              (* sqrt d *)
End QExt.

Section QExtLaws.
  Context {K : Type} (o : ops K) (d : K).
  Context {SR : StarRing o} {RE : RealElt o d}.
  Let R := sr_ring (o:=o).
  Add Ring Kqe : R.

  Lemma qext_ring : ring_theory (k0 (qext o d)) (k1 (qext o d)) (kadd (qext o d)) (kmul (qext o d))
                                (ksub (qext o d)) (kopp (qext o d)) eq.
  Proof.
    constructor; simpl; unfold qadd, qmul, qsub, qopp; simpl; intros;
      repeat match goal with x : (K * K)%type |- _ => destruct x end; simpl;
      f_equal; ring.
  Qed.

  Global Instance qext_star : StarRing (qext o d).
  Proof.
    constructor; [exact qext_ring | ..]; simpl; unfold qadd, qmul, qconj, qopp; simpl; intros;
      repeat match goal with x : (K * K)%type |- _ => destruct x end; simpl;
      repeat first [rewrite sr_conj_add | rewrite sr_conj_mul | rewrite sr_conj_1 | rewrite sr_conj_0
                    | rewrite sr_conj_opp | rewrite sr_conj_inv | rewrite (real_elt (o:=o) (d:=d))];
      reflexivity.
  Qed.

  (* the generator squares to d; the embedding is multiplicative *)
  Lemma qgen_sq : kmul (qext o d) (qgen o) (qgen o) = qin o d.
  Proof. simpl. unfold qmul, qgen, qin. simpl. f_equal; ring. Qed.
  Lemma qin_mul x y : kmul (qext o d) (qin o x) (qin o y) = qin o (kmul o x y).
  Proof. simpl. unfold qmul, qin. simpl. f_equal; ring. Qed.
  Lemma qin_add x y : kadd (qext o d) (qin o x) (qin o y) = qin o (kadd o x y).
  Proof. simpl. unfold qadd, qin. simpl. f_equal; ring. Qed.

  Context {UI : UnitInv o}.

  Global Instance qext_unit : UnitInv (qext o d).
  Proof.
    constructor.
    - intros [p q] [r s]. simpl. unfold qmul, qinv, qnorm. simpl. intros H.
      injection H as H1 H2.
      assert (N : kinv o (ksub o (kmul o p p) (kmul o d (kmul o q q)))
                  = ksub o (kmul o r r) (kmul o d (kmul o s s))).
      { apply ui_inv.
        transitivity (ksub o (kmul o (kadd o (kmul o p r) (kmul o d (kmul o q s)))
                                     (kadd o (kmul o p r) (kmul o d (kmul o q s))))
                             (kmul o d
                                   (kmul o (kadd o (kmul o p s) (kmul o q r)) (kadd o (kmul o p s) (kmul o q r)))));
          [ring|]. rewrite H1, H2. ring. }
      rewrite N. f_equal.
      + transitivity (ksub o (kmul o r (kadd o (kmul o p r) (kmul o d (kmul o q s))))
                           (kmul o (kmul o d s) (kadd o (kmul o p s) (kmul o q r))));
          [ring|]. rewrite H1, H2. ring.
      + transitivity (ksub o (kmul o s (kadd o (kmul o p r) (kmul o d (kmul o q s))))
                           (kmul o r (kadd o (kmul o p s) (kmul o q r))));
          [ring|]. rewrite H1, H2. ring.
    - intros [a b] [c e]. simpl. unfold qeqb. simpl. rewrite andb_true_iff, !ui_eqb.
      split; [intros [-> ->]; reflexivity | intros E; injection E; auto].
    - simpl. intros E. injection E as E. exact (ui_neq E).
  Qed.
End QExtLaws.

(* a decidable equation: the boolean test computes to [true] *)
Lemma by_eqb {K} (o : ops K) {UI : UnitInv o} (x y : K) : keqb o x y = true -> x = y.
Proof. apply ui_eqb. Qed.

Definition qq (n : Z) (dd : positive) : Qc := Q2Qc (n # dd).

(* ------------------------------------------------------------------ tower A *)
(* Q(sqrt 2)(sqrt 3)(sqrt 7); coordinates (((q0,q1),(q2,q3)),((q4,q5),(q6,q7))) over the basis
   1, r2, r3, r2 r3, r7, r2 r7, r3 r7, r2 r3 r7 *)
Definition KA1 : Type := (Qc * Qc)%type.
Definition KA2 : Type := (KA1 * KA1)%type.
Definition KA : Type := (KA2 * KA2)%type.
Definition oA1 : ops KA1 := qext qcops (qq 2 1).
Definition oA2 : ops KA2 := qext oA1 (kofZ oA1 3).
Definition oA : ops KA := qext oA2 (kofZ oA2 7).
Definition TA : Type := (KA * KA)%type.
Definition cA : ops TA := cplx oA.

Global Instance reA1 : RealElt qcops (qq 2 1). Proof. reflexivity. Qed.
Global Instance reA2 : RealElt oA1 (kofZ oA1 3). Proof. reflexivity. Qed.
Global Instance reA3 : RealElt oA2 (kofZ oA2 7). Proof. reflexivity. Qed.
Global Instance oA1_star : StarRing oA1. Proof. exact (@qext_star _ qcops (qq 2 1) qc_star reA1). Qed.
Global Instance oA1_unit : UnitInv oA1. Proof. exact (@qext_unit _ qcops (qq 2 1) qc_star qc_unit). Qed.
Global Instance oA2_star : StarRing oA2. Proof. exact (@qext_star _ oA1 (kofZ oA1 3) oA1_star reA2). Qed.
Global Instance oA2_unit : UnitInv oA2. Proof. exact (@qext_unit _ oA1 (kofZ oA1 3) oA1_star oA1_unit). Qed.
Global Instance oA_star : StarRing oA. Proof. exact (@qext_star _ oA2 (kofZ oA2 7) oA2_star reA3). Qed.
Global Instance oA_unit : UnitInv oA. Proof. exact (@qext_unit _ oA2 (kofZ oA2 7) oA2_star oA2_unit). Qed.
Global Instance cA_star : StarRing cA. Proof. exact (@cplx_star _ oA oA_star). Qed.
Global Instance cA_unit : UnitInv cA. Proof. exact (@cplx_unit _ oA oA_star oA_unit). Qed.

Definition a_r2 : KA := qin oA2 (qin oA1 (qgen qcops)).     (* sqrt 2 *)
Definition a_r3 : KA := qin oA2 (qgen oA1).                 (* sqrt 3 *)
Definition a_r7 : KA := qgen oA2.                           (* sqrt 7 *)
Definition a_h : KA := kmul oA a_r2 (kinv oA (kofZ oA 2)).  (* 1/sqrt 2 *)
Definition a_r3i : KA := kmul oA a_r3 (kinv oA (kofZ oA 3)). (* 1/sqrt 3 *)

Lemma a_r2_sq : kmul oA a_r2 a_r2 = kofZ oA 2.
Proof. apply (by_eqb oA). vm_compute. reflexivity. Qed.
Lemma a_r3_sq : kmul oA a_r3 a_r3 = kofZ oA 3.
Proof. apply (by_eqb oA). vm_compute. reflexivity. Qed.
Lemma a_r7_sq : kmul oA a_r7 a_r7 = kofZ oA 7.
Proof. apply (by_eqb oA). vm_compute. reflexivity. Qed.
Lemma a_h_r2 : kmul oA a_h a_r2 = k1 oA.
Proof. apply (by_eqb oA). vm_compute. reflexivity. Qed.
Lemma a_r3i_r3 : kmul oA a_r3i a_r3 = k1 oA.
Proof. apply (by_eqb oA). vm_compute. reflexivity. Qed.

(* ------------------------------------------------------------------ tower B *)
(* Q(sqrt 2)(q)(g), q = 2^(1/4) (q^2 = sqrt 2), g = gamma (g^2 = 3/sqrt 2 - 2 = (3/2) sqrt 2 - 2);
   coordinates over the basis 1, r2, q, r2 q, g, r2 g, q g, r2 q g *)
Definition KB1 : Type := (Qc * Qc)%type.
Definition KB2 : Type := (KB1 * KB1)%type.
Definition KB : Type := (KB2 * KB2)%type.
Definition oB1 : ops KB1 := qext qcops (qq 2 1).
Definition oB2 : ops KB2 := qext oB1 (qgen qcops).
Definition b_gam2 : KB2 := qin oB1 (qq (-2) 1, qq 3 2).      (* -2 + (3/2) sqrt 2 *)
Definition oB : ops KB := qext oB2 b_gam2.
Definition TB : Type := (KB * KB)%type.
Definition cB : ops TB := cplx oB.

Global Instance reB2 : RealElt oB1 (qgen qcops). Proof. reflexivity. Qed.
Global Instance reB3 : RealElt oB2 b_gam2. Proof. reflexivity. Qed.
Global Instance oB1_star : StarRing oB1. Proof. exact (@qext_star _ qcops (qq 2 1) qc_star reA1). Qed.
Global Instance oB1_unit : UnitInv oB1. Proof. exact (@qext_unit _ qcops (qq 2 1) qc_star qc_unit). Qed.
Global Instance oB2_star : StarRing oB2. Proof. exact (@qext_star _ oB1 (qgen qcops) oB1_star reB2). Qed.
Global Instance oB2_unit : UnitInv oB2. Proof. exact (@qext_unit _ oB1 (qgen qcops) oB1_star oB1_unit). Qed.
Global Instance oB_star : StarRing oB. Proof. exact (@qext_star _ oB2 b_gam2 oB2_star reB3). Qed.
Global Instance oB_unit : UnitInv oB. Proof. exact (@qext_unit _ oB2 b_gam2 oB2_star oB2_unit). Qed.
Global Instance cB_star : StarRing cB. Proof. exact (@cplx_star _ oB oB_star). Qed.
Global Instance cB_unit : UnitInv cB. Proof. exact (@cplx_unit _ oB oB_star oB_unit). Qed.

Definition b_r2 : KB := qin oB2 (qin oB1 (qgen qcops)).     (* sqrt 2 *)
Definition b_q : KB := qin oB2 (qgen oB1).                  (* 2^(1/4) *)
Definition b_g : KB := qgen oB2.                            (* gamma *)
Definition b_h : KB := kmul oB b_r2 (kinv oB (kofZ oB 2)).  (* 1/sqrt 2 *)
Definition b_qi : KB := kmul oB b_q b_h.                    (* 2^(-1/4) = q / sqrt 2 *)

Lemma b_r2_sq : kmul oB b_r2 b_r2 = kofZ oB 2.
Proof. apply (by_eqb oB). vm_compute. reflexivity. Qed.
Lemma b_q_sq : kmul oB b_q b_q = b_r2.
Proof. apply (by_eqb oB). vm_compute. reflexivity. Qed.
Lemma b_q_pow4 : kmul oB (kmul oB b_q b_q) (kmul oB b_q b_q) = kofZ oB 2.
Proof. apply (by_eqb oB). vm_compute. reflexivity. Qed.
(* gamma^2 = 3/sqrt 2 - 2 *)
Lemma b_g_sq : kmul oB b_g b_g = ksub oB (kmul oB (kofZ oB 3) b_h) (kofZ oB 2).
Proof. apply (by_eqb oB). vm_compute. reflexivity. Qed.
Lemma b_h_r2 : kmul oB b_h b_r2 = k1 oB.
Proof. apply (by_eqb oB). vm_compute. reflexivity. Qed.
Lemma b_qi_q : kmul oB b_qi b_q = k1 oB.
Proof. apply (by_eqb oB). vm_compute. reflexivity. Qed.
