(* The complex numbers over Coq's classical reals as a [TomoRing]
   (ii = i, hh = 1/sqrt 2), so that the tomography theorems can be stated for
   every complex matrix.  Axioms: those of the stdlib Reals. *)
From Coq Require Import Reals Lra ZArith Ring_theory.
From LW Require Import Base.Num Base.QI2.

Definition tRops : ops R :=
  mkOps R 0%R 1%R Rplus Rmult Rminus Ropp Rinv (fun x => x)
        (fun x y => if Req_EM_T x y then true else false)
        (fun x y => if Rle_dec x y then true else false) IZR.

Global Instance tR_star : StarRing tRops.
Proof. constructor; simpl; intros; try reflexivity. constructor; simpl; intros; ring. Qed.

Global Instance tR_unit : UnitInv tRops.
Proof.
  constructor; simpl.
  - intros x y H. assert (x <> 0)%R by (intros ->; lra).
    transitivity (/ x * (x * y))%R; [rewrite H; ring|]. field. assumption.
  - intros x y. destruct (Req_EM_T x y); split; intros; try assumption; try reflexivity; try discriminate; contradiction.
  - lra.
Qed.

Definition tCops : ops (R * R) := cplx tRops.
Definition tC_i : R * R := (0%R, 1%R).
Definition tC_h : R * R := ((/ sqrt 2)%R, 0%R).

Global Instance tC_tomo : TomoRing tCops tC_i tC_h.
Proof.
  constructor.
  - unfold tCops. typeclasses eauto.
  - unfold tCops. typeclasses eauto.
  - simpl. unfold cmul, copp. simpl. f_equal; ring.
  - simpl. unfold cconj, copp. simpl. f_equal; ring.
  - simpl. unfold cmul, cadd. simpl.
    assert (H : (sqrt 2 * sqrt 2 = 2)%R) by (apply sqrt_def; lra).
    assert (H0 : (sqrt 2 <> 0)%R) by (intros E; rewrite E in H; lra).
    apply f_equal2; [|ring].
    transitivity (2 * / (sqrt 2 * sqrt 2))%R; [field; assumption|]. rewrite H. field.
  - simpl. unfold cconj, tC_h. simpl. apply f_equal2; [reflexivity|ring].
Qed.
