(* Exact arithmetic for the tomography properties (C15, C16).

   * [UnitInv o]  : the extra laws the tomography theorems need from the scalar
                    operations besides [StarRing]: [kinv] returns the inverse of
                    every unit, [keqb] decides equality, 1 <> 0.
   * [TomoRing o ii hh] : a *-ring with an imaginary unit [ii] and
                    [hh] = 1/sqrt 2 (2*hh*hh = 1, both characterised algebraically).
   * [r2ext o]    : the quadratic extension K[sqrt 2] as pairs (a, b) = a + b*sqrt 2,
                    with generic lifting of the laws (as [cplx] in Base/Num.v).
   * [qcops]      : canonical rationals [Qc] (Leibniz equality) as a base field;
                    [qi2ops] = Q(sqrt 2)(i), the concrete [TomoRing] used for
                    witnesses proved by [vm_compute]. *)
From Coq Require Import ZArith QArith Qcanon Ring_theory Ring Setoid Bool.
From LW Require Import Base.Num.

Class UnitInv {K} (o : ops K) : Prop := mkUI {
  ui_inv : forall x y, kmul o x y = k1 o -> kinv o x = y;
  ui_eqb : forall x y, keqb o x y = true <-> x = y;
  ui_neq : k1 o <> k0 o }.

Class TomoRing {K} (o : ops K) (ii hh : K) : Prop := mkTomo {
  tr_star :> StarRing o;
  tr_unit :> UnitInv o;
  tr_ii : kmul o ii ii = kopp o (k1 o);
  tr_ii_conj : kconj o ii = kopp o ii;
  tr_hh : kmul o (kadd o (k1 o) (k1 o)) (kmul o hh hh) = k1 o;
  tr_hh_conj : kconj o hh = hh }.

(* ------------------------------------------------------------------ K[sqrt 2] *)
Section R2.
  Context {K : Type} (o : ops K).
  Local Notation "0" := (k0 o).
  Local Notation "1" := (k1 o).
  Local Notation "a + b" := (kadd o a b).
  Local Notation "a * b" := (kmul o a b).
  Local Notation "a - b" := (ksub o a b).
  Local Notation "- a" := (kopp o a).

  Definition r2add (x y : K * K) : K * K := (fst x + fst y, snd x + snd y).
  Definition r2sub (x y : K * K) : K * K := (fst x - fst y, snd x - snd y).
  Definition r2mul (x y : K * K) : K * K :=
    (fst x * fst y + (1 + 1) * (snd x * snd y), fst x * snd y + snd x * fst y).
  Definition r2opp (x : K * K) : K * K := (- fst x, - snd x).
  Definition r2conj (x : K * K) : K * K := (kconj o (fst x), kconj o (snd x)).
  Definition r2norm (x : K * K) : K := fst x * fst x - (1 + 1) * (snd x * snd x).
  Definition r2inv (x : K * K) : K * K :=
    let d := kinv o (r2norm x) in (fst x * d, (- snd x) * d).
  Definition r2eqb (x y : K * K) : bool := andb (keqb o (fst x) (fst y)) (keqb o (snd x) (snd y)).

  (* [kleb] only compares the rational parts; it is not used on this type *)
  Definition r2ext : ops (K * K) :=
    mkOps (K * K) (0, 0) (1, 0) r2add r2mul r2sub r2opp r2inv r2conj r2eqb
          (fun x y => kleb o (fst x) (fst y)) (fun z => (kofZ o z, 0)).
End R2.

Section R2Laws.
  Context {K : Type} (o : ops K).
  Context {SR : StarRing o}.
  Let R := sr_ring (o:=o).
  Add Ring Kr2 : R.

  Lemma r2_ring : ring_theory (k0 (r2ext o)) (k1 (r2ext o)) (kadd (r2ext o)) (kmul (r2ext o))
                              (ksub (r2ext o)) (kopp (r2ext o)) eq.
  Proof.
    constructor; simpl; unfold r2add, r2mul, r2sub, r2opp; simpl; intros;
      repeat match goal with x : (K * K)%type |- _ => destruct x end; simpl;
      f_equal; ring.
  Qed.

  Global Instance r2_star : StarRing (r2ext o).
  Proof.
    constructor; [exact r2_ring | ..]; simpl; unfold r2add, r2mul, r2conj, r2opp; simpl; intros;
      repeat match goal with x : (K * K)%type |- _ => destruct x end; simpl;
      repeat first [rewrite sr_conj_add | rewrite sr_conj_mul | rewrite sr_conj_1 | rewrite sr_conj_0
                    | rewrite sr_conj_opp | rewrite sr_conj_inv];
      reflexivity.
  Qed.

  Context {UI : UnitInv o}.

  Global Instance r2_unit : UnitInv (r2ext o).
  Proof.
    constructor.
    - intros [p q] [r s]. simpl. unfold r2mul, r2inv, r2norm. simpl. intros H.
      injection H as H1 H2.
      assert (N : kinv o (ksub o (kmul o p p) (kmul o (kadd o (k1 o) (k1 o)) (kmul o q q)))
                  = ksub o (kmul o r r) (kmul o (kadd o (k1 o) (k1 o)) (kmul o s s))).
      { apply ui_inv.
        transitivity (ksub o (kmul o (kadd o (kmul o p r) (kmul o (kadd o (k1 o) (k1 o)) (kmul o q s)))
                                     (kadd o (kmul o p r) (kmul o (kadd o (k1 o) (k1 o)) (kmul o q s))))
                             (kmul o (kadd o (k1 o) (k1 o))
                                   (kmul o (kadd o (kmul o p s) (kmul o q r)) (kadd o (kmul o p s) (kmul o q r)))));
          [ring|]. rewrite H1, H2. ring. }
      rewrite N. f_equal.
      + transitivity (ksub o (kmul o r (kadd o (kmul o p r) (kmul o (kadd o (k1 o) (k1 o)) (kmul o q s))))
                           (kmul o (kmul o (kadd o (k1 o) (k1 o)) s) (kadd o (kmul o p s) (kmul o q r))));
          [ring|]. rewrite H1, H2. ring.
      + transitivity (ksub o (kmul o s (kadd o (kmul o p r) (kmul o (kadd o (k1 o) (k1 o)) (kmul o q s))))
                           (kmul o r (kadd o (kmul o p s) (kmul o q r))));
          [ring|]. rewrite H1, H2. ring.
    - intros [a b] [c d]. simpl. unfold r2eqb. simpl. rewrite andb_true_iff, !ui_eqb.
      split; [intros [-> ->]; reflexivity | intros E; injection E; auto].
    - simpl. intros E. injection E as E. exact (ui_neq E).
  Qed.
End R2Laws.

(* the same lifting for the complex pairs of Base/Num.v *)
Section CplxUnit.
  Context {K : Type} (o : ops K).
  Context {SR : StarRing o} {UI : UnitInv o}.
  Let R := sr_ring (o:=o).
  Add Ring Kcu : R.

  Global Instance cplx_unit : UnitInv (cplx o).
  Proof.
    constructor.
    - intros [a b] [c d]. simpl. unfold cmul, cinv, cnorm2. simpl. intros H.
      injection H as H1 H2.
      assert (N : kinv o (kadd o (kmul o a a) (kmul o b b)) = kadd o (kmul o c c) (kmul o d d)).
      { apply ui_inv.
        transitivity (kadd o (kmul o (ksub o (kmul o a c) (kmul o b d)) (ksub o (kmul o a c) (kmul o b d)))
                             (kmul o (kadd o (kmul o a d) (kmul o b c)) (kadd o (kmul o a d) (kmul o b c))));
          [ring|]. rewrite H1, H2. ring. }
      rewrite N. f_equal.
      + transitivity (kadd o (kmul o c (ksub o (kmul o a c) (kmul o b d)))
                           (kmul o d (kadd o (kmul o a d) (kmul o b c)))); [ring|].
        rewrite H1, H2. ring.
      + transitivity (ksub o (kmul o d (ksub o (kmul o a c) (kmul o b d)))
                           (kmul o c (kadd o (kmul o a d) (kmul o b c)))); [ring|].
        rewrite H1, H2. ring.
    - intros [a b] [c d]. simpl. unfold ceqb. simpl. rewrite andb_true_iff, !ui_eqb.
      split; [intros [-> ->]; reflexivity | intros E; injection E; auto].
    - simpl. intros E. injection E as E. exact (ui_neq E).
  Qed.
End CplxUnit.

(* ------------------------------------------------------- canonical rationals *)
Definition qc_eqb (x y : Qc) : bool := Qeq_bool (this x) (this y).
Definition qcops : ops Qc :=
  mkOps Qc (Q2Qc 0) (Q2Qc 1) Qcplus Qcmult Qcminus Qcopp Qcinv (fun x => x) qc_eqb
        (fun x y => Qle_bool (this x) (this y)) (fun z => Q2Qc (inject_Z z)).

Global Instance qc_star : StarRing qcops.
Proof. constructor; simpl; try reflexivity. exact Qcrt. Qed.

Global Instance qc_unit : UnitInv qcops.
Proof.
  constructor; simpl.
  - intros x y H.
    assert (Hx : x <> Q2Qc 0).
    { intros ->. rewrite Qcmult_0_l in H. discriminate H. }
    transitivity (Qcmult (Qcinv x) (Qcmult x y)).
    + rewrite H. symmetry. apply Qcmult_1_r.
    + rewrite Qcmult_assoc, Qcmult_inv_l by exact Hx. apply Qcmult_1_l.
  - intros x y. unfold qc_eqb. rewrite Qeq_bool_iff. split.
    + apply Qc_is_canon.
    + intros ->. reflexivity.
  - discriminate.
Qed.

(* Q(sqrt 2)(i): ((a, b), (c, d)) = (a + b sqrt2) + i (c + d sqrt2) *)
Definition qr2ops : ops (Qc * Qc) := r2ext qcops.
Definition qi2ops : ops ((Qc * Qc) * (Qc * Qc)) := cplx qr2ops.
Definition qi2_i : (Qc * Qc) * (Qc * Qc) := ((Q2Qc 0, Q2Qc 0), (Q2Qc 1, Q2Qc 0)).
Definition qi2_h : (Qc * Qc) * (Qc * Qc) := ((Q2Qc 0, Q2Qc (1 # 2)), (Q2Qc 0, Q2Qc 0)).
Definition qi2_of (a b c d : Q) : (Qc * Qc) * (Qc * Qc) := ((Q2Qc a, Q2Qc b), (Q2Qc c, Q2Qc d)).

Global Instance qi2_tomo : TomoRing qi2ops qi2_i qi2_h.
Proof.
  constructor.
  - unfold qi2ops, qr2ops. typeclasses eauto.
  - unfold qi2ops, qr2ops. typeclasses eauto.
  - apply (proj1 (ui_eqb (o:=qi2ops) _ _)). vm_compute. reflexivity.
  - apply (proj1 (ui_eqb (o:=qi2ops) _ _)). vm_compute. reflexivity.
  - apply (proj1 (ui_eqb (o:=qi2ops) _ _)). vm_compute. reflexivity.
  - apply (proj1 (ui_eqb (o:=qi2ops) _ _)). vm_compute. reflexivity.
Qed.
