(* Finite sums over an initial segment of nat, over an abstract commutative ring. *)
From Coq Require Import ZArith Arith Lia Ring_theory Ring List Bool.
From LW Require Import Base.Num.
Import ListNotations.

Section Defs.
  Context {K : Type} (o : ops K).
  Fixpoint sumn (n : nat) (f : nat -> K) : K :=
    match n with
    | 0 => k0 o
    | S m => kadd o (sumn m f) (f m)
    end.
  Definition suml {A} (l : list A) (f : A -> K) : K :=
    fold_right (fun a acc => kadd o (f a) acc) (k0 o) l.
  Definition prodl {A} (l : list A) (f : A -> K) : K :=
    fold_right (fun a acc => kmul o (f a) acc) (k1 o) l.
End Defs.

Section Lemmas.
  Context {K : Type} {o : ops K} {SR : StarRing o}.
  Let R := sr_ring (o:=o).
  Add Ring Kr : R.
  Local Notation "0" := (k0 o).
  Local Notation "1" := (k1 o).
  Local Notation "a + b" := (kadd o a b).
  Local Notation "a * b" := (kmul o a b).
  Local Notation "a - b" := (ksub o a b).
  Local Notation sumn := (sumn o).

  Lemma sumn_ext n f g : (forall i, i < n -> f i = g i) -> sumn n f = sumn n g.
  Proof.
    induction n as [|n IH]; intros H; simpl; [reflexivity|].
    rewrite IH by (intros; apply H; lia). rewrite H by lia. reflexivity.
  Qed.

  Lemma sumn_zero n : sumn n (fun _ => 0) = 0.
  Proof. induction n as [|n IH]; simpl; [reflexivity|]. rewrite IH. ring. Qed.

  Lemma sumn_zero' n f : (forall i, i < n -> f i = 0) -> sumn n f = 0.
  Proof. intros H. rewrite (sumn_ext n f (fun _ => 0)) by exact H. apply sumn_zero. Qed.

  Lemma sumn_add n f g : sumn n (fun i => f i + g i) = sumn n f + sumn n g.
  Proof. induction n as [|n IH]; simpl; [ring|]. rewrite IH. ring. Qed.

  Lemma sumn_sub n f g : sumn n (fun i => f i - g i) = sumn n f - sumn n g.
  Proof. induction n as [|n IH]; simpl; [ring|]. rewrite IH. ring. Qed.

  Lemma sumn_mul_l n c f : sumn n (fun i => c * f i) = c * sumn n f.
  Proof. induction n as [|n IH]; simpl; [ring|]. rewrite IH. ring. Qed.

  Lemma sumn_mul_r n c f : sumn n (fun i => f i * c) = sumn n f * c.
  Proof. induction n as [|n IH]; simpl; [ring|]. rewrite IH. ring. Qed.

  Lemma sumn_swap n m (f : nat -> nat -> K) :
    sumn n (fun i => sumn m (fun j => f i j)) = sumn m (fun j => sumn n (fun i => f i j)).
  Proof.
    induction n as [|n IH]; simpl.
    - symmetry. apply sumn_zero.
    - rewrite IH. rewrite <- sumn_add. reflexivity.
  Qed.

  Lemma sumn_single n a f :
    a < n -> (forall k, k < n -> k <> a -> f k = 0) -> sumn n f = f a.
  Proof.
    induction n as [|n IH]; intros Ha H; [lia|]. simpl.
    destruct (Nat.eq_dec a n) as [->|Hne].
    - rewrite sumn_zero' by (intros; apply H; lia). ring.
    - rewrite IH by (try lia; intros; apply H; lia). rewrite (H n) by lia. ring.
  Qed.

  Lemma sumn_two n a b f :
    a < n -> b < n -> a <> b -> (forall k, k < n -> k <> a -> k <> b -> f k = 0) ->
    sumn n f = f a + f b.
  Proof.
    induction n as [|n IH]; intros Ha Hb Hab H; [lia|]. simpl.
    destruct (Nat.eq_dec a n) as [->|Hna].
    - rewrite (sumn_single n b) by (try lia; intros; apply H; lia). ring.
    - destruct (Nat.eq_dec b n) as [->|Hnb].
      + rewrite (sumn_single n a) by (try lia; intros; apply H; lia). ring.
      + rewrite IH by (try lia; intros; apply H; lia). rewrite (H n) by lia. ring.
  Qed.

  Lemma sumn_delta n a f :
    a < n -> sumn n (fun k => if Nat.eqb k a then f k else 0) = f a.
  Proof.
    intros Ha. rewrite (sumn_single n a) by
      (try lia; intros k _ Hk; apply Nat.eqb_neq in Hk; rewrite Hk; reflexivity).
    rewrite Nat.eqb_refl. reflexivity.
  Qed.

  Lemma sumn_app n m f : sumn (n + m) f = sumn n f + sumn m (fun i => f (n + i)%nat).
  Proof.
    induction m as [|m IH]; simpl.
    - rewrite Nat.add_0_r. ring.
    - replace (n + S m)%nat with (S (n + m)) by lia. simpl. rewrite IH. ring.
  Qed.

  Lemma sumn_S_l n f : sumn (S n) f = f 0%nat + sumn n (fun i => f (S i)).
  Proof.
    induction n as [|n IH]; [simpl; ring|].
    change (sumn (S (S n)) f) with (sumn (S n) f + f (S n)). rewrite IH.
    change (sumn (S n) (fun i => f (S i))) with (sumn n (fun i => f (S i)) + f (S n)). ring.
  Qed.

  (* the same sum with a larger bound when the extra terms vanish *)
  Lemma sumn_extend n m f : n <= m -> (forall k, n <= k -> k < m -> f k = 0) -> sumn m f = sumn n f.
  Proof.
    intros Hle H. assert (E : m = (n + (m - n))%nat) by lia. rewrite E, sumn_app.
    rewrite (sumn_zero' (m - n)); [ring|]. intros i Hi. apply H; lia.
  Qed.

  Lemma suml_app {A} (l1 l2 : list A) f : suml o (l1 ++ l2) f = suml o l1 f + suml o l2 f.
  Proof. induction l1 as [|a l IH]; simpl; [ring|]. rewrite IH. ring. Qed.

  Lemma suml_ext {A} (l : list A) f g : (forall a, In a l -> f a = g a) -> suml o l f = suml o l g.
  Proof.
    induction l as [|a l IH]; intros H; simpl; [reflexivity|].
    rewrite H by (left; reflexivity). rewrite IH by (intros; apply H; right; assumption). reflexivity.
  Qed.

  Lemma suml_seq n f : suml o (seq 0 n) f = sumn n f.
  Proof.
    induction n as [|n IH]; [reflexivity|].
    rewrite seq_S, suml_app, IH. simpl. ring.
  Qed.

  Lemma suml_mul_l {A} (l : list A) c f : suml o l (fun a => c * f a) = c * suml o l f.
  Proof. induction l as [|a l IH]; simpl; [ring|]. rewrite IH. ring. Qed.

  Lemma suml_add {A} (l : list A) f g : suml o l (fun a => f a + g a) = suml o l f + suml o l g.
  Proof. induction l as [|a l IH]; simpl; [ring|]. rewrite IH. ring. Qed.

  Lemma suml_zero {A} (l : list A) : suml o l (fun _ => 0) = 0.
  Proof. induction l as [|a l IH]; simpl; [ring|]. rewrite IH. ring. Qed.

  Lemma suml_swap {A B} (l : list A) (m : list B) (f : A -> B -> K) :
    suml o l (fun a => suml o m (fun b => f a b)) = suml o m (fun b => suml o l (fun a => f a b)).
  Proof.
    induction l as [|a l IH]; simpl.
    - symmetry. apply suml_zero.
    - rewrite IH, <- suml_add. reflexivity.
  Qed.
End Lemmas.

Section Conj.
  Context {K : Type} {o : ops K} {SR : StarRing o}.
  Lemma sumn_conj n f : kconj o (sumn o n f) = sumn o n (fun i => kconj o (f i)).
  Proof.
    induction n as [|n IH]; simpl; [apply sr_conj_0|].
    rewrite sr_conj_add, IH. reflexivity.
  Qed.
End Conj.
