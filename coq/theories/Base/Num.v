(* The record of scalar operations every numeric model is polymorphic in,
   the laws the generic proofs assume, and the complex-pair construction. *)
From Coq Require Import ZArith Ring_theory Ring Setoid.

Record ops (K : Type) : Type := mkOps {
  k0 : K; k1 : K;
  kadd : K -> K -> K; kmul : K -> K -> K; ksub : K -> K -> K; kopp : K -> K;
  kinv : K -> K;
  kconj : K -> K;
  keqb : K -> K -> bool; kleb : K -> K -> bool;
  kofZ : Z -> K }.
Arguments k0 {K} _. Arguments k1 {K} _. Arguments kadd {K} _ _ _.
Arguments kmul {K} _ _ _. Arguments ksub {K} _ _ _. Arguments kopp {K} _ _.
Arguments kinv {K} _ _. Arguments kconj {K} _ _. Arguments keqb {K} _ _ _.
Arguments kleb {K} _ _ _. Arguments kofZ {K} _ _.

(* laws of a commutative ring with involution (Leibniz equality) *)
Class StarRing {K} (o : ops K) : Prop := mkStar {
  sr_ring : ring_theory (k0 o) (k1 o) (kadd o) (kmul o) (ksub o) (kopp o) eq;
  sr_conj_add : forall a b, kconj o (kadd o a b) = kadd o (kconj o a) (kconj o b);
  sr_conj_mul : forall a b, kconj o (kmul o a b) = kmul o (kconj o a) (kconj o b);
  sr_conj_0 : kconj o (k0 o) = k0 o;
  sr_conj_1 : kconj o (k1 o) = k1 o;
  sr_conj_opp : forall a, kconj o (kopp o a) = kopp o (kconj o a);
  sr_conj_inv : forall a, kconj o (kconj o a) = a }.

(* complex numbers as pairs over a "real" operations record *)
Section Cplx.
  Context {K : Type} (o : ops K).
  Local Notation "a + b" := (kadd o a b).
  Local Notation "a * b" := (kmul o a b).
  Local Notation "a - b" := (ksub o a b).
  Local Notation "- a" := (kopp o a).

  Definition cadd (x y : K * K) : K * K := (fst x + fst y, snd x + snd y).
  Definition csub (x y : K * K) : K * K := (fst x - fst y, snd x - snd y).
  Definition cmul (x y : K * K) : K * K :=
    (fst x * fst y - snd x * snd y, fst x * snd y + snd x * fst y).
  Definition copp (x : K * K) : K * K := (- fst x, - snd x).
  Definition cconj (x : K * K) : K * K := (fst x, - snd x).
  Definition cnorm2 (x : K * K) : K := fst x * fst x + snd x * snd x.
  Definition cinv (x : K * K) : K * K :=
    let d := kinv o (cnorm2 x) in (fst x * d, (- snd x) * d).
  Definition ceqb (x y : K * K) : bool := andb (keqb o (fst x) (fst y)) (keqb o (snd x) (snd y)).
  Definition cofR (a : K) : K * K := (a, k0 o).

  Definition cplx : ops (K * K) :=
    mkOps (K * K) (k0 o, k0 o) (k1 o, k0 o) cadd cmul csub copp cinv cconj ceqb
          (fun x y => kleb o (fst x) (fst y)) (fun z => (kofZ o z, k0 o)).
End Cplx.

Section CplxLaws.
  Context {K : Type} (o : ops K).
  Context {SR : StarRing o}.
  Let R := sr_ring (o:=o).
  Add Ring Kr : R.

  Lemma cplx_ring : ring_theory (k0 (cplx o)) (k1 (cplx o)) (kadd (cplx o)) (kmul (cplx o))
                                (ksub (cplx o)) (kopp (cplx o)) eq.
  Proof.
    constructor; simpl; unfold cadd, cmul, csub, copp; simpl; intros;
      repeat match goal with x : (K * K)%type |- _ => destruct x end; simpl;
      f_equal; ring.
  Qed.

  Global Instance cplx_star : StarRing (cplx o).
  Proof.
    constructor; [exact cplx_ring | ..]; simpl; unfold cadd, cmul, cconj, copp; simpl; intros;
      repeat match goal with x : (K * K)%type |- _ => destruct x end; simpl;
      f_equal; ring.
  Qed.
End CplxLaws.
