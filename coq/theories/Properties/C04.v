(* C04 — Sampler distribution is normalised, exact and the same for both back ends.
   Statements only; every proof is [exact <lemma of Proofs/DistP.v>].

   Reading guide (all over the Coq reals: [rops : ops R], complex = pairs [cops]).
     n, l            circuit modes / loss modes; U = U_full has dimension n + l
     ins             the full input state (length n, heralds already inserted)
     full_dist b eps n l U ins
                     Backend.full_probability_distribution for back end b = Permanent | Slos
                     with sampler_probability_threshold eps (Model/Fock.v)
     pdist_calc b eps n l U inputs
                     pdist_calc (State variant, repaired vacuum bookkeeping) on the weighted inputs
     prob_of rops U i o = |permanent of the photon-indexed sub-matrix|^2 / (prod i! prod o!)
     focks l m       every occupation of l modes by m photons, once ([C04_focks_exact])
     marg U n l ins k  = sum over lo in focks l (osum ins - osum k) of
                         prob_of rops U (ins ++ repeat 0 l) (k ++ lo):
                       the total probability of pattern k on the circuit modes, summed over every way
                       the remaining photons can have been lost
     margt eps ...   the same sum where a full state contributes only if its probability exceeds eps
     pd_val d k      value of dictionary d at key k, 0 when absent; pd_total d = sum(d.values())
     n_full_states n l ins = number of full output states of the input's photon number
     mixture n inputs : weights >= 0 summing to 1 on states of n modes; mix inputs f = sum_i w_i f(ins_i) *)
From Coq Require Import ZArith List Bool Arith Lia Reals Lra.
From LW Require Import Base.Num Base.Sums Base.Mat Base.RInst Model.State Model.Fock
     Proofs.PermP Proofs.FockUnitP Proofs.DistP.
From LW Require Import Base.QI2.
Import ListNotations.
Open Scope nat_scope.

(* ---------------- the specification is what it says ---------------- *)
Theorem C04_focks_exact :
  forall l m t, In t (focks l m) <-> length t = l /\ osum t = m.
Proof. exact focks_exact. Qed.
Print Assumptions C04_focks_exact.

(* a pattern with more photons than were injected has marginal probability 0 (the truncated
   subtraction in [marg] does not create probability) *)
Theorem C04_marg_excess_is_zero :
  forall (U : @mat C) n l ins k, osum ins < osum k -> marg U n l ins k = 0%R.
Proof. exact marg_excess. Qed.
Print Assumptions C04_marg_excess_is_zero.

(* ---------------- eps = 0: exact, both back ends ---------------- *)
(* each pattern (the vacuum pattern included, also for a vacuum input) gets its total probability
   summed over every way the remaining photons can have been lost *)
Theorem C04_dist_marginal :
  forall (b : backend) n l (U : @mat C) ins k,
    unitary cops (n + l) U -> length ins = n -> length k = n ->
    pd_val (full_dist rops b 0%R n l U ins) k = marg U n l ins k.
Proof. exact (fun b n l U ins k HU => dist_exact_eps0 b n l U ins k (proj1 HU)). Qed.
Print Assumptions C04_dist_marginal.

(* the two back ends return the same finitely supported function (every key k, any length) *)
Theorem C04_dist_backend_independent :
  forall n l (U : @mat C) ins k,
    unitary cops (n + l) U -> length ins = n ->
    pd_val (full_dist rops Permanent 0%R n l U ins) k = pd_val (full_dist rops Slos 0%R n l U ins) k.
Proof. exact (fun n l U ins k HU => dist_backend_independent n l U ins k (proj1 HU)). Qed.
Print Assumptions C04_dist_backend_independent.

Theorem C04_dist_sums_to_one_eps0 :
  forall (b : backend) n l (U : @mat C) ins,
    unitary cops (n + l) U -> length ins = n -> pd_total rops (full_dist rops b 0%R n l U ins) = 1%R.
Proof. exact (fun b n l U ins HU => dist_total_eps0 b n l U ins (proj1 HU)). Qed.
Print Assumptions C04_dist_sums_to_one_eps0.

(* ---------------- every threshold eps ---------------- *)
(* every non-vacuum pattern: both back ends return exactly the truncated marginal, for EVERY
   matrix (no unitarity needed) — hence they agree for every eps *)
Theorem C04_dist_truncated_marginal :
  forall (b : backend) (eps : R) n l (U : @mat C) ins k,
    length ins = n -> length k = n -> osum k <> 0 ->
    pd_val (full_dist rops b eps n l U ins) k = margt eps U n l ins k.
Proof. exact dist_value_nonvac. Qed.
Print Assumptions C04_dist_truncated_marginal.

Theorem C04_dist_backend_independent_truncated :
  forall (eps : R) n l (U : @mat C) ins k,
    length ins = n -> length k = n -> osum k <> 0 ->
    pd_val (full_dist rops Permanent eps n l U ins) k = pd_val (full_dist rops Slos eps n l U ins) k.
Proof. exact dist_backend_independent_nonvac. Qed.
Print Assumptions C04_dist_backend_independent_truncated.

(* hence: within eps per lost-photon configuration below the exact marginal, never above *)
Theorem C04_dist_upper :
  forall (b : backend) (eps : R) n l (U : @mat C) ins k,
    length ins = n -> length k = n -> osum k <> 0 ->
    (pd_val (full_dist rops b eps n l U ins) k <= marg U n l ins k)%R.
Proof. exact dist_upper. Qed.
Print Assumptions C04_dist_upper.

Theorem C04_dist_lower :
  forall (b : backend) (eps : R) n l (U : @mat C) ins k,
    (0 <= eps)%R -> length ins = n -> length k = n -> osum k <> 0 ->
    (marg U n l ins k - eps * INR (length (focks l (osum ins - osum k))) <=
     pd_val (full_dist rops b eps n l U ins) k)%R.
Proof. exact dist_lower. Qed.
Print Assumptions C04_dist_lower.

(* all values are non-negative (every matrix, every eps, every input) *)
Theorem C04_dist_nonneg :
  forall (b : backend) (eps : R) n l (U : @mat C) ins k v,
    In (k, v) (full_dist rops b eps n l U ins) -> (0 <= v)%R.
Proof. exact (fun b eps n l U ins => dist_nonneg b eps n l U ins). Qed.
Print Assumptions C04_dist_nonneg.

(* keys are duplicate-free patterns of the n circuit modes *)
Theorem C04_dist_keys :
  forall (b : backend) (eps : R) n l (U : @mat C) ins,
    length ins = n ->
    NoDup (pd_keys (full_dist rops b eps n l U ins)) /\
    forall k, In k (pd_keys (full_dist rops b eps n l U ins)) -> length k = n.
Proof.
  exact (fun b eps n l U ins H =>
           conj (proj1 (dist_keys b eps n l U ins H))
                (fun k Hk => proj1 (proj2 (dist_keys b eps n l U ins H) k Hk))).
Qed.
Print Assumptions C04_dist_keys.

(* no pattern holds more photons than were injected *)
Theorem C04_dist_photon_bound :
  forall (b : backend) (eps : R) n l (U : @mat C) ins k,
    length ins = n -> In k (pd_keys (full_dist rops b eps n l U ins)) -> osum k <= osum ins.
Proof. exact (fun b eps n l U ins k H Hk => proj2 (proj2 (dist_keys b eps n l U ins H) k Hk)). Qed.
Print Assumptions C04_dist_photon_bound.

(* the values sum to one up to the per-state truncation: at most eps is lost per full output state *)
Theorem C04_dist_total :
  forall (b : backend) (eps : R) n l (U : @mat C) ins,
    (0 <= eps)%R -> unitary cops (n + l) U -> length ins = n ->
    (1 - eps * INR (n_full_states n l ins) <= pd_total rops (full_dist rops b eps n l U ins) <= 1)%R.
Proof. exact (fun b eps n l U ins He HU => dist_total_bounds b eps n l U ins He (proj1 HU)). Qed.
Print Assumptions C04_dist_total.

(* reading aids: the total is the sum of the values over the keys; the count of full output states
   is the size of the basis the permanent back end enumerates *)
Theorem C04_total_is_sum_over_keys :
  forall d : @pdict R, NoDup (pd_keys d) -> pd_total rops d = suml rops (pd_keys d) (pd_val d).
Proof. exact pd_total_keys. Qed.
Print Assumptions C04_total_is_sum_over_keys.

Theorem C04_n_full_states_is_fock_basis_size :
  forall n l ins, 0 < n + l -> n_full_states n l ins = length (fock_sums (n + l) (osum ins)).
Proof. exact n_full_states_fock_sums. Qed.
Print Assumptions C04_n_full_states_is_fock_basis_size.

(* ---------------- pdist_calc on a normalised mixture of inputs ---------------- *)
Theorem C04_pdist_marginal_eps0 :
  forall (b : backend) n l (U : @mat C) inputs k,
    mixture n inputs -> unitary cops (n + l) U -> length k = n ->
    pd_val (pdist_calc rops b 0%R n l U inputs) k = mix inputs (fun ins => marg U n l ins k).
Proof. exact (fun b n l U inputs k Hm HU => pdist_exact_eps0 b n l U inputs k Hm (proj1 HU)). Qed.
Print Assumptions C04_pdist_marginal_eps0.

Theorem C04_pdist_truncated_marginal :
  forall (b : backend) (eps : R) n l (U : @mat C) inputs k,
    mixture n inputs -> length k = n -> osum k <> 0 ->
    pd_val (pdist_calc rops b eps n l U inputs) k = mix inputs (fun ins => margt eps U n l ins k) /\
    (pd_val (pdist_calc rops b eps n l U inputs) k <= mix inputs (fun ins => marg U n l ins k))%R.
Proof.
  exact (fun b eps n l U inputs k Hm Hk Hnz =>
           conj (pdist_value_nonvac b eps n l U inputs Hm k Hk Hnz)
                (pdist_upper b eps n l U inputs Hm k Hk Hnz)).
Qed.
Print Assumptions C04_pdist_truncated_marginal.

(* on a lossy circuit the missing mass is ADDED to the vacuum entry: the total is exactly one *)
Theorem C04_pdist_sums_to_one_lossy :
  forall (b : backend) (eps : R) n l (U : @mat C) inputs,
    mixture n inputs -> (0 <= eps)%R -> unitary cops (n + l) U -> l <> 0 ->
    pd_total rops (pdist_calc rops b eps n l U inputs) = 1%R.
Proof. exact (fun b eps n l U inputs Hm He HU => pdist_total_lossy b eps n l U inputs Hm He (proj1 HU)). Qed.
Print Assumptions C04_pdist_sums_to_one_lossy.

(* in general (lossless circuits included): one up to the per-state truncation *)
Theorem C04_pdist_total :
  forall (b : backend) (eps : R) n l (U : @mat C) inputs (M : nat),
    mixture n inputs -> (0 <= eps)%R -> unitary cops (n + l) U ->
    (forall ip, In ip inputs -> n_full_states n l (fst ip) <= M) ->
    (1 - eps * INR M <= pd_total rops (pdist_calc rops b eps n l U inputs) <= 1)%R.
Proof.
  exact (fun b eps n l U inputs M Hm He HU => pdist_total_bounds b eps n l U inputs Hm M He (proj1 HU)).
Qed.
Print Assumptions C04_pdist_total.

Theorem C04_pdist_nonneg :
  forall (b : backend) (eps : R) n l (U : @mat C) inputs k v,
    mixture n inputs -> In (k, v) (pdist_calc rops b eps n l U inputs) -> (0 <= v)%R.
Proof. exact (fun b eps n l U inputs k v Hm => pdist_nonneg b eps n l U inputs Hm k v). Qed.
Print Assumptions C04_pdist_nonneg.

(* keys: duplicate-free patterns of n modes holding at most the photons of some input *)
Theorem C04_pdist_keys_photon_bound :
  forall (b : backend) (eps : R) n l (U : @mat C) inputs,
    mixture n inputs ->
    NoDup (pd_keys (pdist_calc rops b eps n l U inputs)) /\
    forall k, In k (pd_keys (pdist_calc rops b eps n l U inputs)) ->
              length k = n /\ exists ip, In ip inputs /\ osum k <= osum (fst ip).
Proof. exact pdist_keys. Qed.
Print Assumptions C04_pdist_keys_photon_bound.

(* ---------------- regression: what the repair of finding F1 rules out ---------------- *)
(* with the old vacuum bookkeeping (vacuum entry := 1 - total, [pdist_calc_overwrite]) there is a
   unitary lossy circuit (beam splitter with transmission amplitude ~2e-5, then a loss), a one-photon
   input and the documented threshold 1e-9 on which the slos distribution sums to less than 1/2;
   the repaired pdist_calc returns total exactly 1 on the same input (exact rationals, closed proof) *)
Theorem C04_pdist_overwrite_loses_mass_regression :
  exists (U : @mat (Qcanon.Qc * Qcanon.Qc)) (inputs : @pdict Qcanon.Qc) (eps : Qcanon.Qc),
    F1Witness.unitaryb 3 U = true /\ pd_total qcops inputs = Qcanon.Q2Qc (QArith_base.Qmake 1 1) /\
    klt qcops (pd_total qcops (pdist_calc_overwrite qcops Slos eps 2 1 U inputs)) (F1Witness.q 1 2) = true /\
    keqb qcops (pd_total qcops (pdist_calc qcops Slos eps 2 1 U inputs)) (Qcanon.Q2Qc (QArith_base.Qmake 1 1)) = true.
Proof. exact pdist_overwrite_loses_mass. Qed.
Print Assumptions C04_pdist_overwrite_loses_mass_regression.

(* ---------------- the hypotheses are satisfiable, the specification is not trivial ---------------- *)
Example C04_unitary_nonvacuous : unitary cops (2 + 1) (mid cops).
Proof. exact (unitary_mid 3). Qed.

Example C04_mixture_nonvacuous : mixture 2 [([1; 0], (1 / 2)%R); ([0; 0], (1 / 2)%R)].
Proof. exact mixture_example. Qed.

Example C04_marg_nontrivial : marg (mid cops) 1 0 [1] [1] = 1%R.
Proof. exact marg_identity_example. Qed.
