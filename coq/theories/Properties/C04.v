From LW Require Import Model.Fock.
