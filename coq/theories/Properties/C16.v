(* C16 — Process tomography and gate fidelity agree with the library's own references.
   Statements only; every proof is [exact <lemma>]
   (Proofs/TomoProcP.v one qubit and pinned; TomoProcG.v gradient; TomoProcN.v LI and forward
   model for n qubits; TomoProcF.v gate fidelity for n qubits; TomoProcW.v witnesses).

   Scalars: any commutative *-ring [o] with an imaginary unit [ii], hh = 1/sqrt 2
   (2*hh*hh = 1), inverses of units, decidable equality ([TomoRing], Base/QI2.v);
   instances: Q(sqrt 2)(i) (Base/QI2.v, executable; the witnesses) and the complex
   numbers over Coq's reals (Base/QI2R.v).  [req] is the list of measurement settings
   in the order Python's list(set(...)) happened to produce.  [lunit o d V] is
   V^+ V = 1 on d x d.  "Noiseless data" ([process_ideal]): for every requested (input,
   setting) the dual-rail outcome frequencies given by the Born rule for the state
   V rho_in V^+ after the basis change of the setting.

   np.linalg.pinv / np.linalg.solve are oracles [solve N T b]; assumed contract
   [pinv_contract solve] (Proofs/TomoProcP.v): for every N x N system T x = b that is
   solved by some x0 and whose matrix has a trivial kernel, [solve N T b] is x0.

   WHAT IS PROVED:
     - every number of qubits n >= 1: LI on noiseless data returns choi_from_unitary(V) for
       EVERY 2^n x 2^n matrix V with V^+V = 1 (complex, non-symmetric, entangling, ...);
     - every n >= 1: gate fidelity is (|tr(U^+ V)|^2 + d)/(d(d+1)), d = 2^n, for EVERY target
       matrix U, one for U = V;
     - every n: the MLE forward model _p_vec at choi_from_unitary(V) gives the Born
       probabilities of the data (EVERY matrix V), it is linear in the Choi matrix, the matrix
       _gradient returns satisfies tr(G D) = d/dt cost(choi + t D) for every direction D, the
       rows of _a_mat are Hermitian and, for real weights, G is the Hilbert-Schmidt gradient;
       _tp_proj makes the partial trace over the output factor the identity (trace preservation in the
       output (x) input ordering of choi_from_unitary);
     - regression theorems about the definitions of the pinned tree ([*_pinned], findings
       F9 and F8, repaired in /repo by 00f76fe and daa21e7).
   OUTSIDE PROOF (oracle-tested by harness/c16.py on generated unitaries only):
     convergence of the projected-gradient iteration pgdb / _cptp_proj, positivity after
     the eigh clipping of _cp_proj, the ">= 0.99 fidelity" of the MLE estimate,
     process_fidelity (scipy sqrtm; "fidelity one" of the LI result follows from the LI theorem
     only with the sqrtm contract of C15), and the photonic level (dual-rail frequencies of the
     circuits = Born probabilities of V rho V^+). *)
From Coq Require Import ZArith List Bool Arith Lia Permutation Reals QArith Qcanon.
From LW Require Import Base.Sx Base.Num Base.Sums Base.Mat Base.QI2 Base.QI2R Model.Tomo
  Proofs.TomoStateP Proofs.TomoProcP Proofs.TomoProcG Proofs.TomoProcN Proofs.TomoProcF Proofs.TomoProcW.
Import ListNotations.
Open Scope nat_scope.

(* ------------------------------------------------------------------ linear inversion *)
(* LIProcessTomography.process on the noiseless data of an n-qubit process V returns
   exactly the matrix choi_from_unitary(V) = vec(V) vec(V)^+ : for EVERY n >= 1, EVERY
   2^n x 2^n matrix V with V^+ V = 1 (complex, non-symmetric, ...), every ordering of the
   settings. *)
Theorem C16_li_returns_choi_from_unitary :
  forall (K : Type) (o : ops K) (ii hh : K), TomoRing o ii hh ->
  forall (n : nat) (solve : nat -> (nat -> nat -> K) -> (nat -> K) -> nat -> K) (V : nat -> nat -> K) (req : list mstr),
    1 <= n -> pinv_contract (o:=o) solve -> lunit o (2 ^ n) V -> Permutation req (req_canonical n false) ->
    exists J, li_process o ii solve n req (process_ideal o ii hh n V (istrings li_inputs n) req) = Ok J /\
              meq (2 ^ n * 2 ^ n) J (choi_from_unitary o (2 ^ n) V).
Proof. exact (fun K o ii hh TR => li_returns_choi_from_unitary_n (TR:=TR)). Qed.
Print Assumptions C16_li_returns_choi_from_unitary.

(* the same over the complex numbers (pairs of Coq reals) *)
Theorem C16_li_returns_choi_from_unitary_complex :
  forall (n : nat) (solve : nat -> (nat -> nat -> R * R) -> (nat -> R * R) -> nat -> R * R) (V : nat -> nat -> R * R) (req : list mstr),
    1 <= n -> pinv_contract (o:=tCops) solve -> lunit tCops (2 ^ n) V -> Permutation req (req_canonical n false) ->
    exists J, li_process tCops tC_i solve n req (process_ideal tCops tC_i tC_h n V (istrings li_inputs n) req) = Ok J /\
              meq (2 ^ n * 2 ^ n) J (choi_from_unitary tCops (2 ^ n) V).
Proof. exact (li_returns_choi_from_unitary_n (TR:=tC_tomo)). Qed.
Print Assumptions C16_li_returns_choi_from_unitary_complex.

(* Regression (finding F9), one qubit: with the row order of the pinned tree,
   vec(conj(rho_in) (x) P) instead of vec(P (x) conj(rho_in)), LI returned the Choi
   matrix of the TRANSPOSE of V ... *)
Theorem C16_li_pinned_returns_choi_of_transpose :
  forall (K : Type) (o : ops K) (ii hh : K), TomoRing o ii hh ->
  forall (solve : nat -> (nat -> nat -> K) -> (nat -> K) -> nat -> K) (V : nat -> nat -> K) (req : list mstr),
    pinv_contract (o:=o) solve -> lunit o 2 V -> Permutation req (req_canonical 1 false) ->
    exists J, li_process_pinned o ii solve 1 req (process_ideal o ii hh 1 V (istrings li_inputs 1) req) = Ok J /\
              meq 4 J (choi_from_unitary o 2 (mtrans V)).
Proof. exact (fun K o ii hh TR => li_pinned_returns_choi_of_transpose (TR:=TR)). Qed.
Print Assumptions C16_li_pinned_returns_choi_of_transpose.

(* ... which is not the reference: witness Ry with cos = 3/5, sin = 4/5 (real, unitary,
   not symmetric), in Q(sqrt 2)(i) *)
Theorem C16_li_eq_reference_pinned_refuted :
  exists V : nat -> nat -> (Qc * Qc) * (Qc * Qc), unitary qi2ops 2 V /\
  forall solve req, pinv_contract (o:=qi2ops) solve -> Permutation req (req_canonical 1 false) ->
  exists J, li_process_pinned qi2ops qi2_i solve 1 req (process_ideal qi2ops qi2_i qi2_h 1 V (istrings li_inputs 1) req) = Ok J /\
            ~ meq 4 J (choi_from_unitary qi2ops 2 V).
Proof. exact (ex_intro _ w_Ry (conj w_Ry_unitary li_eq_reference_pinned_refuted_w)). Qed.
Print Assumptions C16_li_eq_reference_pinned_refuted.

(* ... while for symmetric V (H, CNOT-like: V^T = V) the pinned LI did return the reference *)
Theorem C16_li_eq_reference_pinned_partial :
  forall (K : Type) (o : ops K) (ii hh : K), TomoRing o ii hh ->
  forall (solve : nat -> (nat -> nat -> K) -> (nat -> K) -> nat -> K) (V : nat -> nat -> K) (req : list mstr),
    pinv_contract (o:=o) solve -> lunit o 2 V -> Permutation req (req_canonical 1 false) ->
    meq 2 (mtrans V) V ->
    exists J, li_process_pinned o ii solve 1 req (process_ideal o ii hh 1 V (istrings li_inputs 1) req) = Ok J /\
              meq 4 J (choi_from_unitary o 2 V).
Proof. exact (fun K o ii hh TR => li_pinned_symmetric (TR:=TR)). Qed.
Print Assumptions C16_li_eq_reference_pinned_partial.

(* ------------------------------------------------------------------- gate fidelity *)
(* GateFidelity.process(U) on the noiseless data of V, before np.real: for EVERY n >= 1 and
   EVERY 2^n x 2^n target matrix U (unitary or not) the value is
   (|tr(U^+ V)|^2 + d) / (d (d + 1)), d = 2^n.  [inv] is 1/(d+1) (the ring need not have
   characteristic 0: its existence is a hypothesis; 1/3 for one qubit, 1/5 for two). *)
Theorem C16_gate_fidelity_formula :
  forall (K : Type) (o : ops K) (ii hh : K), TomoRing o ii hh ->
  forall (n : nat) (solve : nat -> (nat -> nat -> K) -> (nat -> K) -> nat -> K) (U V : nat -> nat -> K) (req : list mstr) (inv : K),
    1 <= n -> pinv_contract (o:=o) solve -> lunit o (2 ^ n) V -> Permutation req (req_canonical n false) ->
    kmul o (kadd o (ofnat o (2 ^ n)) (k1 o)) inv = k1 o ->
    gf_process o ii solve n req (process_ideal o ii hh n V (istrings li_inputs n) req) U
    = Ok (kmul o (kadd o (kmul o (trace o (2 ^ n) (mmul o (2 ^ n) (madj o U) V))
                                 (kconj o (trace o (2 ^ n) (mmul o (2 ^ n) (madj o U) V))))
                         (ofnat o (2 ^ n)))
                 (kinv o (kmul o (ofnat o (2 ^ n)) (kadd o (ofnat o (2 ^ n)) (k1 o))))).
Proof. exact (fun K o ii hh TR => gate_fidelity_formula_n (TR:=TR)). Qed.
Print Assumptions C16_gate_fidelity_formula.

(* target = the gate itself: fidelity one *)
Theorem C16_gate_fidelity_same :
  forall (K : Type) (o : ops K) (ii hh : K), TomoRing o ii hh ->
  forall (n : nat) (solve : nat -> (nat -> nat -> K) -> (nat -> K) -> nat -> K) (V : nat -> nat -> K) (req : list mstr) (inv : K),
    1 <= n -> pinv_contract (o:=o) solve -> unitary o (2 ^ n) V -> Permutation req (req_canonical n false) ->
    kmul o (kadd o (ofnat o (2 ^ n)) (k1 o)) inv = k1 o ->
    gf_process o ii solve n req (process_ideal o ii hh n V (istrings li_inputs n) req) V = Ok (k1 o).
Proof. exact (fun K o ii hh TR => gate_fidelity_same_n (TR:=TR)). Qed.
Print Assumptions C16_gate_fidelity_same.

(* ------------------------------------------------------------- maximum likelihood *)
(* _p_vec (before clipping) at the reference choi_from_unitary(V) itself, every n: the
   entries, in the order of the rows of _a_mat (input string, measurement string without
   the all-I one, outcome s), are
     born_pm_n n V in_s meas s = (tr rho' + (-1)^s <P_meas>_rho') / 2 / 4^n,  rho' = V rho_in V^+
   i.e. the Born probability of outcome s of observable meas on input in_s (weight 1/4^n) -
   for EVERY matrix V.  So the likelihood of noiseless data is maximal at the reference. *)
Theorem C16_mle_forward_model :
  forall (K : Type) (o : ops K) (ii hh : K), TomoRing o ii hh ->
  forall (n : nat) (V : nat -> nat -> K),
    p_lin o ii n (choi_from_unitary o (2 ^ n) V)
    = flat_map (fun in_s => flat_map (fun meas => [born_pm_n (o:=o) (ii:=ii) n V in_s meas false;
                                                   born_pm_n (o:=o) (ii:=ii) n V in_s meas true])
                                     (mle_meas_basis n)) (mle_input_basis n).
Proof. exact (fun K o ii hh TR => mle_forward_model_n (TR:=TR)). Qed.
Print Assumptions C16_mle_forward_model.

(* the forward model is linear in the Choi matrix, every n: p(A + t B) = p(A) + t p(B) *)
Theorem C16_mle_forward_linear :
  forall (K : Type) (o : ops K), StarRing o -> forall (ii : K) (n : nat) (A B : nat -> nat -> K) (t : K),
    p_lin o ii n (fun i j => kadd o (A i j) (kmul o t (B i j)))
    = map (fun ab => kadd o (fst ab) (kmul o t (snd ab))) (combine (p_lin o ii n A) (p_lin o ii n B)).
Proof. exact (fun K o SR => p_lin_linear (SR:=SR)). Qed.
Print Assumptions C16_mle_forward_linear.

(* THE GRADIENT IDENTITY, every n, every Choi matrix, data vector and direction D:
   with G = _gradient(choi, n_vec), tr(G D) = - sum_k (n_k / p_k(choi)) p_lin(D)_k, the
   derivative at t = 0 of the cost -sum_k n_k log p_k(choi + t D) (p linear, above; where no
   p_k is clipped).  tr(mod G) is also what the line search of pgdb uses. *)
Theorem C16_mle_gradient_is_derivative :
  forall (K : Type) (o : ops K), StarRing o ->
  forall (ii : K) (n : nat) (choi : nat -> nat -> K) (n_vec : list K) (D : nat -> nat -> K),
    trace o (4 ^ n) (mmul o (4 ^ n) (gradient o ii n choi n_vec) D) = dir_deriv o ii n choi n_vec D.
Proof. exact (fun K o SR => gradient_is_derivative (SR:=SR)). Qed.
Print Assumptions C16_mle_gradient_is_derivative.

(* every row of _a_mat, reshaped to 4^n x 4^n, is a Hermitian matrix R_k (every n >= 1) *)
Theorem C16_mle_rows_hermitian :
  forall (K : Type) (o : ops K) (ii hh : K), TomoRing o ii hh ->
  forall (n : nat) (row : nat -> K), 1 <= n -> In row (a_rows o ii n) ->
    hermitian o (4 ^ n) (row_mat (4 ^ n) row).
Proof. exact (fun K o ii hh TR => a_rows_hermitian (TR:=TR)). Qed.
Print Assumptions C16_mle_rows_hermitian.

(* hence, for real weights n_k/p_k (real data, Hermitian choi), G is Hermitian and is the
   Hilbert-Schmidt gradient of the cost: <G, D> = tr(G^+ D) = the directional derivative,
   for every direction D, every n >= 1 *)
Theorem C16_mle_gradient_is_hs_gradient :
  forall (K : Type) (o : ops K) (ii hh : K), TomoRing o ii hh ->
  forall (n : nat) (choi : nat -> nat -> K) (n_vec : list K) (D : nat -> nat -> K), 1 <= n ->
    Forall (fun w => kconj o w = w) (grad_weights o (a_rows o ii n) n choi n_vec) ->
    hs_inner o (4 ^ n) (gradient o ii n choi n_vec) D = dir_deriv o ii n choi n_vec D.
Proof. exact (fun K o ii hh TR => mle_gradient_is_hs_gradient (TR:=TR)). Qed.
Print Assumptions C16_mle_gradient_is_hs_gradient.

(* Regression (finding F8): with the A matrix and the conjugated gradient of the pinned
   tree, on the noiseless data of the S gate at the starting point of pgdb, the matrix
   _gradient returned was NOT the gradient (its inner product with the Hermitian
   direction X (x) Y differs from the directional derivative) while its complex conjugate
   was; the repaired code is covered by the two theorems above.  No [_partial]: the
   pinned gradient was right only when it happened to be real. *)
Theorem C16_mle_gradient_pinned_refuted :
  exists (V D : nat -> nat -> (Qc * Qc) * (Qc * Qc)) nij nv,
    unitary qi2ops 2 V /\
    mle_nij qi2ops 1 (req_canonical 1 false)
            (process_ideal qi2ops qi2_i qi2_h 1 V (istrings mle_inputs 1) (req_canonical 1 false)) = Ok nij /\
    n_vec_from_data qi2ops 1 nij = Ok nv /\
    hermitian qi2ops 4 D /\
    hs_inner qi2ops 4 (gradient_pinned qi2ops qi2_i 1 (mle_start qi2ops 1) nv) D
      <> dir_deriv_pinned qi2ops qi2_i 1 (mle_start qi2ops 1) nv D /\
    hs_inner qi2ops 4 (mconj qi2ops (gradient_pinned qi2ops qi2_i 1 (mle_start qi2ops 1) nv)) D
      = dir_deriv_pinned qi2ops qi2_i 1 (mle_start qi2ops 1) nv D.
Proof. exact mle_gradient_pinned_refuted_V. Qed.
Print Assumptions C16_mle_gradient_pinned_refuted.

(* _tp_proj (repaired): Choi matrices are ordered output (x) input (as choi_from_unitary builds them), and the
   partial trace over the OUTPUT factor of the result is the identity, for EVERY 4^n x 4^n matrix, every n -
   the trace-preservation constraint *)
Theorem C16_tp_proj_spec :
  forall (K : Type) (o : ops K) (ii hh : K), TomoRing o ii hh ->
  forall (n : nat) (choi : nat -> nat -> K) (i j : nat), i < 2 ^ n -> j < 2 ^ n ->
    partial_trace o (2 ^ n) (tp_proj o n choi) i j = mid o i j.
Proof. exact (fun K o ii hh TR => tp_proj_spec (TR:=TR)). Qed.
Print Assumptions C16_tp_proj_spec.

(* ... and that IS the right factor for the library's reference: the partial trace over the output factor of
   choi_from_unitary(V) is sum_k V[k,i] conj(V[k,j]) = conj((V^dagger V)[i,j]), the identity for every V with
   V^dagger V = 1 (so the reference satisfies the constraint the projection enforces) *)
Theorem C16_reference_satisfies_tp_constraint :
  forall (K : Type) (o : ops K) (ii hh : K), TomoRing o ii hh ->
  forall (d : nat) (V : nat -> nat -> K) (i j : nat), i < d -> j < d ->
    partial_trace o d (choi_from_unitary o d V) i j = sumn o d (fun k => kmul o (V k i) (kconj o (V k j))).
Proof. exact (fun K o ii hh TR => @choi_from_unitary_partial_trace K o). Qed.
Print Assumptions C16_reference_satisfies_tp_constraint.

(* the pinned projection (trace over the second factor, kron(variation, identity)) made the partial trace
   over the INPUT factor the identity: in the output (x) input ordering that is unitality, not trace
   preservation (left over from the input-first convention of the pinned MLE; invisible for unitary
   processes, which are both; repaired in /repo together with findings F8/F9) *)
Theorem C16_tp_proj_pinned_enforced_unitality :
  forall (K : Type) (o : ops K) (ii hh : K), TomoRing o ii hh ->
  forall (n : nat) (choi : nat -> nat -> K) (i j : nat), i < 2 ^ n -> j < 2 ^ n ->
    partial_trace_pinned o (2 ^ n) (tp_proj_pinned o n choi) i j = mid o i j.
Proof. exact (fun K o ii hh TR => tp_proj_pinned_spec (TR:=TR)). Qed.
Print Assumptions C16_tp_proj_pinned_enforced_unitality.

(* ---- the hypotheses are satisfiable; statements checked by computation ---- *)
(* Ry(cos = 3/5, sin = 4/5) is unitary and not symmetric, S is unitary and complex; a
   permuted setting lists; 1/3 and 1/5 exist in Q(sqrt 2)(i) *)
Example C16_example_hypotheses :
  unitary qi2ops 2 w_Ry /\ w_Ry 0 1 <> w_Ry 1 0 /\ unitary qi2ops 2 w_S /\
  Permutation (rev (req_canonical 1 false)) (req_canonical 1 false) /\
  Permutation (rev (req_canonical 2 false)) (req_canonical 2 false) /\
  kmul qi2ops (kadd qi2ops (ofnat qi2ops (2 ^ 1)) (k1 qi2ops)) (qi2_of (qz 1 3) (qz 0 1) (qz 0 1) (qz 0 1)) = k1 qi2ops /\
  kmul qi2ops (kadd qi2ops (ofnat qi2ops (2 ^ 2)) (k1 qi2ops)) (qi2_of (qz 1 5) (qz 0 1) (qz 0 1) (qz 0 1)) = k1 qi2ops.
Proof.
  split; [exact w_Ry_unitary|]. split; [exact w_Ry_not_symmetric|]. split; [exact w_S_unitary|].
  split; [apply Permutation_sym, Permutation_rev|]. split; [apply Permutation_sym, Permutation_rev|].
  split; [exact w_third|exact w_fifth].
Qed.

(* LI executed on the noiseless data of Ry with a concrete realisation of pinv (the left
   inverse of the LI matrix) and the settings in reverse order: the result is
   choi_from_unitary(Ry), entry by entry *)
Example C16_example_li_computed :
  match li_process qi2ops qi2_i w_solve 1 (rev (req_canonical 1 false))
          (process_ideal qi2ops qi2_i qi2_h 1 w_Ry (istrings li_inputs 1) (rev (req_canonical 1 false))) with
  | Ok J => forallb (fun i => forallb (fun j => keqb qi2ops (J i j) (choi_from_unitary qi2ops 2 w_Ry i j)) (seq 0 4)) (seq 0 4)
  | Err _ => false
  end = true.
Proof. exact w_li_Ry_computed. Qed.

(* the repaired gradient on the data of the S gate, direction X (x) Y: computed *)
Example C16_example_gradient_computed :
  hs_inner qi2ops 4 (gradient qi2ops qi2_i 1 (mle_start qi2ops 1) w_nv) w_D
  = dir_deriv qi2ops qi2_i 1 (mle_start qi2ops 1) w_nv w_D.
Proof. exact w_grad_repaired. Qed.
