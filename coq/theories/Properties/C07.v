(* C07 — sampling draws from the exact detected, heralded, post-selected
   distribution.  Statements only; every proof is [exact <lemma>].

   Reading guide.  [o : ops K] is the number type (the model is polymorphic;
   the correspondence run executes it with exact rationals).  A distribution
   [pd] is the association list state -> probability of the sampler.  [un] is
   the stream numpy's Generator.random(N) yields inside Generator.choice, [ud]
   / [us] the stream python's random.random() yields for the detector.  The
   theorems hold for EVERY stream.  Convergence of empirical frequencies and
   the quality of the PRNGs are outside proof (statistical TEST in the oracle
   of harness/c07.py). *)
From Coq Require Import ZArith List Bool Arith Lia QArith Reals.
From LW Require Import Base.Sx Base.Num Model.State Model.PostSel Model.Detector
                       Proofs.StateP Proofs.DetectorP.
Import ListNotations.

(* ---------------------------------------------------------------------- *)
(* 1. every returned state satisfies the filters                           *)
(* ---------------------------------------------------------------------- *)

(* sample_N_inputs: at most N states; each one is what is left of a detected
   state [full] = _get_output(s0) for a state s0 of the distribution, with the
   heralds satisfied on [full], the herald modes removed, the post-selection
   true and at least min_detection photons *)
Theorem C07_samples_satisfy_filters_N_inputs :
  forall (K : Type) (o : ops K) (d : @detector K) (h : hdict) (ps : postselect) (mind : Z)
         (pd : @dist K) (un ud : list K) (l : list state) (rest : list K),
    sample_N_inputs o d h ps mind pd un ud = Ok (l, rest) ->
    (length l <= length un)%nat /\
    Forall (fun hs =>
      exists s0, In s0 (dkeys pd) /\
      exists full us us',
        get_output o d s0 us = Ok (full, us') /\
        (herald_check h full = Ok true /\
         strip_heralds h full = Ok hs /\
         ps hs = Ok true /\
         (mind <= st_n_photons hs)%Z)) l.
Proof. exact (@sample_N_inputs_spec). Qed.
Print Assumptions C07_samples_satisfy_filters_N_inputs.

(* what "heralds satisfied and removed" says about the lists: the full state
   carries the herald values on the herald modes, the returned state is the
   full state with exactly those modes dropped *)
Theorem C07_accepted_means :
  forall (h : hdict) (ps : postselect) (mind : Z) (full hs : state),
    NoDup (hkeys h) ->
    (herald_check h full = Ok true /\ strip_heralds h full = Ok hs /\
     ps hs = Ok true /\ (mind <= st_n_photons hs)%Z) ->
    (forall m n, In (m, n) h -> nth m full 0%Z = n) /\
    hs = keep_idx 0 (fun j => negb (existsb (Nat.eqb j) (hkeys h))) full /\
    (length hs + length h = length full)%nat /\
    ps hs = Ok true /\ (mind <= st_n_photons hs)%Z.
Proof. exact accepted_shape. Qed.
Print Assumptions C07_accepted_means.

(* sample_N_outputs: EXACTLY N states, each the reduction of a (thresholded)
   state of the distribution that passes all filters *)
Theorem C07_samples_satisfy_filters_N_outputs :
  forall (K : Type) (o : ops K) (d : @detector K) (h : hdict) (ps : postselect) (mind : Z)
         (pd : @dist K) (un : list K) (l : list state),
    sample_N_outputs o d h ps mind pd un = Ok l ->
    length l = length un /\
    Forall (fun hs =>
      exists s0, In s0 (dkeys pd) /\
        (herald_check h (if pcount d then s0 else map (fun i => Z.min i 1) s0) = Ok true /\
         strip_heralds h (if pcount d then s0 else map (fun i => Z.min i 1) s0) = Ok hs /\
         ps hs = Ok true /\
         (mind <= st_n_photons hs)%Z)) l.
Proof. exact (@sample_N_outputs_spec). Qed.
Print Assumptions C07_samples_satisfy_filters_N_outputs.

(* QuickSampler: exactly N states, all keys of its distribution; and when the
   distribution is supported on the candidate outputs the class enumerates
   (checked on every correspondence case), every key has the input's mode and
   photon numbers (herald modes are never part of it), satisfies the
   post-selection, and is collision-free for threshold detectors *)
Theorem C07_samples_satisfy_filters_quick :
  forall (K : Type) (o : ops K) (pd : @dist K) (un us : list K) (n_modes n_ph : nat) (pc : bool)
         (ps : postselect) (outs : list state),
    qs_out_states n_modes n_ph pc ps = Ok outs -> qs_supported pd outs = true ->
    (forall l, qs_sample_N_outputs o pd un = Ok l ->
               length l = length un /\ Forall (fun s => In s (dkeys pd)) l) /\
    (forall s rest, qs_sample o pd us = Ok (s, rest) -> In s (dkeys pd)) /\
    (forall s, In s (dkeys pd) ->
       length s = n_modes /\ st_n_photons s = Z.of_nat n_ph /\ ps s = Ok true /\
       Forall (fun x => 0 <= x)%Z s /\ (pc = false -> Forall (fun x => x <= 1)%Z s)).
Proof.
  exact (fun K o pd un us n_modes n_ph pc ps outs Ho Hs =>
    conj (fun l => qs_sample_N_outputs_spec o pd un l)
   (conj (fun s rest => qs_sample_spec o pd us s rest)
         (fun s Hin => qs_out_states_spec n_modes n_ph pc ps outs Ho s
                         (qs_supported_spec pd outs Hs s Hin)))).
Qed.
Print Assumptions C07_samples_satisfy_filters_quick.

(* a PostSelection object accepts a state iff every rule's mode sum is one of its photon numbers *)
Theorem C07_postselection_rules_mean :
  forall (rs : list rule) (s : state),
    rules_validate rs s = Ok true ->
    Forall (fun r => exists t, sum_modes (r_modes r) s = Ok t /\ In t (r_nph r)) rs.
Proof. exact rules_validate_true. Qed.
Print Assumptions C07_postselection_rules_mean.

(* ---------------------------------------------------------------------- *)
(* 2. Sampler.sample() and heralds: REFUTED on the pinned tree (finding N7) *)
(* ---------------------------------------------------------------------- *)
(* a valid distribution, a stream in [0,1), a 1-photon herald on mode 0: the
   returned state |0,0,2> violates the herald and still has the herald mode *)
Theorem C07_sample_satisfies_heralds_refuted :
  exists (d : @detector Q) (h : hdict) (pd : @dist Q) (us : list Q) (s : state) (rest : list Q),
    h <> [] /\ valid_probs (dvals pd) /\ Forall (fun u => 0 <= u < 1)%Q us /\
    sampler_sample Qo d pd us = Ok (s, rest) /\
    herald_check h s = Ok false /\
    length s = length (fst (hd ([], 0%Q) pd)).
Proof. exact sample_heralds_refuted. Qed.
Print Assumptions C07_sample_satisfies_heralds_refuted.

(* for circuits without heralds sample() is right *)
Theorem C07_sample_satisfies_heralds_partial :
  forall (K : Type) (o : ops K) (d : @detector K) (h : hdict) (pd : @dist K) (us : list K)
         (s : state) (rest : list K),
    h = [] ->
    sampler_sample o d pd us = Ok (s, rest) ->
    (exists s0 us1, In s0 (dkeys pd) /\ get_output o d s0 us1 = Ok (s, rest)) /\
    herald_check h s = Ok true /\ strip_heralds h s = Ok s.
Proof. exact (@sample_heralds_partial). Qed.
Print Assumptions C07_sample_satisfies_heralds_partial.

(* ---------------------------------------------------------------------- *)
(* 3. the exact law of Detector._get_output                                *)
(* ---------------------------------------------------------------------- *)
(* _get_output is a decision tree over the comparisons random() > efficiency
   and random() < p_dark: running the tree on a stream is the transcribed code *)
Theorem C07_get_output_is_its_tree :
  forall (K : Type) (o : ops K) (d : @detector K) (s : state) (us : list K),
    run_tree o (get_output_tree o d s) us = get_output o d s us.
Proof. exact (@run_get_output_tree). Qed.
Print Assumptions C07_get_output_is_its_tree.

(* weighting every comparison as an independent Bernoulli event
   (P(u > eta) = 1 - eta, P(u < p) = p) the tree's law IS the kernel:
   every photon kept independently with probability eta (binomial thinning of
   each mode), THEN at most one dark count per mode with probability p_dark,
   THEN the cap at one for threshold detectors -- as an identity of finitely
   supported measures over any commutative ring (all expectations agree). *)
Theorem C07_get_output_law :
  forall (K : Type) (o : ops K) (SR : StarRing o) (d : @detector K) (s : state) (f : state -> K),
    det_valid (o:=o) d -> Forall (fun n => 0 <= n)%Z s ->
    expect o (law o (get_output_tree o d s)) f = expect o (kernel o d s) f.
Proof. exact (@get_output_law). Qed.
Print Assumptions C07_get_output_law.

(* in particular every event has the same probability *)
Theorem C07_get_output_law_events :
  forall (K : Type) (o : ops K) (SR : StarRing o) (d : @detector K) (s : state) (ev : state -> bool),
    det_valid (o:=o) d -> Forall (fun n => 0 <= n)%Z s ->
    prob (o:=o) (law o (get_output_tree o d s)) ev = prob (o:=o) (kernel o d s) ev.
Proof. exact (@get_output_prob). Qed.
Print Assumptions C07_get_output_law_events.

(* the probability that one clock cycle of sample_N_inputs returns a given
   outcome (in particular: is kept) is the mass of that outcome under
   detect(distribution) followed by herald check / removal / post-selection /
   min-detection *)
Theorem C07_accepted_fraction_spec :
  forall (K : Type) (o : ops K) (SR : StarRing o) (d : @detector K) (h : hdict) (ps : postselect)
         (mind : Z) (pd : wdist state) (f : res (option state) -> K),
    det_valid (o:=o) d -> Forall (fun sp => Forall (fun n => 0 <= n)%Z (fst sp)) pd ->
    expect o (cycle_law (o:=o) d h ps mind pd) f = expect o (dmap (accept h ps mind) (detect o d pd)) f.
Proof. exact (@accepted_fraction). Qed.
Print Assumptions C07_accepted_fraction_spec.

(* ... and one clock cycle on a concrete stream is: run that tree, then the deterministic filter *)
Theorem C07_cycle_is_tree_then_accept :
  forall (K : Type) (o : ops K) (d : @detector K) (h : hdict) (ps : postselect) (mind : Z)
         (s : state) (us : list K),
    process_sample o d h ps mind s us =
    bind (run_tree o (get_output_tree o d s) us)
         (fun a => bind (accept h ps mind (fst a)) (fun r => Ok (r, snd a))).
Proof. exact (@process_sample_tree). Qed.
Print Assumptions C07_cycle_is_tree_then_accept.

(* every detector the Detector setters accept is valid, over the reals *)
Theorem C07_detector_valid_reals :
  forall (eta pd : R) (pc : bool),
    (0 <= eta <= 1)%R -> (0 <= pd <= 1)%R -> det_valid (o:=Ro) (mkDet eta pd pc).
Proof. exact det_valid_R. Qed.
Print Assumptions C07_detector_valid_reals.

Example C07_get_output_law_nonvacuous :
  det_valid (o:=Ro) (mkDet (1 / 2)%R (1 / 4)%R false) /\ Forall (fun n => 0 <= n)%Z [2; 0; 1]%Z.
Proof. split; [exact det_valid_R_example|repeat constructor; discriminate]. Qed.

(* ---------------------------------------------------------------------- *)
(* 4. inverse-CDF sampling, over Q                                         *)
(* ---------------------------------------------------------------------- *)
(* numpy Generator.choice(p): for u in [0,1) an index is always found, and the
   set of u sent to index j is exactly the interval
   [cmass j / total, cmass (j+1) / total) *)
Theorem C07_inverse_cdf_law :
  forall (ps : list Q) (u : Q),
    valid_probs ps -> (0 <= u < 1)%Q ->
    let k := first_gt Qo (np_cdf Qo ps) u 0 in
    (k < length ps)%nat /\
    forall j, (j < length ps)%nat ->
      (k = j <-> (cmass ps j / Qsum ps <= u /\ u < cmass ps (S j) / Qsum ps)%Q).
Proof. exact inverse_cdf_choice. Qed.
Print Assumptions C07_inverse_cdf_law.

(* ... whose length is p_j / total *)
Theorem C07_inverse_cdf_interval_length :
  forall (ps : list Q) (k : nat),
    (k < length ps)%nat -> (0 < Qsum ps)%Q ->
    (cmass ps (S k) / Qsum ps - cmass ps k / Qsum ps == nth k ps 0 / Qsum ps)%Q.
Proof. exact interval_length. Qed.
Print Assumptions C07_inverse_cdf_interval_length.

(* the `pval < cd` scan of Sampler.sample() over _convert_to_continuous picks
   the key at the same index *)
Theorem C07_inverse_cdf_law_sample :
  forall (pd : @dist Q) (u : Q),
    valid_probs (dvals pd) -> (0 <= u < 1)%Q ->
    exists k, (k < length pd)%nat /\
      scan_cd Qo (convert_to_continuous Qo pd) u None = nth_error (dkeys pd) k /\
      forall j, (j < length pd)%nat ->
        (k = j <-> (cmass (dvals pd) j / Qsum (dvals pd) <= u /\
                    u < cmass (dvals pd) (S j) / Qsum (dvals pd))%Q).
Proof. exact inverse_cdf_scan. Qed.
Print Assumptions C07_inverse_cdf_law_sample.

Example C07_inverse_cdf_nonvacuous :
  valid_probs [1 # 2; 0; 1 # 4; 1 # 4]%Q /\
  first_gt Qo (np_cdf Qo [1 # 2; 0; 1 # 4; 1 # 4]%Q) (1 # 2)%Q 0 = 2%nat.
Proof. split; [split; [repeat constructor; discriminate|reflexivity]|reflexivity]. Qed.

(* a run of the model in which all filters act: herald 1 photon on mode 0,
   post-selection "mode 0 of the reduced state has >= 1 photon", min_detection 1 *)
Example C07_filters_nonvacuous :
  sample_N_inputs Qo (mkDet 1 0 true)%Q [(0%nat, 1%Z)] (psel_validate (PSFun (PModeGe 0 1))) 1
     [([1; 1; 0]%Z, 1 # 2); ([0; 0; 2]%Z, 1 # 4); ([1; 0; 1]%Z, 1 # 4)]%Q
     [1 # 10; 6 # 10; 9 # 10]%Q []
  = Ok ([[1; 0]%Z], []).
Proof. reflexivity. Qed.
