(* C07 — statements only (work in progress) *)
From Coq Require Import ZArith List Bool Arith Lia.
From LW Require Import Base.Sx Base.Num Model.State Model.PostSel Model.Detector Proofs.StateP Proofs.DetectorP.
Import ListNotations.

Theorem C07_threshold_length : forall s, length (threshold s) = length s.
Proof. exact threshold_length. Qed.
Print Assumptions C07_threshold_length.
