(* C13 — the qubit gate library implements the gates it names.
   Statements only; every proof is [exact <lemma>] (Proofs/GatesP.v, Base/NumField.v).

   Vocabulary (Model/Gates.v):
   * [gate_X ...] : the constructor of lightworks.qubit.X transcribed as the API calls it makes
     (Unitary, herald, Circuit, add(group=True), mode_swaps), run through the Circuit/World
     model and compiled: a [gate] = (circuit object with its heralds, dimension, U_full).
   * [sim_amp o gt i x] : the entry Simulator.simulate returns for the user-visible input [i]
     and output [x] (Model/Fock.v, C03): heralds inserted on the herald modes, amplitude =
     permanent / sqrt(factor), returned as the pair (permanent, factor).  On dual-rail states
     (one photon per occupied mode, heralds of 0 or 1 photon) the factor is 1, so the permanent
     IS the amplitude; this is part of each statement.
   * [bits n] all bit strings, [dr b] the dual-rail state of b, [undr] its partial inverse,
     [zstates m n] all states of n photons on m modes.
   * [spec_*] (Section Spec / SpecMulti of Model/Gates.v): the textbook matrices, written
     independently of the constructors; tabulated in the Examples at the end.
   * scalars: [oA]/[cA] = Q(sqrt 2, sqrt 3, sqrt 7)(i), [oB]/[cB] = Q(sqrt 2, 2^(1/4), gamma)(i)
     (Base/NumField.v); [C13_number_fields] shows the generators satisfy their defining
     relations, [C13_evaluation_*] that evaluation into Coq's real/complex numbers is a
     *-ring homomorphism, so every equation below is an equation between complex numbers. *)
From Coq Require Import ZArith List Bool Arith Lia Reals QArith Qcanon.
From LW Require Import Base.Sx Base.Num Base.Sums Base.Mat Base.QI2 Base.NumField Base.RInst
     Model.State Model.Circuit Model.World Model.Fock Model.Gates Proofs.GatesP.
Import ListNotations.
Open Scope nat_scope.

(* ---- the number fields contain the constants the constructors use ---- *)
Theorem C13_number_fields :
  (* tower A *)
  kmul oA a_r2 a_r2 = kofZ oA 2 /\ kmul oA a_r3 a_r3 = kofZ oA 3 /\ kmul oA a_r7 a_r7 = kofZ oA 7 /\
  kmul oA a_h a_r2 = k1 oA /\ kmul oA a_r3i a_r3 = k1 oA /\
  (* tower B: q^2 = sqrt 2, q^4 = 2, gamma^2 = 3/sqrt 2 - 2 *)
  kmul oB b_r2 b_r2 = kofZ oB 2 /\ kmul oB b_q b_q = b_r2 /\
  kmul oB (kmul oB b_q b_q) (kmul oB b_q b_q) = kofZ oB 2 /\
  kmul oB b_g b_g = ksub oB (kmul oB (kofZ oB 3) b_h) (kofZ oB 2) /\
  kmul oB b_h b_r2 = k1 oB /\ kmul oB b_qi b_q = k1 oB.
Proof.
  exact (conj a_r2_sq (conj a_r3_sq (conj a_r7_sq (conj a_h_r2 (conj a_r3i_r3
        (conj b_r2_sq (conj b_q_sq (conj b_q_pow4 (conj b_g_sq (conj b_h_r2 b_qi_q)))))))))).
Qed.
Print Assumptions C13_number_fields.

(* ---- single-qubit gates: I H X Y Z S Sadj T Tadj SX ----
   for every commutative *-ring and every h with h*h = 1/2 (h = 1/sqrt 2): the gate is a
   2-mode circuit without heralds and the amplitude dr b -> dr b' is EXACTLY the named
   matrix entry (k = 1), factor 1. *)
Theorem C13_single_qubit_gates :
  forall (K : Type) (o : ops K), StarRing o ->
  forall (h : K), kmul o h h = kq o 1 2 ->
  forall g : sq,
    exists gt, gate_sq o h g = Ok gt /\
      c_in (g_circ gt) = [] /\ c_out (g_circ gt) = [] /\ c_n (g_circ gt) = 2 /\
      forall b b', In b (bits 1) -> In b' (bits 1) ->
        sim_amp o gt (dr b) (dr b') = Ok (named_sq o h g (idx1 b') (idx1 b), 1).
Proof. exact (fun K o SR h Hh g => @sq_acts K o SR h g Hh). Qed.
Print Assumptions C13_single_qubit_gates.

(* ---- rotations P, Rx, Ry, Rz for EVERY amplitude pair (c, s) ----
   (c, s) = (cos(theta/2), sin(theta/2)); P: (cos theta, sin theta).  The named matrix is
   R_A(theta) = cos(theta/2) I - i sin(theta/2) A (A the Pauli matrix), P = diag(1, e^{i theta}).
   With c^2 + s^2 = 1 the array handed to Unitary is unitary. *)
Theorem C13_rotation_gates :
  forall (K : Type) (o : ops K), StarRing o ->
  forall (g : rq) (c s : K),
    (exists gt, gate_rq o g c s = Ok gt /\
       c_in (g_circ gt) = [] /\ c_out (g_circ gt) = [] /\ c_n (g_circ gt) = 2 /\
       forall b b', In b (bits 1) -> In b' (bits 1) ->
         sim_amp o gt (dr b) (dr b') = Ok (named_rq o g c s (idx1 b') (idx1 b), 1)) /\
    (kadd o (kmul o c c) (kmul o s s) = k1 o -> unitary (cplx o) 2 (of_rows (cplx o) (rq_rows o g c s))).
Proof. exact (fun K o SR g c s => conj (@rq_acts K o SR g c s) (@rq_unitary K o SR g c s)). Qed.
Print Assumptions C13_rotation_gates.

(* the same over the complex numbers C = R*R of Coq's reals, for EVERY real angle theta,
   and the fixed gates with h = 1/sqrt 2 *)
Theorem C13_rotation_gates_all_real_angles :
  forall (g : rq) (theta : R),
    (exists gt, gate_rq rops g (cos (theta / 2)) (sin (theta / 2)) = Ok gt /\
       c_in (g_circ gt) = [] /\ c_out (g_circ gt) = [] /\ c_n (g_circ gt) = 2 /\
       forall b b', In b (bits 1) -> In b' (bits 1) ->
         sim_amp rops gt (dr b) (dr b')
         = Ok (named_rq rops g (cos (theta / 2)) (sin (theta / 2)) (idx1 b') (idx1 b), 1)) /\
    unitary cops 2 (of_rows cops (rq_rows rops g (cos (theta / 2)) (sin (theta / 2)))).
Proof. exact rot_real. Qed.
Print Assumptions C13_rotation_gates_all_real_angles.

Theorem C13_single_qubit_gates_complex :
  forall g : sq,
    exists gt, gate_sq rops (/ sqrt 2)%R g = Ok gt /\
      c_in (g_circ gt) = [] /\ c_out (g_circ gt) = [] /\ c_n (g_circ gt) = 2 /\
      forall b b', In b (bits 1) -> In b' (bits 1) ->
        sim_amp rops gt (dr b) (dr b') = Ok (named_sq rops (/ sqrt 2)%R g (idx1 b') (idx1 b), 1).
Proof. exact sq_real. Qed.
Print Assumptions C13_single_qubit_gates_complex.

(* ---- SWAP((a0,a1),(b0,b1)) for ALL pairwise distinct modes (unbounded) ----
   the circuit has max+1 modes, no heralds, compiles to the permutation matrix of the swap,
   and maps the state with qubit 1 = p, qubit 2 = q (one photon on rail p of (a0,a1), one on
   rail q of (b0,b1)) to qubit 1 = q, qubit 2 = p with amplitude exactly 1: k = 1. *)
Theorem C13_SWAP_all_mode_pairs :
  forall (K : Type) (o : ops K), StarRing o ->
  forall a0 a1 b0 b1 : nat, NoDup [a0; a1; b0; b1] ->
    let n := S (Nat.max (Nat.max (Nat.max a0 a1) b0) b1) in
    exists gt, gate_SWAP o (zq a0 a1) (zq b0 b1) = Ok gt /\
      c_n (g_circ gt) = n /\ c_in (g_circ gt) = [] /\ c_out (g_circ gt) = [] /\
      meq n (g_U gt) (perm_mat (cplx o) (swap_perm a0 a1 b0 b1)) /\
      forall p q p' q' : bool,
        sim_amp o gt (zstate (two_photons n (rail p a0 a1) (rail q b0 b1)))
                     (zstate (two_photons n (rail p' a0 a1) (rail q' b0 b1)))
        = Ok (spec_SWAP (cplx o) [p'; q'] [p; q], 1).
Proof. exact (fun K o SR a0 a1 b0 b1 ND => @SWAP_acts K o SR a0 a1 b0 b1 ND). Qed.
Print Assumptions C13_SWAP_all_mode_pairs.

(* ---- post-selected CZ: all 4 dual-rail inputs x all 4 dual-rail outputs, heralds (0 photons
        on modes 0 and 5) satisfied: amplitude = k * CZ[b',b] with 9 * |k|^2 = 1 ---- *)
Theorem C13_CZ :
  exists gt k, gate_CZ oA a_r2 a_r3i = Ok gt /\
    kmul cA (kofZ cA 9) (kmul cA k (kconj cA k)) = k1 cA /\
    forall b b', In b (bits 2) -> In b' (bits 2) ->
      sim_amp oA gt (dr b) (dr b') = Ok (kmul cA k (spec_CZ cA b' b), 1).
Proof. exact CZ_acts. Qed.
Print Assumptions C13_CZ.

(* ---- post-selected CNOT, both target options ---- *)
Theorem C13_CNOT :
  forall tq : Z, In tq [0; 1]%Z ->
  exists gt k, gate_CNOT oA a_h a_r2 a_r3i tq = Ok gt /\
    kmul cA (kofZ cA 9) (kmul cA k (kconj cA k)) = k1 cA /\
    forall b b', In b (bits 2) -> In b' (bits 2) ->
      sim_amp oA gt (dr b) (dr b') = Ok (kmul cA k (spec_CNOT cA (Z.to_nat tq) b' b), 1).
Proof. exact CNOT_acts. Qed.
Print Assumptions C13_CNOT.

(* ---- CCZ: all 8 x 8 dual-rail pairs, heralds (0 photons on modes 0,1,8,9): 72 * |k|^2 = 1 ---- *)
Theorem C13_CCZ :
  exists gt k, gate_CCZ oA a_h a_r2 a_r3i a_r7 = Ok gt /\
    kmul cA (kofZ cA 72) (kmul cA k (kconj cA k)) = k1 cA /\
    forall b b', In b (bits 3) -> In b' (bits 3) ->
      sim_amp oA gt (dr b) (dr b') = Ok (kmul cA k (spec_CCZ cA b' b), 1).
Proof. exact CCZ_acts. Qed.
Print Assumptions C13_CCZ.

(* ---- CCNOT, all three target options ---- *)
Theorem C13_CCNOT :
  forall tq : Z, In tq [0; 1; 2]%Z ->
  exists gt k, gate_CCNOT oA a_h a_r2 a_r3i a_r7 tq = Ok gt /\
    kmul cA (kofZ cA 72) (kmul cA k (kconj cA k)) = k1 cA /\
    forall b b', In b (bits 3) -> In b' (bits 3) ->
      sim_amp oA gt (dr b) (dr b') = Ok (kmul cA k (spec_CCNOT cA (Z.to_nat tq) b' b), 1).
Proof. exact CCNOT_acts. Qed.
Print Assumptions C13_CCNOT.

(* ---- CZ_Heralded: heralds 0,1,1,0 photons on modes 0,1,6,7.  16 * |k|^2 = 1, and EVERY
        accepted output (heralds satisfied, 2 photons on the 4 qubit modes: [zstates 4 2], all
        10 of them) that is not a dual-rail state has amplitude 0 ---- *)
Theorem C13_CZ_Heralded :
  exists gt k, gate_CZ_Heralded oB b_h b_r2 b_qi b_g = Ok gt /\
    kmul cB (kofZ cB 16) (kmul cB k (kconj cB k)) = k1 cB /\
    (forall b b', In b (bits 2) -> In b' (bits 2) ->
       sim_amp oB gt (dr b) (dr b') = Ok (kmul cB k (spec_CZ cB b' b), 1)) /\
    (forall b t, In b (bits 2) -> In t (zstates 4 2) -> undr t = None ->
       exists f, sim_amp oB gt (dr b) t = Ok (k0 cB, f)).
Proof. exact CZH_full. Qed.
Print Assumptions C13_CZ_Heralded.

Theorem C13_CNOT_Heralded :
  forall tq : Z, In tq [0; 1]%Z ->
  exists gt k, gate_CNOT_Heralded oB b_h b_r2 b_qi b_g tq = Ok gt /\
    kmul cB (kofZ cB 16) (kmul cB k (kconj cB k)) = k1 cB /\
    (forall b b', In b (bits 2) -> In b' (bits 2) ->
       sim_amp oB gt (dr b) (dr b') = Ok (kmul cB k (spec_CNOT cB (Z.to_nat tq) b' b), 1)) /\
    (forall b t, In b (bits 2) -> In t (zstates 4 2) -> undr t = None ->
       exists f, sim_amp oB gt (dr b) t = Ok (k0 cB, f)).
Proof. exact CNOTH_full. Qed.
Print Assumptions C13_CNOT_Heralded.

(* ---- soundness of the number-field arithmetic w.r.t. the complex numbers ----
   per extension level: if f : K -> R is a ring homomorphism and s*s = f d, then
   a + b sqrt d |-> f a + f b * s is one; complexification likewise *)
Theorem C13_evaluation_generic :
  forall (K : Type) (o : ops K) (d : K) (f : K -> R) (s : R),
    RingHom o rops f -> (s * s = f d)%R ->
    RingHom (qext o d) rops (ev_ext f s) /\ RingHom (cplx (qext o d)) cops (ev_cplx (ev_ext f s)).
Proof.
  exact (fun K o d f s H Hs => conj (ev_ext_hom o d f s H Hs)
                                    (ev_cplx_hom (qext o d) (ev_ext f s) (ev_ext_hom o d f s H Hs))).
Qed.
Print Assumptions C13_evaluation_generic.

(* the two towers evaluate into C by *-ring homomorphisms sending the generators to the real
   roots sqrt 2, sqrt 3, sqrt 7, 2^(1/4) = sqrt (sqrt 2), gamma = sqrt (3/sqrt 2 - 2) *)
Theorem C13_evaluation_towers :
  RingHom cA cops evCA /\ RingHom cB cops evCB /\
  (evA a_r2 = sqrt 2 /\ evA a_r3 = sqrt 3 /\ evA a_r7 = sqrt 7 /\
   evA a_h = (/ sqrt 2)%R /\ evA a_r3i = (/ sqrt 3)%R) /\
  (evB b_r2 = sqrt 2 /\ evB b_q = sqrt (sqrt 2) /\ evB b_g = sqrt (3 / sqrt 2 - 2) /\
   evB b_h = (/ sqrt 2)%R /\ evB b_qi = (/ sqrt (sqrt 2))%R).
Proof. exact (conj evCA_hom (conj evCB_hom (conj evA_values evB_values))). Qed.
Print Assumptions C13_evaluation_towers.

(* ---- the same gate statements over the complex numbers C = R*R ----
   [gate_image ev gt] is the compiled gate with U_full evaluated entrywise (ev_cplx ev);
   amplitudes are permanents over C; |k|^2 = re^2 + im^2 is a real number *)
Theorem C13_CZ_complex :
  exists gt (k : R * R), gate_CZ oA a_r2 a_r3i = Ok gt /\
    (9 * (fst k * fst k + snd k * snd k) = 1)%R /\
    forall b b', In b (bits 2) -> In b' (bits 2) ->
      sim_amp rops (gate_image evA gt) (dr b) (dr b') = Ok (kmul cops k (spec_CZ cops b' b), 1).
Proof. exact CZ_complex. Qed.
Print Assumptions C13_CZ_complex.

Theorem C13_CNOT_complex :
  forall tq : Z, In tq [0; 1]%Z ->
  exists gt (k : R * R), gate_CNOT oA a_h a_r2 a_r3i tq = Ok gt /\
    (9 * (fst k * fst k + snd k * snd k) = 1)%R /\
    forall b b', In b (bits 2) -> In b' (bits 2) ->
      sim_amp rops (gate_image evA gt) (dr b) (dr b') = Ok (kmul cops k (spec_CNOT cops (Z.to_nat tq) b' b), 1).
Proof. exact CNOT_complex. Qed.
Print Assumptions C13_CNOT_complex.

Theorem C13_CCZ_complex :
  exists gt (k : R * R), gate_CCZ oA a_h a_r2 a_r3i a_r7 = Ok gt /\
    (72 * (fst k * fst k + snd k * snd k) = 1)%R /\
    forall b b', In b (bits 3) -> In b' (bits 3) ->
      sim_amp rops (gate_image evA gt) (dr b) (dr b') = Ok (kmul cops k (spec_CCZ cops b' b), 1).
Proof. exact CCZ_complex. Qed.
Print Assumptions C13_CCZ_complex.

Theorem C13_CCNOT_complex :
  forall tq : Z, In tq [0; 1; 2]%Z ->
  exists gt (k : R * R), gate_CCNOT oA a_h a_r2 a_r3i a_r7 tq = Ok gt /\
    (72 * (fst k * fst k + snd k * snd k) = 1)%R /\
    forall b b', In b (bits 3) -> In b' (bits 3) ->
      sim_amp rops (gate_image evA gt) (dr b) (dr b') = Ok (kmul cops k (spec_CCNOT cops (Z.to_nat tq) b' b), 1).
Proof. exact CCNOT_complex. Qed.
Print Assumptions C13_CCNOT_complex.

Theorem C13_CZ_Heralded_complex :
  exists gt (k : R * R), gate_CZ_Heralded oB b_h b_r2 b_qi b_g = Ok gt /\
    (16 * (fst k * fst k + snd k * snd k) = 1)%R /\
    (forall b b', In b (bits 2) -> In b' (bits 2) ->
       sim_amp rops (gate_image evB gt) (dr b) (dr b') = Ok (kmul cops k (spec_CZ cops b' b), 1)) /\
    (forall b t, In b (bits 2) -> In t (zstates 4 2) -> undr t = None ->
       exists n, sim_amp rops (gate_image evB gt) (dr b) t = Ok ((0%R, 0%R), n)).
Proof. exact CZH_complex. Qed.
Print Assumptions C13_CZ_Heralded_complex.

Theorem C13_CNOT_Heralded_complex :
  forall tq : Z, In tq [0; 1]%Z ->
  exists gt (k : R * R), gate_CNOT_Heralded oB b_h b_r2 b_qi b_g tq = Ok gt /\
    (16 * (fst k * fst k + snd k * snd k) = 1)%R /\
    (forall b b', In b (bits 2) -> In b' (bits 2) ->
       sim_amp rops (gate_image evB gt) (dr b) (dr b') = Ok (kmul cops k (spec_CNOT cops (Z.to_nat tq) b' b), 1)) /\
    (forall b t, In b (bits 2) -> In t (zstates 4 2) -> undr t = None ->
       exists n, sim_amp rops (gate_image evB gt) (dr b) t = Ok ((0%R, 0%R), n)).
Proof. exact CNOTH_complex. Qed.
Print Assumptions C13_CNOT_Heralded_complex.

(* ---- an invalid target_qubit is refused with ValueError (every scalar type) ---- *)
Theorem C13_invalid_target_rejected :
  forall (K : Type) (o : ops K) (h r2 r3i qi g r7 : K) (tq : Z),
    ((tq < 0)%Z \/ (2 <= tq)%Z -> gate_CNOT o h r2 r3i tq = Err ValueError /\
                                   gate_CNOT_Heralded o h r2 qi g tq = Err ValueError) /\
    ((tq < 0)%Z \/ (3 <= tq)%Z -> gate_CCNOT o h r2 r3i r7 tq = Err ValueError).
Proof. exact (fun K o => @bad_target K o). Qed.
Print Assumptions C13_invalid_target_rejected.

(* ---- modes and heralds of the compiled gates:
        (n_modes, input_modes, input heralds, output heralds, dim U_full) ---- *)
Theorem C13_gate_shapes :
  shape (gate_CZ oA a_r2 a_r3i) = Some (6, 4, [(0, 0); (5, 0)], [(0, 0); (5, 0)], 6) /\
  (forall tq, In tq [0; 1]%Z ->
     shape (gate_CNOT oA a_h a_r2 a_r3i tq) = Some (6, 4, [(0, 0); (5, 0)], [(0, 0); (5, 0)], 6)) /\
  shape (gate_CZ_Heralded oB b_h b_r2 b_qi b_g)
    = Some (8, 4, [(0, 0); (1, 1); (6, 1); (7, 0)], [(0, 0); (1, 1); (6, 1); (7, 0)], 8) /\
  (forall tq, In tq [0; 1]%Z ->
     shape (gate_CNOT_Heralded oB b_h b_r2 b_qi b_g tq)
     = Some (8, 4, [(0, 0); (1, 1); (6, 1); (7, 0)], [(0, 0); (1, 1); (6, 1); (7, 0)], 8)) /\
  shape (gate_CCZ oA a_h a_r2 a_r3i a_r7)
    = Some (10, 6, [(0, 0); (1, 0); (8, 0); (9, 0)], [(0, 0); (1, 0); (8, 0); (9, 0)], 10) /\
  (forall tq, In tq [0; 1; 2]%Z ->
     shape (gate_CCNOT oA a_h a_r2 a_r3i a_r7 tq)
     = Some (10, 6, [(0, 0); (1, 0); (8, 0); (9, 0)], [(0, 0); (1, 0); (8, 0); (9, 0)], 10)).
Proof. exact shapes. Qed.
Print Assumptions C13_gate_shapes.

(* ---- what the names mean: the spec matrices, tabulated ---- *)
Definition tab2 {T} (M : list bool -> list bool -> T) (n : nat) : list (list T) :=
  map (fun b' => map (fun b => M b' b) (bits n)) (bits n).
Definition q1 : Qc := Q2Qc 1.
Definition q0 : Qc := Q2Qc 0.
Definition qm : Qc := Q2Qc (-1).

Example C13_bits_order : bits 2 = [[false; false]; [false; true]; [true; false]; [true; true]] /\
                         dr [true; false] = [0; 1; 1; 0]%Z /\ undr [0; 1; 1; 0]%Z = Some [true; false] /\
                         undr [2; 0; 0; 0]%Z = None /\ length (zstates 4 2) = 10.
Proof. repeat split. Qed.

Example C13_spec_CZ_table : tab2 (spec_CZ qcops) 2 = [[q1; q0; q0; q0]; [q0; q1; q0; q0]; [q0; q0; q1; q0]; [q0; q0; q0; qm]].
Proof. reflexivity. Qed.
Example C13_spec_CNOT_table :   (* target 1 = the second qubit; target 0 = the first *)
  tab2 (spec_CNOT qcops 1) 2 = [[q1; q0; q0; q0]; [q0; q1; q0; q0]; [q0; q0; q0; q1]; [q0; q0; q1; q0]] /\
  tab2 (spec_CNOT qcops 0) 2 = [[q1; q0; q0; q0]; [q0; q0; q0; q1]; [q0; q0; q1; q0]; [q0; q1; q0; q0]].
Proof. split; reflexivity. Qed.
Example C13_spec_SWAP_table : tab2 (spec_SWAP qcops) 2 = [[q1; q0; q0; q0]; [q0; q0; q1; q0]; [q0; q1; q0; q0]; [q0; q0; q0; q1]].
Proof. reflexivity. Qed.
Example C13_spec_CCNOT_table :   (* Toffoli, target 2: exchanges |110> and |111> *)
  forall b' b, In b (bits 3) -> In b' (bits 3) ->
    spec_CCNOT qcops 2 b' b =
    (if bits_eqb b [true; true; false] then delta qcops b' [true; true; true]
     else if bits_eqb b [true; true; true] then delta qcops b' [true; true; false]
     else delta qcops b' b).
Proof.
  intros b' b Hb Hb'. simpl in Hb, Hb'.
  repeat (destruct Hb as [<-|Hb]; [repeat (destruct Hb' as [<-|Hb']; [reflexivity|]); destruct Hb'|]).
  destruct Hb.
Qed.

(* the hypotheses are satisfiable: h = 1/sqrt 2 of tower A, distinct modes *)
Example C13_hypotheses_satisfiable :
  kmul oA a_h a_h = kq oA 1 2 /\ NoDup [5; 1; 2; 9] /\ (cos (0 / 2) * cos (0 / 2) + sin (0 / 2) * sin (0 / 2) = 1)%R.
Proof.
  split; [apply (@by_eqb _ oA oA_unit); vm_compute; reflexivity|].
  split; [repeat constructor; simpl; intuition lia|].
  replace (0 / 2)%R with 0%R by (unfold Rdiv; ring). rewrite cos_0, sin_0. ring.
Qed.
