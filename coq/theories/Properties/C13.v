(* C13 — placeholder while the proofs are being written *)
From LW Require Import Base.Num.
