(* C03 — Simulator amplitudes are the bosonic Fock-space amplitudes.
   Statements only.  The amplitude is represented as (permanent, factor) with
   amplitude = permanent / sqrt(factor); no square root is computed.
   [perm_ml] is the permanent (Laplace expansion; its algebraic laws and
   Fock-space unitarity are in Proofs/PermP.v, FockUnitP.v, added below as they
   are completed). *)
From Coq Require Import ZArith List Bool Arith Lia Reals.
From LW Require Import Base.Sx Base.Num Base.Sums Base.Mat Base.RInst Model.State Model.Fock Proofs.StateP Proofs.SimP
     Proofs.PermP Proofs.FockUnitP Proofs.DistP.
Import ListNotations.
Open Scope nat_scope.

(* every accepted request returns, for each input/output pair, the permanent of
   the photon-indexed sub-matrix of U_full — heralds on the herald modes, vacuum
   on the loss modes — with the product of all occupation factorials; outputs =
   None enumerates the Fock basis of the input's photon number *)
Theorem C03_amplitude_is_permanent_over_sqrt_factorials :
  forall (K : Type) (o : ops K) n l U hin hout m inputs outputs outs rows,
    simulate o n l U hin hout m inputs outputs = Ok (outs, rows) ->
    (match outputs with
     | Some os => outs = os
     | None => outs = map (map Z.of_nat) (fock_sums m (Z.to_nat (zsum (hd [] inputs))))
     end) /\
    Forall2 (fun i row =>
               exists fi, add_heralds_to_state i hin = Ok fi /\
               Forall2 (fun x entry =>
                          exists fx, add_heralds_to_state x hout = Ok fx /\
                          entry = (amp_perm (fo o) U (znat fi ++ repeat 0 l) (znat fx ++ repeat 0 l),
                                   amp_factor (znat fi ++ repeat 0 l) (znat fx ++ repeat 0 l)))
                       outs row)
            inputs rows.
Proof. exact (fun K o => @simulate_entries K o). Qed.
Print Assumptions C03_amplitude_is_permanent_over_sqrt_factorials.

(* wrong length or negative occupation: rejected, nothing computed *)
Theorem C03_rejects_invalid_states :
  forall (K : Type) (o : ops K) n l U hin hout m inputs,
    (forall outputs, ~ Forall (valid_state m) inputs ->
       exists e, simulate o n l U hin hout m inputs outputs = Err e /\ (e = ModeMismatchError \/ e = ValueError)) /\
    (forall outs, Forall (valid_state m) inputs -> ~ Forall (valid_state m) outs ->
       exists e, simulate o n l U hin hout m inputs (Some outs) = Err e /\ (e = ModeMismatchError \/ e = ValueError)).
Proof.
  exact (fun K o n l U hin hout m inputs =>
           conj (fun outputs => @simulate_rejects_invalid_inputs K o n l U hin hout m inputs outputs)
                (fun outs => @simulate_rejects_invalid_outputs K o n l U hin hout m inputs outs)).
Qed.
Print Assumptions C03_rejects_invalid_states.

(* unequal photon numbers among the inputs (outputs = None) or among inputs and outputs *)
Theorem C03_rejects_photon_number_mismatch :
  forall (K : Type) (o : ops K) n l U hin hout m inputs outputs,
    Forall (valid_state m) inputs ->
    match outputs with Some os => Forall (valid_state m) os | None => inputs <> [] end ->
    (exists a b, In a (inputs ++ match outputs with Some os => os | None => [] end) /\
                 In b (inputs ++ match outputs with Some os => os | None => [] end) /\ zsum a <> zsum b) ->
    simulate o n l U hin hout m inputs outputs = Err PhotonNumberError.
Proof. exact (fun K o => @simulate_rejects_photon_mismatch K o). Qed.
Print Assumptions C03_rejects_photon_number_mismatch.

(* the enumerated basis is exactly the set of length-N occupation lists of n photons *)
Theorem C03_fock_basis_exact :
  forall N n s, 0 < N -> (In s (fock_sums N n) <-> length s = N /\ StateP.nsum s = n).
Proof.
  exact (fun N n s H => conj (fock_sums_sound N n s)
                             (fun '(conj a b) => fock_sums_complete N n s H a b)).
Qed.
Print Assumptions C03_fock_basis_exact.

(* the executable permanent [perm_ml] (Laplace expansion along the first column) is the textbook
   permanent: the sum over all permutations sigma of [0,n) of prod_k M[sigma k, k] with
   M[a,b] = U (nth a xs) (nth b ys); [arrs n (seq 0 n)] lists every permutation of [0,n) exactly
   once (PermP.arrs_perm, arrs_nodup, arrs_length); any commutative ring *)
Theorem C03_perm_is_permanent :
  forall (R : Type) (r : ops R) (SR : StarRing r) (U : @mat R) xs ys n,
    length xs = n -> length ys = n ->
    perm_ml r U xs ys =
    suml r (arrs n (seq 0 n))
         (fun sigma => @prod2 R r (fun a b => U (nth a xs 0) (nth b ys 0)) sigma (seq 0 n)).
Proof. exact (fun R r SR => @perm_is_permanent R r SR). Qed.
Print Assumptions C03_perm_is_permanent.

(* lossless herald-free circuit (U unitary of dimension N > 0): the amplitudes from one input to all
   outputs of the same photon number form a unit vector — for every input, every mode count, every
   photon number.  prob_of rops U ins outs = |perm_ml U[outs|ins]|^2 / (prod ins! * prod outs!) *)
Theorem C03_lossless_amplitudes_unit_vector :
  forall N (U : @mat C) ins,
    0 < N -> unitary cops N U -> length ins = N ->
    suml rops (fock_sums N (osum ins)) (fun outs => prob_of rops U ins outs) = 1%R.
Proof. exact fock_unitarity. Qed.
Print Assumptions C03_lossless_amplitudes_unit_vector.

(* the same through Simulator.simulate(input, outputs=None): the returned row has one entry
   (permanent, factor) per basis state and the |permanent|^2 / factor sum to one *)
Theorem C03_simulate_row_is_unit_vector :
  forall N (U : @mat C) i outs rows,
    0 < N -> unitary cops N U ->
    simulate rops N 0 U [] [] N [i] None = Ok (outs, rows) ->
    exists row, rows = [row] /\ length row = length outs /\ suml rops row amp_prob = 1%R.
Proof. exact simulate_unit_vector. Qed.
Print Assumptions C03_simulate_row_is_unit_vector.

Example C03_unit_vector_hypotheses_nonvacuous : unitary cops 3 (mid cops) /\ 0 < 3.
Proof. split; [exact (unitary_mid 3)|lia]. Qed.

Example C03_valid_state_nonvacuous : valid_state 3 [2; 0; 1]%Z.
Proof. split; [reflexivity|repeat constructor; lia]. Qed.
