(* C11 — Results depend only on the current configuration, not on history.
   Statements only; every proof is [exact <lemma>].

   Reading guide (Model/Cache.v):
     obj                 live configuration + the cached (snapshot, distribution, continuous distribution)
     fresh c             a freshly created object with settings c
     run ... o h         the object after the history h of calls
     step ... o p        one call: (object afterwards, what the call returns)
     Reconfigure f       attribute assignment or in-place edit of an attached object
     ReadDist/ReadCont   the properties probability_distribution / continuous_distribution
     Sample/SampleN      sample() / sample_N_inputs, sample_N_outputs
     spec_out c p        what the call returns, written without any cache, from the settings c alone
   The boolean flag of run/step says whether continuous_distribution checks for
   updates (Sampler and the repaired QuickSampler: true). *)
From Coq Require Import ZArith NArith List Bool Arith.
From LW Require Import Base.Sx Model.Cache Proofs.CacheP.
Import ListNotations.

(* T1, generic.  If the distribution is a function of the snapshot, then after
   EVERY history of reconfigurations, reads and sampling calls, every call
   returns exactly what a freshly created object with the current settings
   returns. *)
Theorem C11_cache_coherent :
  forall {cfg key D CD U S : Type} (snap : cfg -> key) (keq : key -> key -> bool) (dist : cfg -> res D)
         (cont : D -> CD) (pick : cfg -> CD -> U -> S) (pickn : cfg -> D -> U -> S),
    (forall c1 c2, keq (snap c1) (snap c2) = true -> dist c1 = dist c2) ->
    forall c0 (h : list (@op cfg U)) p,
      let o := run snap keq dist cont pick pickn true (fresh c0) h in
      snd (step snap keq dist cont pick pickn true o p) =
      snd (step snap keq dist cont pick pickn true (fresh (live o)) p).
Proof. exact (@cache_coherent_plain). Qed.
Print Assumptions C11_cache_coherent.

(* The same relative to an invariant P of the reconfigurations (a "world" of
   configurations); additionally: the answer is the cache-free specification,
   and the current settings are the result of the reconfigurations alone. *)
Theorem C11_cache_coherent_in_world :
  forall {cfg key D CD U S : Type} (snap : cfg -> key) (keq : key -> key -> bool) (dist : cfg -> res D)
         (cont : D -> CD) (pick : cfg -> CD -> U -> S) (pickn : cfg -> D -> U -> S) (P : cfg -> Prop),
    (forall c1 c2, P c1 -> P c2 -> keq (snap c1) (snap c2) = true -> dist c1 = dist c2) ->
    forall c0 (h : list (@op cfg U)) p,
      P c0 -> Forall (preserves P) h ->
      let o := run snap keq dist cont pick pickn true (fresh c0) h in
      snd (step snap keq dist cont pick pickn true o p) =
      snd (step snap keq dist cont pick pickn true (fresh (live o)) p) /\
      snd (step snap keq dist cont pick pickn true o p) = spec_out dist cont pick pickn (live o) p /\
      live o = fold_left next_cfg h c0.
Proof. exact (@cache_coherent). Qed.
Print Assumptions C11_cache_coherent_in_world.

(* sampling works without first reading the distribution *)
Theorem C11_sampling_without_read :
  forall {cfg key D CD U S : Type} (snap : cfg -> key) (keq : key -> key -> bool) (dist : cfg -> res D)
         (cont : D -> CD) (pick : cfg -> CD -> U -> S) (pickn : cfg -> D -> U -> S) c u d,
    dist c = Ok d ->
    snd (step snap keq dist cont pick pickn true (fresh c) (Sample u)) = OSample (pick c (cont d) u).
Proof. exact (@sample_without_read). Qed.
Print Assumptions C11_sampling_without_read.

(* The hypothesis of T1 is needed: two configurations the snapshot comparison
   cannot tell apart but with different distributions give a history whose
   read differs from a fresh object's (finding N3 in general form). *)
Theorem C11_snapshot_must_determine_distribution :
  forall {cfg key D CD U S : Type} (snap : cfg -> key) (keq : key -> key -> bool) (dist : cfg -> res D)
         (cont : D -> CD) (pick : cfg -> CD -> U -> S) (pickn : cfg -> D -> U -> S) (cc : bool) c1 c2 d1,
    keq (snap c2) (snap c1) = true -> dist c1 = Ok d1 -> dist c2 <> Ok d1 ->
    let o := run snap keq dist cont pick pickn cc (fresh c1) [ReadDist; Reconfigure (fun _ => Ok c2)] in
    live o = c2 /\
    snd (step snap keq dist cont pick pickn cc o ReadDist) <>
    snd (step snap keq dist cont pick pickn cc (fresh c2) ReadDist).
Proof. exact (@snap_must_determine_dist). Qed.
Print Assumptions C11_snapshot_must_determine_distribution.

(* ---- Sampler, repaired snapshot (U_full, heralds, input, backend, source fields) ---- *)
(* world: circuits with the same U_full have the same number of modes [wm u] *)
Theorem C11_sampler_coherent :
  forall (wm : N -> nat) errs c0 (h : list (@op scfg Z)) p,
    s_world wm c0 -> Forall (preserves (s_world wm)) h ->
    let stp := step (s_snap true) skey_eqb (s_dist errs) (fun d => d) s_pick s_pick true in
    let o := run (s_snap true) skey_eqb (s_dist errs) (fun d => d) s_pick s_pick true (fresh c0) h in
    snd (stp o p) = snd (stp (fresh (live o)) p) /\
    snd (stp o p) = spec_out (s_dist errs) (fun d => d) s_pick s_pick (live o) p /\
    live o = fold_left next_cfg h c0.
Proof. exact sampler_coherent. Qed.
Print Assumptions C11_sampler_coherent.

(* the setters and in-place edits of the model are such reconfigurations *)
Theorem C11_sampler_steps_coherent :
  forall (wm : N -> nat) errs c0 (h : list sstep) p,
    s_world wm c0 -> Forall (sstep_in_world wm) h ->
    let stp := step (s_snap true) skey_eqb (s_dist errs) (fun d => d) s_pick s_pick true in
    let o := run (s_snap true) skey_eqb (s_dist errs) (fun d => d) s_pick s_pick true (fresh c0) (map s_op h) in
    snd (stp o (s_op p)) = snd (stp (fresh (live o)) (s_op p)).
Proof. exact sampler_steps_coherent. Qed.
Print Assumptions C11_sampler_steps_coherent.

Example C11_sampler_world_nonvacuous :
  let wm := fun _ : N => 3 in
  s_world wm n3_c1 /\
  Forall (sstep_in_world wm) [SRead; SSetCircuit 0 [(2, 1)] [(2, 1)] 2; SRead] /\
  map fst (s_trace true [] n3_c1 [SRead; SSetCircuit 0 [(2, 1)] [(2, 1)] 2; SRead]) =
  [ODist (s_snap true n3_c1); ODone; ODist (s_snap true n3_c2)].
Proof. vm_compute. repeat split; repeat constructor. Qed.

(* pinned tree (N3): the snapshot omits the heralds; reassigning a circuit with
   the same U_full and herald 0 -> 1 photon returns the FIRST distribution *)
Theorem C11_sampler_pinned_refuted :
  let wm := fun _ : N => 3 in
  s_world wm n3_c1 /\ s_world wm n3_c2 /\
  let stp := step (s_snap false) skey_eqb (s_dist []) (fun d => d) s_pick s_pick true in
  let o := run (s_snap false) skey_eqb (s_dist []) (fun d => d) s_pick s_pick true (fresh n3_c1)
               [ReadDist; Reconfigure (fun _ => Ok n3_c2)] in
  live o = n3_c2 /\
  snd (stp o ReadDist) = ODist (s_snap true n3_c1) /\
  snd (stp (fresh n3_c2) ReadDist) = ODist (s_snap true n3_c2) /\
  s_snap true n3_c1 <> s_snap true n3_c2.
Proof. exact sampler_pinned_refuted. Qed.
Print Assumptions C11_sampler_pinned_refuted.

(* ---- QuickSampler, repaired: continuous_distribution checks for updates; the
   snapshot holds U_full, heralds, input, the post-selection object AND its
   rules, photon_counting ---- *)
Theorem C11_quick_coherent :
  forall (wm : N -> nat) errs c0 (h : list (@op qcfg Z)) p,
    q_world wm c0 -> Forall (preserves (q_world wm)) h ->
    let stp := step (q_snap true true) qkey_eqb (q_dist errs) (fun d => d) q_pick q_pick true in
    let o := run (q_snap true true) qkey_eqb (q_dist errs) (fun d => d) q_pick q_pick true (fresh c0) h in
    snd (stp o p) = snd (stp (fresh (live o)) p) /\
    snd (stp o p) = spec_out (q_dist errs) (fun d => d) q_pick q_pick (live o) p /\
    live o = fold_left next_cfg h c0.
Proof. exact quick_coherent. Qed.
Print Assumptions C11_quick_coherent.

Theorem C11_quick_steps_coherent :
  forall (wm : N -> nat) errs c0 (h : list qstep) p,
    q_world wm c0 -> Forall (qstep_in_world wm) h ->
    let stp := step (q_snap true true) qkey_eqb (q_dist errs) (fun d => d) q_pick q_pick true in
    let o := run (q_snap true true) qkey_eqb (q_dist errs) (fun d => d) q_pick q_pick true (fresh c0) (map q_op h) in
    snd (stp o (q_op p)) = snd (stp (fresh (live o)) (q_op p)).
Proof. exact quick_steps_coherent. Qed.
Print Assumptions C11_quick_steps_coherent.

Example C11_quick_world_nonvacuous :
  let wm := fun _ : N => 2 in
  q_world wm f7_c1 /\
  Forall (qstep_in_world wm) [QSample 5%Z; QSetPostSelect 0 2; QSetInput [1; 1]; QSample 6%Z] /\
  map fst (q_trace true true true [] f7_c1 [QSample 5%Z; QSetPostSelect 0 2; QSetInput [1; 1]; QSample 6%Z]) =
  [OSample (q_snap true true f7_c1, 5%Z); ODone; ODone;
   OSample (Build_qkey 0 [] [] [1; 1] 0 2 true, 6%Z)].
Proof. vm_compute. repeat split; repeat constructor. Qed.

(* pinned tree: F7 (sample() fails on a fresh object; keeps the old distribution
   after a change) and N12 (a rule added in place to the attached PostSelection
   object is not noticed, even with F7 and N3 repaired) *)
Theorem C11_quick_pinned_refuted :
  (forall errs c u,
     snd (step (q_snap false false) qkey_eqb (q_dist errs) (fun d => d) q_pick q_pick false (fresh c) (Sample u))
     = OErr AttributeError) /\
  (let stp := step (q_snap false false) qkey_eqb (q_dist []) (fun d => d) q_pick q_pick false in
   let o := run (q_snap false false) qkey_eqb (q_dist []) (fun d => d) q_pick q_pick false (fresh f7_c1)
                [ReadDist; Reconfigure (q_reconf (QSetInput [1; 1]))] in
   live o = f7_c2 /\
   snd (stp o (Sample 5%Z)) = OSample (q_snap true true f7_c1, 5%Z) /\
   snd (step (q_snap true true) qkey_eqb (q_dist []) (fun d => d) q_pick q_pick true (fresh f7_c2) (Sample 5%Z))
   = OSample (q_snap true true f7_c2, 5%Z)) /\
  (let stp := step (q_snap true false) qkey_eqb (q_dist []) (fun d => d) q_pick q_pick true in
   let o := run (q_snap true false) qkey_eqb (q_dist []) (fun d => d) q_pick q_pick true (fresh f7_c1)
                [ReadDist; Reconfigure (q_reconf (QSetPostSelect 0 2))] in
   live o = n12_c2 /\
   snd (stp o ReadDist) = ODist (q_snap true true f7_c1) /\
   snd (stp (fresh n12_c2) ReadDist) = ODist (q_snap true true n12_c2) /\
   q_snap true true f7_c1 <> q_snap true true n12_c2).
Proof. exact quick_pinned_refuted. Qed.
Print Assumptions C11_quick_pinned_refuted.

(* F7 for every configuration and every pair of settings: without the check,
   sample() after a change uses the distribution of the OLD settings *)
Theorem C11_quick_nocheck_stale :
  forall {cfg key D CD U S : Type} (snap : cfg -> key) (keq : key -> key -> bool) (dist : cfg -> res D)
         (cont : D -> CD) (pick : cfg -> CD -> U -> S) (pickn : cfg -> D -> U -> S) c1 c2 d1 u,
    dist c1 = Ok d1 ->
    snd (step snap keq dist cont pick pickn false
           (run snap keq dist cont pick pickn false (fresh c1) [ReadDist; Reconfigure (fun _ => Ok c2)])
           (Sample u))
    = OSample (pick c2 (cont d1) u).
Proof. exact (@nocheck_sample_stale). Qed.
Print Assumptions C11_quick_nocheck_stale.

(* with the post-selection compared by identity only, coherence holds exactly
   as long as attached objects are never edited in place ([pv o] = the fixed
   rules of object o) *)
Theorem C11_quick_identity_snapshot_partial :
  forall (wm : N -> nat) (pv : N -> N) errs c0 (h : list (@op qcfg Z)) p,
    q_world_immutable_ps wm pv c0 -> Forall (preserves (q_world_immutable_ps wm pv)) h ->
    let stp := step (q_snap true false) qkey_eqb (q_dist errs) (fun d => d) q_pick q_pick true in
    let o := run (q_snap true false) qkey_eqb (q_dist errs) (fun d => d) q_pick q_pick true (fresh c0) h in
    snd (stp o p) = snd (stp (fresh (live o)) p).
Proof. exact quick_identity_snapshot_partial. Qed.
Print Assumptions C11_quick_identity_snapshot_partial.

(* ---- Analyzer (repaired: error_rate is copied iff `expected` was given) ---- *)
(* for every history, analyze returns exactly what THIS call computes from the
   current circuit: equal to the state-free [analysis_of], equal to the result of
   a brand-new analyzer, and without error_rate when no `expected` is given *)
Theorem C11_analysis_only_this_call :
  forall {cfg Inp Exp Pr Perf ER : Type} (probs : cfg -> Inp -> res Pr) (perf : Pr -> Inp -> Perf)
         (erate : Pr -> Inp -> Exp -> res ER) c0 (h : list (@aop cfg Inp Exp)) i x,
    let st := arun probs perf erate false (afresh c0) h in
    snd (analyze probs perf erate false st i x) = analysis_of probs perf erate (a_cfg st) i x /\
    snd (analyze probs perf erate false st i x) = snd (analyze probs perf erate false (afresh (a_cfg st)) i x) /\
    (forall r, snd (analyze probs perf erate false st i None) = Ok r -> r_err r = None).
Proof. exact (@analysis_only_this_call). Qed.
Print Assumptions C11_analysis_only_this_call.

(* pinned tree (N4): `if hasattr(self, "error_rate")` copies the attribute of an earlier call *)
Theorem C11_analysis_pinned_refuted :
  forall {cfg Inp Exp Pr Perf ER : Type} (probs : cfg -> Inp -> res Pr) (perf : Pr -> Inp -> Perf)
         (erate : Pr -> Inp -> Exp -> res ER) c i ex p er,
    probs c i = Ok p -> erate p i ex = Ok er ->
    exists r, snd (analyze probs perf erate true
                     (arun probs perf erate true (afresh c) [AAnalyze i (Some ex)]) i None) = Ok r /\
              r_err r = Some er /\
              analysis_of probs perf erate c i None = Ok {| r_probs := p; r_perf := perf p i; r_err := None |}.
Proof. exact (@analysis_pinned_refuted). Qed.
Print Assumptions C11_analysis_pinned_refuted.
