(* C10 — parameters are live, bounded and freezable.
   Statements only; every proof is [exact <lemma>].
   Model: Model/Param.v (Parameter / ParameterDict store machine, get_all_params,
   _freeze_params, histories) on top of Model/Circuit.v and Model/World.v.
   K is any scalar type with an operations record o (no algebraic law is needed
   by these theorems; <= is [kleb o]); histories [hs] are arbitrary lists of
   parameter calls, ParameterDict calls, Circuit API calls, freezes and reads. *)
From Coq Require Import Reals ZArith List Bool Arith Lia.
From LW Require Import Base.Sx Base.Num Base.Sums Base.Mat Base.RInst
     Model.Circuit Model.World Model.Param Proofs.CompileP Proofs.ParamP.
Import ListNotations.
Open Scope nat_scope.

(* ---- bounds ---- *)

(* After ANY history (accepted and rejected calls, direct or through a
   ParameterDict, interleaved with anything else), at the end and after every
   single step: every parameter holding a number v satisfies min <= v for a
   minimum bound that is set and v <= max for a maximum bound that is set;
   a parameter holding a non-numeric value has no bounds.  (Parameters
   created without bounds accept every value: C10_unbounded_accepts_all.) *)
Theorem C10_bounds_invariant :
  forall (K : Type) (o : ops K) (hs : list (@hop K)),
    let ok (s : @hstate K) :=
      Forall (fun p =>
        match p_val p with
        | VNum x => (forall m, p_min p = Some m -> kleb o m (t1 x) = true) /\
                    (forall m, p_max p = Some m -> kleb o (t1 x) m = true)
        | VOther => p_min p = None /\ p_max p = None
        end) (fst (fst s)) in
    ok (hfinal o hinit hs) /\ Forall (fun rs => ok (snd rs)) (snd (hrun o hinit hs)).
Proof. exact (fun K o hs => @bounds_invariant K o hs). Qed.
Print Assumptions C10_bounds_invariant.

(* the same over the reals, with the order of R *)
Theorem C10_bounds_invariant_reals :
  forall (hs : list (@hop R)) (p : @param R) (x : R * R * R),
    In p (fst (fst (hfinal rops hinit hs))) -> p_val p = VNum x ->
    (forall m, p_min p = Some m -> (m <= t1 x)%R) /\ (forall m, p_max p = Some m -> (t1 x <= m)%R).
Proof. exact bounds_invariant_reals. Qed.
Print Assumptions C10_bounds_invariant_reals.

(* what exactly the three mutators do (check order and error class of
   Parameter.set and of the min_bound / max_bound setters): a bound may be
   cleared at any time, a numeric bound is accepted iff the value is numeric
   and on the right side of it, and it then replaces the old bound; a value is
   accepted iff it is numeric and within the bounds that are set, or the
   parameter has no bounds at all; in every other case the call raises and
   returns the object unchanged *)
Theorem C10_setter_behaviour :
  forall (K : Type) (o : ops K) (p : @param K),
    (forall b, set_min o p b =
       match b with
       | BNone => (with_min p None, Ok tt)
       | BOther => (p, Err ParameterBoundsError)
       | BNum m => match p_val p with
                   | VNum x => if kleb o m (t1 x) then (with_min p (Some m), Ok tt) else (p, Err ParameterBoundsError)
                   | VOther => (p, Err ParameterBoundsError)
                   end
       end) /\
    (forall b, set_max o p b =
       match b with
       | BNone => (with_max p None, Ok tt)
       | BOther => (p, Err ParameterBoundsError)
       | BNum m => match p_val p with
                   | VNum x => if kleb o (t1 x) m then (with_max p (Some m), Ok tt) else (p, Err ParameterBoundsError)
                   | VOther => (p, Err ParameterBoundsError)
                   end
       end) /\
    (forall v, set_val o p v =
       match v with
       | VOther => if has_bounds p then (p, Err ParameterValueError) else (with_val p v, Ok tt)
       | VNum x => if within (o:=o) p (t1 x) then (with_val p v, Ok tt) else (p, Err ParameterValueError)
       end).
Proof. exact (fun K o p => conj (@set_min_spec K o p) (conj (@set_max_spec K o p) (@set_val_spec K o p))). Qed.
Print Assumptions C10_setter_behaviour.

Theorem C10_unbounded_accepts_all :
  forall (K : Type) (o : ops K) (p : @param K) v,
    has_bounds p = false -> set_val o p v = (with_val p v, Ok tt).
Proof. exact (fun K o => @set_val_unbounded K o). Qed.
Print Assumptions C10_unbounded_accepts_all.

(* ---- a rejected update changes nothing ---- *)

(* After any history, a step that raises - a Parameter call, a ParameterDict
   call, a Circuit call - leaves the complete state (every parameter's value
   and bounds, every dictionary, every circuit) exactly as it was.  The
   setters are modelled as object-returning methods whose result is stored even
   when they raise, so this is a property of their check-then-assign order. *)
Theorem C10_rejected_update_no_change :
  forall (K : Type) (o : ops K) (s : @hstate K) (hs : list (@hop K)) (h : @hop K) e,
    snd (hstep o (hfinal o s hs) h) = Err e -> hfinal o s (hs ++ [h]) = hfinal o s hs.
Proof. exact (fun K o => @rejected_update_no_change K o). Qed.
Print Assumptions C10_rejected_update_no_change.

Theorem C10_read_no_change :
  forall (K : Type) (o : ops K) (s : @hstate K) (hs : list (@hop K)) (h : @hop K),
    is_read h = true -> hfinal o s (hs ++ [h]) = hfinal o s hs.
Proof. exact (fun K o => @read_no_change K o). Qed.
Print Assumptions C10_read_no_change.

(* ---- live binding ---- *)

(* For every circuit (any spec: beam splitters, phase shifters, losses, groups
   nested to any depth, i.e. added sub-circuits) and every environment e of
   current parameter values: compiling the circuit under e gives the same
   result - the same U_full or the same error - as compiling, under ANY other
   environment e', the circuit in which each Parameter has been replaced by
   the number e assigns to it. *)
Theorem C10_live_binding :
  forall (K : Type) (o : ops K) (e e' : @env K) (c : @circ K),
    build o e c = build o e' (freeze e c).
Proof. exact (fun K o => @live_binding K o). Qed.
Print Assumptions C10_live_binding.

(* what a U_full read returns in a history: the compilation under the values
   the store holds at that moment *)
Theorem C10_read_uses_current_store :
  forall (K : Type) (o : ops K) (s : @hstate K) cid c,
    wget (snd s) cid = Some c ->
    snd (hstep o s (RU cid)) =
    match build o (env_of_store o (fst (fst s))) c with Ok u => Ok (OUni u) | Err x => Err x end.
Proof. exact (fun K o => @read_u_spec K o). Qed.
Print Assumptions C10_read_uses_current_store.

(* along a history: if circuit object cid is not itself assigned or modified by
   the steps hs (they may update any parameter, directly or through a
   ParameterDict, change bounds, be rejected, build and modify other circuits,
   even circuits that share the parameters), a U_full read after hs is the
   compilation of the same spec under the values the store holds THEN *)
Theorem C10_live_read_after_history :
  forall (K : Type) (o : ops K) (s : @hstate K) cid c (hs : list (@hop K)),
    wget (snd s) cid = Some c ->
    Forall (fun h => written h <> Some cid) hs ->
    let s' := hfinal o s hs in
    snd (hstep o s' (RU cid)) =
    match build o (env_of_store o (fst (fst s'))) c with Ok u => Ok (OUni u) | Err x => Err x end.
Proof. exact (fun K o => @live_read_after_history K o). Qed.
Print Assumptions C10_live_read_after_history.

(* ---- frozen copies ---- *)

(* a frozen copy contains no Parameter reference, compiles to the same result
   under every later store, namely the result the original had when the copy
   was taken, and lists no parameters *)
Theorem C10_frozen_is_constant :
  forall (K : Type) (o : ops K) (e e1 e2 : @env K) (c : @circ K),
    no_ref_circ (freeze e c) = true /\
    build o e1 (freeze e c) = build o e2 (freeze e c) /\
    build o e1 (freeze e c) = build o e c /\
    get_all_params (freeze e c) = [] /\
    spec_refs (c_spec (freeze e c)) = [].
Proof.
  exact (fun K o e e1 e2 c =>
           conj (no_ref_circ_freeze e c)
                (conj (proj1 (@frozen_is_constant K o e e1 e2 c))
                      (conj (proj2 (@frozen_is_constant K o e e1 e2 c))
                            (@frozen_lists_none K e c)))).
Qed.
Print Assumptions C10_frozen_is_constant.

(* freezing is idempotent (a frozen copy of a frozen copy, taken under ANY later store, is
   the same circuit), and a circuit without Parameter references is its own frozen copy *)
Theorem C10_freeze_idempotent :
  forall (K : Type) (e e' : @env K) (c : @circ K),
    freeze e' (freeze e c) = freeze e c /\
    (no_ref_circ c = true -> freeze e c = c).
Proof. exact (fun K e e' c => conj (@freeze_idem K e e' c) (@freeze_no_ref_circ K e c)). Qed.
Print Assumptions C10_freeze_idempotent.

(* along a history: after new = a.copy(freeze_parameters=True), whatever steps
   follow that do not assign or modify `new` itself, reading U_full of `new`
   returns what U_full of `a` returned at the moment of the copy (matrix or
   error), and get_all_params of `new` is empty *)
Theorem C10_frozen_copy_keeps_moment :
  forall (K : Type) (o : ops K) (s : @hstate K) new a ca (hs : list (@hop K)),
    wget (snd s) a = Some ca ->
    Forall (fun h => written h <> Some new) hs ->
    let s1 := fst (hstep o s (HFreeze new a)) in
    snd (hstep o (hfinal o s1 hs) (RU new)) = snd (hstep o s (RU a)) /\
    snd (hstep o (hfinal o s1 hs) (RParams new)) = Ok (ONats []).
Proof. exact (fun K o => @frozen_copy_keeps_moment K o). Qed.
Print Assumptions C10_frozen_copy_keeps_moment.

Theorem C10_no_ref_is_constant :
  forall (K : Type) (o : ops K) (e1 e2 : @env K) (c : @circ K),
    no_ref_circ c = true -> build o e1 c = build o e2 c /\ get_all_params c = [].
Proof. exact (fun K o e1 e2 c H => conj (@no_ref_build_const K o e1 e2 c H) (@no_ref_lists_none K c H)). Qed.
Print Assumptions C10_no_ref_is_constant.

(* ---- every parameter listed exactly once ---- *)

(* get_all_params never lists a parameter twice; on a spec whose groups do not
   nest (which is what unpack_circuit_spec handles and what the API produces:
   C10_api_specs_flat) it is the first-occurrence de-duplication of all
   references in the spec, through groups; in particular it contains exactly
   the parameters that occur *)
Theorem C10_params_listed_once :
  forall (K : Type) (c : @circ K),
    NoDup (get_all_params c) /\
    (flat_spec (c_spec c) = true ->
       get_all_params c = add_new [] (spec_refs (c_spec c)) /\
       forall id, In id (get_all_params c) <-> In id (spec_refs (c_spec c))).
Proof. exact (fun K => @params_listed_once K). Qed.
Print Assumptions C10_params_listed_once.

(* every circuit of every state reachable by a history has non-nested groups *)
Theorem C10_api_specs_flat :
  forall (K : Type) (o : ops K) (hs : list (@hop K)) cid c,
    wget (snd (hfinal o hinit hs)) cid = Some c -> flat_spec (c_spec c) = true.
Proof. exact (fun K o => @api_specs_flat K o). Qed.
Print Assumptions C10_api_specs_flat.

(* ---- an invalid value surfaces when the circuit is used ---- *)

(* if a Parameter sits in a beam-splitter reflectivity or in a loss (also
   inside groups) and its current value is outside [0,1], compilation fails
   with CircuitCompilationError; likewise for every frozen copy taken while
   the value was invalid *)
Theorem C10_invalid_value_surfaces :
  forall (K : Type) (o : ops K) (e e' : @env K) (c : @circ K) id,
    In id (flat_map unit_refs (c_spec c)) -> in01 o (t1 (e id)) = false ->
    build o e c = Err CircuitCompilationError /\
    build o e' (freeze e c) = Err CircuitCompilationError.
Proof.
  exact (fun K o e e' c id H1 H2 =>
           conj (@invalid_value_surfaces K o e c id H1 H2) (@invalid_value_surfaces_frozen K o e e' c id H1 H2)).
Qed.
Print Assumptions C10_invalid_value_surfaces.

(* ---- non-vacuity ---- *)
(* [c10_example_history] (Proofs/ParamP.v), run over integer scalars: a
   parameter with bounds [0,1] used as the reflectivity of a beam splitter in a
   sub-circuit that is added, grouped, to a parent; set(2) is rejected (above
   the maximum; outcome None below), the maximum is cleared, set(2) is accepted;
   the parent is frozen; the parent lists parameter 0, the frozen copy lists
   none; both now fail to compile (2 is no reflectivity); get() returns 2.
   So the hypotheses of C10_invalid_value_surfaces, C10_params_listed_once
   (flat spec) and C10_rejected_update_no_change are met by a reachable state. *)
Example C10_history_nonvacuous :
  map (fun rs => match fst rs with
                 | Ok (ONats l) => Some (inl l)
                 | Ok (OVal (VNum x)) => Some (inr (t1 x))
                 | Ok _ => Some (inl [])
                 | Err e => None
                 end) (snd (hrun zops hinit c10_example_history))
  = [Some (inl []); Some (inl []); Some (inl []); Some (inl []); Some (inl []); None; Some (inl []); Some (inl []);
     Some (inl []); Some (inl [0]); Some (inl []); None; None; Some (inr 2%Z)] /\
  flat_map unit_refs (c_spec (match wget (snd (hfinal zops hinit c10_example_history)) 1 with
                              | Some c => c | None => new_circ 0 end)) = [0].
Proof. exact C10_example. Qed.
