(* C19 — any constructible circuit can be displayed, without side effects.
   Statements only; every proof is [exact <lemma>].

   Model: Model/Display.v — lightworks.Display with both back-ends
   (DrawCircuitSVG, DrawCircuitMPL) reduced to every operation that can raise
   (indexing, item assignment, max/min of an empty collection, option
   validation, formatting of parameter values); drawing primitives abstract.
   [display pe c dt op : res unit] is [Ok tt] ("a drawing is returned") or
   [Err <exception class>].

   display_pure: the display functions have type [... -> circ -> ... -> res unit]:
   in the functional model they CANNOT return a new circuit state, so "leaves
   the circuit unchanged" is true by typing and is not stated as a theorem; for
   the real code it is checked by the oracle of harness/c19.py (deep snapshot of
   the circuit before and after every Display call). *)
From Coq Require Import ZArith List Bool Arith Lia.
From LW Require Import Base.Sx Base.Num Base.Mat Model.Circuit Model.World Model.Display Proofs.DisplayP.
Import ListNotations.
Open Scope nat_scope.

(* Well-formedness of a circuit (Proofs/DisplayP.v, [WF] / [cwf]):
   every component, at any nesting depth, has its modes < c_n; barrier and swap
   dictionaries in range; Unitary blocks non-empty and inside the circuit; groups
   have mode_1 <= mode_2 < c_n and their RELATIVE herald keys inside the span;
   all four herald dictionaries have keys < c_n; the ancilla (internal) modes
   are distinct and < c_n.
   [params_ok pe]: every Parameter holds a number or a string.
   [labels_ok c op]: mode_labels is None or has exactly
   n_modes - len(_internal_modes) entries. *)

(* T1 display_total: no index, key, empty-max or formatting failure on ANY path,
   for every well-formed circuit with >= 1 mode, every display_loss /
   show_parameter_values combination, labels None or of the right length, both back-ends *)
Theorem C19_display_total :
  forall (K : Type) (pe : penv) (c : @circ K) (op : dopts),
    WF c -> 1 <= c_n c -> params_ok pe ->
    (o_labels op = None \/ o_labels op = Some (c_n c - length (c_int c))) ->
    display pe c DSvg op = Ok tt /\ display pe c DMpl op = Ok tt.
Proof. exact (fun K pe c op Hw => display_total pe c op (WF_DWF c Hw)). Qed.
Print Assumptions C19_display_total.

(* the same from the decidable check that the harness evaluates on every circuit of every pool *)
Theorem C19_display_total_checked :
  forall (K : Type) (pe : penv) (c : @circ K) (op : dopts),
    wf_check c = true -> 1 <= c_n c -> params_ok pe ->
    (o_labels op = None \/ o_labels op = Some (c_n c - length (c_int c))) ->
    display pe c DSvg op = Ok tt /\ display pe c DMpl op = Ok tt.
Proof. exact (fun K pe c op Hw => display_total pe c op (WF_DWF c (wf_check_sound c Hw))). Qed.
Print Assumptions C19_display_total_checked.

(* T1 display_rejects *)
Theorem C19_display_rejects_unknown_type :
  forall (K : Type) (pe : penv) (c : @circ K) (op : dopts), display pe c DUnknown op = Err DisplayError.
Proof. exact (fun K => display_rejects_type). Qed.
Print Assumptions C19_display_rejects_unknown_type.

(* SVG validates the label list before anything else: any circuit *)
Theorem C19_display_svg_rejects_label_length :
  forall (K : Type) (pe : penv) (c : @circ K) (op : dopts) (k : nat),
    o_labels op = Some k -> k <> c_n c - length (c_int c) -> display pe c DSvg op = Err DisplayError.
Proof. exact (fun K => display_svg_rejects_labels). Qed.
Print Assumptions C19_display_svg_rejects_label_length.

(* MPL validates it after drawing: the drawing of a well-formed circuit gets there *)
Theorem C19_display_mpl_rejects_label_length :
  forall (K : Type) (pe : penv) (c : @circ K) (op : dopts) (k : nat),
    WF c -> 1 <= c_n c -> params_ok pe ->
    o_labels op = Some k -> k <> c_n c - length (c_int c) -> display pe c DMpl op = Err DisplayError.
Proof. exact (fun K pe c op k Hw => display_mpl_rejects_labels pe c op k (WF_DWF c Hw)). Qed.
Print Assumptions C19_display_mpl_rejects_label_length.

(* The invariant of reachable circuits, [RI c] = WF c, the input and output herald
   dictionaries have distinct keys, and c_n c >= 1.  It is established by
   Circuit(n) / Unitary(k x k) with n, k >= 1 and preserved by EVERY construction
   call of the API model, including add in full generality (heralded sub-circuits,
   forced grouping, the output-herald swap, parent ancillas inside the span). *)
Theorem C19_reachable_invariant :
  forall (K : Type) (o : ops K),
    (forall n, 1 <= n -> RI (@new_circ K n)) /\
    (forall k V, 1 <= k -> RI (unitary_circ (K:=K) k V)) /\
    (forall e c m1 m2 r l cv c', RI c -> op_bs o e c m1 m2 r l cv = Ok c' -> RI c') /\
    (forall e c m phi l c', RI c -> op_ps o e c m phi l = Ok c' -> RI c') /\
    (forall e c m l c', RI c -> op_loss o e c m l = Ok c' -> RI c') /\
    (forall (c : @circ K) ms c', RI c -> op_barrier c ms = Ok c' -> RI c') /\
    (forall (c : @circ K) sw c', RI c -> op_mode_swaps c sw = Ok c' -> RI c') /\
    (forall (c : @circ K) n im om c', RI c -> op_herald c n im om = Ok c' -> RI c') /\
    (forall (c sub : @circ K) mode g c', RI c -> RI sub -> op_add o c sub mode g = Ok c' -> RI c') /\
    (forall (a b c' : @circ K), RI a -> RI b -> op_plus a b = Ok c' -> RI c') /\
    (forall (c : @circ K), RI c -> RI (copy_circ c)) /\
    (forall (c : @circ K), RI c -> RI (unpack_groups c)).
Proof.
  exact (fun K o => conj RI_new (conj RI_unitary (conj (RI_op_bs o) (conj (RI_op_ps o) (conj (RI_op_loss o)
         (conj RI_op_barrier (conj RI_op_mode_swaps (conj RI_op_herald (conj (RI_op_add o)
         (conj RI_op_plus (conj (fun c H => H) RI_unpack))))))))))).
Qed.
Print Assumptions C19_reachable_invariant.

(* every circuit in the pool of ANY program of API calls (rejected calls included; the
   only restriction: Circuit(n) and Unitary sizes >= 1, cf. the zero-mode finding
   below) is well formed and has >= 1 mode ... *)
Theorem C19_reachable_wf :
  forall (K : Type) (o : ops K) (e : env) (p : list (@op K)) (id : nat) (c : @circ K),
    Forall op_sized p -> wget (fst (run o e [] p)) id = Some c -> WF c /\ 1 <= c_n c.
Proof. exact (fun K o => run_reachable_wf o). Qed.
Print Assumptions C19_reachable_wf.

(* ... hence: any constructible circuit can be displayed by both back-ends, with or
   without loss display and parameter values, labels None or of the right length *)
Theorem C19_display_total_reachable :
  forall (K : Type) (o : ops K) (e : env) (p : list (@op K)) (id : nat) (c : @circ K) (pe : penv) (op : dopts),
    Forall op_sized p -> wget (fst (run o e [] p)) id = Some c ->
    params_ok pe ->
    (o_labels op = None \/ o_labels op = Some (c_n c - length (c_int c))) ->
    display pe c DSvg op = Ok tt /\ display pe c DMpl op = Ok tt.
Proof. exact (fun K o => display_total_reachable o). Qed.
Print Assumptions C19_display_total_reachable.

(* Recorded finding (KNOWN_FINDINGS sig=zero-mode-circuit): the hypothesis
   1 <= c_n c of display_total cannot be dropped — lw.Circuit(0) is constructible,
   well formed, and both back-ends raise ValueError (max of an empty sequence) *)
Theorem C19_display_zero_modes_refuted :
  exists (c : @circ unit) (op : dopts),
    WF c /\ c_n c = 0 /\ o_labels op = None /\
    display (fun _ => (false, PNum)) c DSvg op = Err ValueError /\
    display (fun _ => (false, PNum)) c DMpl op = Err ValueError.
Proof.
  exact (ex_intro _ (new_circ 0) (ex_intro _ (mkOpts false false None)
           (conj (WF_new 0) (conj eq_refl (conj eq_refl (conj eq_refl eq_refl)))))).
Qed.
Print Assumptions C19_display_zero_modes_refuted.

(* ---- the hypotheses are satisfiable by non-trivial circuits ---- *)
Definition ex_V : @Mat.mat (unit * unit) := fun _ _ => (tt, tt).
(* 5 modes, ancilla on mode 2 (inside a heralded group spanning modes 1..3), an external herald on the
   last mode, a Parameter-valued beam splitter across everything, an empty barrier, a swap over the ancilla *)
Definition ex_circ : @circ unit :=
  mkCirc 5
    [ BS 4 0 (Ref 0) Rx; LossC 4 (Ref 1); Barrier [];
      Group [BS 1 3 (Ref 0) Hv; PS 2 (Ref 2); Swaps [(1, 3); (3, 1)]] 1 3 [(1, 1)] [(1, 1)];
      Swaps [(0, 3); (3, 0)]; UMat 3 2 ex_V; Barrier [0; 1; 3; 4]; Swaps [] ]
    [(2, 1); (4, 0)] [(2, 1); (4, 0)] [(4, 0)] [(4, 0)] [2].
Definition ex_pe : penv := fun i => match i with 0 => (true, PNum) | 1 => (false, PNum) | _ => (false, PStr) end.

Example C19_example_wf : WF ex_circ.
Proof. exact (wf_check_sound ex_circ eq_refl). Qed.
Example C19_example_params : params_ok ex_pe.
Proof. exact (fun i => match i with 0 => fun H => ltac:(discriminate H) | 1 => fun H => ltac:(discriminate H) | _ => fun H => ltac:(discriminate H) end). Qed.
Example C19_example_total :
  display ex_pe ex_circ DSvg (mkOpts true true (Some 4)) = Ok tt /\
  display ex_pe ex_circ DMpl (mkOpts true false None) = Ok tt /\
  display ex_pe ex_circ DSvg (mkOpts false false (Some 5)) = Err DisplayError /\
  display ex_pe ex_circ DMpl (mkOpts false false (Some 3)) = Err DisplayError.
Proof. exact (conj eq_refl (conj eq_refl (conj eq_refl eq_refl))). Qed.
(* without the repair of finding N6 the SVG drawer raised on the empty barrier of this circuit; a group
   whose relative herald key is taken as absolute (mode 1 instead of 1 + 1 = 2) or a herald key outside the
   circuit breaks WF: *)
Example C19_example_not_wf :
  wf_check (mkCirc 2 [Group [] 1 1 [(1, 0)] [(1, 0)]] [] [] [] [] [] : @circ unit) = false /\
  display ex_pe (mkCirc 2 [Group [] 1 1 [(1, 0)] [(1, 0)]] [] [] [] [] [] : @circ unit) DSvg (mkOpts false false None) = Err IndexError.
Proof. exact (conj eq_refl eq_refl). Qed.
