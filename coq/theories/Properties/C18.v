(* C18 — State values behave as immutable Fock states; herald bookkeeping
   round-trips.  Statements only; every proof is [exact <lemma>]. *)
From Coq Require Import ZArith List Bool Arith Lia Permutation Reals.
From LW Require Import Base.Sx Model.State Proofs.StateP Proofs.ConvP.
Import ListNotations.
Open Scope nat_scope.

(* equality is equality of occupation lists (hash = hash of a function of the list) *)
Theorem C18_eq_iff_same_occupations :
  forall s t : state, st_eqb s t = true <-> s = t.
Proof. exact st_eqb_eq. Qed.
Print Assumptions C18_eq_iff_same_occupations.

Theorem C18_plus_assoc :
  forall s t u : state, st_add (st_add s t) u = st_add s (st_add t u).
Proof. exact st_add_assoc. Qed.
Print Assumptions C18_plus_assoc.

Theorem C18_plus_counts :
  forall s t : state,
    st_n_photons (st_add s t) = (st_n_photons s + st_n_photons t)%Z /\
    st_n_modes (st_add s t) = st_n_modes s + st_n_modes t.
Proof. exact (fun s t => conj (st_n_photons_add s t) (st_n_modes_add s t)). Qed.
Print Assumptions C18_plus_counts.

Theorem C18_merge_comm : forall s t : state, st_merge s t = st_merge t s.
Proof. exact st_merge_comm. Qed.
Print Assumptions C18_merge_comm.

Theorem C18_merge_assoc :
  forall s t u r1 r2, st_merge s t = Ok r1 -> st_merge t u = Ok r2 -> st_merge r1 u = st_merge s r2.
Proof. exact st_merge_assoc. Qed.
Print Assumptions C18_merge_assoc.

Theorem C18_merge_spec :
  forall s t : state,
    (length s = length t ->
       st_merge s t = Ok (zip_add s t) /\ length (zip_add s t) = length s /\
       st_n_photons (zip_add s t) = (st_n_photons s + st_n_photons t)%Z) /\
    (length s <> length t -> st_merge s t = Err ValueError).
Proof.
  exact (fun s t => conj
    (fun E => conj (proj2 (st_merge_ok s t) E) (conj (zip_add_length s t E) (zip_add_photons s t E)))
    (st_merge_err s t)).
Qed.
Print Assumptions C18_merge_spec.

(* neutral elements: the empty state for +, the vacuum of the same size for merge *)
Theorem C18_neutral_elements :
  forall s : state,
    st_add s [] = s /\ st_add [] s = s /\
    st_merge s (repeat 0%Z (length s)) = Ok s /\ st_merge (repeat 0%Z (length s)) s = Ok s.
Proof. exact st_neutral. Qed.
Print Assumptions C18_neutral_elements.

(* a step-1 slice is the contiguous sub-list between the clamped bounds *)
Theorem C18_slice_is_state :
  forall (s : state) a b k,
    k < length (st_slice s a b) ->
    nth k (st_slice s a b) 0%Z = nth (clamp_slice (length s) a 0 + k) s 0%Z.
Proof. exact (fun s a b k => py_slice_nth s a b k 0%Z). Qed.
Print Assumptions C18_slice_is_state.

Theorem C18_slice_length :
  forall (s : state) a b,
    length (st_slice s a b) =
    Nat.min (clamp_slice (length s) b (length s)) (length s) - clamp_slice (length s) a 0.
Proof. exact (fun s => py_slice_length s). Qed.
Print Assumptions C18_slice_length.

(* slicing and + undo each other: s[:k] + s[k:] == s for EVERY integer k (negative and
   out-of-range k included), and the two parts share the photons of s between them *)
Theorem C18_slice_split :
  forall (s : state) (k : Z),
    st_add (st_slice s None (Some k)) (st_slice s (Some k) None) = s /\
    (st_n_photons (st_slice s None (Some k)) + st_n_photons (st_slice s (Some k) None)
      = st_n_photons s)%Z.
Proof. exact (fun s k => conj (py_slice_split s k) (st_slice_split_photons s k)). Qed.
Print Assumptions C18_slice_split.

(* (s + t)[:len s] == s and (s + t)[len s:] == t *)
Theorem C18_add_then_slice :
  forall s t : state,
    st_slice (st_add s t) None (Some (Z.of_nat (length s))) = s /\
    st_slice (st_add s t) (Some (Z.of_nat (length s))) None = t.
Proof. exact (fun s t => conj (py_slice_app_left s t) (py_slice_app_right s t)). Qed.
Print Assumptions C18_add_then_slice.

(* annotated states: equality is equality of per-mode label multisets *)
Theorem C18_annotated_eq_iff_multisets :
  forall a b : list (list Z),
    an_eqb (an_make a) (an_make b) = true <-> Forall2 (@Permutation Z) a b.
Proof. exact an_eq_iff_multisets. Qed.
Print Assumptions C18_annotated_eq_iff_multisets.

Theorem C18_annotated_merge_comm : forall a b : astate, an_merge a b = an_merge b a.
Proof. exact an_merge_comm. Qed.
Print Assumptions C18_annotated_merge_comm.

Theorem C18_annotated_counts :
  forall a b : astate,
    an_n_photons (an_add a b) = an_n_photons a + an_n_photons b /\
    (forall r, an_merge a b = Ok r -> an_n_photons r = an_n_photons a + an_n_photons b).
Proof. exact (fun a b => conj (an_add_photons a b) (fun r => an_merge_photons a b r)). Qed.
Print Assumptions C18_annotated_counts.

(* annotated states: a[:k] + a[k:] == a for every annotated state a (the canonical form
   an_make raw of any label lists) and EVERY integer k *)
Theorem C18_annotated_slice_split :
  forall (raw : list (list Z)) (k : Z),
    let a := an_make raw in
    an_add (an_slice a None (Some k)) (an_slice a (Some k) None) = a.
Proof. exact an_slice_split. Qed.
Print Assumptions C18_annotated_slice_split.

(* inserting heralds and removing the herald modes again is the identity, for
   every state and every herald dictionary (distinct keys, all inside the
   enlarged state), in any key order; heralds land on their modes *)
Theorem C18_herald_roundtrip :
  forall (st : state) (h : hdict),
    NoDup (hkeys h) -> (forall k, In k (hkeys h) -> k < length st + length h) ->
    exists full,
      add_heralds_to_state st h = Ok full /\
      length full = length st + length h /\
      (forall k v, hlookup h k = Some v -> nth k full 0%Z = v) /\
      remove_heralds_from_state full (hkeys h) = Ok st.
Proof. exact herald_roundtrip. Qed.
Print Assumptions C18_herald_roundtrip.

Example C18_herald_roundtrip_nonvacuous :
  NoDup (hkeys [(3, 1%Z); (0, 2%Z)]) /\
  (forall k, In k (hkeys [(3, 1%Z); (0, 2%Z)]) -> k < length [5%Z; 6%Z; 7%Z] + 2) /\
  add_heralds_to_state [5; 6; 7]%Z [(3, 1%Z); (0, 2%Z)] = Ok [2; 5; 6; 1; 7]%Z.
Proof.
  repeat split.
  - repeat constructor; simpl; intuition; discriminate.
  - simpl. intros k [<-|[<-|[]]]; lia.
Qed.

(* the Fock basis is exactly the set of length-N lists summing to n *)
Theorem C18_fock_basis_exact :
  forall N n s, 0 < N -> (In s (fock_sums N n) <-> length s = N /\ nsum s = n).
Proof.
  exact (fun N n s H => conj (fock_sums_sound N n s)
                             (fun '(conj a b) => fock_sums_complete N n s H a b)).
Qed.
Print Assumptions C18_fock_basis_exact.

(* dB <-> decimal loss, over the reals *)
Theorem C18_db_roundtrip :
  (forall l : R, (0 <= l < 1)%R -> db_loss_to_decimal (decimal_to_db_loss l) = l) /\
  (forall x : R, decimal_to_db_loss (db_loss_to_decimal x) = Rabs x) /\
  (forall x : R, (0 <= db_loss_to_decimal x < 1)%R).
Proof. exact (conj db_of_decimal (conj decimal_of_db db_loss_range)). Qed.
Print Assumptions C18_db_roundtrip.
