(* C09 — circuit rewrites preserve the transformation.  Statements only. *)
From Coq Require Import ZArith List Bool Arith Lia.
From LW Require Import Base.Sx Base.Num Base.Sums Base.Mat Base.Embed
     Model.Circuit Model.World Model.Rewrite Proofs.CompileP Proofs.RewriteP.
Import ListNotations.

Theorem C09_unpack_preserves :
  forall (K : Type) (o : ops K) (SRK : StarRing o) (e : env (K:=K)) (sp : list (comp (K:=K))) st,
    cadd_list o e (unpack_spec sp) st = cadd_list o e sp st.
Proof. exact (fun K o _ => @unpack_cadd_list K o). Qed.
Print Assumptions C09_unpack_preserves.
