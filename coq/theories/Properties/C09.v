(* C09 — circuit rewrites preserve the transformation.
   Statements only; every proof is [exact <lemma>] (lemmas in Proofs/RewriteP.v).

   Vocabulary (Model/Circuit.v, Model/Rewrite.v, Proofs/RewriteP.v):
   - [cadd_list o e sp st]   CompiledCircuit.add of every component of sp to the state st = (n, U);
                             [build o e c] = Circuit._build = cadd_list from (n_modes, identity): U_full.
   - [steq s s']             same compile outcome: same dimension n and the same matrix entries on
                             [0,n) x [0,n), or the same error.  [dim_ge N s]: s has at least N modes.
   - [unpack_spec], [compress_spec] (compress_mode_swaps WITH the repair of finding N5),
     [compress_pinned] (as on the pinned tree), [combine_swaps], [non_adj_spec], [freeze_spec].
   - [rok N c]               what the rewrites need of a component of an N-mode circuit: beam splitter
                             modes distinct and < N; a swap dictionary denotes a permutation of [0,N)
                             with keys < N closed under it; the components of a Group act inside the
                             span [mode_1, mode_2] the Group records (that span is what
                             compress_mode_swaps blocks).  It follows from the invariant of the Circuit
                             API (CompileP.wf) plus the span condition: [C09_hypotheses_from_wf].
   All theorems are for every commutative ring with involution (K, o), every environment of parameter
   values e, all mode counts and all spec lengths.

   copy_independent: Circuit.copy is the identity on the model's (immutable) circuit value
   ([copy_circ c = c]); "shares no mutable structure" is not expressible in a functional model and is
   checked on the implementation by the oracle of harness/c09.py (mutation through the public API). *)
From Coq Require Import ZArith List Bool Arith Lia.
From LW Require Import Base.Sx Base.Num Base.Sums Base.Mat Base.Embed
     Model.Circuit Model.World Model.Rewrite Proofs.CompileP Proofs.RewriteP.
Import ListNotations.
Open Scope nat_scope.

(* ---------------- unpack_groups ---------------- *)
(* the compiled state (hence U_full) is literally the same, from every start state *)
Theorem C09_unpack_preserves :
  forall (K : Type) (o : ops K) (e : env (K:=K)) (sp : list (comp (K:=K))) st,
    cadd_list o e (unpack_spec sp) st = cadd_list o e sp st.
Proof. exact (fun K o => @unpack_cadd_list K o). Qed.
Print Assumptions C09_unpack_preserves.

(* no Group remains (groups are never nested: Circuit.add unpacks what it groups; with nested groups
   the Python "while" does not terminate) *)
Theorem C09_unpack_no_group_remains :
  forall (K : Type) (sp : list (comp (K:=K))),
    no_nested sp -> Forall (fun c => is_group c = false) (unpack_spec sp).
Proof. exact (fun K => @unpack_no_group K). Qed.
Print Assumptions C09_unpack_no_group_remains.

(* ---------------- remove_non_adjacent_bs ---------------- *)
(* afterwards every beam splitter, also inside groups, acts on modes m, m+1 or m+1, m — for EVERY spec *)
Theorem C09_non_adj_post :
  forall (K : Type) (sp : list (comp (K:=K))), Forall adj_ok (non_adj_spec sp).
Proof. exact (fun K => @non_adj_post K). Qed.
Print Assumptions C09_non_adj_post.

(* swap . BS . unswap is the beam splitter on the pre-images of its modes: for every complete swap
   dictionary, either mode order, either convention *)
Theorem C09_swap_bs_unswap_matrix :
  forall (K : Type) (o : ops K) (SRK : StarRing o) N n sw a1 a2 x cv,
    wf_swaps N sw -> N <= n -> a1 < N -> a2 < N ->
    meq n (mmul (co o) n (swaps_mat o (inv_dict sw)) (mmul (co o) n (bs_mat o a1 a2 x cv) (swaps_mat o sw)))
          (bs_mat o (swap_fun (inv_dict sw) a1) (swap_fun (inv_dict sw) a2) x cv).
Proof. exact (fun K o SRK => @conj_bs_mat K o SRK). Qed.
Print Assumptions C09_swap_bs_unswap_matrix.

(* the synthesised dictionary is a complete swap dictionary that takes the lower mode to mid and the
   upper one to mid+1 (so the pre-images above are the original modes) *)
Theorem C09_non_adj_dictionary :
  forall N lo hi, lo < hi -> hi < N ->
    wf_swaps N (non_adj_swaps lo hi) /\
    swap_fun (non_adj_swaps lo hi) lo = non_adj_mid lo hi /\
    swap_fun (non_adj_swaps lo hi) hi = non_adj_mid lo hi + 1 /\
    flip_dict (non_adj_swaps lo hi) = inv_dict (non_adj_swaps lo hi).
Proof. exact non_adj_dictionary. Qed.
Print Assumptions C09_non_adj_dictionary.

(* the whole rewritten spec compiles to the same U_full, from every state with >= N modes *)
Theorem C09_non_adj_preserves :
  forall (K : Type) (o : ops K) (SRK : StarRing o) (e : env (K:=K)) N (sp : list (comp (K:=K))),
    Forall (rok N) sp ->
    forall s, dim_ge N s -> steq (cadd_list o e (non_adj_spec sp) s) (cadd_list o e sp s).
Proof. exact (fun K o SRK => @non_adj_preserves K o SRK). Qed.
Print Assumptions C09_non_adj_preserves.

(* ---------------- combine_mode_swap_dicts ---------------- *)
(* for a first dictionary that denotes a bijection (a complete dictionary does: [C09_complete_is_bijection]),
   combine s1 s2 denotes "s1, then s2" as a function on all modes ... *)
Theorem C09_combine_is_composition :
  forall s1 s2,
    (forall a b, swap_fun s1 a = swap_fun s1 b -> a = b) -> (forall k, exists k', swap_fun s1 k' = k) ->
    forall k, swap_fun (combine_swaps s1 s2) k = swap_fun s2 (swap_fun s1 k).
Proof. exact combine_is_composition. Qed.
Print Assumptions C09_combine_is_composition.

(* ... and its keys are the keys of s1 and s2 minus exactly the fixed points of the composition *)
Theorem C09_combine_drops_only_fixed_points :
  forall s1 s2,
    (forall a b, swap_fun s1 a = swap_fun s1 b -> a = b) -> (forall k, exists k', swap_fun s1 k' = k) ->
    forall k, In k (dkeys (combine_swaps s1 s2)) <->
              (In k (dkeys s1) \/ In k (dkeys s2)) /\ swap_fun s2 (swap_fun s1 k) <> k.
Proof. exact combine_keys. Qed.
Print Assumptions C09_combine_drops_only_fixed_points.

Theorem C09_complete_is_bijection :
  forall N sw, wf_swaps N sw ->
    (forall a b, swap_fun sw a = swap_fun sw b -> a = b) /\ (forall k, exists k', swap_fun sw k' = k).
Proof. exact complete_is_bijection. Qed.
Print Assumptions C09_complete_is_bijection.

(* ---------------- compress_mode_swaps ---------------- *)
(* the component count does not grow (repaired and pinned function alike) *)
Theorem C09_compress_len :
  forall (K : Type) (repair : bool) (sp : list (comp (K:=K))), length (compress_gen repair sp) <= length sp.
Proof. exact (fun K => @compress_len K). Qed.
Print Assumptions C09_compress_len.

(* "a permutation supported off a component's modes commutes with it" *)
Theorem C09_commutation_lemma :
  forall (K : Type) (o : ops K) (SR : StarRing o) n p q (S : nat -> bool) (A : mat (K:=K)),
    bij n p q -> id_off (o:=o) S A -> (forall i, S i = true -> p i = i) ->
    meq n (mmul o n (perm_mat o p) A) (mmul o n A (perm_mat o p)).
Proof. exact (fun K o SR => @perm_commute_off K o SR). Qed.
Print Assumptions C09_commutation_lemma.

(* ... lifted to compilation: a swap and any component (also a Group, a loss element with its extra
   mode, another swap) on disjoint modes can be exchanged *)
Theorem C09_swap_commutes_with_component :
  forall (K : Type) (o : ops K) (SRK : StarRing o) (e : env (K:=K)) N sw (c : comp (K:=K)),
    rok N c -> perm_on N (swap_fun sw) -> (forall m, In m (cmodes c) -> ~ In m (dkeys sw)) ->
    forall st, dim_ge N st ->
      steq (cadd o e c (cadd o e (Swaps sw) st)) (cadd o e (Swaps sw) (cadd o e c st)).
Proof. exact (fun K o SRK => @swap_commute K o SRK). Qed.
Print Assumptions C09_swap_commutes_with_component.

(* full theorem for the repaired function: U_full unchanged, from every state with >= N modes *)
Theorem C09_compress_preserves :
  forall (K : Type) (o : ops K) (SRK : StarRing o) (e : env (K:=K)) N (sp : list (comp (K:=K))),
    Forall (rok N) sp ->
    forall s, dim_ge N s -> steq (cadd_list o e (compress_spec sp) s) (cadd_list o e sp s).
Proof. exact (fun K o SRK => @compress_preserves K o SRK). Qed.
Print Assumptions C09_compress_preserves.

(* the function as it stood on the pinned tree (finding N5) is refuted: on
   [Swaps{0<->1}; PS 2; Swaps{2<->3}; Swaps{0<->1}] a photon entering mode 0 leaves in mode 0, after
   the pinned compress_mode_swaps in mode 1 (the last swap is merged twice); the repaired one keeps 0 *)
Theorem C09_compress_pinned_refuted :
  forall (K : Type) (v : val (K:=K)),
    net_perm (n5_witness v) 0 = 0 /\ net_perm (compress_pinned (n5_witness v)) 0 = 1 /\
    net_perm (compress_spec (n5_witness v)) 0 = 0.
Proof. exact (fun K => @compress_pinned_refuted K). Qed.
Print Assumptions C09_compress_pinned_refuted.

(* the same at the level of U_full: the witness satisfies the hypothesis of [C09_compress_preserves],
   yet in every ring with 1 <> 0 the pinned function changes the compiled matrix (entry [1,0]) *)
Theorem C09_compress_pinned_changes_U_full :
  forall (K : Type) (o : ops K) (SRK : StarRing o) (e : env (K:=K)) (x : triple (K:=K)),
    k1 o <> k0 o ->
    Forall (rok 4) (n5_witness (Lit x)) /\
    ~ steq (cadd_list o e (compress_pinned (n5_witness (Lit x))) (Ok (4, mid (co o))))
           (cadd_list o e (n5_witness (Lit x)) (Ok (4, mid (co o)))).
Proof. exact (fun K o SRK e x H => conj (n5_witness_rok (Lit x)) (@compress_pinned_changes_U K o SRK e x H)). Qed.
Print Assumptions C09_compress_pinned_changes_U_full.

(* ---------------- frozen copies ---------------- *)
(* no parameter reference is left, and the frozen copy compiles, under ANY later parameter values e',
   to what the original compiled to at the moment e of freezing *)
Theorem C09_freeze_closed :
  forall (K : Type) (o : ops K) (e e' : env (K:=K)) (c : circ (K:=K)),
    Forall (fun x => has_ref x = false) (c_spec (copy_frozen e c)) /\
    build o e' (copy_frozen e c) = build o e c.
Proof. exact (fun K o => @freeze_closed K o). Qed.
Print Assumptions C09_freeze_closed.

(* ---------------- every rewrite, and every sequence of rewrites ---------------- *)
(* n_modes, heralds and input size are untouched by the wrappers; the compile outcome and U_full are
   the same; the hypothesis is again true afterwards, so the statement chains *)
Theorem C09_rewrite_sequence_preserves :
  forall (K : Type) (o : ops K) (SRK : StarRing o) (e : env (K:=K)) (rs : list rw) (c : circ (K:=K)),
    Forall (rok (c_n c)) (c_spec c) ->
    let c' := fold_left (fun c r => apply_rw e r c) rs c in
    (c_n c' = c_n c /\ c_in c' = c_in c /\ c_out c' = c_out c /\ input_modes c' = input_modes c /\
     steq (build o e c') (build o e c)) /\
    Forall (rok (c_n c')) (c_spec c').
Proof. exact (fun K o SRK e rs c => @rewrites_preserve K o SRK e rs c). Qed.
Print Assumptions C09_rewrite_sequence_preserves.

(* and an unpack_groups after any sequence of rewrites leaves no Group *)
Theorem C09_no_group_after_any_sequence :
  forall (K : Type) (e : env (K:=K)) (rs : list rw) (c : circ (K:=K)),
    no_nested (c_spec c) ->
    Forall (fun x => is_group x = false)
           (c_spec (unpack_groups (fold_left (fun c r => apply_rw e r c) rs c))).
Proof. exact (fun K => @rewrites_then_unpack_no_group K). Qed.
Print Assumptions C09_no_group_after_any_sequence.

(* the hypothesis: components recorded by the Circuit API (CompileP.wf, an invariant of
   bs/ps/loss/barrier/mode_swaps/add proved for C01) + the span condition for groups *)
Theorem C09_hypotheses_from_wf :
  forall (K : Type) (o : ops K) (SRK : StarRing o) (e : env (K:=K)) N (c : comp (K:=K)),
    wf (o:=o) e N c -> span_ok c -> rok N c.
Proof. exact (fun K o _ => @wf_rok K o). Qed.
Print Assumptions C09_hypotheses_from_wf.

(* non-vacuity: a 4-mode spec with swaps, a phase, a non-adjacent beam splitter and a group holding a
   reversed non-adjacent beam splitter satisfies the hypotheses, and every rewrite changes it
   (6 components -> 5 after compression, 8 after remove_non_adjacent_bs, 7 after unpacking) *)
Example C09_hypotheses_satisfiable :
  forall (K : Type) (v : val (K:=K)),
    Forall (rok 4) (example_spec v) /\
    (length (compress_spec (example_spec v)) = 5 /\ length (non_adj_spec (example_spec v)) = 8 /\
     length (unpack_spec (example_spec v)) = 7 /\ no_nested (example_spec v)).
Proof. exact (fun K v => conj (@example_rok K v) (@example_effects K v)). Qed.
