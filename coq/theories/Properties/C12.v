From Coq Require Import List Arith Bool PeanoNat Lia.
From LW Require Import Base.Sx Model.Convert Proofs.ConvertP.
Import ListNotations.

Theorem C12_analyzer_length : forall gs, length (fst (analyze gs)) = length gs.
Proof. exact analyze_length. Qed.
Print Assumptions C12_analyzer_length.
