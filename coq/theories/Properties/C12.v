(* C12 — Qiskit conversion preserves the circuit's unitary, or refuses.
   Statements only; every proof is [exact <lemma>].  The model (Model/Convert.v)
   carries the REPAIRED post-selection rule (finding F2) and reads qubits as
   circuit-level indices (finding N10).  What is proved here is about the
   converter's DECISIONS; the gate matrices are C13, Circuit.add is C02, and the
   amplitude-level statement is checked on the implementation by the oracle of
   harness/c12.py. *)
From Coq Require Import List Arith Bool PeanoNat Lia Permutation.
From LW Require Import Base.Sx Model.Convert Proofs.ConvertP.
Import ListNotations.

(* ---- convert_two_qubits_to_adjacent, all q0 <> q1 (unbounded) ------------- *)
(* the result is an adjacent pair in the same order; applying the returned swaps
   (in list order) moves q0 to a and q1 to b, applying them again restores every
   qubit; everything stays inside [min q0 q1, max q0 q1] *)
Theorem C12_adjacent_spec :
  forall q0 q1, q0 <> q1 ->
  exists a b sw,
    convert_two_qubits_to_adjacent q0 q1 = Some (a, b, sw) /\
    absdiff a b = 1 /\
    (q0 < q1 <-> a < b) /\
    apply_swaps sw q0 = a /\ apply_swaps sw q1 = b /\
    (forall x, apply_swaps sw (apply_swaps sw x) = x) /\
    Nat.min q0 q1 <= Nat.min a b /\ Nat.max a b <= Nat.max q0 q1 /\
    (forall p, In p sw -> fst p <> snd p /\
                          Nat.min q0 q1 <= fst p <= Nat.max q0 q1 /\
                          Nat.min q0 q1 <= snd p <= Nat.max q0 q1) /\
    (forall x, x < Nat.min q0 q1 \/ Nat.max q0 q1 < x -> apply_swaps sw x = x).
Proof. exact adjacent_spec. Qed.
Print Assumptions C12_adjacent_spec.

(* closed form: the pair meets in the middle *)
Theorem C12_adjacent_closed_form :
  forall q0 q1, q0 <> q1 ->
    convert_two_qubits_to_adjacent q0 q1 = Some (adjacent_result q0 q1).
Proof. exact adjacent_closed. Qed.
Print Assumptions C12_adjacent_closed_form.

(* the Python while loop terminates exactly when the two qubits differ *)
Theorem C12_adjacent_terminates_iff :
  forall q0 q1, convert_two_qubits_to_adjacent q0 q1 = None <-> q0 = q1.
Proof. exact adjacent_diverges_iff. Qed.
Print Assumptions C12_adjacent_terminates_iff.

Example C12_adjacent_example :
  convert_two_qubits_to_adjacent 5 0 = Some (3, 2, [(0, 2); (5, 3)]) /\
  apply_swaps [(0, 2); (5, 3)] 5 = 3 /\ apply_swaps [(0, 2); (5, 3)] 0 = 2.
Proof. repeat split. Qed.

(* ---- post_selection_analyzer, every program --------------------------------- *)
Theorem C12_analyzer_spec :
  (forall gs, length (fst (analyze gs)) = length gs) /\
  (forall pre g post,
      nth (length pre) (fst (analyze (pre ++ g :: post))) false = true <->
      2 <= length (g_qubits g) /\ count_touched post (g_qubits g) <= 1) /\
  (forall gs q, In q (ps_qubits (snd (analyze gs))) <-> touched gs q) /\
  (forall gs, NoDup (ps_qubits (snd (analyze gs)))).
Proof. exact analyzer_spec. Qed.
Print Assumptions C12_analyzer_spec.

(* count_touched <= 1 means: no two qubit slots of the gate are used later *)
Theorem C12_count_touched_meaning :
  forall post qs,
    count_touched post qs <= 1 <->
    (forall i j, i < length qs -> j < length qs ->
                 touched post (nth i qs 0) -> touched post (nth j qs 0) -> i = j).
Proof. exact count_touched_spec. Qed.
Print Assumptions C12_count_touched_meaning.

(* ---- acceptance and refusals ------------------------------------------------ *)
(* the conversion returns something exactly when every instruction is acceptable
   with the flag it receives (which depends on the LATER instructions only) *)
Theorem C12_convert_ok_iff :
  forall allow gs,
    (exists r, convert allow gs = Ok r) <->
    (forall pre g post, gs = pre ++ g :: post -> acceptable g (allow && can_ps g post)).
Proof. exact convert_ok_iff. Qed.
Print Assumptions C12_convert_ok_iff.

(* the named refusals: unsupported gate; 0 or more than 3 qubits; three-qubit
   gate with allow_post_selection = False, or with two qubits used by a later
   multi-qubit gate, or on non-adjacent qubits; supported name with the wrong
   number of qubits.  First such instruction => ValueError, nothing returned. *)
Theorem C12_refusals :
  forall allow pre g post,
    (forall pre' g' post', pre = pre' ++ g' :: post' ->
          acceptable g' (allow && can_ps g' (post' ++ g :: post))) ->
    refusable allow g post ->
    convert allow (pre ++ g :: post) = Err ValueError.
Proof. exact refusals. Qed.
Print Assumptions C12_refusals.

Theorem C12_refusable_never_converted :
  forall allow pre g post,
    refusable allow g post -> exists e, convert allow (pre ++ g :: post) = Err e.
Proof. exact refusable_never_converted. Qed.
Print Assumptions C12_refusable_never_converted.

(* in general the exception is that of the FIRST unacceptable instruction *)
Theorem C12_first_refusal :
  forall allow pre g post,
    (forall pre' g' post', pre = pre' ++ g' :: post' ->
          acceptable g' (allow && can_ps g' (post' ++ g :: post))) ->
    ~ acceptable g (allow && can_ps g post) ->
    convert allow (pre ++ g :: post) = Err (refusal_class g).
Proof. exact convert_first_refusal. Qed.
Print Assumptions C12_first_refusal.

(* for programs built with qiskit's own gate methods every refusal is a ValueError *)
Theorem C12_error_is_ValueError :
  forall allow gs e, Forall standard gs -> convert allow gs = Err e -> e = ValueError.
Proof. exact convert_error_is_ValueError. Qed.
Print Assumptions C12_error_is_ValueError.

Example C12_refusal_examples :
  convert false [mkG Gccz [0; 1; 2] false] = Err ValueError /\
  convert true [mkG Gccz [0; 1; 3] false] = Err ValueError /\
  convert true [mkG Gccz [0; 1; 2] false; mkG Gcz [0; 1] false] = Err ValueError /\
  convert true [mkG Gother [0; 1] false] = Err ValueError /\
  convert true [mkG Gcx [0; 1; 2; 3] false] = Err ValueError /\
  (exists r, convert true [mkG Gcz [0; 1] false; mkG Gccz [2; 1; 0] false] = Ok r).
Proof. repeat split. eexists. reflexivity. Qed.

(* ---- the emitted program ------------------------------------------------------ *)
(* every emitted operation addresses existing modes in the shape the gate library
   expects (even base mode, block inside the circuit, legal target, distinct
   qubits for routing swaps, angle taken from a rotation instruction that has
   one); the rule qubits are exactly the qubits used by multi-qubit instructions *)
Theorem C12_emitted_wf :
  forall nq allow gs ops rules,
    Forall (in_range nq) gs ->
    convert allow gs = Ok (ops, rules) ->
    Forall (op_wf nq gs) ops /\
    (forall l, rules = Some l -> NoDup l /\ l <> [] /\ forall q, In q l <-> touched gs q) /\
    (rules = None -> allow = false \/ forall q, ~ touched gs q).
Proof. exact emitted_wf. Qed.
Print Assumptions C12_emitted_wf.

(* allow_post_selection = False: heralded two-qubit gates only, no rules *)
Theorem C12_heralded_only :
  forall gs ops rules,
    convert false gs = Ok (ops, rules) -> rules = None /\ Forall op_heralded ops.
Proof. exact heralded_only. Qed.
Print Assumptions C12_heralded_only.

(* The emitted program read at qubit level IS the source program: for every
   interpretation [act] of named gates on ordered qubit lists and [sw] of the
   exchange of two qubits that satisfies the relabelling laws (conjugation by an
   exchange relabels the gate, disjoint exchanges commute, the swap gate is the
   exchange, cz/ccz/ccx-controls are symmetric), running the emitted operations
   equals running the source instructions.  Covers dispatch, mode arithmetic,
   CNOT/CCNOT target choice and the inserted swaps, for every program. *)
Theorem C12_emitted_denotes_source :
  forall (St : Type) (act : gname -> nat -> list nat -> St -> St) (sw : nat -> nat -> St -> St),
    (forall a b c d s, a <> c -> a <> d -> b <> c -> b <> d -> sw a b (sw c d s) = sw c d (sw a b s)) ->
    (forall a b g i qs s, sw a b (act g i qs (sw a b s)) = act g i (map (transp a b) qs) s) ->
    (forall i a b s, act Gswap i [a; b] s = sw a b s) ->
    (forall i a b s, act Gcz i [a; b] s = act Gcz i [b; a] s) ->
    (forall i l l' s, Permutation l l' -> act Gccz i l s = act Gccz i l' s) ->
    (forall i a b t s, act Gccx i [a; b; t] s = act Gccx i [b; a; t] s) ->
    forall allow gs ops rules s,
      Forall (fun g => NoDup (g_qubits g)) gs ->
      convert allow gs = Ok (ops, rules) ->
      run_ops St act sw ops s = run_src St act 0 gs s.
Proof. exact emitted_denotes_source. Qed.
Print Assumptions C12_emitted_denotes_source.

(* ---- post-selection, photon-count abstraction (ConvertP.v part F) ------------ *)
(* "every execution accepted by the final rules is failure-free" holds IF AND
   ONLY IF each post-selected gate has at most one qubit used by a later
   multi-qubit gate *)
Theorem C12_post_selection_sound_abstract :
  forall gfs, distinct_qubits gfs ->
    ((forall c tr, all_ones c -> exec gfs c tr -> accepted gfs (last tr c) -> Forall all_ones tr)
     <-> ps_safe gfs).
Proof. exact post_selection_sound_abstract. Qed.
Print Assumptions C12_post_selection_sound_abstract.

(* the (repaired) analyzer guarantees the right-hand side, hence with the flags
   and rules the converter computes an accepted execution never contains a failed
   post-selected gate *)
Theorem C12_analyzer_flags_safe :
  forall allow gs, ps_safe (combine gs (ps_flags allow gs)).
Proof. exact ps_flags_safe. Qed.
Print Assumptions C12_analyzer_flags_safe.

Theorem C12_converter_post_selection_sound :
  forall allow gs c tr,
    Forall (fun g => NoDup (g_qubits g)) gs ->
    all_ones c -> exec (combine gs (ps_flags allow gs)) c tr ->
    (forall q, touched gs q -> last tr c q = 1) ->
    Forall all_ones tr.
Proof. exact converter_post_selection_sound. Qed.
Print Assumptions C12_converter_post_selection_sound.

(* F2: the pinned tree's rule [not all(q in has_ps for q in gate)] is refuted by
   ccz(0,1,2); cz(0,1): both gates are flagged post-selectable, the condition
   fails, and there is an accepted execution in which the ccz failed.  For
   two-qubit instructions the old and the repaired rule coincide. *)
Theorem C12_all_rule_refuted :
  flags_all f2_witness = [true; true] /\
  ~ ps_safe (combine f2_witness (flags_all f2_witness)) /\
  exists tr cbad, exec (combine f2_witness (flags_all f2_witness)) (fun _ => 1) tr /\
                  In cbad tr /\ ~ all_ones cbad /\ all_ones (last tr (fun _ => 1)).
Proof. exact all_rule_refuted. Qed.
Print Assumptions C12_all_rule_refuted.

Theorem C12_all_rule_two_qubits :
  forall g post, length (g_qubits g) = 2 -> can_ps_all g post = can_ps g post.
Proof. exact all_rule_two_qubits. Qed.
Print Assumptions C12_all_rule_two_qubits.

(* hypotheses of the abstraction theorems are satisfiable by a non-trivial run:
   cz(0,1) post-selected then cz(1,2) post-selected, ideal execution *)
Example C12_abstract_nonvacuous :
  let gs := [mkG Gcz [0; 1] false; mkG Gcz [1; 2] false] in
  ps_flags true gs = [true; true] /\
  Forall (fun g => NoDup (g_qubits g)) gs /\
  exec (combine gs (ps_flags true gs)) (fun _ => 1) [fun _ => 1; fun _ => 1].
Proof.
  cbv zeta. split; [reflexivity|]. split.
  - repeat constructor; cbn; intuition; discriminate.
  - apply (exec_ideal (combine [mkG Gcz [0; 1] false; mkG Gcz [1; 2] false] [true; true]) (fun _ => 1)).
    intros q; reflexivity.
Qed.

(* the laws assumed by C12_emitted_denotes_source are jointly satisfiable by an
   interpretation in which exchanges act non-trivially *)
Example C12_denote_laws_satisfiable :
  (forall a b c d s, a <> c -> a <> d -> b <> c -> b <> d -> w_sw a b (w_sw c d s) = w_sw c d (w_sw a b s)) /\
  (forall a b g i qs s, w_sw a b (w_act g i qs (w_sw a b s)) = w_act g i (map (transp a b) qs) s) /\
  (forall i a b s, w_act Gswap i [a; b] s = w_sw a b s) /\
  (forall i a b s, w_act Gcz i [a; b] s = w_act Gcz i [b; a] s) /\
  (forall i l l' s, Permutation l l' -> w_act Gccz i l s = w_act Gccz i l' s) /\
  (forall i a b t s, w_act Gccx i [a; b; t] s = w_act Gccx i [b; a; t] s) /\
  w_act Gswap 0 [0; 1] [0; 1; 2] = [1; 0; 2].
Proof. exact denote_laws_satisfiable. Qed.
