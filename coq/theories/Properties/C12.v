(* C12 — Qiskit conversion preserves the circuit's unitary, or refuses.
   Statements only; every proof is [exact <lemma>].  The model (Model/Convert.v)
   carries the REPAIRED post-selection rule (finding F2) and reads qubits as
   circuit-level indices (finding N10).

   First part: the converter's DECISIONS (adjacency, analyser, refusals, emitted program,
   emitted program = source program at qubit level, post-selection abstraction).

   Second part (from "PHOTONIC LEVEL" on; Proofs/DualRail*.v): the amplitude-level theorem for
   allow_post_selection = False (DESIGN "### C12", T2 convert_heralded_correct), machine-checked
   instead of left to the numerical oracle:
     C12_acts_as_dual_rail_def      the definition: 2*nq visible modes, heralds inserted by
                                    add_heralds_to_state on both sides, vacuum on the loss modes;
                                    amp(dr b -> dr b') = K * V[b',b] with factor 1, and amplitude 0
                                    for EVERY other occupation list of the visible modes
     C12_dual_rail_initial          Circuit(2*nq) acts as the identity (K = 1)
     C12_dual_rail_step             the step lemma: adding (Circuit.add at user mode 2q) a gate
                                    circuit that acts on its k qubits as kG * M with zero leakage
                                    gives K*kG and (M on qubits q..q+k-1) . V, zero leakage; the add
                                    is accepted.  Proof: C02_add_amplitudes; the sum over the
                                    intermediate Fock states collapses onto the dual-rail states
     C12_gate_fact_from_C13         the gate hypothesis of the step lemma follows from a gate
                                    statement in exactly the form C13 proves it (Simulator entries
                                    on dual-rail inputs, zero for the other accepted outputs)
     C12_step_single_qubit_gate, C12_step_swap, C12_step_heralded_gates_tower_B
                                    the gate kinds the converter emits in heralded-only mode
     C12_qubit_semantics / C12_qubit_semantics_laws
                                    the qubit-level semantics used for "the source program's
                                    unitary" and its relabelling laws (those of
                                    C12_emitted_denotes_source), without functional extensionality
     C12_convert_heralded_correct   for EVERY program accepted in heralded-only mode: the circuit
                                    obtained by running the emitted operations through the Circuit
                                    model from Circuit(2*nq) acts as (product of the k_i) * V_src
                                    with zero leakage (any scalar ring in which the heralded gates
                                    satisfy their C13 statements); ..._tower_B: the instance in the
                                    exact number field of C13, |k_i|^2 = 1/16
     C12_convert_heralded_example   h(0); cx(0,1): hypotheses hold, conclusion recomputed by
                                    vm_compute (8 modes, 4 photons), K conj K = 1/16.
   Third part (from "POST-SELECTION AT AMPLITUDE LEVEL" on; Proofs/DualRailPS*.v):
   allow_post_selection = True.
     C12_accepts_dual_rail_def      as acts_as_dual_rail, restricted to the outputs whose pair count
                                    (photons on modes 2q, 2q+1) is 1 on every qubit of a set Dd
     C12_postselected_leak_counts / C12_gate_conserves_photons
                                    a gate whose heralds carry the same photons in and out conserves
                                    the photon number; k photons on k pairs with at most one pair
                                    count <> 1 is a dual-rail state: a non-dual-rail accepted output
                                    of CZ / CNOT has pair counts (2,0) or (0,2), of CCZ / CCNOT a
                                    wrong count on at least two qubits (no computation needed)
     C12_dual_rail_step_ps          step lemma with a set of DEAD qubits (rule qubits no later
                                    multi-qubit gate touches): leak-free gates (single-qubit,
                                    heralded, swaps) keep the invariant; a post-selected gate does
                                    when at most one of its qubits stays alive afterwards
     C12_convert_postselected_correct
                                    for EVERY program accepted with allow_post_selection = True
                                    (swaps, routed cx/cz, heralded or post-selected as the analyser
                                    decides, ccx/ccz): every output of the converted circuit that
                                    the returned rules accept is a dual-rail state dr b' with
                                    amplitude (product of the gate scalars) * V_src[b',b], or has
                                    amplitude 0; generic in the scalar ring, gate facts in C13's
                                    form as hypotheses; C12_kprod_ps_unit: |K|^2 is a unit
     C12_convert_postselected_correct_tower_A
                                    the instance in the number field of CZ/CNOT/CCZ/CCNOT (C13 tower
                                    A, |k|^2 = 1/9, 1/72) for the programs whose emitted multi-qubit
                                    gates are all post-selected (tower A does not contain the
                                    constants of the heralded gates; programs mixing both kinds are
                                    covered by the generic theorem only)
     C12_convert_postselected_example
                                    h(0); cx(0,1); cx(1,2): both cx post-selected, K = 1/9, accepted
                                    outputs = dual-rail with K * V_src, and a rejected output with
                                    non-zero amplitude exists (vm_compute, 10 modes, 3 photons). *)
From Coq Require Import List Arith Bool PeanoNat Lia Permutation.
From LW Require Import Base.Sx Model.Convert Proofs.ConvertP.
Import ListNotations.

(* ---- convert_two_qubits_to_adjacent, all q0 <> q1 (unbounded) ------------- *)
(* the result is an adjacent pair in the same order; applying the returned swaps
   (in list order) moves q0 to a and q1 to b, applying them again restores every
   qubit; everything stays inside [min q0 q1, max q0 q1] *)
Theorem C12_adjacent_spec :
  forall q0 q1, q0 <> q1 ->
  exists a b sw,
    convert_two_qubits_to_adjacent q0 q1 = Some (a, b, sw) /\
    absdiff a b = 1 /\
    (q0 < q1 <-> a < b) /\
    apply_swaps sw q0 = a /\ apply_swaps sw q1 = b /\
    (forall x, apply_swaps sw (apply_swaps sw x) = x) /\
    Nat.min q0 q1 <= Nat.min a b /\ Nat.max a b <= Nat.max q0 q1 /\
    (forall p, In p sw -> fst p <> snd p /\
                          Nat.min q0 q1 <= fst p <= Nat.max q0 q1 /\
                          Nat.min q0 q1 <= snd p <= Nat.max q0 q1) /\
    (forall x, x < Nat.min q0 q1 \/ Nat.max q0 q1 < x -> apply_swaps sw x = x).
Proof. exact adjacent_spec. Qed.
Print Assumptions C12_adjacent_spec.

(* closed form: the pair meets in the middle *)
Theorem C12_adjacent_closed_form :
  forall q0 q1, q0 <> q1 ->
    convert_two_qubits_to_adjacent q0 q1 = Some (adjacent_result q0 q1).
Proof. exact adjacent_closed. Qed.
Print Assumptions C12_adjacent_closed_form.

(* the Python while loop terminates exactly when the two qubits differ *)
Theorem C12_adjacent_terminates_iff :
  forall q0 q1, convert_two_qubits_to_adjacent q0 q1 = None <-> q0 = q1.
Proof. exact adjacent_diverges_iff. Qed.
Print Assumptions C12_adjacent_terminates_iff.

Example C12_adjacent_example :
  convert_two_qubits_to_adjacent 5 0 = Some (3, 2, [(0, 2); (5, 3)]) /\
  apply_swaps [(0, 2); (5, 3)] 5 = 3 /\ apply_swaps [(0, 2); (5, 3)] 0 = 2.
Proof. repeat split. Qed.

(* ---- post_selection_analyzer, every program --------------------------------- *)
Theorem C12_analyzer_spec :
  (forall gs, length (fst (analyze gs)) = length gs) /\
  (forall pre g post,
      nth (length pre) (fst (analyze (pre ++ g :: post))) false = true <->
      2 <= length (g_qubits g) /\ count_touched post (g_qubits g) <= 1) /\
  (forall gs q, In q (ps_qubits (snd (analyze gs))) <-> touched gs q) /\
  (forall gs, NoDup (ps_qubits (snd (analyze gs)))).
Proof. exact analyzer_spec. Qed.
Print Assumptions C12_analyzer_spec.

(* count_touched <= 1 means: no two qubit slots of the gate are used later *)
Theorem C12_count_touched_meaning :
  forall post qs,
    count_touched post qs <= 1 <->
    (forall i j, i < length qs -> j < length qs ->
                 touched post (nth i qs 0) -> touched post (nth j qs 0) -> i = j).
Proof. exact count_touched_spec. Qed.
Print Assumptions C12_count_touched_meaning.

(* ---- acceptance and refusals ------------------------------------------------ *)
(* the conversion returns something exactly when every instruction is acceptable
   with the flag it receives (which depends on the LATER instructions only) *)
Theorem C12_convert_ok_iff :
  forall allow gs,
    (exists r, convert allow gs = Ok r) <->
    (forall pre g post, gs = pre ++ g :: post -> acceptable g (allow && can_ps g post)).
Proof. exact convert_ok_iff. Qed.
Print Assumptions C12_convert_ok_iff.

(* the named refusals: unsupported gate; 0 or more than 3 qubits; three-qubit
   gate with allow_post_selection = False, or with two qubits used by a later
   multi-qubit gate, or on non-adjacent qubits; supported name with the wrong
   number of qubits.  First such instruction => ValueError, nothing returned. *)
Theorem C12_refusals :
  forall allow pre g post,
    (forall pre' g' post', pre = pre' ++ g' :: post' ->
          acceptable g' (allow && can_ps g' (post' ++ g :: post))) ->
    refusable allow g post ->
    convert allow (pre ++ g :: post) = Err ValueError.
Proof. exact refusals. Qed.
Print Assumptions C12_refusals.

Theorem C12_refusable_never_converted :
  forall allow pre g post,
    refusable allow g post -> exists e, convert allow (pre ++ g :: post) = Err e.
Proof. exact refusable_never_converted. Qed.
Print Assumptions C12_refusable_never_converted.

(* in general the exception is that of the FIRST unacceptable instruction *)
Theorem C12_first_refusal :
  forall allow pre g post,
    (forall pre' g' post', pre = pre' ++ g' :: post' ->
          acceptable g' (allow && can_ps g' (post' ++ g :: post))) ->
    ~ acceptable g (allow && can_ps g post) ->
    convert allow (pre ++ g :: post) = Err (refusal_class g).
Proof. exact convert_first_refusal. Qed.
Print Assumptions C12_first_refusal.

(* for programs built with qiskit's own gate methods every refusal is a ValueError *)
Theorem C12_error_is_ValueError :
  forall allow gs e, Forall standard gs -> convert allow gs = Err e -> e = ValueError.
Proof. exact convert_error_is_ValueError. Qed.
Print Assumptions C12_error_is_ValueError.

Example C12_refusal_examples :
  convert false [mkG Gccz [0; 1; 2] false] = Err ValueError /\
  convert true [mkG Gccz [0; 1; 3] false] = Err ValueError /\
  convert true [mkG Gccz [0; 1; 2] false; mkG Gcz [0; 1] false] = Err ValueError /\
  convert true [mkG Gother [0; 1] false] = Err ValueError /\
  convert true [mkG Gcx [0; 1; 2; 3] false] = Err ValueError /\
  (exists r, convert true [mkG Gcz [0; 1] false; mkG Gccz [2; 1; 0] false] = Ok r).
Proof. repeat split. eexists. reflexivity. Qed.

(* ---- the emitted program ------------------------------------------------------ *)
(* every emitted operation addresses existing modes in the shape the gate library
   expects (even base mode, block inside the circuit, legal target, distinct
   qubits for routing swaps, angle taken from a rotation instruction that has
   one); the rule qubits are exactly the qubits used by multi-qubit instructions *)
Theorem C12_emitted_wf :
  forall nq allow gs ops rules,
    Forall (in_range nq) gs ->
    convert allow gs = Ok (ops, rules) ->
    Forall (op_wf nq gs) ops /\
    (forall l, rules = Some l -> NoDup l /\ l <> [] /\ forall q, In q l <-> touched gs q) /\
    (rules = None -> allow = false \/ forall q, ~ touched gs q).
Proof. exact emitted_wf. Qed.
Print Assumptions C12_emitted_wf.

(* allow_post_selection = False: heralded two-qubit gates only, no rules *)
Theorem C12_heralded_only :
  forall gs ops rules,
    convert false gs = Ok (ops, rules) -> rules = None /\ Forall op_heralded ops.
Proof. exact heralded_only. Qed.
Print Assumptions C12_heralded_only.

(* The emitted program read at qubit level IS the source program: for every
   interpretation [act] of named gates on ordered qubit lists and [sw] of the
   exchange of two qubits that satisfies the relabelling laws (conjugation by an
   exchange relabels the gate, disjoint exchanges commute, the swap gate is the
   exchange, cz/ccz/ccx-controls are symmetric), running the emitted operations
   equals running the source instructions.  Covers dispatch, mode arithmetic,
   CNOT/CCNOT target choice and the inserted swaps, for every program. *)
Theorem C12_emitted_denotes_source :
  forall (St : Type) (act : gname -> nat -> list nat -> St -> St) (sw : nat -> nat -> St -> St),
    (forall a b c d s, a <> c -> a <> d -> b <> c -> b <> d -> sw a b (sw c d s) = sw c d (sw a b s)) ->
    (forall a b g i qs s, sw a b (act g i qs (sw a b s)) = act g i (map (transp a b) qs) s) ->
    (forall i a b s, act Gswap i [a; b] s = sw a b s) ->
    (forall i a b s, act Gcz i [a; b] s = act Gcz i [b; a] s) ->
    (forall i l l' s, Permutation l l' -> act Gccz i l s = act Gccz i l' s) ->
    (forall i a b t s, act Gccx i [a; b; t] s = act Gccx i [b; a; t] s) ->
    forall allow gs ops rules s,
      Forall (fun g => NoDup (g_qubits g)) gs ->
      convert allow gs = Ok (ops, rules) ->
      run_ops St act sw ops s = run_src St act 0 gs s.
Proof. exact emitted_denotes_source. Qed.
Print Assumptions C12_emitted_denotes_source.

(* ---- post-selection, photon-count abstraction (ConvertP.v part F) ------------ *)
(* "every execution accepted by the final rules is failure-free" holds IF AND
   ONLY IF each post-selected gate has at most one qubit used by a later
   multi-qubit gate *)
Theorem C12_post_selection_sound_abstract :
  forall gfs, distinct_qubits gfs ->
    ((forall c tr, all_ones c -> exec gfs c tr -> accepted gfs (last tr c) -> Forall all_ones tr)
     <-> ps_safe gfs).
Proof. exact post_selection_sound_abstract. Qed.
Print Assumptions C12_post_selection_sound_abstract.

(* the (repaired) analyzer guarantees the right-hand side, hence with the flags
   and rules the converter computes an accepted execution never contains a failed
   post-selected gate *)
Theorem C12_analyzer_flags_safe :
  forall allow gs, ps_safe (combine gs (ps_flags allow gs)).
Proof. exact ps_flags_safe. Qed.
Print Assumptions C12_analyzer_flags_safe.

Theorem C12_converter_post_selection_sound :
  forall allow gs c tr,
    Forall (fun g => NoDup (g_qubits g)) gs ->
    all_ones c -> exec (combine gs (ps_flags allow gs)) c tr ->
    (forall q, touched gs q -> last tr c q = 1) ->
    Forall all_ones tr.
Proof. exact converter_post_selection_sound. Qed.
Print Assumptions C12_converter_post_selection_sound.

(* F2: the pinned tree's rule [not all(q in has_ps for q in gate)] is refuted by
   ccz(0,1,2); cz(0,1): both gates are flagged post-selectable, the condition
   fails, and there is an accepted execution in which the ccz failed.  For
   two-qubit instructions the old and the repaired rule coincide. *)
Theorem C12_all_rule_refuted :
  flags_all f2_witness = [true; true] /\
  ~ ps_safe (combine f2_witness (flags_all f2_witness)) /\
  exists tr cbad, exec (combine f2_witness (flags_all f2_witness)) (fun _ => 1) tr /\
                  In cbad tr /\ ~ all_ones cbad /\ all_ones (last tr (fun _ => 1)).
Proof. exact all_rule_refuted. Qed.
Print Assumptions C12_all_rule_refuted.

Theorem C12_all_rule_two_qubits :
  forall g post, length (g_qubits g) = 2 -> can_ps_all g post = can_ps g post.
Proof. exact all_rule_two_qubits. Qed.
Print Assumptions C12_all_rule_two_qubits.

(* hypotheses of the abstraction theorems are satisfiable by a non-trivial run:
   cz(0,1) post-selected then cz(1,2) post-selected, ideal execution *)
Example C12_abstract_nonvacuous :
  let gs := [mkG Gcz [0; 1] false; mkG Gcz [1; 2] false] in
  ps_flags true gs = [true; true] /\
  Forall (fun g => NoDup (g_qubits g)) gs /\
  exec (combine gs (ps_flags true gs)) (fun _ => 1) [fun _ => 1; fun _ => 1].
Proof.
  cbv zeta. split; [reflexivity|]. split.
  - repeat constructor; cbn; intuition; discriminate.
  - apply (exec_ideal (combine [mkG Gcz [0; 1] false; mkG Gcz [1; 2] false] [true; true]) (fun _ => 1)).
    intros q; reflexivity.
Qed.

(* the laws assumed by C12_emitted_denotes_source are jointly satisfiable by an
   interpretation in which exchanges act non-trivially *)
Example C12_denote_laws_satisfiable :
  (forall a b c d s, a <> c -> a <> d -> b <> c -> b <> d -> w_sw a b (w_sw c d s) = w_sw c d (w_sw a b s)) /\
  (forall a b g i qs s, w_sw a b (w_act g i qs (w_sw a b s)) = w_act g i (map (transp a b) qs) s) /\
  (forall i a b s, w_act Gswap i [a; b] s = w_sw a b s) /\
  (forall i a b s, w_act Gcz i [a; b] s = w_act Gcz i [b; a] s) /\
  (forall i l l' s, Permutation l l' -> w_act Gccz i l s = w_act Gccz i l' s) /\
  (forall i a b t s, w_act Gccx i [a; b; t] s = w_act Gccx i [b; a; t] s) /\
  w_act Gswap 0 [0; 1] [0; 1; 2] = [1; 0; 2].
Proof. exact denote_laws_satisfiable. Qed.

(* ====================================================================== *)
(* PHOTONIC LEVEL: heralded-only conversion is correct at amplitude level   *)
(* ====================================================================== *)
From Coq Require Import ZArith NArith.
From LW Require Import Base.Num Base.Sums Base.Mat Base.NumField Model.State Model.Circuit Model.World Model.Fock
     Model.Gates Proofs.PermP Proofs.DisplayP Proofs.WiringMat Proofs.GatesP
     Proofs.DualRailDefs Proofs.DualRailSem Proofs.DualRailFull Proofs.DualRailP Proofs.DualRailConv
     Proofs.DualRailMain Proofs.DualRailB.
Local Open Scope nat_scope.

(* Vocabulary.  o : ops K the "reals", co o = cplx o the complex pairs; e the parameter environment.
   [dr b] / [drn b] the dual-rail state of the bit list b (qubit 0 first) as Python ints / naturals;
   a qubit operator is V : list bool -> list bool -> K*K, V b' b = <b'|V|b>.
   [dr_shape c nq]: c is well formed (C19), has 2*nq non-ancilla modes, every herald sits on an
   ancilla created by Circuit.add with 0 or 1 photons, as many herald photons in as out.
   [lift_blk t M q k V] = (M on qubits q..q+k-1) composed after V; [lift_swap qa qb V] = SWAP . V. *)
Theorem C12_acts_as_dual_rail_def :
  forall (K : Type) (o : ops K) (e : env (K:=K)) (c : circ (K:=K)) (nq : nat) (Kc : K * K) (V : qmat (K * K)),
    acts_as_dual_rail o e c nq Kc V <->
    (dr_shape c nq /\
     exists l U, build o e c = Ok (c_n c + l, U) /\
       forall (b : list bool) (y : list nat), In b (bits nq) -> length y = 2 * nq ->
         exists fi fy,
           add_heralds_to_state (dr b) (hdz (c_in c)) = Ok fi /\
           add_heralds_to_state (map Z.of_nat y) (hdz (c_out c)) = Ok fy /\
           let x' := znat fi ++ repeat 0 l in
           let y' := znat fy ++ repeat 0 l in
           (forall b', In b' (bits nq) -> y = drn b' ->
              amp_perm (co o) U x' y' = kmul (co o) Kc (V b' b) /\ amp_factor x' y' = 1) /\
           ((forall b', In b' (bits nq) -> y <> drn b') -> amp_perm (co o) U x' y' = k0 (co o))).
Proof. exact (fun K o e c nq Kc V => conj (fun H => H) (fun H => H)). Qed.
Print Assumptions C12_acts_as_dual_rail_def.

Theorem C12_dr_shape_def :
  forall (K : Type) (c : circ (K:=K)) (nq : nat),
    dr_shape c nq <->
    (WFH c /\ Forall swnd (c_spec c) /\ c_n c = 2 * nq + length (c_int c) /\
     (forall i, In i (dkeys (c_in c)) <-> In i (c_int c)) /\
     (forall i, In i (dkeys (c_out c)) <-> In i (c_int c)) /\
     (forall kv, In kv (c_in c) -> snd kv <= 1) /\ (forall kv, In kv (c_out c) -> snd kv <= 1) /\
     osum (dvals (c_in c)) = osum (dvals (c_out c))).
Proof. exact (fun K c nq => conj (fun H => H) (fun H => H)). Qed.
Print Assumptions C12_dr_shape_def.

(* the hypothesis of the step lemma on the added gate circuit: well formed, 2k open modes, heralds
   of 0/1 photons with the same numbers at input and output, lossless, and on full states (heralds
   on the herald modes, the open modes in ascending order) amp(dr b -> dr b') = kG * M[b',b], 0 for
   every other occupation list of the open modes *)
Theorem C12_gate_ok_def :
  forall (K : Type) (o : ops K) (e : env (K:=K)) (sub : circ (K:=K)) (k : nat) (kG : K * K) (M : qmat (K * K)),
    gate_ok o e sub k kG M <->
    (WFH sub /\ Forall swnd (c_spec sub) /\ 1 <= k /\
     c_n sub = 2 * k + length (c_in sub) /\ length (c_in sub) = length (c_out sub) /\
     dvals (c_out sub) = dvals (c_in sub) /\ (forall kv, In kv (c_in sub) -> snd kv <= 1) /\
     exists US, build o e sub = Ok (c_n sub, US) /\
       forall b w xs ys, In b (bits k) -> length w = 2 * k ->
         full_st (c_n sub) 0 (c_in sub) (drn b) xs -> full_st (c_n sub) 0 (c_out sub) w ys ->
         (forall b', In b' (bits k) -> w = drn b' -> amp_perm (co o) US xs ys = kmul (co o) kG (M b' b)) /\
         ((forall b', In b' (bits k) -> w <> drn b') -> amp_perm (co o) US xs ys = k0 (co o))).
Proof. exact (fun K o e sub k kG M => conj (fun H => H) (fun H => H)). Qed.
Print Assumptions C12_gate_ok_def.

(* ... which follows from a gate statement in the form of C13 (C13_CZ_Heralded, C13_CNOT_Heralded,
   C13_single_qubit_gates ...): Simulator entries kG * M on dual-rail inputs/outputs with factor 1,
   and 0 for every accepted non-dual-rail output *)
Theorem C12_gate_fact_from_C13 :
  forall (K : Type) (o : ops K), StarRing o -> ZMorph o ->
  forall (e : env (K:=K)) (gt : @gate K) (k : nat) (kG : K * K) (M : qmat (K * K)),
    ((forall b b', In b (bits k) -> In b' (bits k) ->
        sim_amp o gt (dr b) (dr b') = Ok (kmul (co o) kG (M b' b), 1)) /\
     (forall b t, In b (bits k) -> In t (zstates (2 * k) k) -> undr t = None ->
        exists f, sim_amp o gt (dr b) t = Ok (k0 (co o), f))) ->
    WFH (g_circ gt) -> Forall swnd (c_spec (g_circ gt)) -> 1 <= k ->
    c_n (g_circ gt) = 2 * k + length (c_in (g_circ gt)) ->
    length (c_in (g_circ gt)) = length (c_out (g_circ gt)) ->
    dvals (c_out (g_circ gt)) = dvals (c_in (g_circ gt)) ->
    (forall kv, In kv (c_in (g_circ gt)) -> snd kv <= 1) ->
    build o e (g_circ gt) = Ok (c_n (g_circ gt), g_U gt) ->
    gate_ok o e (g_circ gt) k kG M.
Proof. exact (fun K o SR ZM e gt k kG M => @gate_ok_of_c13 K o SR e gt k kG M). Qed.
Print Assumptions C12_gate_fact_from_C13.

(* the scalars: a commutative *-ring with canonical integers in which 1/k exists (as in C02) *)
Theorem C12_dual_rail_initial :
  forall (K : Type) (o : ops K), StarRing o -> ZMorph o ->
  forall (e : env (K:=K)) (nq : nat),
    acts_as_dual_rail o e (new_circ (2 * nq)) nq (k1 (co o)) (qid (co o)).
Proof. exact (fun K o SR ZM => @dual_rail_initial K o SR ZM). Qed.
Print Assumptions C12_dual_rail_initial.

(* D2, the step lemma: generic in the gate (k adjacent qubits from q on, added at user mode 2q,
   grouped or not) and in the scalar ring *)
Theorem C12_dual_rail_step :
  forall (K : Type) (o : ops K), StarRing o -> ZMorph o ->
  forall (ninv : nat -> K * K), (forall k, 0 < k -> kmul (co o) (kofnat (co o) k) (ninv k) = k1 (co o)) ->
  forall (e : env (K:=K)) (c sub c' : circ (K:=K)) (nq q k : nat) (Kc kG : K * K) (V M : qmat (K * K)) (g : bool),
    acts_as_dual_rail o e c nq Kc V -> gate_ok o e sub k kG M -> q + k <= nq ->
    (exists c0, op_add o c sub (Z.of_nat (2 * q)) g = Ok c0) /\
    (op_add o c sub (Z.of_nat (2 * q)) g = Ok c' ->
     acts_as_dual_rail o e c' nq (kmul (co o) Kc kG) (lift_blk (co o) M q k V)).
Proof. exact (fun K o SR ZM ninv Hn => @dual_rail_step K o SR ZM ninv Hn). Qed.
Print Assumptions C12_dual_rail_step.

(* (i) single-qubit gates: ANY 2 x 2 array handed to Unitary (all of I H X Y Z S Sadj T Tadj SX and
   the rotations are of this form, C13_single_qubit_gates / C13_rotation_gates) is a gate with
   k = 1, kG = 1 and M = the array *)
Theorem C12_step_single_qubit_gate :
  forall (K : Type) (o : ops K), StarRing o -> ZMorph o ->
  forall rows : list (list (K * K)),
    exists gt, compile_gate o (Ok [OUnitary 0 2 rows]) 0 = Ok gt /\
      g_circ gt = unitary_circ 2 (of_rows (co o) rows) /\
      gate_ok o (env0 o) (g_circ gt) 1 (k1 (co o)) (m1_of (of_rows (co o) rows)).
Proof. exact (fun K o SR ZM => @unitary2_gate_ok K o SR). Qed.
Print Assumptions C12_step_single_qubit_gate.

(* (ii) SWAP of two different qubits, added at mode 0 as the converter does: K unchanged, V |-> SWAP . V *)
Theorem C12_step_swap :
  forall (K : Type) (o : ops K), StarRing o -> ZMorph o ->
  forall (ninv : nat -> K * K), (forall k, 0 < k -> kmul (co o) (kofnat (co o) k) (ninv k) = k1 (co o)) ->
  forall (c c' : circ (K:=K)) (nq qa qb : nat) (Kc : K * K) (V : qmat (K * K)),
    acts_as_dual_rail o (env0 o) c nq Kc V -> qa <> qb -> qa < nq -> qb < nq ->
    exists gt, gate_SWAP o (zq (2 * qa) (2 * qa + 1)) (zq (2 * qb) (2 * qb + 1)) = Ok gt /\
      (exists c0, op_add o c (g_circ gt) 0%Z false = Ok c0) /\
      (op_add o c (g_circ gt) 0%Z false = Ok c' ->
       acts_as_dual_rail o (env0 o) c' nq Kc (lift_swap qa qb V)).
Proof. exact (fun K o SR ZM ninv Hn => @dual_rail_swap_step K o SR ZM ninv Hn). Qed.
Print Assumptions C12_step_swap.

(* (iii) CZ_Heralded and CNOT_Heralded (either target) in the number field of C13: the step lemma's
   hypothesis holds with k = 2, M = spec_CZ / spec_CNOT tq and 16 |kG|^2 = 1 *)
Theorem C12_step_heralded_gates_tower_B :
  (exists gt kG, gate_CZ_Heralded oB b_h b_r2 b_qi b_g = Ok gt /\
     kmul cB (kofZ cB 16) (kmul cB kG (kconj cB kG)) = k1 cB /\
     gate_ok oB (env0 oB) (g_circ gt) 2 kG (spec_CZ cB)) /\
  (exists gt kG, gate_CNOT_Heralded oB b_h b_r2 b_qi b_g 0%Z = Ok gt /\
     kmul cB (kofZ cB 16) (kmul cB kG (kconj cB kG)) = k1 cB /\
     gate_ok oB (env0 oB) (g_circ gt) 2 kG (spec_CNOT cB 0)) /\
  (exists gt kG, gate_CNOT_Heralded oB b_h b_r2 b_qi b_g 1%Z = Ok gt /\
     kmul cB (kofZ cB 16) (kmul cB kG (kconj cB kG)) = k1 cB /\
     gate_ok oB (env0 oB) (g_circ gt) 2 kG (spec_CNOT cB 1)).
Proof. exact (conj CZH_gate_ok (conj CNOTH0_gate_ok CNOTH1_gate_ok)). Qed.
Print Assumptions C12_step_heralded_gates_tower_B.

(* ---- the qubit-level semantics of a program (Proofs/DualRailSem.v) ----
   A state of the semantics is a finite list of entries (row label, column label, value) of an
   operator; labels are binary numbers (bit q = qubit q); [sval] reads an entry, [lab b] is the
   label of a bit list.  [sact t m1 g i qs] applies instruction g (parameter index i) to the qubits
   qs AFTER the operator, [ssw a b] exchanges qubits a and b.  On basis labels: *)
Theorem C12_qubit_semantics :
  forall (T : Type) (t : ops T), StarRing t ->
  forall (m1 : gname -> nat -> qmat T),
    (forall nq b b', In b (bits nq) -> In b' (bits nq) -> sval t (s_id t nq) (lab b') (lab b) = delta t b' b) /\
    (forall g i q nq s b' c, is_single g = true \/ is_rot g = true -> q < nq -> In b' (bits nq) ->
       sval t (sact t m1 g i [q] s) (lab b') c =
       suml t (bits 1) (fun x => kmul t (m1 g i (slice b' q 1) x) (sval t s (lab (splice b' q x)) c))) /\
    (forall i q nq s b' c, q + 1 < nq -> In b' (bits nq) ->
       sval t (sact t m1 Gcz i [q; q + 1] s) (lab b') c =
       suml t (bits 2) (fun x => kmul t (spec_CZ t (slice b' q 2) x) (sval t s (lab (splice b' q x)) c))) /\
    (forall i q tq nq s b' c, tq <= 1 -> q + 1 < nq -> In b' (bits nq) ->
       sval t (sact t m1 Gcx i [q + (1 - tq); q + tq] s) (lab b') c =
       suml t (bits 2) (fun x => kmul t (spec_CNOT t tq (slice b' q 2) x) (sval t s (lab (splice b' q x)) c))) /\
    (forall qa qb nq s b' c, qa < nq -> qb < nq -> In b' (bits nq) ->
       sval t (ssw qa qb s) (lab b') c = sval t s (lab (swapbits qa qb b')) c).
Proof.
  exact (fun T t SR m1 =>
    conj (@sval_id T t SR)
   (conj (@sval_act1 T t SR m1)
   (conj (@sval_cz T t SR m1)
   (conj (@sval_cx T t SR m1) (@sval_sw T t))))).
Qed.
Print Assumptions C12_qubit_semantics.

(* it satisfies the six laws C12_emitted_denotes_source asks for, for ALL arguments, with Leibniz
   equality (no functional extensionality): so the emitted program and the source program have the
   same operator *)
Theorem C12_qubit_semantics_laws :
  forall (T : Type) (t : ops T) (m1 : gname -> nat -> qmat T),
    (forall a b c d (s : @sst T), a <> c -> a <> d -> b <> c -> b <> d -> ssw a b (ssw c d s) = ssw c d (ssw a b s)) /\
    (forall a b g i qs s, ssw a b (sact t m1 g i qs (ssw a b s)) = sact t m1 g i (map (transp a b) qs) s) /\
    (forall i a b s, sact t m1 Gswap i [a; b] s = ssw a b s) /\
    (forall i a b s, sact t m1 Gcz i [a; b] s = sact t m1 Gcz i [b; a] s) /\
    (forall i l l' s, Permutation l l' -> sact t m1 Gccz i l s = sact t m1 Gccz i l' s) /\
    (forall i a b x s, sact t m1 Gccx i [a; b; x] s = sact t m1 Gccx i [b; a; x] s).
Proof. exact (fun T t m1 => @sem_laws T t m1). Qed.
Print Assumptions C12_qubit_semantics_laws.

(* ---- D3: every program the converter accepts with allow_post_selection = False ----
   h, r2, qi, gm = 1/sqrt 2, sqrt 2, 2^(-1/4), gamma of the scalar ring (r3i, r7 are used by the
   post-selected gates only); ang i = the amplitude pair of the rotation angle of instruction i.
   [run_emitted]: the emitted operations executed as the converter does: the lightworks.qubit gate
   object ([gate_of]: gate_sq / gate_rq / gate_SWAP / gate_CZ_Heralded / gate_CNOT_Heralded of
   Model/Gates.v, each built through the World machine) is added with Circuit.add at its mode.
   [Vsrc o h ang nq gs]: the operator of the SOURCE program gs in the semantics above, single-qubit
   matrices = the matrices C13 names (named_sq / named_rq).
   [kprod]: the product of the scalars of the emitted heralded gates. *)
Theorem C12_convert_heralded_correct :
  forall (K : Type) (o : ops K), StarRing o -> ZMorph o ->
  forall (ninv : nat -> K * K), (forall k, 0 < k -> kmul (co o) (kofnat (co o) k) (ninv k) = k1 (co o)) ->
  forall (h r2 r3i qi gm r7 : K) (ang : nat -> K * K),
    kmul o h h = kq o 1 2 ->
  forall (gtCZ gtCX0 gtCX1 : @gate K) (kcz kcx0 kcx1 : K * K),
    gate_CZ_Heralded o h r2 qi gm = Ok gtCZ /\ gate_ok o (env0 o) (g_circ gtCZ) 2 kcz (spec_CZ (co o)) ->
    gate_CNOT_Heralded o h r2 qi gm 0%Z = Ok gtCX0 /\ gate_ok o (env0 o) (g_circ gtCX0) 2 kcx0 (spec_CNOT (co o) 0) ->
    gate_CNOT_Heralded o h r2 qi gm 1%Z = Ok gtCX1 /\ gate_ok o (env0 o) (g_circ gtCX1) 2 kcx1 (spec_CNOT (co o) 1) ->
  forall (nq : nat) (gs : list qgate) (ops : list eop) (rules : option (list nat)),
    Forall (ConvertP.in_range nq) gs -> Forall (fun g => NoDup (g_qubits g)) gs ->
    convert false gs = Ok (ops, rules) ->
    rules = None /\
    exists c, run_emitted o h r2 r3i qi gm r7 ang ops (new_circ (2 * nq)) = Ok c /\
              acts_as_dual_rail o (env0 o) c nq (kprod o kcz kcx0 kcx1 ops (k1 (co o))) (Vsrc o h ang nq gs).
Proof. exact (fun K o SR ZM ninv Hn => @convert_heralded_correct K o SR ZM ninv Hn). Qed.
Print Assumptions C12_convert_heralded_correct.

(* the product of the scalars has an invertible squared modulus: with 16 |k_i|^2 = 1 for the three
   heralded gates, K conj K * 16^(number of heralded two-qubit gates emitted) = 1
   ([wprod o ops 1] = that power of 16) *)
Theorem C12_kprod_unit :
  forall (K : Type) (o : ops K), StarRing o ->
  forall kcz kcx0 kcx1 : K * K,
    kmul (co o) (kofZ (co o) 16) (kmul (co o) kcz (kconj (co o) kcz)) = k1 (co o) ->
    kmul (co o) (kofZ (co o) 16) (kmul (co o) kcx0 (kconj (co o) kcx0)) = k1 (co o) ->
    kmul (co o) (kofZ (co o) 16) (kmul (co o) kcx1 (kconj (co o) kcx1)) = k1 (co o) ->
  forall (ops : list eop) (K0 w0 : K * K),
    kmul (co o) (kmul (co o) K0 (kconj (co o) K0)) w0 = k1 (co o) ->
    kmul (co o) (kmul (co o) (kprod o kcz kcx0 kcx1 ops K0) (kconj (co o) (kprod o kcz kcx0 kcx1 ops K0)))
         (wprod o ops w0) = k1 (co o).
Proof. exact (fun K o SR => @kprod_unit K o SR). Qed.
Print Assumptions C12_kprod_unit.

(* the instance in the exact number field of the heralded gates (C13 tower B): the three gate
   hypotheses are C13_CZ_Heralded / C13_CNOT_Heralded, each scalar has 16 |k|^2 = 1; through
   C13_evaluation_towers every equation is an equation between complex numbers *)
Theorem C12_convert_heralded_correct_tower_B :
  exists kcz kcx0 kcx1 : TB,
    (kmul cB (kofZ cB 16) (kmul cB kcz (kconj cB kcz)) = k1 cB /\
     kmul cB (kofZ cB 16) (kmul cB kcx0 (kconj cB kcx0)) = k1 cB /\
     kmul cB (kofZ cB 16) (kmul cB kcx1 (kconj cB kcx1)) = k1 cB) /\
    (* |K|^2 is invertible: K conj K * 16^(number of heralded two-qubit gates) = 1 *)
    (forall ops : list eop,
       kmul cB (kmul cB (kprod oB kcz kcx0 kcx1 ops (k1 cB)) (kconj cB (kprod oB kcz kcx0 kcx1 ops (k1 cB))))
               (wprod oB ops (k1 cB)) = k1 cB) /\
    forall (ang : nat -> KB * KB) (nq : nat) (gs : list qgate) (ops : list eop) (rules : option (list nat)),
      Forall (ConvertP.in_range nq) gs -> Forall (fun g => NoDup (g_qubits g)) gs ->
      convert false gs = Ok (ops, rules) ->
      rules = None /\
      exists c, run_emitted oB b_h b_r2 (k0 oB) b_qi b_g (k0 oB) ang ops (new_circ (2 * nq)) = Ok c /\
                acts_as_dual_rail oB (env0 oB) c nq (kprod oB kcz kcx0 kcx1 ops (k1 cB)) (Vsrc oB b_h ang nq gs).
Proof. exact convert_heralded_correct_B. Qed.
Print Assumptions C12_convert_heralded_correct_tower_B.

(* what [run_emitted], [kprod], [Vsrc] are *)
Theorem C12_run_emitted_def :
  forall (K : Type) (o : ops K) (h r2 r3i qi gm r7 : K) (ang : nat -> K * K) (kcz kcx0 kcx1 : K * K)
         (ops : list eop) (c : circ (K:=K)) (nq : nat) (gs : list qgate),
    run_emitted o h r2 r3i qi gm r7 ang ops c =
      fold_left (fun r op => do c0 <- r;
                             do gt <- gate_of o h r2 r3i qi gm r7 ang op;
                             op_add o c0 (g_circ gt) (Z.of_nat (op_mode op)) false) ops (Ok c) /\
    kprod o kcz kcx0 kcx1 ops (k1 (co o)) =
      fold_left (fun a op => kmul (co o) a (match op with
                                            | ECZ true _ => kcz
                                            | ECX true 0 _ => kcx0
                                            | ECX true _ _ => kcx1
                                            | _ => k1 (co o)
                                            end)) ops (k1 (co o)) /\
    Vsrc o h ang nq gs =
      (fun b' b => sval (co o) (run_src sst (sact (co o) (m1 o h ang)) 0 gs (s_id (co o) nq)) (lab b') (lab b)) /\
    (forall s i : nat,
       m1 o h ang Gh i = m1_of (named_sq o h gH) /\
       m1 o h ang Grz i = m1_of (named_rq o gRz (fst (ang i)) (snd (ang i))) /\
       gate_of o h r2 r3i qi gm r7 ang (EGate1 Gh i s) = gate_sq o h gH /\
       gate_of o h r2 r3i qi gm r7 ang (EGate1 Grz i s) = gate_rq o gRz (fst (ang i)) (snd (ang i)) /\
       gate_of o h r2 r3i qi gm r7 ang (ECZ true s) = gate_CZ_Heralded o h r2 qi gm /\
       gate_of o h r2 r3i qi gm r7 ang (ECX true i s) = gate_CNOT_Heralded o h r2 qi gm (Z.of_nat i)).
Proof. exact run_emitted_def. Qed.
Print Assumptions C12_run_emitted_def.

(* non-vacuity: h(0); cx(0,1) on two qubits.  The converter emits H at mode 0 and CNOT_Heralded(1)
   at mode 0; the resulting circuit (8 modes: the four ancillas 0, 1, 6, 7 carry 0, 1, 1, 0 photons)
   is built through the model over tower B and its amplitudes are recomputed: K * V on all 4 x 4
   dual-rail pairs with K = 1/4 and V = CNOT . (H x I) (written out by hand AND as Vsrc), 0 on the
   six other two-photon outputs of every basis input; 16 K conj K = 1 *)
Example C12_convert_heralded_example :
  convert false ex_gs = Ok ([EGate1 Gh 0 0; ECX true 1 0], None) /\
  Forall (ConvertP.in_range 2) ex_gs /\ Forall (fun g => NoDup (g_qubits g)) ex_gs /\
  check_table oB ex_gate 2 kB_czh ex_V = true /\ check_leak oB ex_gate 2 = true /\
  forallb (fun b => forallb (fun b' => keqb cB (Vsrc oB b_h ex_ang 2 ex_gs b' b) (ex_V b' b)) (bits 2)) (bits 2) = true /\
  keqb cB (kprod oB kB_czh kB_czh kB_czh ex_ops (k1 cB)) kB_czh = true /\
  kmul cB (kofZ cB 16) (kmul cB kB_czh (kconj cB kB_czh)) = k1 cB /\
  match ex_gate with Ok gt => (c_n (g_circ gt), c_in (g_circ gt), c_int (g_circ gt)) | Err _ => (0, [], []) end
  = (8, [(0, 0); (1, 1); (6, 1); (7, 0)], [0; 1; 6; 7]).
Proof. exact convert_heralded_example. Qed.

(* ====================================================================== *)
(* POST-SELECTION AT AMPLITUDE LEVEL (allow_post_selection = True)          *)
(* ====================================================================== *)
From LW Require Import Proofs.DualRailPSSem Proofs.DualRailPSStep Proofs.DualRailPS Proofs.DualRailPSConv
     Proofs.DualRailPSMain Proofs.DualRailPSA Proofs.DualRailPSEx.

(* [cnt v q] = photons on the two modes of qubit q of the visible state v;
   [okD nq Dd v] = every qubit q < nq with Dd q = true carries exactly one photon *)
Theorem C12_pair_counts_def :
  forall (v : list nat) (q nq : nat) (Dd : nat -> bool),
    cnt v q = nth (2 * q) v 0 + nth (2 * q + 1) v 0 /\
    (okD nq Dd v = true <-> forall p, p < nq -> Dd p = true -> cnt v p = 1).
Proof. exact (fun v q nq Dd => conj eq_refl (okD_spec nq Dd v)). Qed.
Print Assumptions C12_pair_counts_def.

Theorem C12_accepts_dual_rail_def :
  forall (K : Type) (o : ops K) (e : env (K:=K)) (c : circ (K:=K)) (nq : nat) (Kc : K * K) (V : qmat (K * K))
         (Dd : nat -> bool),
    accepts_dual_rail o e c nq Kc V Dd <->
    (dr_shape c nq /\
     exists l U, build o e c = Ok (c_n c + l, U) /\
       forall (b : list bool) (y : list nat), In b (bits nq) -> length y = 2 * nq -> okD nq Dd y = true ->
         exists fi fy,
           add_heralds_to_state (dr b) (hdz (c_in c)) = Ok fi /\
           add_heralds_to_state (map Z.of_nat y) (hdz (c_out c)) = Ok fy /\
           let x' := znat fi ++ repeat 0 l in
           let y' := znat fy ++ repeat 0 l in
           (forall b', In b' (bits nq) -> y = drn b' ->
              amp_perm (co o) U x' y' = kmul (co o) Kc (V b' b) /\ amp_factor x' y' = 1) /\
           ((forall b', In b' (bits nq) -> y <> drn b') -> amp_perm (co o) U x' y' = k0 (co o))).
Proof. exact (fun K o e c nq Kc V Dd => conj (fun H => H) (fun H => H)). Qed.
Print Assumptions C12_accepts_dual_rail_def.

(* with no constraint it is acts_as_dual_rail *)
Theorem C12_accepts_none_is_acts :
  forall (K : Type) (o : ops K) (e : env (K:=K)) (c : circ (K:=K)) (nq : nat) (Kc : K * K) (V : qmat (K * K)),
    accepts_dual_rail o e c nq Kc V (fun _ => false) -> acts_as_dual_rail o e c nq Kc V.
Proof.
  exact (fun K o e c nq Kc V H =>
           proj2 (acts_iff o e c nq Kc V) (dr_acts_ps_none o e c nq Kc V (proj1 (accepts_iff o e c nq Kc V _) H))).
Qed.
Print Assumptions C12_accepts_none_is_acts.

(* ---- the leakage of a post-selected gate, by counting ---- *)
Theorem C12_gate_conserves_photons :
  forall (K : Type) (o : ops K), StarRing o ->
  forall (e : env (K:=K)) (sub : circ (K:=K)) (k : nat) (US : @mat (K * K)) (v w xs ys : list nat),
    WFH sub -> c_n sub = 2 * k + length (c_in sub) -> length (c_in sub) = length (c_out sub) ->
    dvals (c_out sub) = dvals (c_in sub) -> length v = 2 * k -> length w = 2 * k ->
    full_st (c_n sub) 0 (c_in sub) v xs -> full_st (c_n sub) 0 (c_out sub) w ys ->
    osum w <> osum v -> amp_perm (co o) US xs ys = k0 (co o).
Proof. exact (fun K o SR => @gate_conserves K o SR). Qed.
Print Assumptions C12_gate_conserves_photons.

Theorem C12_postselected_leak_counts :
  forall (k : nat) (w : list nat), length w = 2 * k -> osum w = k ->
    (forall i j, i < k -> j < k -> i <> j -> cnt w i = 1 \/ cnt w j = 1) ->
    exists b', In b' (bits k) /\ w = drn b'.
Proof. exact postselected_leak_counts. Qed.
Print Assumptions C12_postselected_leak_counts.

(* ---- the gate hypothesis (table; zero leakage only when lf) and the step lemma ---- *)
Theorem C12_gate_tab_def :
  forall (K : Type) (o : ops K) (e : env (K:=K)) (sub : circ (K:=K)) (k : nat) (kG : K * K) (M : qmat (K * K)) (lf : bool),
    gate_tab o e sub k kG M lf <->
    (WFH sub /\ Forall swnd (c_spec sub) /\ 1 <= k /\
     c_n sub = 2 * k + length (c_in sub) /\ length (c_in sub) = length (c_out sub) /\
     dvals (c_out sub) = dvals (c_in sub) /\ (forall kv, In kv (c_in sub) -> snd kv <= 1) /\
     exists US, build o e sub = Ok (c_n sub, US) /\
       (forall b b' xs ys, In b (bits k) -> In b' (bits k) ->
          full_st (c_n sub) 0 (c_in sub) (drn b) xs -> full_st (c_n sub) 0 (c_out sub) (drn b') ys ->
          amp_perm (co o) US xs ys = kmul (co o) kG (M b' b)) /\
       (lf = true ->
        forall b w xs ys, In b (bits k) -> length w = 2 * k ->
          full_st (c_n sub) 0 (c_in sub) (drn b) xs -> full_st (c_n sub) 0 (c_out sub) w ys ->
          (forall b', In b' (bits k) -> w <> drn b') -> amp_perm (co o) US xs ys = k0 (co o))).
Proof. exact (fun K o e sub k kG M lf => conj (fun H => H) (fun H => H)). Qed.
Print Assumptions C12_gate_tab_def.

(* from C13's statement of a post-selected gate (C13_CZ, C13_CNOT, C13_CCZ, C13_CCNOT: table only) *)
Theorem C12_gate_tab_from_C13 :
  forall (K : Type) (o : ops K) (e : env (K:=K)) (gt : @gate K) (k : nat) (kG : K * K) (M : qmat (K * K)),
    (forall b b', In b (bits k) -> In b' (bits k) ->
       sim_amp o gt (dr b) (dr b') = Ok (kmul (co o) kG (M b' b), 1)) ->
    WFH (g_circ gt) -> Forall swnd (c_spec (g_circ gt)) -> 1 <= k ->
    c_n (g_circ gt) = 2 * k + length (c_in (g_circ gt)) ->
    length (c_in (g_circ gt)) = length (c_out (g_circ gt)) ->
    dvals (c_out (g_circ gt)) = dvals (c_in (g_circ gt)) ->
    (forall kv, In kv (c_in (g_circ gt)) -> snd kv <= 1) ->
    build o e (g_circ gt) = Ok (c_n (g_circ gt), g_U gt) ->
    gate_tab o e (g_circ gt) k kG M false.
Proof. exact (fun K o => @gate_tab_of_c13 K o). Qed.
Print Assumptions C12_gate_tab_from_C13.

(* Dd / Dd' = the dead qubits before / after the gate.  [blk_kill]: a dead qubit INSIDE the block is
   allowed when the gate sends a wrong photon number on it to amplitude 0 on the outputs that are fine
   on the block's dead qubits (single-qubit gates: photon conservation; SWAP: it carries the pair) *)
Theorem C12_dual_rail_step_ps :
  forall (K : Type) (o : ops K), StarRing o -> ZMorph o ->
  forall (ninv : nat -> K * K), (forall k, 0 < k -> kmul (co o) (kofnat (co o) k) (ninv k) = k1 (co o)) ->
  forall (e : env (K:=K)) (c sub c' : circ (K:=K)) (nq q k : nat) (Kc kG : K * K) (V M : qmat (K * K))
         (g lf : bool) (Dd Dd' : nat -> bool),
    accepts_dual_rail o e c nq Kc V Dd -> gate_tab o e sub k kG M lf -> q + k <= nq ->
    (lf = true \/ forall i j, i < k -> j < k -> i <> j -> Dd' (q + i) = true \/ Dd' (q + j) = true) ->
    (forall p, p < nq -> p < q \/ q + k <= p -> Dd p = true -> Dd' p = true) ->
    (forall i, i < k -> Dd (q + i) = true -> blk_kill o e sub k q Dd' i) ->
    (exists c0, op_add o c sub (Z.of_nat (2 * q)) g = Ok c0) /\
    (op_add o c sub (Z.of_nat (2 * q)) g = Ok c' ->
     accepts_dual_rail o e c' nq (kmul (co o) Kc kG) (lift_blk (co o) M q k V) Dd').
Proof. exact (fun K o SR ZM ninv Hn => @dual_rail_step_ps K o SR ZM ninv Hn). Qed.
Print Assumptions C12_dual_rail_step_ps.

Theorem C12_blk_kill_def :
  forall (K : Type) (o : ops K) (e : env (K:=K)) (sub : circ (K:=K)) (k q : nat) (Dd' : nat -> bool) (i : nat),
    blk_kill o e sub k q Dd' i <->
    (forall US, build o e sub = Ok (c_n sub, US) ->
     forall w_in w_out xs ys, length w_in = 2 * k -> length w_out = 2 * k ->
       full_st (c_n sub) 0 (c_in sub) w_in xs -> full_st (c_n sub) 0 (c_out sub) w_out ys ->
       cnt w_in i <> 1 -> (forall j, j < k -> Dd' (q + j) = true -> cnt w_out j = 1) ->
       amp_perm (co o) US xs ys = k0 (co o)).
Proof. exact (fun K o e sub k q Dd' i => conj (fun H => H) (fun H => H)). Qed.
Print Assumptions C12_blk_kill_def.

(* ---- the theorem ----
   [kof op] = the scalar of the gate object that emitted operation op adds; [op_fact]: that object
   compiles and satisfies its C13 statement (table; zero leakage for the heralded ones);
   [rule_set rules q] = q is one of the qubits of the returned PostSelection rules ("exactly one photon
   on modes 2q, 2q+1"); Vsrc, run_emitted as in C12_convert_heralded_correct.
   Conclusion: every output the rules accept is dr b' with amplitude K * V_src[b',b], or has amplitude 0. *)
Theorem C12_op_fact_def :
  forall (K : Type) (o : ops K) (h r2 r3i qi gm r7 : K) (ang : nat -> K * K) (kof : eop -> K * K) (op : eop),
    op_fact o h r2 r3i qi gm r7 ang kof op =
    match op with
    | ECZ hh m => exists gt, gate_of o h r2 r3i qi gm r7 ang op = Ok gt /\
                             gate_tab o (env0 o) (g_circ gt) 2 (kof op) (spec_CZ (co o)) hh
    | ECX hh t m => t <= 1 -> exists gt, gate_of o h r2 r3i qi gm r7 ang op = Ok gt /\
                             gate_tab o (env0 o) (g_circ gt) 2 (kof op) (spec_CNOT (co o) t) hh
    | ECCZ m => exists gt, gate_of o h r2 r3i qi gm r7 ang op = Ok gt /\
                           gate_tab o (env0 o) (g_circ gt) 3 (kof op) (spec_CCZ (co o)) false
    | ECCX t m => t <= 2 -> exists gt, gate_of o h r2 r3i qi gm r7 ang op = Ok gt /\
                           gate_tab o (env0 o) (g_circ gt) 3 (kof op) (spec_CCNOT (co o) t) false
    | _ => True
    end.
Proof. exact (fun K o h r2 r3i qi gm r7 ang kof op => eq_refl). Qed.
Print Assumptions C12_op_fact_def.

Theorem C12_convert_postselected_correct :
  forall (K : Type) (o : ops K), StarRing o -> ZMorph o ->
  forall (ninv : nat -> K * K), (forall k, 0 < k -> kmul (co o) (kofnat (co o) k) (ninv k) = k1 (co o)) ->
  forall (h r2 r3i qi gm r7 : K) (ang : nat -> K * K),
    kmul o h h = kq o 1 2 ->
  forall (kof : eop -> K * K) (nq : nat) (gs : list qgate) (ops : list eop) (rules : option (list nat)),
    Forall (ConvertP.in_range nq) gs -> Forall (fun g => NoDup (g_qubits g)) gs ->
    convert true gs = Ok (ops, rules) ->
    Forall (op_fact o h r2 r3i qi gm r7 ang kof) ops ->
    exists c, run_emitted o h r2 r3i qi gm r7 ang ops (new_circ (2 * nq)) = Ok c /\
              accepts_dual_rail o (env0 o) c nq (kprod_ps o kof ops (k1 (co o))) (Vsrc o h ang nq gs) (rule_set rules).
Proof. exact (fun K o SR ZM ninv Hn => @convert_postselected_correct K o SR ZM ninv Hn). Qed.
Print Assumptions C12_convert_postselected_correct.

Theorem C12_kprod_ps_def :
  forall (K : Type) (o : ops K) (kof : eop -> K * K) (ops : list eop) (rules : option (list nat)) (q : nat),
    kprod_ps o kof ops (k1 (co o)) =
      fold_left (fun a op => kmul (co o) a (match op with
                                            | EGate1 _ _ _ | ESwap _ _ _ _ _ => k1 (co o)
                                            | _ => kof op
                                            end)) ops (k1 (co o)) /\
    rule_set rules q = match rules with Some l => memb q l | None => false end.
Proof. exact (fun K o kof ops rules q => conj eq_refl eq_refl). Qed.
Print Assumptions C12_kprod_ps_def.

(* if each gate scalar has an invertible squared modulus (wof op its inverse) so has K *)
Theorem C12_kprod_ps_unit :
  forall (K : Type) (o : ops K), StarRing o ->
  forall (kof wof : eop -> K * K) (ops : list eop),
    (forall op, In op ops ->
       kmul (co o) (wof op) (kmul (co o) (op_kps o kof op) (kconj (co o) (op_kps o kof op))) = k1 (co o)) ->
    forall K0 w0 : K * K, kmul (co o) (kmul (co o) K0 (kconj (co o) K0)) w0 = k1 (co o) ->
      kmul (co o) (kmul (co o) (kprod_ps o kof ops K0) (kconj (co o) (kprod_ps o kof ops K0))) (wprod_ps o wof ops w0)
      = k1 (co o).
Proof. exact (fun K o SR => @kprod_ps_unit K o SR). Qed.
Print Assumptions C12_kprod_ps_unit.

(* tower A (C13: CZ, CNOT k = -1/3; CCZ, CCNOT k = i sqrt 2 / 12): every program whose emitted
   multi-qubit gates are all post-selected ([op_postselected]: no ECZ true / ECX true);
   [wprod_ps oA wofA ops 1] = 9^(#CZ,CNOT) * 72^(#CCZ,CCNOT) *)
Theorem C12_convert_postselected_correct_tower_A :
  forall (ang : nat -> KA * KA) (nq : nat) (gs : list qgate) (ops : list eop) (rules : option (list nat)),
    Forall (ConvertP.in_range nq) gs -> Forall (fun g => NoDup (g_qubits g)) gs ->
    convert true gs = Ok (ops, rules) -> Forall op_postselected ops ->
    (exists c, run_emitted oA a_h a_r2 a_r3i (k0 oA) (k0 oA) a_r7 ang ops (new_circ (2 * nq)) = Ok c /\
               accepts_dual_rail oA (env0 oA) c nq (kprod_ps oA kofA ops (k1 cA)) (Vsrc oA a_h ang nq gs) (rule_set rules)) /\
    kmul cA (kmul cA (kprod_ps oA kofA ops (k1 cA)) (kconj cA (kprod_ps oA kofA ops (k1 cA))))
         (wprod_ps oA wofA ops (k1 cA)) = k1 cA.
Proof. exact convert_postselected_correct_A. Qed.
Print Assumptions C12_convert_postselected_correct_tower_A.

Example C12_convert_postselected_example :
  convert true exps_gs = Ok ([EGate1 Gh 0 0; ECX false 1 0; ECX false 1 2], Some [2; 0; 1]) /\
  Forall (ConvertP.in_range 3) exps_gs /\ Forall (fun g => NoDup (g_qubits g)) exps_gs /\ Forall op_postselected exps_ops /\
  check_table oA exps_gate 3 exps_K (Vsrc oA a_h exps_ang 3 exps_gs) = true /\
  keqb cA exps_K (kq oA 1 9, k0 oA) = true /\
  keqb cA (kmul cA (kofZ cA 81) (kmul cA exps_K (kconj cA exps_K))) (k1 cA) = true /\
  exps_accepted_are_dr = true /\
  exps_some_leak = true /\
  match exps_gate with Ok gt => (c_n (g_circ gt), c_in (g_circ gt)) | Err _ => (0, []) end
  = (10, [(0, 0); (6, 0); (3, 0); (9, 0)]).
Proof. exact convert_postselected_example. Qed.
