(* C05 — Simulator, Sampler, Analyzer and QuickSampler tell one consistent story.
   Statements only (proofs: Proofs/AnalyzerP.v; models: Model/Analyzer.v, Model/Fock.v).

   Conventions.  n = circuit modes (herald modes included), l = loss modes,
   U = U_full (dimension n + l), hin / hout = circuit.heralds["input"/"output"],
   m = n - #heralds = circuit.input_modes.  [prob_of o U ins outs] is
   |permanent|^2 / (prod ins! * prod outs!).  The statements that mention the
   Sampler are over Coq's reals ([rops], complex = [cops]) with the Sampler's
   probability threshold set to 0 (the code truncates at 1e-9: states below the
   threshold are dropped there, which the correspondence run tolerates as
   1e-9 * #states); they hold for both back ends [b].
   [sampler_p b n l U hin i k] is Sampler(circuit, i).probability_distribution[k]
   (0 for an absent key).

   [analyze] = the guard `len(heralds["input"]) != len(heralds["output"]) ->
   RuntimeError` followed by [analyze_body] (C05_analyze_is_guard_then_body).

   State of the current tree (e8102ee): heralds may carry photons and may sit
   on different input and output modes; the two defects repaired by 35b3f09 (F6)
   and e8102ee (N14) are kept as regression witnesses in
   C05_analyzer_total_pinned_refuted. *)
From Coq Require Import ZArith List Bool Arith Lia Reals.
From LW Require Import Base.Sx Base.Num Base.Sums Base.Mat Base.RInst Model.State Model.Fock Model.Analyzer
     Proofs.StateP Proofs.PermP Proofs.SimP Proofs.FockUnitP Proofs.AnalyzerP.
Import ListNotations.
Open Scope nat_scope.

(* ---- the Sampler distribution is the marginal over the loss modes ---- *)
(* for every matrix, herald dictionary, loss-mode count and input: the value at
   a pattern k of the circuit modes is the sum over ALL occupations of the loss
   modes holding the missing photons.  (The vacuum pattern of a lossy circuit is
   assigned 1 - total by the code, hence the unitarity hypothesis there.) *)
Theorem C05_sampler_is_marginal_over_loss_modes :
  forall b n l (U : @mat C) hin input d,
    0 < n -> length hin <= n ->
    sampler_dist rops b 0%R n l U hin input = Ok d ->
    exists fi, add_heralds_to_state input hin = Ok fi /\ length fi = n /\
      forall k, length k = n -> osum k <= osum (znat fi) -> (l = 0 -> osum k = osum (znat fi)) ->
        (lunit cops (n + l) U \/ 0 < osum k \/ osum (znat fi) = 0) ->
        pd_val rops d k =
        suml rops (loss_cfgs l (osum (znat fi) - osum k))
             (fun ls => prob_of rops U (znat fi ++ repeat 0 l) (k ++ ls)).
Proof. exact sampler_marginal. Qed.
Print Assumptions C05_sampler_is_marginal_over_loss_modes.

(* ---- Analyzer: which outputs are listed ---- *)
(* an output is listed iff it is a candidate (m modes; the photon number of the
   first input, heralds excluded, or at most that many for a lossy circuit) and
   passes the post-selection *)
Theorem C05_analyzer_lists_exactly_the_postselected_outputs :
  forall (K : Type) (o : ops K), StarRing o ->
  forall n l (U : @mat (K * K)) hin hout ps inputs expected r,
    analyze o n l U hin hout ps inputs expected = Ok r ->
    exists i0, hd_error inputs = Some i0 /\
      forall x, In x (ar_outputs r) <->
                exists c, x = zs c /\ length c = n - length hin /\ osum c <= Z.to_nat (zsum i0) /\
                          (l = 0 -> osum c = Z.to_nat (zsum i0)) /\ ps x = Ok true.
Proof. exact (fun K o SR => @analyze_outputs_iff K o SR). Qed.
Print Assumptions C05_analyzer_lists_exactly_the_postselected_outputs.

(* analyze = guard on the number of heralds, then the body *)
Theorem C05_analyze_is_guard_then_body :
  forall (K : Type) (o : ops K) n l (U : @mat (K * K)) hin hout ps inputs expected,
    analyze o n l U hin hout ps inputs expected =
    if Nat.eqb (length hin) (length hout) then analyze_body o n l U hin hout ps inputs expected else Err OtherError.
Proof. exact (fun K o n l U hin hout ps inputs expected =>
                match Nat.eqb (length hin) (length hout) as b
                      return ((if negb b then Err OtherError else analyze_body o n l U hin hout ps inputs expected) =
                              (if b then analyze_body o n l U hin hout ps inputs expected else Err OtherError))
                with true => eq_refl | false => eq_refl end). Qed.
Print Assumptions C05_analyze_is_guard_then_body.

(* ---- Analyzer: every entry, performance, error rate (any scalar ring) ---- *)
(* entry (input, output) = sum over the loss-mode occupations holding the lost
   photons of prob_of(full input, full output ++ occupation); performance = sum
   of the array / number of inputs; error_rate as computed by an_error_rate *)
Theorem C05_analyzer_result :
  forall (K : Type) (o : ops K), StarRing o ->
  forall n l (U : @mat (K * K)) hin hout ps inputs expected r,
    analyze o n l U hin hout ps inputs expected = Ok r ->
    length hout = length hin /\
    exists fins,
      an_process_inputs (n - length hin) l hin inputs = Ok fins /\
      n - length hin <> 0 /\
      ar_outputs r = map zs (filter (fun c => ps_acc ps (zs c))
                                    (an_candidates (n - length hin) l (an_nphotons inputs))) /\
      ar_outputs r <> [] /\
      Forall2 (fun x fo => add_heralds_to_state x hout = Ok fo) (ar_outputs r) (ar_full r) /\
      Forall2 (fun fin row =>
                 Forall2 (fun fo p => osum (znat fo) <= osum fin /\ (l = 0 -> osum (znat fo) = osum fin) /\
                                      p = entry_val (o:=o) l U fin (znat fo))
                         (ar_full r) row)
              fins (ar_probs r) /\
      ar_perf r = kdivn o (ksum o (map (ksum o) (ar_probs r))) (length inputs) /\
      match expected with
      | None => ar_err r = None
      | Some e => exists x, ar_err r = Some x /\ an_error_rate o (ar_probs r) inputs (ar_outputs r) e = Ok x
      end.
Proof. exact (fun K o SR => @analyze_spec K o SR). Qed.
Print Assumptions C05_analyzer_result.

(* ---- analyzer = sampler ---- *)
(* for every circuit matrix, heralds, loss modes, post-selection and input list
   the Analyzer accepts: the Sampler accepts every input and the row of input i
   is the Sampler's probability of each listed output with its heralds inserted.
   Guard: U_full unitary (always, C01) or no listed output is the vacuum. *)
Theorem C05_analyzer_eq_sampler :
  forall b n l (U : @mat C) hin hout ps inputs expected r,
    0 < n -> length hin <= n ->
    analyze rops n l U hin hout ps inputs expected = Ok r ->
    (lunit cops (n + l) U \/ Forall (fun fo => 0 < osum (znat fo)) (ar_full r)) ->
    Forall2 (fun i row => sampler_accepts b n l U hin i /\
                          row = map (fun fo => sampler_p b n l U hin i (znat fo)) (ar_full r))
            inputs (ar_probs r).
Proof. exact analyze_eq_sampler. Qed.
Print Assumptions C05_analyzer_eq_sampler.

(* performance = mean over the inputs of the accepted total (of the Sampler's probabilities) *)
Theorem C05_performance_is_mean_accepted_total :
  forall b n l (U : @mat C) hin hout ps inputs expected r,
    0 < n -> length hin <= n ->
    analyze rops n l U hin hout ps inputs expected = Ok r ->
    (lunit cops (n + l) U \/ Forall (fun fo => 0 < osum (znat fo)) (ar_full r)) ->
    inputs <> [] /\
    ar_perf r = (suml rops (ar_probs r) (fun row => ksum rops row) / IZR (Z.of_nat (length inputs)))%R /\
    ar_perf r = (suml rops inputs (fun i => suml rops (ar_full r) (fun fo => sampler_p b n l U hin i (znat fo)))
                 / IZR (Z.of_nat (length inputs)))%R.
Proof. exact analyze_performance. Qed.
Print Assumptions C05_performance_is_mean_accepted_total.

(* error_rate = 1 - mean_i ( sum_{o in expected(i), o listed} p_io / sum_o p_io ),
   the sum running over the SET of expected outputs ([frac_list] sums over
   [st_dedupe (expected i)], which holds every state of the list exactly once:
   C05_expected_list_is_used_as_a_set), for EVERY expected list, repeats included.
   The code has NO guard on the row total: a zero row with a listed expected
   output gives nan (= None); a missing key of `expected` is a KeyError. *)
Theorem C05_error_rate_is_one_minus_expected_fraction :
  forall n l (U : @mat C) hin hout ps inputs e r,
    analyze rops n l U hin hout ps inputs (Some e) = Ok r ->
    (forall s, In s inputs -> exists x, exp_lookup e s = Some x) /\
    exists x, ar_err r = Some x /\
      match x with
      | Some v => v = (1 - ksum rops (frac_list (o:=rops) inputs (ar_probs r) (ar_outputs r) e)
                           / IZR (Z.of_nat (length inputs)))%R
      | None => exists row, In row (ar_probs r) /\ ksum rops row = 0%R
      end.
Proof. exact analyze_error_rate. Qed.
Print Assumptions C05_error_rate_is_one_minus_expected_fraction.

(* ---- quick sampler = sampler conditioned and renormalised ---- *)
(* candidates: the input's modes, the input's photon number (no photon lost),
   non-negative occupations, max <= 1 for threshold detection, post-selection *)
Theorem C05_quick_sampler_candidates :
  forall ps pc input x,
    length input <> 0 -> Forall (fun v => (0 <= v)%Z) input ->
    (In x (qs_cands ps pc input) <->
     (length x = length input /\ Forall (fun v => (0 <= v)%Z) x /\ zsum x = zsum input /\
      (pc = true \/ (zmax x <= 1)%Z)) /\ ps x = Ok true).
Proof. exact qs_cands_iff. Qed.
Print Assumptions C05_quick_sampler_candidates.

(* the threshold filter "max <= 1" is "at most one photon per mode", for every
   state (the vacuum included, fix 3ccdb7f) *)
Theorem C05_threshold_filter_is_at_most_one_photon_per_mode :
  forall s, (zmax s <= 1)%Z <-> Forall (fun v => (v <= 1)%Z) s.
Proof. exact zmax_le1_iff. Qed.
Print Assumptions C05_threshold_filter_is_at_most_one_photon_per_mode.

(* the distribution: candidates of positive Sampler probability (heralds
   inserted = heralds satisfied, herald modes removed), each with its Sampler
   probability divided by the total over all candidates.  The code never
   divides by zero: an empty dictionary raises EmulatorError instead. *)
Theorem C05_quick_sampler_is_conditioned_sampler :
  forall b n l (U : @mat C) hin hout ps pc input pd,
    0 < n -> length hin <= n -> length hout = length hin ->
    quick_sampler rops 0%R n l U hin hout ps pc input = Ok pd ->
    let cands := qs_cands ps pc input in
    let w := qs_sw b n l U hin hout input in
    let W := suml rops cands w in
    sampler_accepts b n l U hin input /\ (0 < W)%R /\
    pd = map (fun x => (x, (w x / W)%R)) (filter (fun x => klt rops 0%R (w x)) cands).
Proof. exact quick_sampler_spec. Qed.
Print Assumptions C05_quick_sampler_is_conditioned_sampler.

(* ---- squared Simulator amplitudes = Sampler probabilities, lossless ---- *)
(* entries of Simulator.simulate are (permanent, factor) with amplitude =
   permanent / sqrt(factor) *)
Theorem C05_sim_sq_eq_sampler :
  forall b n (U : @mat C) hin hout inputs outputs outs rows,
    0 < n - length hin -> herald_ok n hin -> herald_ok n hout ->
    length hout = length hin -> hd_photons hin = hd_photons hout ->
    simulate rops n 0 U hin hout (n - length hin) inputs outputs = Ok (outs, rows) ->
    Forall2 (fun i row =>
               sampler_accepts b n 0 U hin i /\
               Forall2 (fun x e => exists fo, add_heralds_to_state x hout = Ok fo /\
                                   (cnorm2 rops (fst e) / IZR (Z.of_nat (snd e)))%R = sampler_p b n 0 U hin i (znat fo))
                       outs row)
            inputs rows.
Proof. exact sim_sq_eq_sampler. Qed.
Print Assumptions C05_sim_sq_eq_sampler.

(* ---- totality ---- *)
(* analyze() works for ANY well-formed heralds (photons or not, input mode = or
   <> output mode; a circuit's two dictionaries always have the same size and
   hold the same photons) on every input list the Simulator accepts; documented
   refusals: a post-selection that keeps no candidate (ValueError), an
   `expected` that misses an input (KeyError) *)
Theorem C05_analyzer_total :
  forall (K : Type) (o : ops K) n l (U : @mat (K * K)) hin hout ps inputs expected,
    0 < n - length hin -> herald_ok n hin -> herald_ok n hout ->
    length hout = length hin -> hd_photons hin = hd_photons hout ->
    inputs <> [] -> Forall (valid_state (n - length hin)) inputs -> all_equal (map zsum inputs) = true ->
    (forall s, exists b, ps s = Ok b) ->
    (exists c, In c (an_candidates (n - length hin) l (an_nphotons inputs)) /\ ps (zs c) = Ok true) ->
    match expected with
    | Some e => forall s, In s inputs -> exp_lookup e s <> None
    | None => True
    end ->
    exists r, analyze o n l U hin hout ps inputs expected = Ok r.
Proof. exact (fun K o => @analyzer_total K o). Qed.
Print Assumptions C05_analyzer_total.

(* regression witnesses for the two repaired defects ([analyze_pinned] = the old
   code): F6, herald photons counted in the photon number of the output
   enumeration: a herald carrying a photon made the Analyzer raise ValueError
   (PhotonNumberError with a loss mode); N14, the guard compared the herald
   dictionaries: a herald with input mode <> output mode was refused.  In both
   cases the Simulator and the Sampler accept, and the repaired Analyzer too. *)
Theorem C05_analyzer_total_pinned_refuted :
  forall (K : Type) (o : ops K) (U : @mat (K * K)),
    (exists r, simulate o 2 0 U [(1, 1%Z)] [(1, 1%Z)] 1 [[1%Z]] None = Ok r) /\
    (exists d, sampler_dist o Permanent (k0 o) 2 0 U [(1, 1%Z)] [1%Z] = Ok d) /\
    analyze_pinned o 2 0 U [(1, 1%Z)] [(1, 1%Z)] (fun _ => Ok true) [[1%Z]] = Err ValueError /\
    analyze_pinned o 2 1 U [(1, 1%Z)] [(1, 1%Z)] (fun _ => Ok true) [[1%Z]] = Err PhotonNumberError /\
    (exists r, analyze o 2 0 U [(1, 1%Z)] [(1, 1%Z)] (fun _ => Ok true) [[1%Z]] None = Ok r) /\
    (exists r, analyze o 2 1 U [(1, 1%Z)] [(1, 1%Z)] (fun _ => Ok true) [[1%Z]] None = Ok r) /\
    (exists r, simulate o 2 0 U [(1, 0%Z)] [(0, 0%Z)] 1 [[1%Z]] None = Ok r) /\
    (exists d, sampler_dist o Permanent (k0 o) 2 0 U [(1, 0%Z)] [1%Z] = Ok d) /\
    analyze_pinned o 2 0 U [(1, 0%Z)] [(0, 0%Z)] (fun _ => Ok true) [[1%Z]] = Err OtherError /\
    (exists r, analyze o 2 0 U [(1, 0%Z)] [(0, 0%Z)] (fun _ => Ok true) [[1%Z]] None = Ok r).
Proof. exact (fun K o => @analyzer_total_pinned_refuted K o). Qed.
Print Assumptions C05_analyzer_total_pinned_refuted.

(* the QuickSampler works on every circuit/input the Simulator accepts (any
   heralds, lossy circuits included) up to its two documented refusals *)
Theorem C05_quick_sampler_total :
  forall (K : Type) (o : ops K) eps n l (U : @mat (K * K)) hin hout ps pc input,
    0 < n - length hin -> herald_ok n hin -> herald_ok n hout ->
    length hout = length hin -> hd_photons hin = hd_photons hout ->
    valid_state (n - length hin) input ->
    (forall s, exists b, ps s = Ok b) ->
    (exists x fi, In x (qs_cands ps pc input) /\ add_heralds_to_state input hin = Ok fi /\
                  klt o eps (qs_w o l U hout (znat fi ++ repeat 0 l) x) = true) ->
    exists pd, quick_sampler o eps n l U hin hout ps pc input = Ok pd.
Proof. exact (fun K o => @quick_sampler_total K o). Qed.
Print Assumptions C05_quick_sampler_total.

(* zero total: every candidate at or below the threshold -> EmulatorError, no division *)
Theorem C05_quick_sampler_zero_total_is_an_error :
  forall (K : Type) (o : ops K) eps n l (U : @mat (K * K)) hin hout ps pc input outs fi raw,
    qs_new (n - length hin) input = Ok tt ->
    qs_candidates ps pc input = Ok outs ->
    add_heralds_to_state input hin = Ok fi ->
    qs_raw o eps l U hout (znat fi ++ repeat 0 l) outs = Ok raw ->
    (forall x, In x outs -> klt o eps (qs_w o l U hout (znat fi ++ repeat 0 l) x) = false) ->
    quick_sampler o eps n l U hin hout ps pc input = Err OtherError.
Proof. exact (fun K o => @quick_sampler_zero_total K o). Qed.
Print Assumptions C05_quick_sampler_zero_total_is_an_error.

(* regression witness for the defect repaired by 3ccdb7f: with the old filter
   max(s) == 1 ([qs_candidates_pinned]) a vacuum input with threshold detectors
   left no candidate (ValueError) although the Sampler accepts it; the repaired
   filter keeps the vacuum, and the quick sampler then returns a distribution
   (covered by C05_quick_sampler_is_conditioned_sampler) *)
Theorem C05_quick_sampler_vacuum_threshold_pinned_refuted :
  forall (K : Type) (o : ops K) eps (U : @mat (K * K)),
    (exists d, sampler_dist o Permanent eps 2 0 U [] [0%Z; 0%Z] = Ok d) /\
    qs_candidates_pinned (fun _ => Ok true) false [0%Z; 0%Z] = Err ValueError /\
    qs_candidates (fun _ => Ok true) false [0%Z; 0%Z] = Ok [[0%Z; 0%Z]].
Proof. exact (fun K o => @quick_sampler_vacuum_threshold_pinned_refuted K o). Qed.
Print Assumptions C05_quick_sampler_vacuum_threshold_pinned_refuted.

Theorem C05_quick_sampler_accepts_vacuum_with_threshold_detectors :
  forall U : @mat C,
    exists pd, quick_sampler rops 0%R 2 0 U [] [] (fun _ => Ok true) false [0%Z; 0%Z] = Ok pd.
Proof. exact quick_sampler_vacuum_threshold_accepted. Qed.
Print Assumptions C05_quick_sampler_accepts_vacuum_with_threshold_detectors.

Theorem C05_expected_list_is_used_as_a_set :
  forall l : list state, NoDup (st_dedupe l) /\ forall x, In x (st_dedupe l) <-> In x l.
Proof. exact (fun l => conj (st_dedupe_nodup l) (st_dedupe_in l)). Qed.
Print Assumptions C05_expected_list_is_used_as_a_set.

(* regression witness for the defect repaired by 23dccaf ([an_row_error_pinned] =
   the old loop over the list itself): a state listed twice was subtracted twice
   (row [1; 0], listed outputs [x; y], expected [x; x]: -1 instead of 0); the
   repaired loop gives the same value as for [x] *)
Theorem C05_error_rate_duplicate_expected_pinned_refuted :
  forall x y : state, st_eqb x y = false ->
    an_row_error_pinned rops [1; 0]%R [x; y] [x; x] = Some (1 - 1 - 1)%R /\
    an_row_error rops [1; 0]%R [x; y] [x; x] = Some (1 - 1)%R /\
    an_row_error rops [1; 0]%R [x; y] [x] = Some (1 - 1)%R.
Proof. exact error_rate_duplicate_pinned_refuted. Qed.
Print Assumptions C05_error_rate_duplicate_expected_pinned_refuted.

(* ---- the hypotheses are satisfiable ---- *)
Example C05_herald_ok_nonvacuous : herald_ok 3 [(2, 1%Z); (0, 0%Z)].
Proof.
  split; [constructor; [simpl; intros [H|[]]; discriminate|constructor; [intros []|constructor]]|]. split.
  - intros k [<-|[<-|[]]]; simpl; lia.
  - repeat constructor; simpl; lia.
Qed.

(* a lossy 3-mode circuit, a herald carrying a photon with input mode 1 and
   output mode 2, two one-photon inputs: the Analyzer (over the reals)
   accepts, so C05_analyzer_eq_sampler / C05_performance_... speak about something *)
Example C05_analyzer_accepts_nonvacuous :
  forall U : @mat C, exists r, analyze rops 3 1 U [(1, 1%Z)] [(2, 1%Z)] (fun _ => Ok true) [[1%Z; 0%Z]; [0%Z; 1%Z]] None = Ok r.
Proof.
  intros U. apply (analyzer_total rops 3 1 U [(1, 1%Z)] [(2, 1%Z)] (fun _ => Ok true) [[1%Z; 0%Z]; [0%Z; 1%Z]] None).
  - simpl. lia.
  - split; [constructor; [intros []|constructor]|split; [intros k [<-|[]]; simpl; lia|repeat constructor; simpl; lia]].
  - split; [constructor; [intros []|constructor]|split; [intros k [<-|[]]; simpl; lia|repeat constructor; simpl; lia]].
  - reflexivity.
  - reflexivity.
  - discriminate.
  - repeat constructor; simpl; lia.
  - reflexivity.
  - intros s. exists true. reflexivity.
  - exists [1; 0]. split; [simpl; tauto|reflexivity].
  - exact I.
Qed.

Example C05_identity_is_unitary_nonvacuous : forall n, lunit cops n (mid cops).
Proof. exact (fun n => lunit_mid (o:=cops) n). Qed.
