From LW Require Import Model.Analyzer.
