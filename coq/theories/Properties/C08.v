(* C08 — operations never modify their arguments; failed calls change nothing.
   Statements only.

   Part 1 (functional pool, Model/World.v): every construction call changes at most its target
   object and nothing at all when it raises.  A functional pool cannot exhibit aliasing, so these
   three theorems are about the validate-before-append order and about add working on a copy.

   Part 2 (reference-level heap model, Model/Heap.v): circuits hold REFERENCES to component cells,
   list objects and dict objects; copy() / + share component cells between circuits, add copies
   each component before it shifts it, unpack_groups aliases the external herald dicts to the
   full ones.  Proved for every call of the construction API (Circuit(n), Unitary, bs, ps, loss,
   barrier, mode_swaps, herald, add grouped or not, +, copy, unpack_groups) and every history:
     * REFINEMENT: reading every circuit through the heap ([abs]) commutes with the call, and the
       outcomes agree - so what is proved about Model/World.v / Circuit.v transfers;
     * OWNERSHIP / SEPARATION invariant [inv] of every reachable heap: a circuit's list object, its
       four herald dicts (the external ones may alias the full ones of the SAME circuit) and its
       internal-modes list are private to it; component cells, group lists and group dicts are
       nobody's private cell (they may be shared freely); groups do not nest;
     * WRITE DISCIPLINE: every write of a call goes to a cell allocated during that call or to a
       private cell of its target; hence no cell reachable from any other circuit is written
       (args_unchanged at the heap level), a call that raises writes to no pre-existing cell at
       all (failed_call_no_write), shared component cells are never written after the call that
       created them;
     * SHARING: which references copy() and + share.
   The rewrite calls compress_mode_swaps / remove_non_adjacent_bs / copy(freeze_parameters=True)
   (programs of [op9], Model/Rewrite.v) are covered as well: [hstep9] refines [step9], keeps the
   invariant and writes to no pre-existing cell of any circuit other than its target.

   That the real objects have the sharing structure of the heap model is what the correspondence
   run checks: after every call of a generated history the value of EVERY live object is compared
   with its value before the call, and the identity structure (`is`) of the real lists, dicts and
   components with the addresses of the heap model (harness/c08.py, Exec/RunC08.v). *)
From Coq Require Import ZArith List Bool Arith Lia.
From Coq Require Import PArith.
From LW Require Import Base.Sx Base.Num Base.Mat Model.Circuit Model.World Proofs.WorldP
     Model.Rewrite Model.Heap Proofs.HeapP Proofs.HeapP2 Proofs.HeapP3 Proofs.HeapMain Proofs.HeapRw Proofs.HeapRw3.
Import ListNotations.

Theorem C08_call_changes_only_its_target :
  forall (K : Type) (o : ops K) (e : env (K:=K)) (w : world (K:=K)) (x : op (K:=K)) (j : nat),
    j <> target x -> wget (fst (step o e w x)) j = wget w j.
Proof. exact (fun K o => @step_frame K o). Qed.
Print Assumptions C08_call_changes_only_its_target.

Theorem C08_failed_call_changes_nothing :
  forall (K : Type) (o : ops K) (e : env (K:=K)) (w : world (K:=K)) (x : op (K:=K)) err,
    snd (step o e w x) = Err err -> fst (step o e w x) = w.
Proof. exact (fun K o => @step_err_unchanged K o). Qed.
Print Assumptions C08_failed_call_changes_nothing.

Theorem C08_untargeted_objects_stable_over_histories :
  forall (K : Type) (o : ops K) (e : env (K:=K)) (p : list (op (K:=K))) (w : world (K:=K)) (j : nat),
    (forall x, In x p -> j <> target x) -> wget (fst (run o e w p)) j = wget w j.
Proof. exact (fun K o => @run_frame K o). Qed.
Print Assumptions C08_untargeted_objects_stable_over_histories.

(* non-vacuity: an add targets the parent, not the circuit that is added *)
Example C08_add_targets_parent :
  forall (K : Type), target (OAdd (K:=K) 3 5 0%Z true) = 3.
Proof. reflexivity. Qed.

(* ======================= Part 2: the reference-level heap model ======================= *)

(* (a) refinement, one call *)
Theorem C08_heap_call_refines_functional_call :
  forall (K : Type) (o : ops K) (e : env (K:=K)) (hw : hworld (K:=K)) (x : op (K:=K)),
    inv hw ->
    inv (fst (hstep o e hw x)) /\
    abs (fst (hstep o e hw x)) = fst (step o e (abs hw) x) /\
    snd (hstep o e hw x) = snd (step o e (abs hw) x).
Proof. exact (fun K o => @hstep_refines K o). Qed.
Print Assumptions C08_heap_call_refines_functional_call.

(* (a) refinement, every program from the empty world; the invariant holds along the way *)
Theorem C08_heap_history_refines_functional_history :
  forall (K : Type) (o : ops K) (e : env (K:=K)) (pr : list (op (K:=K))),
    inv (fst (hrun o e hw_empty pr)) /\
    abs (fst (hrun o e hw_empty pr)) = fst (run o e [] pr) /\
    snd (hrun o e hw_empty pr) = snd (run o e [] pr).
Proof. exact (fun K o e pr => @hrun_refines K o e pr hw_empty (@inv_empty K)). Qed.
Print Assumptions C08_heap_history_refines_functional_history.

(* (b) the ownership / separation invariant holds in every reachable heap world *)
Theorem C08_reachable_ownership_invariant :
  forall (K : Type) (o : ops K) (e : env (K:=K)) (hw : hworld (K:=K)),
    hreachable o e hw -> inv hw.
Proof. exact (fun K o => @hreachable_inv K o). Qed.
Print Assumptions C08_reachable_ownership_invariant.

(* (b) every write goes to a cell allocated during the call or to a private cell of the target *)
Theorem C08_writes_only_new_cells_or_target_private_cells :
  forall (K : Type) (o : ops K) (e : env (K:=K)) (hw : hworld (K:=K)) (x : op (K:=K)),
    inv hw ->
    (forall a, In a (h_log (hw_heap (fst (hstep o e hw x)))) ->
               (h_next (hw_heap hw) <= a)%positive \/ In a (target_priv (hw_pool hw) x)) /\
    (forall a, (a < h_next (hw_heap hw))%positive -> ~ In a (target_priv (hw_pool hw) x) ->
               hget (hw_heap (fst (hstep o e hw x))) a = hget (hw_heap hw) a) /\
    (h_next (hw_heap hw) <= h_next (hw_heap (fst (hstep o e hw x))))%positive.
Proof. exact (fun K o => @hstep_writes K o). Qed.
Print Assumptions C08_writes_only_new_cells_or_target_private_cells.

(* (b) args_unchanged at the heap level *)
Theorem C08_args_unchanged_no_reachable_cell_written :
  forall (K : Type) (o : ops K) (e : env (K:=K)) (hw : hworld (K:=K)) (x : op (K:=K)) (j : nat) (cj : hcirc),
    inv hw -> pget (hw_pool hw) j = Some cj -> j <> target x ->
    pget (hw_pool (fst (hstep o e hw x))) j = Some cj /\
    (forall a, In a (reach (hw_heap hw) cj) ->
               ~ In a (h_log (hw_heap (fst (hstep o e hw x)))) /\
               hget (hw_heap (fst (hstep o e hw x))) a = hget (hw_heap hw) a) /\
    reach (hw_heap (fst (hstep o e hw x))) cj = reach (hw_heap hw) cj /\
    abs_circ (hw_heap (fst (hstep o e hw x))) cj = abs_circ (hw_heap hw) cj.
Proof. exact (fun K o => @hstep_args_unchanged K o). Qed.
Print Assumptions C08_args_unchanged_no_reachable_cell_written.

(* (b) failed_call_no_write *)
Theorem C08_failed_call_no_write :
  forall (K : Type) (o : ops K) (e : env (K:=K)) (hw : hworld (K:=K)) (x : op (K:=K)) (y : err),
    inv hw -> snd (hstep o e hw x) = Err y ->
    hw_pool (fst (hstep o e hw x)) = hw_pool hw /\
    (forall a, In a (h_log (hw_heap (fst (hstep o e hw x)))) -> (h_next (hw_heap hw) <= a)%positive) /\
    (forall a, (a < h_next (hw_heap hw))%positive -> hget (hw_heap (fst (hstep o e hw x))) a = hget (hw_heap hw) a) /\
    abs (fst (hstep o e hw x)) = abs hw.
Proof. exact (fun K o => @hstep_failed_no_write K o). Qed.
Print Assumptions C08_failed_call_no_write.

(* (b) over histories: an object that is never a target is the same object afterwards and none of the
   cells it reaches has changed (later edits of a sub-circuit never reach a parent, and vice versa) *)
Theorem C08_untargeted_objects_never_written_over_histories :
  forall (K : Type) (o : ops K) (e : env (K:=K)) (pr : list (op (K:=K))) (hw : hworld (K:=K)) (j : nat) (cj : hcirc),
    inv hw -> pget (hw_pool hw) j = Some cj -> (forall x, In x pr -> j <> target x) ->
    pget (hw_pool (fst (hrun o e hw pr))) j = Some cj /\
    (forall a, In a (reach (hw_heap hw) cj) -> hget (hw_heap (fst (hrun o e hw pr))) a = hget (hw_heap hw) a) /\
    reach (hw_heap (fst (hrun o e hw pr))) cj = reach (hw_heap hw) cj /\
    abs_circ (hw_heap (fst (hrun o e hw pr))) cj = abs_circ (hw_heap hw) cj.
Proof. exact (fun K o => @hrun_args_unchanged K o). Qed.
Print Assumptions C08_untargeted_objects_never_written_over_histories.

(* (c) sharing after copy(): a new list object with the SAME component references, new private cells *)
Theorem C08_sharing_copy :
  forall (K : Type) (o : ops K) (e : env (K:=K)) (hw : hworld (K:=K)) (new a : nat) (ca : hcirc),
    inv hw -> pget (hw_pool hw) a = Some ca ->
    exists c', pget (hw_pool (fst (hstep o e hw (OCopy new a)))) new = Some c' /\
               rd_list (hw_heap (fst (hstep o e hw (OCopy new a)))) (hc_spec c') = rd_list (hw_heap hw) (hc_spec ca) /\
               Forall (fun b => (h_next (hw_heap hw) <= b)%positive) (priv c') /\ NoDup (priv c').
Proof. exact (fun K o => @sharing_copy K o). Qed.
Print Assumptions C08_sharing_copy.

(* (c) sharing after a + b: a new list object holding the references of a, then those of b *)
Theorem C08_sharing_plus :
  forall (K : Type) (o : ops K) (e : env (K:=K)) (hw : hworld (K:=K)) (new a b : nat),
    inv hw -> snd (hstep o e hw (OPlus new a b)) = Ok tt ->
    exists ca cb c', pget (hw_pool hw) a = Some ca /\ pget (hw_pool hw) b = Some cb /\
               pget (hw_pool (fst (hstep o e hw (OPlus new a b)))) new = Some c' /\
               rd_list (hw_heap (fst (hstep o e hw (OPlus new a b)))) (hc_spec c') =
                 rd_list (hw_heap hw) (hc_spec ca) ++ rd_list (hw_heap hw) (hc_spec cb) /\
               Forall (fun x => (h_next (hw_heap hw) <= x)%positive) (priv c') /\ NoDup (priv c').
Proof. exact (fun K o => @sharing_plus K o). Qed.
Print Assumptions C08_sharing_plus.

(* (c) sharing after add: every entry of the parent's list is one it had before, or a cell made by this
   very call - add creates no sharing between the parent and the added circuit (or any other circuit);
   together with C08_args_unchanged_no_reachable_cell_written: the added circuit is left exactly as it was *)
Theorem C08_sharing_add :
  forall (K : Type) (o : ops K) (e : env (K:=K)) (hw : hworld (K:=K)) (id sub : nat) (mode : Z) (g : bool) (c : hcirc),
    inv hw -> pget (hw_pool hw) id = Some c -> snd (hstep o e hw (OAdd id sub mode g)) = Ok tt ->
    exists c', pget (hw_pool (fst (hstep o e hw (OAdd id sub mode g)))) id = Some c' /\
               forall a, In a (rd_list (hw_heap (fst (hstep o e hw (OAdd id sub mode g)))) (hc_spec c')) ->
                         In a (rd_list (hw_heap hw) (hc_spec c)) \/ (h_next (hw_heap hw) <= a)%positive.
Proof. exact (fun K o => @sharing_add K o). Qed.
Print Assumptions C08_sharing_add.

(* the rewrite calls as well: compress_mode_swaps, remove_non_adjacent_bs, copy(freeze_parameters=True) *)
Theorem C08_every_call_incl_rewrites_refines_and_leaves_other_circuits_alone :
  forall (K : Type) (o : ops K) (e : env (K:=K)) (hw : hworld (K:=K)) (x : op9 (K:=K)),
    inv hw ->
    inv (fst (hstep9 o e hw x)) /\
    abs (fst (hstep9 o e hw x)) = fst (step9 o true e (abs hw) x) /\
    snd (hstep9 o e hw x) = snd (step9 o true e (abs hw) x) /\
    (forall j cj, pget (hw_pool hw) j = Some cj -> j <> target9 x ->
       pget (hw_pool (fst (hstep9 o e hw x))) j = Some cj /\
       forall a, In a (reach (hw_heap hw) cj) ->
         ~ In a (h_log (hw_heap (fst (hstep9 o e hw x)))) /\
         hget (hw_heap (fst (hstep9 o e hw x))) a = hget (hw_heap hw) a).
Proof. exact (fun K o => @hstep9_refines K o). Qed.
Print Assumptions C08_every_call_incl_rewrites_refines_and_leaves_other_circuits_alone.

Theorem C08_heap_history_with_rewrites_refines_functional_history :
  forall (K : Type) (o : ops K) (e : env (K:=K)) (pr : list (op9 (K:=K))),
    inv (fst (hrun9 o e hw_empty pr)) /\
    abs (fst (hrun9 o e hw_empty pr)) = fst (run9f o e [] pr) /\
    snd (hrun9 o e hw_empty pr) = snd (run9f o e [] pr).
Proof. exact (fun K o e pr => @hrun9_refines K o e pr hw_empty (@inv_empty K)). Qed.
Print Assumptions C08_heap_history_with_rewrites_refines_functional_history.

(* ----------------------- non-vacuity: a concrete history ----------------------- *)
Definition zops : ops Z := mkOps Z 0%Z 1%Z Z.add Z.mul Z.sub Z.opp (fun x => x) (fun x => x) Z.eqb Z.leb (fun z => z).
Definition zenv : env (K:=Z) := fun _ => (0%Z, 0%Z, 0%Z).
Definition one : val (K:=Z) := Lit (1%Z, 1%Z, 0%Z).      (* reflectivity 1 *)
Definition nol : val (K:=Z) := Lit (0%Z, 1%Z, 0%Z).      (* loss 0 *)

(* 0 = heralded sub-circuit; 1 = parent; 4, 5 = plain circuit and its copy(); 6 = 4 + 5;
   the sub is added twice to the parent (the second time an ancilla of the first lies in the span),
   then 6 (which shares every component with 4 and 5) is added ungrouped; one call is rejected *)
Definition demo : list (op (K:=Z)) :=
  [ ONew 0 3; OBs 0 0%Z (Some 1%Z) one nol Rx; OHerald 0 1 2%Z None;
    ONew 1 5; OBs 1 0%Z (Some 1%Z) one nol Rx;
    OAdd 1 0 0%Z false; OAdd 1 0 1%Z false;
    OBs 1 9%Z None one nol Rx;
    ONew 4 2; OBs 4 0%Z (Some 1%Z) one nol Hv; OCopy 5 4; OPlus 6 4 5;
    OPs 5 0%Z one nol;
    OAdd 1 6 0%Z false; OUnpack 1 ].

Example C08_demo_outcomes :
  snd (hrun zops zenv hw_empty demo) =
  [Ok tt; Ok tt; Ok tt; Ok tt; Ok tt; Ok tt; Ok tt; Err ModeRangeError; Ok tt; Ok tt; Ok tt; Ok tt; Ok tt; Ok tt; Ok tt].
Proof. vm_compute. reflexivity. Qed.

(* the hypothesis [inv hw] of the theorems above holds in a world with sharing, ancillas and groups *)
Example C08_demo_invariant : inv (fst (hrun zops zenv hw_empty demo)).
Proof. apply (C08_reachable_ownership_invariant Z zops zenv). exists demo. reflexivity. Qed.

Definition spec_refs (hw : hworld (K:=Z)) (id : nat) : list addr :=
  match pget (hw_pool hw) id with Some c => rd_list (hw_heap hw) (hc_spec c) | None => [] end.

(* 5 = 4.copy() got a new list with the references of 4 (and then one more entry of its own);
   6 = 4 + 5 holds the reference of 4 twice: the component cell is shared three ways *)
Example C08_demo_sharing :
  let hw := fst (hrun zops zenv hw_empty demo) in
  spec_refs hw 6 = spec_refs hw 4 ++ spec_refs hw 4 /\
  firstn 1 (spec_refs hw 5) = spec_refs hw 4 /\ length (spec_refs hw 5) = 2.
Proof. vm_compute. repeat split. Qed.

(* the parent shares no component cell with the circuits that were added to it *)
Example C08_demo_parent_shares_nothing :
  let hw := fst (hrun zops zenv hw_empty demo) in
  forallb (fun a => negb (existsb (Pos.eqb a) (spec_refs hw 0 ++ spec_refs hw 4 ++ spec_refs hw 5 ++ spec_refs hw 6)))
          (spec_refs hw 1) = true /\ length (spec_refs hw 1) = 5.
Proof. vm_compute. split; reflexivity. Qed.

(* the rejected call of the history satisfies the hypothesis of C08_failed_call_no_write *)
Example C08_demo_rejected_call :
  snd (hstep zops zenv (fst (hrun zops zenv hw_empty (firstn 7 demo))) (OBs 1 9%Z None one nol Rx)) = Err ModeRangeError.
Proof. vm_compute. reflexivity. Qed.

(* a history with rewrite calls: 5 = 4.copy(); compress on the copy must not touch 4 *)
Definition demo9 : list (op9 (K:=Z)) :=
  [ Base (ONew 4 3); Base (OSwaps 4 [(0%Z, 1%Z); (1%Z, 0%Z)]); Base (OSwaps 4 [(1%Z, 2%Z); (2%Z, 1%Z)]);
    Base (OBs 4 0%Z (Some 2%Z) one nol Rx); Base (OCopy 5 4); OCompress 5; ONonAdj 4; OCopyFrozen 6 5 ].
Example C08_demo9 :
  let hw := fst (hrun9 zops zenv hw_empty demo9) in
  snd (hrun9 zops zenv hw_empty demo9) = [Ok tt; Ok tt; Ok tt; Ok tt; Ok tt; Ok tt; Ok tt; Ok tt] /\
  length (spec_refs hw 4) = 5 /\ length (spec_refs hw 5) = 2 /\ length (spec_refs hw 6) = 2 /\
  forallb (fun a => negb (existsb (Pos.eqb a) (spec_refs hw 4 ++ spec_refs hw 6))) (spec_refs hw 5) = true.
Proof. vm_compute. repeat split. Qed.
