(* C08 — operations never modify their arguments; failed calls change nothing.
   Statements only.  The model is a functional heap: these theorems say that the
   MODEL of every construction call (validate-before-append order transcribed
   from the code; add working on a copy) changes at most its target object and
   nothing at all when it raises.  That the real objects behave like the model
   (no hidden aliasing) is what the correspondence run checks: after every call
   of a generated history the observable state of EVERY live object is compared
   with the model's and with its own state before the call (harness/c08.py). *)
From Coq Require Import ZArith List Bool Arith Lia.
From LW Require Import Base.Sx Base.Num Base.Mat Model.Circuit Model.World Proofs.WorldP.
Import ListNotations.

Theorem C08_call_changes_only_its_target :
  forall (K : Type) (o : ops K) (e : env (K:=K)) (w : world (K:=K)) (x : op (K:=K)) (j : nat),
    j <> target x -> wget (fst (step o e w x)) j = wget w j.
Proof. exact (fun K o => @step_frame K o). Qed.
Print Assumptions C08_call_changes_only_its_target.

Theorem C08_failed_call_changes_nothing :
  forall (K : Type) (o : ops K) (e : env (K:=K)) (w : world (K:=K)) (x : op (K:=K)) err,
    snd (step o e w x) = Err err -> fst (step o e w x) = w.
Proof. exact (fun K o => @step_err_unchanged K o). Qed.
Print Assumptions C08_failed_call_changes_nothing.

Theorem C08_untargeted_objects_stable_over_histories :
  forall (K : Type) (o : ops K) (e : env (K:=K)) (p : list (op (K:=K))) (w : world (K:=K)) (j : nat),
    (forall x, In x p -> j <> target x) -> wget (fst (run o e w p)) j = wget w j.
Proof. exact (fun K o => @run_frame K o). Qed.
Print Assumptions C08_untargeted_objects_stable_over_histories.

(* non-vacuity: an add targets the parent, not the circuit that is added *)
Example C08_add_targets_parent :
  forall (K : Type), target (OAdd (K:=K) 3 5 0%Z true) = 3.
Proof. reflexivity. Qed.
