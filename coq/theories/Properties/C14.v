(* C14 — placeholder while the development is being built. *)
From Coq Require Import ZArith List.
From LW Require Import Base.Sx Model.Reck Proofs.ReckP.

Theorem C14_steps_2 : length (reck_steps 2) = 1.
Proof. exact reck_steps_length_2. Qed.
Print Assumptions C14_steps_2.
