(* C14 — Reck mapping reproduces any unitary; noise enters only through the error model.
   Statements only; every proof is [exact <lemma of Proofs/ReckP.v>].

   Reading guide.  Real scalars are Coq's [R], complex numbers are pairs [R * R]
   ([cplx rops]); [cisR x = (cos x, sin x)] is exp(i x).  [renv eps2 prec uprec2 ints unif norm]
   is the environment of the model over the reals: cos, sin, sqrt, floor and PI
   are the real functions; the thresholds (1e-20 squared, check_null precision,
   unitary precision squared) and the three numpy streams (integers, random,
   standard_normal) are arbitrary, so every theorem holds for all of them.
   [meq n A B] is equality of the n x n top-left blocks.
   [null_update n U T = U @ conj(T.T)], [flip n A = np.flip(A, axis=(0, 1))]. *)
From Coq Require Import ZArith List Bool Arith Lia Reals Lra.
From LW Require Import Base.Num Base.Sums Base.Mat Base.Sx Model.Reck Proofs.ReckP.
Import ListNotations.
Local Notation Cr := (cplx rops).
Local Notation mat := (@Mat.mat (R * R)).

(* ------------------------------------------------------------------------- *)
(* decomposition.py: bs_matrix                                               *)
(* ------------------------------------------------------------------------- *)

(* bs_matrix(mode1, mode2, theta, phi, n) is unitary for ALL real theta, phi *)
Theorem C14_bs_matrix_unitary :
  forall eps2 prec uprec2 ints unif norm (n m1 m2 : nat) (theta phi : R),
    m1 < n -> m2 < n -> m1 <> m2 ->
    unitary Cr n (bs_matrix rops (renv eps2 prec uprec2 ints unif norm) m1 m2 theta phi).
Proof. exact bs_unitary_R. Qed.
Print Assumptions C14_bs_matrix_unitary.

(* the unit cell emitted by Reck.map for step (i, j) with the default error model,
     barrier; ps(mode+1, phi); bs(mode); ps(mode, theta); bs(mode)      mode = n - j - 2,
   compiles to the mode-flipped bs_matrix(j, j+1, theta, phi) for all theta, phi
   (phase shifters carry the amplitudes exp(i theta), exp(i phi); reflectivity 1/2) *)
Theorem C14_unit_cell_is_bs_matrix :
  forall eps2 prec uprec2 ints unif norm (n j : nat) (theta phi : R) (pt pp : phase),
    S j < n -> ph_amp pt = cisR theta -> ph_amp pp = cisR phi ->
    meq n
      (compile rops (renv eps2 prec uprec2 ints unif norm) n
         [CBarrier [n - j - 2; S (n - j - 2)]; CPS (S (n - j - 2)) pp;
          CBS (n - j - 2) (S (n - j - 2)) (/ 2)%R; CPS (n - j - 2) pt;
          CBS (n - j - 2) (S (n - j - 2)) (/ 2)%R])
      (flip n (bs_matrix rops (renv eps2 prec uprec2 ints unif norm) j (S j) theta phi)).
Proof. exact unit_cell_R. Qed.
Print Assumptions C14_unit_cell_is_bs_matrix.

(* ------------------------------------------------------------------------- *)
(* decomposition.py: one nulling step  unitary = unitary @ conj(tr_ij.T)     *)
(* contract of np.abs / np.angle:  angle_ok z a  :=  z = |z| (cos a, sin a)  *)
(* ------------------------------------------------------------------------- *)

(* generic branch: with theta = 2 arctan(|u_ij+1| / |u_ij|), phi = angle(u_ij) - angle(u_ij+1)
   the target entry (r, j) becomes exactly zero, for every matrix with u_ij <> 0 *)
Theorem C14_null_step_zeroes_target :
  forall eps2 prec uprec2 ints unif norm (n : nat) (U : mat) (r j : nat) (a0 a1 : R),
    S j < n -> r < n -> U r j <> (0, 0)%R ->
    angle_ok (U r j) a0 -> angle_ok (U r (S j)) a1 ->
    null_update rops n U
      (bs_matrix rops (renv eps2 prec uprec2 ints unif norm) j (S j)
         (2 * atan (cabsR (U r (S j)) / cabsR (U r j)))%R (a0 - a1)%R) r j = (0, 0)%R.
Proof. exact null_step_generic_R. Qed.
Print Assumptions C14_null_step_zeroes_target.

(* non-vacuity: numbers with a valid angle exist, e.g. 1 = |1| exp(i 0), -1 = |-1| exp(i pi) *)
Example C14_null_step_hypotheses_nonvacuous :
  angle_ok (1, 0)%R 0%R /\ angle_ok (-1, 0)%R PI /\ (1, 0)%R <> (0, 0)%R.
Proof.
  split; [exact angle_ok_1|]. split; [exact angle_ok_m1|]. intros H. inversion H. lra.
Qed.

(* the |u_ij| < 1e-20 branch (theta = pi, phi = 0) leaves the target entry unchanged:
   it is exactly zero afterwards iff it was exactly zero before *)
Theorem C14_null_step_zero_branch :
  forall eps2 prec uprec2 ints unif norm (n : nat) (U : mat) (r j : nat),
    S j < n -> r < n ->
    null_update rops n U (bs_matrix rops (renv eps2 prec uprec2 ints unif norm) j (S j) PI 0%R) r j = U r j.
Proof. exact null_step_zero_branch_R. Qed.
Print Assumptions C14_null_step_zero_branch.

(* a step keeps the zeros made earlier: a zero entry outside columns j, j+1 is untouched,
   and a row that vanishes in both columns keeps both zeros (any theta, phi) *)
Theorem C14_null_step_keeps_zeros :
  forall eps2 prec uprec2 ints unif norm (n : nat) (U : mat) (r j x : nat) (theta phi : R),
    S j < n -> r < n -> x < n -> U r x = (0, 0)%R ->
    (x = j \/ x = S j -> U r j = (0, 0)%R /\ U r (S j) = (0, 0)%R) ->
    null_update rops n U (bs_matrix rops (renv eps2 prec uprec2 ints unif norm) j (S j) theta phi) r x
    = (0, 0)%R.
Proof. exact null_step_keeps_R. Qed.
Print Assumptions C14_null_step_keeps_zeros.

(* a step keeps unitarity (any theta, phi) *)
Theorem C14_null_step_keeps_unitarity :
  forall eps2 prec uprec2 ints unif norm (n : nat) (U : mat) (j : nat) (theta phi : R),
    S j < n -> unitary Cr n U ->
    unitary Cr n (null_update rops n U (bs_matrix rops (renv eps2 prec uprec2 ints unif norm) j (S j) theta phi)).
Proof. exact null_step_unitary_R. Qed.
Print Assumptions C14_null_step_keeps_unitarity.

(* ------------------------------------------------------------------------- *)
(* reck.py: Reck.map with the default error model                            *)
(* ------------------------------------------------------------------------- *)

(* Whenever reck_decomposition(flip U) returns (it raised neither ValueError from
   check_unitary nor DecompositionUnsuccessful from check_null) and the nulled matrix is
   diagonal with entries exp(i end_phase) — what check_null is there to establish —
   Reck.map succeeds for every size n and every herald dictionary with matching photon
   numbers; the compiled mapped circuit EQUALS U; the heralds are those of the original;
   the error model is left as it was; and every component is ([comp_ok]) a barrier, a
   beam splitter on adjacent modes (m, m+1) with reflectivity 1/2, or a phase shifter on a
   mode < n whose programmed value lies in [0, 2 pi) and whose amplitude is exp(i value).
   No loss element is emitted.
   Diagonality is a hypothesis here and not derived from check_null = true, because
   check_null (transcribed as it is: real(m > p) or imag(m) > p) only looks at positive
   residuals; the theorems C14_..._partial below derive it from the loop itself. *)
Theorem C14_reck_reconstructs :
  forall eps2 prec uprec2 ints unif norm (fuel n : nat) (U : mat) (hin hout : list (nat * Z))
         (seed : pyseed) (tok : nat) (ans : nat -> R * R) (endo : nat -> R) (g1 g2 g3 : rng)
         (dc : decomp),
    seed <> SeedBad ->
    reck_decomposition rops (renv eps2 prec uprec2 ints unif norm) n (tab Cr n (flip n U)) ans endo = Ok dc ->
    (forall a b, a < n -> b < n -> a <> b -> dc_nulled dc a b = (0, 0)%R) ->
    (forall a, a < n -> dc_nulled dc a a = cisR (endo a)) ->
    Forall2 (fun x y : nat * Z => snd x = snd y) hin hout ->
    exists spec,
      reck_map rops (renv eps2 prec uprec2 ints unif norm) fuel (default_em g1 g2 g3) n U hin hout seed tok ans endo
        = Ok (mkCirc n spec hin hout, default_em g1 g2 g3) /\
      meq n (compile rops (renv eps2 prec uprec2 ints unif norm) n spec) U /\
      Forall (comp_ok n) spec.
Proof. exact reck_reconstructs_R. Qed.
Print Assumptions C14_reck_reconstructs.

(* what [comp_ok] says, spelled out on one instance of each component kind *)
Example C14_comp_ok_meaning :
  forall n m (p : phase) r,
    (comp_ok n (CPS m p) <-> m < n /\ (0 <= ph_val p < 2 * PI)%R /\ ph_amp p = cisR (ph_val p)) /\
    (comp_ok n (CBS m (S m) r) <-> S m = S m /\ S m < n /\ r = (/ 2)%R) /\
    (comp_ok n (CLoss m r) <-> False).
Proof. intros. simpl. intuition. Qed.

(* ------------------------------------------------------------------------- *)
(* T2 of DESIGN "### C14" (nulled_is_diagonal), proved in the form below.     *)
(*                                                                             *)
(* [steps_ok eps2 .. n ans steps k U] is the hypothesis on the run of the      *)
(* double loop started on U: at EVERY step (i, j) the entry u_ij to be nulled  *)
(* is either exactly 0 (then the |u_ij| < 1e-20 branch is taken) or has        *)
(* |u_ij|^2 >= eps2 = (1e-20)^2 and the oracle's answer is the code's formula  *)
(* theta = 2 arctan(|u_ij+1|/|u_ij|), phi = angle u_ij - angle u_ij+1 for some  *)
(* valid np.angle values.  What is NOT covered (hence the suffix _partial):    *)
(* an entry with 0 < |u_ij| < 1e-20 — there the zero branch leaves the entry   *)
(* as it is (C14_null_step_zero_branch), so the nulled matrix is diagonal only *)
(* up to 1e-20 and an exact statement is false — and floating-point rounding.  *)
(* The full T2 "for every unitary input the check never fires" is therefore    *)
(* NOT proved; the correspondence run measures the exact off-diagonal residue  *)
(* (evidence: max_offdiag_of_exact_nulled_matrix).                             *)
(* ------------------------------------------------------------------------- *)

(* unfolding of [steps_ok] on a non-empty list of steps *)
Example C14_steps_ok_meaning :
  forall eps2 prec uprec2 ints unif norm (n : nat) (ans : nat -> R * R) (i j : nat)
         (st : list (nat * nat)) (k : nat) (U : mat),
    steps_ok eps2 prec uprec2 ints unif norm n ans ((i, j) :: st) k U <->
    (let u0 := U (n - 1 - i) j in
     let u1 := U (n - 1 - i) (S j) in
     u0 = (0, 0)%R \/
     ((eps2 <= cnorm2 rops u0)%R /\
      exists a0 a1, angle_ok u0 a0 /\ angle_ok u1 a1 /\
                    ans k = (2 * atan (cabsR u1 / cabsR u0), a0 - a1)%R)) /\
    steps_ok eps2 prec uprec2 ints unif norm n ans st (S k)
      (snd (decomp_loop rops (renv eps2 prec uprec2 ints unif norm) n ans [(i, j)] k U)).
Proof. intros. reflexivity. Qed.

(* the sum-of-squares argument: a unitary matrix that vanishes left of the diagonal is
   diagonal, with unit-modulus diagonal entries *)
Theorem C14_unitary_triangular_is_diagonal :
  forall (n : nat) (M : mat),
    unitary Cr n M ->
    (forall r x, r < n -> x < r -> M r x = (0, 0)%R) ->
    forall k, k < n ->
      cnorm2 rops (M k k) = 1%R /\ (forall x, x < n -> x <> k -> M k x = (0, 0)%R).
Proof. exact unitary_triangular_diagonal. Qed.
Print Assumptions C14_unitary_triangular_is_diagonal.

(* the double-loop invariant: for every exactly unitary U of every size and every run
   satisfying [steps_ok], the matrix the loop ends with is unitary and DIAGONAL with
   unit-modulus entries (so check_null cannot fire) *)
Theorem C14_nulled_is_diagonal_partial :
  forall eps2 prec uprec2 ints unif norm (n : nat) (U : mat) (ans : nat -> R * R),
    (0 < eps2)%R -> unitary Cr n U ->
    steps_ok eps2 prec uprec2 ints unif norm n ans (reck_steps n) 0 U ->
    let D := snd (decomp_loop rops (renv eps2 prec uprec2 ints unif norm) n ans (reck_steps n) 0 U) in
    unitary Cr n D /\
    (forall a b, a < n -> b < n -> a <> b -> D a b = (0, 0)%R) /\
    (forall a, a < n -> cnorm2 rops (D a a) = 1%R).
Proof. exact nulled_is_diagonal_partial. Qed.
Print Assumptions C14_nulled_is_diagonal_partial.

(* hence reck_decomposition raises neither ValueError (check_unitary) nor
   DecompositionUnsuccessful (check_null), and the nulled matrix it leaves is
   diag(exp(i end_phase)) when end_phase = np.angle of the diagonal *)
Theorem C14_reck_decomposition_succeeds_partial :
  forall eps2 prec uprec2 ints unif norm (n : nat) (U : mat) (ans : nat -> R * R) (endo : nat -> R),
    (0 < eps2)%R -> (0 < prec)%R -> (0 <= uprec2)%R ->
    unitary Cr n U ->
    steps_ok eps2 prec uprec2 ints unif norm n ans (reck_steps n) 0 U ->
    let D := snd (decomp_loop rops (renv eps2 prec uprec2 ints unif norm) n ans (reck_steps n) 0 U) in
    (forall a, a < n -> angle_ok (D a a) (endo a)) ->
    exists dc,
      reck_decomposition rops (renv eps2 prec uprec2 ints unif norm) n U ans endo = Ok dc /\
      dc_nulled dc = D /\
      (forall a b, a < n -> b < n -> a <> b -> dc_nulled dc a b = (0, 0)%R) /\
      (forall a, a < n -> dc_nulled dc a a = cisR (endo a)).
Proof. exact reck_decomposition_succeeds_partial. Qed.
Print Assumptions C14_reck_decomposition_succeeds_partial.

(* end to end: for EVERY exactly unitary U of every size (identity, permutations, matrices
   with exactly zero entries included) whose run satisfies [steps_ok], Reck.map with the
   default error model succeeds, the compiled mapped circuit equals U, the heralds are
   copied, every component is a barrier / adjacent-mode 50:50 beam splitter / phase
   shifter programmed in [0, 2 pi) *)
Theorem C14_reck_map_reproduces_partial :
  forall eps2 prec uprec2 ints unif norm (fuel n : nat) (U : mat) (hin hout : list (nat * Z))
         (seed : pyseed) (tok : nat) (ans : nat -> R * R) (endo : nat -> R) (g1 g2 g3 : rng),
    (0 < eps2)%R -> (0 < prec)%R -> (0 <= uprec2)%R ->
    unitary Cr n U -> seed <> SeedBad ->
    let U' := tab Cr n (flip n U) in
    let D := snd (decomp_loop rops (renv eps2 prec uprec2 ints unif norm) n ans (reck_steps n) 0 U') in
    steps_ok eps2 prec uprec2 ints unif norm n ans (reck_steps n) 0 U' ->
    (forall a, a < n -> angle_ok (D a a) (endo a)) ->
    Forall2 (fun x y : nat * Z => snd x = snd y) hin hout ->
    exists spec,
      reck_map rops (renv eps2 prec uprec2 ints unif norm) fuel (default_em g1 g2 g3) n U hin hout seed tok ans endo
        = Ok (mkCirc n spec hin hout, default_em g1 g2 g3) /\
      meq n (compile rops (renv eps2 prec uprec2 ints unif norm) n spec) U /\
      Forall (comp_ok n) spec.
Proof. exact reck_map_reproduces_partial. Qed.
Print Assumptions C14_reck_map_reproduces_partial.

(* non-vacuity of the hypotheses of the four theorems above (and of C14_reck_reconstructs,
   whose hypotheses they establish): the 2 x 2 identity with thresholds 1/4, 1/4, 0,
   oracle answers (0, 0) and end phases (0, pi); its single step takes the zero branch *)
Example C14_reck_map_reproduces_nonvacuous :
  forall ints unif norm,
    let ans : nat -> R * R := fun _ => (0, 0)%R in
    let endo : nat -> R := fun a => if Nat.eqb a 0 then 0%R else PI in
    unitary Cr 2 (mid Cr) /\
    steps_ok (/ 4) (/ 4) 0 ints unif norm 2 ans (reck_steps 2) 0 (tab Cr 2 (flip 2 (mid Cr))) /\
    (forall a, a < 2 ->
       angle_ok (snd (decomp_loop rops (renv (/ 4) (/ 4) 0 ints unif norm) 2 ans (reck_steps 2) 0
                        (tab Cr 2 (flip 2 (mid Cr)))) a a) (endo a)) /\
    map (fun r => nr_small r)
        (fst (decomp_loop rops (renv (/ 4) (/ 4) 0 ints unif norm) 2 ans (reck_steps 2) 0
                (tab Cr 2 (flip 2 (mid Cr))))) = [true].
Proof. exact example_identity2. Qed.

(* a second instance, through the generic branch: the 2 x 2 swap [[0,1],[1,0]] ([swap2]); the
   entry to null is 1, the oracle answers theta = 2 arctan(0/1) = 0, phi = 0 - 0, and the
   nulled matrix is diag(-i, -i), end phases -pi/2 *)
Example C14_reck_map_reproduces_nonvacuous_generic :
  forall ints unif norm,
    let ans : nat -> R * R := fun _ => (0, 0)%R in
    let endo : nat -> R := fun _ => (- (PI / 2))%R in
    unitary Cr 2 swap2 /\
    steps_ok (/ 4) (/ 4) 0 ints unif norm 2 ans (reck_steps 2) 0 (tab Cr 2 (flip 2 swap2)) /\
    (forall a, a < 2 ->
       angle_ok (snd (decomp_loop rops (renv (/ 4) (/ 4) 0 ints unif norm) 2 ans (reck_steps 2) 0
                        (tab Cr 2 (flip 2 swap2))) a a) (endo a)) /\
    map (fun r => nr_small r)
        (fst (decomp_loop rops (renv (/ 4) (/ 4) 0 ints unif norm) 2 ans (reck_steps 2) 0
                (tab Cr 2 (flip 2 swap2)))) = [false].
Proof. exact example_swap2. Qed.

(* every programmed phase is (v + offset) % (2 pi): with the real modulo it lies in
   [0, 2 pi) for every real v, and taking the modulo does not change exp(i .) *)
Theorem C14_programmed_phase_in_range :
  forall eps2 prec uprec2 ints unif norm (x : R),
    (0 <= pmod rops (renv eps2 prec uprec2 ints unif norm) x < 2 * PI)%R /\
    cisR (pmod rops (renv eps2 prec uprec2 ints unif norm) x) = cisR x.
Proof.
  exact (fun eps2 prec uprec2 ints unif norm x =>
           conj (pmod_range eps2 prec uprec2 ints unif norm x) (cisR_pmod eps2 prec uprec2 ints unif norm x)).
Qed.
Print Assumptions C14_programmed_phase_in_range.

(* ------------------------------------------------------------------------- *)
(* reck.py: Reck.map with ANY error model still gives a valid (sub-)unitary  *)
(* ------------------------------------------------------------------------- *)

(* For every error model (any Constant/TopHat/Gaussian distributions, any generator streams,
   any seed), every input matrix and every oracle answer: IF Reck.map returns a circuit then
   it has n modes, every component is well-formed ([comp_sub]: modes < n, beam splitters on
   adjacent modes with reflectivity in [0,1], phase shifters with unit-modulus amplitude,
   loss in [0,1] — a draw outside [0,1] makes bs()/loss validation raise instead), the
   compiled transformation is a contraction (|M v|^2 <= |v|^2 for every vector v, i.e.
   sub-unitary), and it is unitary when no loss element was emitted. *)
Theorem C14_noisy_map_subunitary :
  forall eps2 prec uprec2 ints unif norm (fuel : nat) (em : emodel) (n : nat) (U : mat)
         (hin hout : list (nat * Z)) (seed : pyseed) (tok : nat) (ans : nat -> R * R) (endo : nat -> R)
         (c : circuit) (em' : emodel),
    reck_map rops (renv eps2 prec uprec2 ints unif norm) fuel em n U hin hout seed tok ans endo = Ok (c, em') ->
    c_n c = n /\ Forall (comp_sub n) (c_spec c) /\
    contraction n (compile rops (renv eps2 prec uprec2 ints unif norm) n (c_spec c)) /\
    (Forall not_loss (c_spec c) ->
     unitary Cr n (compile rops (renv eps2 prec uprec2 ints unif norm) n (c_spec c))).
Proof. exact noisy_map_subunitary. Qed.
Print Assumptions C14_noisy_map_subunitary.

(* non-vacuity: Reck.map does succeed with a non-trivial error model — one mode, phase offset
   drawn from TopHat(0, 1) whose generator was in some arbitrary state before; afterwards that
   generator is the one derived from the seed, advanced by the one draw that was made *)
Example C14_noisy_map_nonvacuous :
  exists c em',
    reck_map rops (renv (/ 4) (/ 4) 0 (fun _ k => Z.of_nat k) (fun _ _ => / 2)%R (fun _ _ => 0%R)) 5
      (mkEm (mkDobj (DConst (/ 2)%R) norng) (mkDobj (DConst 0%R) norng)
            (mkDobj (DTopHat 0 1)%R (mkRng (Entropy 7) 3)))
      1 (mid Cr) [] [] (SeedInt 11) 0 (fun _ => (0, 0)%R) (fun _ => 0%R) = Ok (c, em') /\
    d_rng (em_phase em') = mkRng (Seeded 0) 1.
Proof. exact example_noisy_map. Qed.

(* what [comp_sub], [not_loss], [contraction] say *)
Example C14_comp_sub_meaning :
  forall n m (p : phase) (r l : R) (M : mat),
    (comp_sub n (CPS m p) <-> m < n /\ cnorm2 rops (ph_amp p) = 1%R) /\
    (comp_sub n (CBS m (S m) r) <-> m < n /\ S m = S m /\ S m < n /\ (0 <= r <= 1)%R) /\
    (comp_sub n (CLoss m l) <-> m < n /\ (0 <= l <= 1)%R) /\
    (not_loss (CLoss m l) <-> False) /\ (not_loss (CPS m p) <-> True) /\
    (contraction n M <-> forall v, (vnorm2 n (mvec n M v) <= vnorm2 n v)%R).
Proof. intros. simpl. unfold contraction. intuition. Qed.

(* ------------------------------------------------------------------------- *)
(* dists/*.py: every drawn value lies within the declared bounds             *)
(* ------------------------------------------------------------------------- *)

(* For Constant, TopHat and the bounded Gaussian with resampling, for EVERY raw numpy
   stream (TopHat needs Generator.random() in [0, 1)): a value that is returned lies in
   [dist_lo, dist_hi] (None = unbounded); drawing changes neither the distribution nor the
   generator's seed, only advances its position.  [dist_valid] (min <= max for TopHat) is
   what the constructors guarantee, see the next theorem. *)
Theorem C14_draws_in_bounds :
  forall (E : env) (fuel : nat) (x x' : dobj) (v : R),
    dist_valid (d_dist x) -> (forall src k, (0 <= e_unif E src k < 1)%R) ->
    dist_value rops E fuel x = Ok (v, x') ->
    in_bounds (d_dist x) v /\ d_dist x' = d_dist x /\ r_src (d_rng x') = r_src (d_rng x) /\
    r_pos (d_rng x) <= r_pos (d_rng x').
Proof. exact draws_in_bounds. Qed.
Print Assumptions C14_draws_in_bounds.

Theorem C14_constructed_distributions_valid :
  (forall v x, mk_const (K:=R) v = Ok x -> dist_valid (d_dist x)) /\
  (forall lo hi g x, mk_tophat rops lo hi g = Ok x -> dist_valid (d_dist x)) /\
  (forall c d lo hi g x, mk_gauss rops c d lo hi g = Ok x -> dist_valid (d_dist x)).
Proof. exact (conj mk_const_valid (conj mk_tophat_valid mk_gauss_valid)). Qed.
Print Assumptions C14_constructed_distributions_valid.

(* what [in_bounds] says for the three kinds *)
Example C14_in_bounds_meaning :
  forall (a b c d v : R),
    (in_bounds (DConst a) v <-> (a <= v /\ v <= a)%R) /\
    (in_bounds (DTopHat a b) v <-> (a <= v /\ v <= b)%R) /\
    (in_bounds (DGauss c d (Some a) (Some b)) v <-> (a <= v /\ v <= b)%R) /\
    (in_bounds (DGauss c d None (Some b)) v <-> (True /\ v <= b)%R).
Proof. intros. unfold in_bounds. simpl. tauto. Qed.

(* non-vacuity: a Gaussian(1/2, 1, min 0, max 1) whose first raw normal draw is 3 (value 3.5,
   rejected) and second is 0 (value 1/2, accepted) returns 1/2 after consuming two draws *)
Example C14_draws_in_bounds_nonvacuous :
  let E := renv 0 0 0 (fun _ _ => 0%Z) (fun _ _ => 0%R) (fun _ k => if Nat.eqb k 0 then 3%R else 0%R) in
  let x := mkDobj (DGauss (/ 2) 1 (Some 0) (Some 1))%R (mkRng (Seeded 7) 0) in
  dist_valid (d_dist x) /\ (forall src k, (0 <= e_unif E src k < 1)%R) /\
  dist_value rops E 5 x = Ok ((/ 2 + 1 * 0)%R, mkDobj (d_dist x) (mkRng (Seeded 7) 2)).
Proof.
  simpl. split; [exact Logic.I|]. split; [intros; lra|].
  unfold dist_value. simpl.
  destruct (Rle_dec 0 1) as [_|H]; [|exfalso; lra]. unfold kltb, below, above, kltb. simpl. unfold rleb.
  repeat (match goal with |- context [Rle_dec ?a ?b] => destruct (Rle_dec a b); try (exfalso; lra) end; simpl).
  reflexivity.
Qed.

(* ------------------------------------------------------------------------- *)
(* error_model.py: the seed determines everything                            *)
(* ------------------------------------------------------------------------- *)

(* After _set_random_seed(s), s an integer, the complete error-model state (the three
   distributions and the state of every generator) is a function of the distributions
   and s only: two models with the same distributions ([same_dists]) and arbitrary prior
   generator states / draw histories / entropy tokens end in the SAME state.
   [wf_em]: a Constant carries no generator (a fixed placeholder), as built by mk_const. *)
Theorem C14_seed_determines_error_model :
  forall (E : env (K:=R)) (em1 em2 : emodel) (s : Z) (tok1 tok2 : nat),
    wf_em em1 -> wf_em em2 -> same_dists em1 em2 ->
    set_random_seed E em1 (SeedInt s) tok1 = set_random_seed E em2 (SeedInt s) tok2.
Proof. exact set_random_seed_determined. Qed.
Print Assumptions C14_seed_determines_error_model.

(* explicitly: the k-th distribution that owns a generator (in the order bs_reflectivity,
   loss, phase_offset) is re-seeded with default_rng(k-th integer drawn from default_rng(s))
   at position 0; each one is re-seeded; constants are untouched *)
Theorem C14_seed_derivation :
  forall (E : env (K:=R)) (em : emodel) (s : Z) (tok : nat),
    exists em', set_random_seed E em (SeedInt s) tok = Ok em' /\
      same_dists em em' /\
      (has_rng (d_dist (em_bs em)) = true -> d_rng (em_bs em') = mkRng (Seeded (e_ints E s 0)) 0) /\
      (has_rng (d_dist (em_loss em)) = true ->
         d_rng (em_loss em') = mkRng (Seeded (e_ints E s (nrand [d_dist (em_bs em)]))) 0) /\
      (has_rng (d_dist (em_phase em)) = true ->
         d_rng (em_phase em') = mkRng (Seeded (e_ints E s (nrand [d_dist (em_bs em); d_dist (em_loss em)]))) 0) /\
      (has_rng (d_dist (em_bs em)) = false -> em_bs em' = em_bs em) /\
      (has_rng (d_dist (em_loss em)) = false -> em_loss em' = em_loss em) /\
      (has_rng (d_dist (em_phase em)) = false -> em_phase em' = em_phase em).
Proof. exact set_random_seed_rngs. Qed.
Print Assumptions C14_seed_derivation.

(* the same seed gives the same mapped circuit (and the same final error-model state, and
   the same exception if any), whatever the error model was used for before: Reck.map is
   a function of (circuit, heralds, distributions, seed) *)
Theorem C14_seed_determines_map :
  forall (E : env (K:=R)) (fuel : nat) (em1 em2 : emodel) (n : nat) (U : mat)
         (hin hout : list (nat * Z)) (s : Z) (tok1 tok2 : nat) (ans : nat -> R * R) (endo : nat -> R),
    wf_em em1 -> wf_em em2 -> same_dists em1 em2 ->
    reck_map rops E fuel em1 n U hin hout (SeedInt s) tok1 ans endo =
    reck_map rops E fuel em2 n U hin hout (SeedInt s) tok2 ans endo.
Proof. exact (reck_map_seed_determined rops). Qed.
Print Assumptions C14_seed_determines_map.

(* non-vacuity: two error models TopHat / Constant / Gaussian that differ in every generator
   state satisfy the hypotheses *)
Example C14_seed_hypotheses_nonvacuous :
  let em g1 g3 := mkEm (mkDobj (DTopHat 0 1)%R g1) (mkDobj (DConst 0%R) norng)
                       (mkDobj (DGauss 0 1 None None)%R g3) in
  wf_em (em (mkRng (Entropy 3) 17) (mkRng (Seeded 5) 2)) /\
  wf_em (em (mkRng (Seeded 9) 0) (mkRng (Entropy 1) 40)) /\
  same_dists (em (mkRng (Entropy 3) 17) (mkRng (Seeded 5) 2)) (em (mkRng (Seeded 9) 0) (mkRng (Entropy 1) 40)).
Proof.
  unfold wf_em, wf_dobj, same_dists. simpl. repeat split; intros; try reflexivity; discriminate.
Qed.
