(* C15 — State tomography reconstructs the prepared state.
   Statements only; every proof is [exact <lemma>] (Proofs/TomoStateP.v).

   Scalars: any commutative *-ring [o] with an imaginary unit [ii], hh = 1/sqrt 2
   (2*hh*hh = 1), inverses of units, decidable equality ([TomoRing], Base/QI2.v);
   instances: Q(sqrt 2)(i) (Base/QI2.v, executable) and the complex numbers over
   Coq's reals (Base/QI2R.v).  [req] is the list of measurement settings in the
   order Python's list(set(...)) happened to produce.

   Last part (PHOTONIC LEVEL, DESIGN T2; Proofs/DualRail*.v): for ANY base circuit that acts on
   the dual-rail basis as Kc * V with zero leakage (C12_acts_as_dual_rail_def: every heralded-only
   conversion, every composition of C13 gates by C12_dual_rail_step) the measurement circuit of a
   setting acts as Kc * ((x)_i MEASUREMENT_MAPPING[s_i]) . V with zero leakage
   (C15_photonic_setting_circuit); its dual-rail outcome frequencies are |Kc|^2 times the Born
   probabilities [born] of psi = V|b> that the noiseless model [ideal_data] of the first part uses
   (C15_photonic_frequencies_are_born); and process() on these frequencies returns |psi><psi|
   whenever |Kc|^2 is invertible (C15_photonic_state_tomography). *)
From Coq Require Import ZArith List Bool Arith Lia Permutation Reals QArith Qcanon.
From LW Require Import Base.Sx Base.Num Base.Sums Base.Mat Base.QI2 Base.QI2R Model.Tomo Proofs.TomoStateP.
Import ListNotations.
Open Scope nat_scope.

(* For every number of qubits n >= 1, every ordering of the required settings
   and EVERY 2^n x 2^n matrix rho of unit trace (pure or mixed, entangled or
   not): feeding StateTomography.process with the noiseless frequencies (Born
   rule after the basis change of each requested setting, as dual-rail outcome
   states) returns rho itself - in particular Hermitian with unit trace. *)
Theorem C15_state_tomo_identity :
  forall (K : Type) (o : ops K) (ii hh : K), TomoRing o ii hh ->
  forall (n : nat) (req : list mstr) (rho : nat -> nat -> K),
    1 <= n -> Permutation req (req_canonical n false) -> trace o (2 ^ n) rho = k1 o ->
    exists R, st_tomography o ii hh n req rho = Ok R /\ meq (2 ^ n) R rho /\
              trace o (2 ^ n) R = k1 o /\ (hermitian o (2 ^ n) rho -> hermitian o (2 ^ n) R).
Proof. exact (fun K o ii hh TR => st_tomography_physical (TR:=TR)). Qed.
Print Assumptions C15_state_tomo_identity.

(* the same over the complex numbers (pairs of Coq reals), hh = 1/sqrt 2 *)
Theorem C15_state_tomo_identity_complex :
  forall (n : nat) (req : list mstr) (rho : nat -> nat -> R * R),
    1 <= n -> Permutation req (req_canonical n false) -> trace tCops (2 ^ n) rho = (1%R, 0%R) ->
    exists M, st_tomography tCops tC_i tC_h n req rho = Ok M /\ meq (2 ^ n) M rho.
Proof. exact (st_tomography_identity (TR:=tC_tomo)). Qed.
Print Assumptions C15_state_tomo_identity_complex.

(* pure state: the result is the outer product of the (normalised) state vector
   and state_fidelity against it is one.  scipy's sqrtm and abs are oracles;
   assumed contract: sqrtm of a Hermitian idempotent d x d matrix (an orthogonal
   projector, positive semi-definite) is that matrix; |1| = 1. *)
Theorem C15_pure_state_fidelity_one :
  forall (K : Type) (o : ops K) (ii hh : K), TomoRing o ii hh ->
  forall (sqrtm : nat -> (nat -> nat -> K) -> nat -> nat -> K) (kabs : K -> K),
    (forall d P, hermitian o d P -> meq d (mmul o d P P) P -> meq d (sqrtm d P) P) ->
    kabs (k1 o) = k1 o ->
  forall (n : nat) (req : list mstr) (psi : nat -> K),
    1 <= n -> Permutation req (req_canonical n false) ->
    sumn o (2 ^ n) (fun k => kmul o (psi k) (kconj o (psi k))) = k1 o ->
    exists R, st_tomography o ii hh n req (density_from_state o psi) = Ok R /\
              meq (2 ^ n) R (density_from_state o psi) /\
              state_fidelity o sqrtm kabs (2 ^ n) (2 ^ n) R (density_from_state o psi) = Ok (k1 o).
Proof. exact (fun K o ii hh TR => pure_state_fidelity_one (TR:=TR)). Qed.
Print Assumptions C15_pure_state_fidelity_one.

(* the callback receives exactly one circuit per required setting: 3^n of them,
   pairwise distinct, exactly the strings over {X,Y,Z}; every full measurement
   string (with I) is served by the setting obtained by I -> Z; the circuit of
   setting s is the base circuit followed, for each qubit i, by the basis change
   MEASUREMENT_MAPPING[s_i] on modes 2i, 2i+1 *)
Theorem C15_settings_spec :
  forall (K : Type) (o : ops K) (ii hh : K) (n : nat) (req : list mstr),
    1 <= n -> Permutation req (req_canonical n false) ->
    length req = 3 ^ n /\ NoDup req /\
    (forall s, In s req <-> length s = n /\ Forall (fun g => In g [PX; PY; PZ]) s) /\
    (forall c, In c (tomo_measurements n false) -> In (replIZ c) req) /\
    st_circuits o ii hh n req = Ok (map (setting_components o ii hh) req) /\
    (forall s, In s req -> length (setting_components o ii hh s) = n /\
       forall i, i < n -> nth i (setting_components o ii hh s) (0, mid o) = (2 * i, meas_mat o ii hh (nth i s PZ))).
Proof. exact (fun K => @settings_spec K). Qed.
Print Assumptions C15_settings_spec.

(* each basis change measures its Pauli: sum_z (+-1) M^+|z><z|M = P, for every
   measurement string c (with I's) and its setting replIZ c, all n *)
Theorem C15_basis_change_measures_pauli :
  forall (K : Type) (o : ops K) (ii hh : K), TomoRing o ii hh ->
  forall (c : mstr) (k l : nat), k < 2 ^ length c -> l < 2 ^ length c ->
    sumn o (2 ^ length c) (fun z =>
      kmul o (sg o (par c (bits (length c) z)))
             (kmul o (kfold o (meas_mat o ii hh) (replIZ c) z k)
                     (kconj o (kfold o (meas_mat o ii hh) (replIZ c) z l))))
    = kfold o (pauli_mat o ii) c l k.
Proof. exact (fun K o ii hh TR => basis_change_measures_pauli (TR:=TR)). Qed.
Print Assumptions C15_basis_change_measures_pauli.

(* ---- the hypotheses are satisfiable; the statement checked by computation ---- *)
(* (|00> + i|11>)/sqrt 2 in Q(sqrt 2)(i): an entangled state with a complex phase *)
Definition ex_psi (k : nat) : (Qc * Qc) * (Qc * Qc) :=
  match k with
  | 0 => qi2_h
  | 3 => kmul qi2ops qi2_i qi2_h
  | _ => k0 qi2ops
  end.

Example C15_example_hypotheses :
  Permutation (rev (req_canonical 2 false)) (req_canonical 2 false) /\
  sumn qi2ops (2 ^ 2) (fun k => kmul qi2ops (ex_psi k) (kconj qi2ops (ex_psi k))) = k1 qi2ops /\
  trace qi2ops (2 ^ 2) (density_from_state qi2ops ex_psi) = k1 qi2ops.
Proof.
  split; [apply Permutation_sym, Permutation_rev|].
  split; apply (proj1 (ui_eqb (o:=qi2ops) _ _)); vm_compute; reflexivity.
Qed.

Example C15_example_computed :
  match st_tomography qi2ops qi2_i qi2_h 2 (rev (req_canonical 2 false)) (density_from_state qi2ops ex_psi) with
  | Ok M => forallb (fun i => forallb (fun j => keqb qi2ops (M i j) (density_from_state qi2ops ex_psi i j)) (seq 0 4)) (seq 0 4)
  | Err _ => false
  end = true.
Proof. vm_compute. reflexivity. Qed.

(* ====================================================================== *)
(* PHOTONIC LEVEL (DESIGN "### C15", T2; Proofs/DualRail*.v)               *)
(* ====================================================================== *)
From LW Require Import Model.State Model.Circuit Model.Fock Model.Gates Proofs.PermP Proofs.DisplayP Proofs.WiringMat
     Proofs.DualRailDefs Proofs.DualRailP Proofs.DualRailTomo Proofs.DualRailMain.

(* [acts_as_dual_rail o e c nq Kc V] (Properties/C12.v, C12_acts_as_dual_rail_def): with its heralds
   inserted and vacuum on its loss modes the circuit c maps dr b to dr b' with amplitude Kc * V[b',b]
   and to every other occupation of its 2*nq visible modes with amplitude 0.  Every circuit the
   qiskit converter builds in heralded-only mode is of this kind (C12_convert_heralded_correct), so
   is every circuit built from the gates of C13 with C12_dual_rail_step.
   [two_mode o e sub U]: sub is a well-formed 2-mode circuit without heralds that compiles to U (the
   basis-change circuits H, S;Z;H, I of MEASUREMENT_MAPPING, C15_settings_spec);
   [add_from o 0 subs base]: base.add(subs[i], 2*i) for i = 0, 1, ... (StateTomography._create_circuit);
   [tprod o Us z x] = prod_i Us[i][z_i, x_i]: the entry <z| U_0 (x) ... (x) U_{n-1} |x>. *)
Theorem C15_photonic_setting_circuit :
  forall (K : Type) (o : ops K), StarRing o -> ZMorph o ->
  forall (ninv : nat -> K * K), (forall k, 0 < k -> kmul (co o) (kofnat (co o) k) (ninv k) = k1 (co o)) ->
  forall (e : env (K:=K)) (base : circ (K:=K)) (nq : nat) (Kc : K * K) (V : qmat (K * K))
         (subs : list (circ (K:=K))) (Us : list (@mat (K * K))),
    acts_as_dual_rail o e base nq Kc V -> Forall2 (two_mode o e) subs Us -> length subs = nq ->
    exists c', add_from o 0 subs base = Ok c' /\
      acts_as_dual_rail o e c' nq Kc
        (fun z b => suml (co o) (bits nq) (fun x => kmul (co o) (tprod o Us z x) (V x b))).
Proof. exact (fun K o SR ZM ninv Hn => @dual_rail_setting K o SR ZM ninv Hn). Qed.
Print Assumptions C15_photonic_setting_circuit.

From LW Require Import Proofs.DualRailBorn.

(* the frequencies.  Scalars: complex pairs over o with a TomoRing structure (ii, hh);
   [Tomo.bits n z] = the bits of the outcome index z (qubit 0 most significant), [dual_rail n z]
   its dual-rail state;  psi k = V[bits k, b] is the state the base circuit prepares from dr b;
   [phot_amp ... s z] = Kc * sum_x (prod_i meas_mat(s_i)[z_i, x_i]) V[x, b] is the amplitude that
   C15_photonic_setting_circuit gives to outcome z of the circuit of setting s (Us = map meas_mat s);
   [phot_freq] = amp * conj amp;  [phot_data s] = {dual_rail z : phot_freq s z}, the callback's result *)
Theorem C15_photonic_data_def :
  forall (K : Type) (o : ops K) (ii hh : K * K) (n : nat) (Kc : K * K) (V : qmat (K * K)) (b : list bool) (s : mstr) (z k : nat),
    psi n V b k = V (Tomo.bits n k) b /\
    phot_amp o ii hh n Kc V b s z =
      kmul (cplx o) Kc (suml (cplx o) (Gates.bits n)
        (fun x => kmul (cplx o) (tprod o (map (meas_mat (cplx o) ii hh) s) (Tomo.bits n z) x) (V x b))) /\
    phot_freq o ii hh n Kc V b s z =
      kmul (cplx o) (phot_amp o ii hh n Kc V b s z) (kconj (cplx o) (phot_amp o ii hh n Kc V b s z)) /\
    phot_data o ii hh n Kc V b s = map (fun z => (dual_rail n z, phot_freq o ii hh n Kc V b s z)) (seq 0 (2 ^ n)).
Proof. exact (fun K o ii hh n Kc V b s z k => conj eq_refl (conj eq_refl (conj eq_refl eq_refl))). Qed.
Print Assumptions C15_photonic_data_def.

Theorem C15_photonic_frequencies_are_born :
  forall (K : Type) (o : ops K) (ii hh : K * K), TomoRing (cplx o) ii hh ->
  forall (n : nat) (Kc : K * K) (V : qmat (K * K)) (b : list bool) (s : mstr) (z : nat),
    length s = n -> z < 2 ^ n ->
    phot_freq o ii hh n Kc V b s z =
    kmul (cplx o) (kmul (cplx o) Kc (kconj (cplx o) Kc))
         (born (cplx o) (2 ^ n) (kfold (cplx o) (meas_mat (cplx o) ii hh) s) (density_from_state (cplx o) (psi n V b)) z).
Proof. exact (fun K o ii hh TR => @phot_born K o ii hh TR). Qed.
Print Assumptions C15_photonic_frequencies_are_born.

(* state tomography of any such circuit: with |Kc|^2 invertible (w its inverse) and psi normalised,
   StateTomography.process fed with the photonic frequencies of the requested settings returns
   |psi><psi|, psi = V|b> *)
Theorem C15_photonic_state_tomography :
  forall (K : Type) (o : ops K) (ii hh : K * K), TomoRing (cplx o) ii hh ->
  forall (n : nat) (Kc : K * K) (V : qmat (K * K)) (b : list bool) (req : list mstr) (w : K * K),
    1 <= n -> Permutation req (req_canonical n false) ->
    kmul (cplx o) (kmul (cplx o) Kc (kconj (cplx o) Kc)) w = k1 (cplx o) ->
    sumn (cplx o) (2 ^ n) (fun k => kmul (cplx o) (psi n V b k) (kconj (cplx o) (psi n V b k))) = k1 (cplx o) ->
    exists R, st_process (cplx o) ii n req (map (phot_data o ii hh n Kc V b) req) = Ok R /\
              meq (2 ^ n) R (density_from_state (cplx o) (psi n V b)).
Proof. exact (fun K o ii hh TR => @phot_tomography K o ii hh TR). Qed.
Print Assumptions C15_photonic_state_tomography.

(* non-vacuity in Q(sqrt 2)(i): one qubit, V = (H as the operator on bit lists), Kc = 1/sqrt 2
   (|Kc|^2 = 1/2, w = 2), input b = |0>: psi = (|0> + |1>)/sqrt 2; the hypotheses hold and the
   reconstruction from the photonic frequencies is recomputed *)
Definition ex_photV : qmat ((Qc * Qc) * (Qc * Qc)) :=
  fun b' b => if andb (hd false b') (hd false b) then kopp qi2ops qi2_h else qi2_h.
Example C15_photonic_example :
  let w := kadd qi2ops (k1 qi2ops) (k1 qi2ops) in
  kmul qi2ops (kmul qi2ops qi2_h (kconj qi2ops qi2_h)) w = k1 qi2ops /\
  sumn qi2ops (2 ^ 1) (fun k => kmul qi2ops (psi 1 ex_photV [false] k) (kconj qi2ops (psi 1 ex_photV [false] k))) = k1 qi2ops /\
  match st_process qi2ops qi2_i 1 (req_canonical 1 false)
          (map (phot_data qr2ops qi2_i qi2_h 1 qi2_h ex_photV [false]) (req_canonical 1 false)) with
  | Ok M => forallb (fun i => forallb (fun j =>
               keqb qi2ops (M i j) (density_from_state qi2ops (psi 1 ex_photV [false]) i j)) (seq 0 2)) (seq 0 2)
  | Err _ => false
  end = true.
Proof.
  cbv zeta. split; [apply (proj1 (ui_eqb (o:=qi2ops) _ _)); vm_compute; reflexivity|].
  split; [apply (proj1 (ui_eqb (o:=qi2ops) _ _)); vm_compute; reflexivity|]. vm_compute. reflexivity.
Qed.
