(* C15 — State tomography reconstructs the prepared state.
   Statements only; every proof is [exact <lemma>] (Proofs/TomoStateP.v).

   Scalars: any commutative *-ring [o] with an imaginary unit [ii], hh = 1/sqrt 2
   (2*hh*hh = 1), inverses of units, decidable equality ([TomoRing], Base/QI2.v);
   instances: Q(sqrt 2)(i) (Base/QI2.v, executable) and the complex numbers over
   Coq's reals (Base/QI2R.v).  [req] is the list of measurement settings in the
   order Python's list(set(...)) happened to produce. *)
From Coq Require Import ZArith List Bool Arith Lia Permutation Reals QArith Qcanon.
From LW Require Import Base.Sx Base.Num Base.Sums Base.Mat Base.QI2 Base.QI2R Model.Tomo Proofs.TomoStateP.
Import ListNotations.
Open Scope nat_scope.

(* For every number of qubits n >= 1, every ordering of the required settings
   and EVERY 2^n x 2^n matrix rho of unit trace (pure or mixed, entangled or
   not): feeding StateTomography.process with the noiseless frequencies (Born
   rule after the basis change of each requested setting, as dual-rail outcome
   states) returns rho itself - in particular Hermitian with unit trace. *)
Theorem C15_state_tomo_identity :
  forall (K : Type) (o : ops K) (ii hh : K), TomoRing o ii hh ->
  forall (n : nat) (req : list mstr) (rho : nat -> nat -> K),
    1 <= n -> Permutation req (req_canonical n false) -> trace o (2 ^ n) rho = k1 o ->
    exists R, st_tomography o ii hh n req rho = Ok R /\ meq (2 ^ n) R rho /\
              trace o (2 ^ n) R = k1 o /\ (hermitian o (2 ^ n) rho -> hermitian o (2 ^ n) R).
Proof. exact (fun K o ii hh TR => st_tomography_physical (TR:=TR)). Qed.
Print Assumptions C15_state_tomo_identity.

(* the same over the complex numbers (pairs of Coq reals), hh = 1/sqrt 2 *)
Theorem C15_state_tomo_identity_complex :
  forall (n : nat) (req : list mstr) (rho : nat -> nat -> R * R),
    1 <= n -> Permutation req (req_canonical n false) -> trace tCops (2 ^ n) rho = (1%R, 0%R) ->
    exists M, st_tomography tCops tC_i tC_h n req rho = Ok M /\ meq (2 ^ n) M rho.
Proof. exact (st_tomography_identity (TR:=tC_tomo)). Qed.
Print Assumptions C15_state_tomo_identity_complex.

(* pure state: the result is the outer product of the (normalised) state vector
   and state_fidelity against it is one.  scipy's sqrtm and abs are oracles;
   assumed contract: sqrtm of a Hermitian idempotent d x d matrix (an orthogonal
   projector, positive semi-definite) is that matrix; |1| = 1. *)
Theorem C15_pure_state_fidelity_one :
  forall (K : Type) (o : ops K) (ii hh : K), TomoRing o ii hh ->
  forall (sqrtm : nat -> (nat -> nat -> K) -> nat -> nat -> K) (kabs : K -> K),
    (forall d P, hermitian o d P -> meq d (mmul o d P P) P -> meq d (sqrtm d P) P) ->
    kabs (k1 o) = k1 o ->
  forall (n : nat) (req : list mstr) (psi : nat -> K),
    1 <= n -> Permutation req (req_canonical n false) ->
    sumn o (2 ^ n) (fun k => kmul o (psi k) (kconj o (psi k))) = k1 o ->
    exists R, st_tomography o ii hh n req (density_from_state o psi) = Ok R /\
              meq (2 ^ n) R (density_from_state o psi) /\
              state_fidelity o sqrtm kabs (2 ^ n) (2 ^ n) R (density_from_state o psi) = Ok (k1 o).
Proof. exact (fun K o ii hh TR => pure_state_fidelity_one (TR:=TR)). Qed.
Print Assumptions C15_pure_state_fidelity_one.

(* the callback receives exactly one circuit per required setting: 3^n of them,
   pairwise distinct, exactly the strings over {X,Y,Z}; every full measurement
   string (with I) is served by the setting obtained by I -> Z; the circuit of
   setting s is the base circuit followed, for each qubit i, by the basis change
   MEASUREMENT_MAPPING[s_i] on modes 2i, 2i+1 *)
Theorem C15_settings_spec :
  forall (K : Type) (o : ops K) (ii hh : K) (n : nat) (req : list mstr),
    1 <= n -> Permutation req (req_canonical n false) ->
    length req = 3 ^ n /\ NoDup req /\
    (forall s, In s req <-> length s = n /\ Forall (fun g => In g [PX; PY; PZ]) s) /\
    (forall c, In c (tomo_measurements n false) -> In (replIZ c) req) /\
    st_circuits o ii hh n req = Ok (map (setting_components o ii hh) req) /\
    (forall s, In s req -> length (setting_components o ii hh s) = n /\
       forall i, i < n -> nth i (setting_components o ii hh s) (0, mid o) = (2 * i, meas_mat o ii hh (nth i s PZ))).
Proof. exact (fun K => @settings_spec K). Qed.
Print Assumptions C15_settings_spec.

(* each basis change measures its Pauli: sum_z (+-1) M^+|z><z|M = P, for every
   measurement string c (with I's) and its setting replIZ c, all n *)
Theorem C15_basis_change_measures_pauli :
  forall (K : Type) (o : ops K) (ii hh : K), TomoRing o ii hh ->
  forall (c : mstr) (k l : nat), k < 2 ^ length c -> l < 2 ^ length c ->
    sumn o (2 ^ length c) (fun z =>
      kmul o (sg o (par c (bits (length c) z)))
             (kmul o (kfold o (meas_mat o ii hh) (replIZ c) z k)
                     (kconj o (kfold o (meas_mat o ii hh) (replIZ c) z l))))
    = kfold o (pauli_mat o ii) c l k.
Proof. exact (fun K o ii hh TR => basis_change_measures_pauli (TR:=TR)). Qed.
Print Assumptions C15_basis_change_measures_pauli.

(* ---- the hypotheses are satisfiable; the statement checked by computation ---- *)
(* (|00> + i|11>)/sqrt 2 in Q(sqrt 2)(i): an entangled state with a complex phase *)
Definition ex_psi (k : nat) : (Qc * Qc) * (Qc * Qc) :=
  match k with
  | 0 => qi2_h
  | 3 => kmul qi2ops qi2_i qi2_h
  | _ => k0 qi2ops
  end.

Example C15_example_hypotheses :
  Permutation (rev (req_canonical 2 false)) (req_canonical 2 false) /\
  sumn qi2ops (2 ^ 2) (fun k => kmul qi2ops (ex_psi k) (kconj qi2ops (ex_psi k))) = k1 qi2ops /\
  trace qi2ops (2 ^ 2) (density_from_state qi2ops ex_psi) = k1 qi2ops.
Proof.
  split; [apply Permutation_sym, Permutation_rev|].
  split; apply (proj1 (ui_eqb (o:=qi2ops) _ _)); vm_compute; reflexivity.
Qed.

Example C15_example_computed :
  match st_tomography qi2ops qi2_i qi2_h 2 (rev (req_canonical 2 false)) (density_from_state qi2ops ex_psi) with
  | Ok M => forallb (fun i => forallb (fun j => keqb qi2ops (M i j) (density_from_state qi2ops ex_psi i j)) (seq 0 4)) (seq 0 4)
  | Err _ => false
  end = true.
Proof. vm_compute. reflexivity. Qed.
