From LW Require Import Model.Circuit.
