(* C02 — adding a sub-circuit wires it in order; heralded modes become private
   ancillas.  Statements only; every proof is [exact <lemma>].

   What is proved here (for all circuits, all mode numbers, all histories of the
   parent):
   * the user-mode numbering (user mode u = the u-th non-ancilla mode, order
     preserving, never an ancilla), the acceptance rule of add (an addition is
     accepted exactly when it fits into the non-ancilla modes from there on,
     otherwise ModeRangeError), and that components appended later act as the
     identity on every ancilla;
   * the MATRIX-LEVEL WIRING THEOREM of DESIGN "### C02" (Spec), in full generality
     (lossy parent and sub-circuit, parent ancillas inside the added span, heralds
     with input mode <> output mode, any declaration order, grouped or not):
       C02_aem_compile          compiling add_empty_mode_to_circuit_spec = inserting an
                                identity row/column (loss modes shifted by one)
       C02_shift_compile        compiling add_modes_to_circuit_spec = embedding as a block
       C02_compile_onto         compiling onto a state = (compiling onto the identity) . state
       C02_complete_swaps_spec  the swap-completion loop denotes the permutation that sends
                                each herald output mode to its input mode and is order
                                preserving on the other modes
       C02_visible_modes_are_user_modes  the j-th visible parent mode from m on = _map_mode(mode + j)
       C02_add_wiring           U_R = E . iota(U_P) with explicit index maps old, loc,
                                phi_in, phi_out (clauses (1)-(3) of the Spec); its conclusion
                                re-establishes its hypotheses on the result, so it applies at
                                any nesting depth
     with a non-vacuity example over the rationals (parent ancilla inside the span,
     herald entering on mode 0 and leaving on mode 2, losses in both circuits) on which
     the conclusion is also recomputed entry by entry from a hand-written wiring.
   * the FOCK-SPACE AMPLITUDE COMPOSITION (T2 add_amplitudes of DESIGN "### C02"), second half
     of this file, over the complex pairs of any commutative *-ring with canonical integers in
     which the positive integers are invertible (instantiated at the reals at the end):
       C02_amp_transport        a matrix carried along an injection of modes (identity elsewhere):
                                its amplitude between two Fock states = the original amplitude
                                between the states read along the injection, times the Kronecker
                                delta of the occupations outside the image, times the product of
                                their factorials (photons outside the image pass straight through)
       C02_amp_transport_conserved / C02_amp_factor_transport / C02_amp_transport_normalised
                                mode-by-mode conservation off the image; the normalisation
                                prod in! * prod out! splits accordingly, so the normalised
                                amplitudes (permanent / sqrt factor) coincide
       C02_wiring_amplitudes    amplitudes of E . iP = sum over the intermediate Fock states of the
                                two transported transformations' own amplitudes / prod t!
       C02_add_amplitudes       with the hypotheses and the witnesses of C02_add_wiring: for all
                                full input/output Fock states x, y of the result (heralds inserted,
                                loss modes included) amp(U_R; x -> y) = sum over t of
                                amp(U_S; t|phi_in -> y|phi_out) amp(U_P; x|old -> t|old) / prod t!
                                with the pass-through factors written out; the parent's ancillas
                                carry their photons through the added circuit untouched; heralded
                                form: if x and y hold the herald photon numbers of the result, the
                                sub-circuit's heralds hold at its own input and output and the
                                parent's at its own input and ancilla outputs, in every
                                non-vanishing term
       C02_add_result_reusable  the result again satisfies every hypothesis on a parent and on a
                                sub-circuit and compiles: the two theorems apply along any tree
                                of additions (any nesting depth)
     with a non-vacuity example over the rationals (herald photons on both ancillas) on which
     both sides are computed.
   The tie of the model of Circuit.add to the implementation is the correspondence run of
   this check; harness/c02.py also carries an independent amplitude oracle. *)
From Coq Require Import ZArith List Bool Arith Lia.
From LW Require Import Base.Sx Base.Num Base.Mat Model.Circuit Proofs.CircuitP Proofs.AddP.
From LW Require Import Base.QI2 Model.Display Proofs.CompileP Proofs.DisplayP
     Proofs.WiringDefs Proofs.WiringMat Proofs.WiringSwaps Proofs.WiringP.
From Coq Require Import QArith Qcanon Permutation.
Local Open Scope nat_scope.
Import ListNotations.

(* user mode z is mapped to the z-th mode that is not an ancilla: the result is
   no ancilla and exactly z non-ancilla modes lie below it *)
Theorem C02_user_mode_is_rank_among_non_ancillas :
  forall (internal : list nat) (z : Z),
    NoDup internal ->
    let r := map_mode internal z in
    (forall i, In i internal -> Z.of_nat i <> r) /\ (r - below internal r = z)%Z /\ (z <= r)%Z.
Proof. exact map_mode_spec. Qed.
Print Assumptions C02_user_mode_is_rank_among_non_ancillas.

Theorem C02_user_mode_numbering_order_preserving :
  forall internal (a b : Z), (a < b)%Z -> (map_mode internal a < map_mode internal b)%Z.
Proof. exact map_mode_mono. Qed.
Print Assumptions C02_user_mode_numbering_order_preserving.

(* add is accepted iff the (mapped) mode exists and the sub-circuit's non-heralded
   modes fit into the parent's non-ancilla modes from that mode on *)
Theorem C02_add_accepted_iff_fits :
  forall (K : Type) (o : ops K) (c sub : circ (K:=K)) (mode : Z) (g : bool),
    (exists c', op_add o c sub mode g = Ok c') <->
    (exists m, mode_ok c (map_mode (c_int c) mode) = Ok m /\ open_modes sub <= avail_from c m).
Proof. exact (fun K o => @op_add_accept_iff K o). Qed.
Print Assumptions C02_add_accepted_iff_fits.

Theorem C02_add_rejects_with_mode_range_error :
  forall (K : Type) (o : ops K) (c sub : circ (K:=K)) mode g e,
    op_add o c sub mode g = Err e -> e = ModeRangeError.
Proof. exact (fun K o => @op_add_reject_class K o). Qed.
Print Assumptions C02_add_rejects_with_mode_range_error.

(* every primitive appended to a circuit acts only on non-ancilla modes ... *)
Theorem C02_later_components_avoid_ancillas :
  forall (K : Type) (o : ops K) (e : env (K:=K)) (c c' : circ (K:=K)),
    NoDup (c_int c) ->
    (forall m1 m2 r l cv, op_bs o e c m1 m2 r l cv = Ok c' ->
       exists added, c_spec c' = c_spec c ++ added /\ c_int c' = c_int c /\
                     forall x, In x added -> forall i, In i (comp_modes x) -> ~ In i (c_int c)) /\
    (forall m phi l, op_ps o e c m phi l = Ok c' ->
       exists added, c_spec c' = c_spec c ++ added /\ c_int c' = c_int c /\
                     forall x, In x added -> forall i, In i (comp_modes x) -> ~ In i (c_int c)) /\
    (forall m l, op_loss o e c m l = Ok c' ->
       exists added, c_spec c' = c_spec c ++ added /\ c_int c' = c_int c /\
                     forall x, In x added -> forall i, In i (comp_modes x) -> ~ In i (c_int c)).
Proof.
  exact (fun K o e c c' H =>
           conj (fun m1 m2 r l cv => @op_bs_untouched K o e c m1 m2 r l cv c' H)
          (conj (fun m phi l => @op_ps_untouched K o e c m phi l c' H)
                (fun m l => @op_loss_untouched K o e c m l c' H))).
Qed.
Print Assumptions C02_later_components_avoid_ancillas.

(* ... and a component is the identity on every mode it does not act on *)
Theorem C02_components_identity_off_their_modes :
  forall (K : Type) (o : ops K),
    (forall m1 m2 x cv i j, i <> m1 -> i <> m2 ->
       bs_mat o m1 m2 x cv i j = mid (cplx o) i j /\ bs_mat o m1 m2 x cv j i = mid (cplx o) j i) /\
    (forall m x i j, i <> m ->
       ps_mat o m x i j = mid (cplx o) i j /\ ps_mat o m x j i = mid (cplx o) j i).
Proof. exact (fun K o => conj (@bs_mat_off K o) (@ps_mat_off K o)). Qed.
Print Assumptions C02_components_identity_off_their_modes.

Example C02_map_mode_nonvacuous :
  map_mode [1; 3] 0 = 0%Z /\ map_mode [1; 3] 1 = 2%Z /\ map_mode [1; 3] 2 = 4%Z /\ NoDup [1; 3].
Proof. repeat split; repeat constructor; simpl; intuition; discriminate. Qed.

(* ====================================================================== *)
(* The matrix-level wiring theorem (DESIGN "### C02", Spec)                *)
(* ====================================================================== *)
(* [swnd c]: the swap dictionaries of c have no duplicate keys (they are Python dicts);
   [cwf n c] (DisplayP): the modes of c lie inside [0,n);  [WFH c] (DisplayP): the
   invariant of every circuit an API program can build (C19_reachable...): components inside
   the circuit, herald dictionaries with distinct keys inside the circuit, ancilla list
   duplicate free.  [bump t x = if t <=? x then S x else x] is the index map of inserting
   one mode at t. *)

(* Layer 1: compile commutes with mode insertion.  The matrix of the spec with an empty
   mode inserted at [mode] is the old matrix with an identity row/column inserted there;
   loss modes (appended after the circuit modes) move up by one with everything else. *)
Theorem C02_aem_compile :
  forall (K : Type) (o : ops K) (SRK : StarRing o) (e : env (K:=K)) (mode : nat) (sp : list (comp (K:=K)))
         (n nl : nat) (U : mat (K:=K*K)),
    Forall swnd sp -> mode <= n ->
    cadd_list o e sp (Ok (n, mid (co o))) = Ok (nl, U) ->
    exists U', cadd_list o e (aem_spec o mode sp) (Ok (S n, mid (co o))) = Ok (S nl, U') /\
               (forall i j, i < nl -> j < nl -> U' (bump mode i) (bump mode j) = U i j) /\
               (forall x, x < S nl -> U' mode x = mid (co o) mode x /\ U' x mode = mid (co o) x mode).
Proof. exact (fun K o SRK => @aem_compile K o SRK). Qed.
Print Assumptions C02_aem_compile.

(* Layer 2: compiling the spec offset by d into N >= d + n modes gives the n-mode
   compilation as a block at offset d, identity elsewhere; its l loss modes follow the N modes. *)
Theorem C02_shift_compile :
  forall (K : Type) (o : ops K) (SRK : StarRing o) (e : env (K:=K)) (d n N l : nat) (sp : list (comp (K:=K)))
         (U : mat (K:=K*K)),
    Forall (cwf n) sp -> Forall swnd sp -> d + n <= N ->
    cadd_list o e sp (Ok (n, mid (co o))) = Ok (n + l, U) ->
    let f := fun i => if i <? n then i + d else i - n + N in
    exists M, cadd_list o e (shift_spec d sp) (Ok (N, mid (co o))) = Ok (N + l, M) /\
              (forall i j, i < n + l -> j < n + l -> M (f i) (f j) = U i j) /\
              (forall x y, x < N + l -> y < N + l -> (forall i, i < n + l -> f i <> x) ->
                           M x y = mid (co o) x y /\ M y x = mid (co o) y x).
Proof. exact (fun K o SRK => @shift_compile K o SRK). Qed.
Print Assumptions C02_shift_compile.

(* compiling a spec after a state U = the matrix of the spec compiled alone, times the padded state *)
Theorem C02_compile_onto :
  forall (K : Type) (o : ops K) (SRK : StarRing o) (e : env (K:=K)) (sp : list (comp (K:=K)))
         (n : nat) (U : mat (K:=K*K)) (n2 : nat) (M : mat (K:=K*K)),
    cadd_list o e sp (Ok (n, mid (co o))) = Ok (n2, M) ->
    exists UR, cadd_list o e sp (Ok (n, U)) = Ok (n2, UR) /\
               meq n2 UR (mmul (co o) n2 M (pad (co o) n U)).
Proof. exact (fun K o SRK => @cadd_list_onto K o SRK). Qed.
Print Assumptions C02_compile_onto.

(* Layer 3: the completed swap dictionary is a permutation of [0,n) that returns the k-th
   herald from its output mode to its input mode and maps the remaining modes to the
   remaining modes in ascending order. *)
Theorem C02_complete_swaps_spec :
  forall (n : nat) (outs ins : list nat),
    NoDup outs -> NoDup ins -> length outs = length ins ->
    (forall x, In x outs -> x < n) -> (forall x, In x ins -> x < n) ->
    let sw := complete_swaps n 0 (dict_of (combine outs ins)) 0 [] in
    wf_swaps n sw /\
    (forall k, k < length outs -> swap_fun sw (nth k outs 0) = nth k ins 0) /\
    (forall i, i < n -> ~ In i outs -> swap_fun sw i < n /\ ~ In (swap_fun sw i) ins) /\
    (forall i j, i < j -> j < n -> ~ In i outs -> ~ In j outs -> swap_fun sw i < swap_fun sw j) /\
    (forall i, n <= i -> swap_fun sw i = i).
Proof. exact complete_swaps_spec. Qed.
Print Assumptions C02_complete_swaps_spec.

(* Layer 4: the wiring theorem, general case.
   Parent c: nP modes, ancillas c_int c, lP loss elements, compiled matrix UP.
   Sub-circuit sub: nS modes, h heralds (k-th declared: input mode ins[k], output mode outs[k],
   photon number = value in c_in sub), lS loss elements, compiled matrix US.
   If add is accepted at user mode [mode] (full mode m, the first of the visible modes
   [visible_from nP (c_int c) m] = the non-ancilla parent modes from m on, ascending), then
   the result has nR = nP + h modes and compiles to dimension nR + lP + lS, and there are
     old     : order-preserving injection [0,nP) -> [0,nR), extended to P's loss modes by
               nP + l |-> nR + l (fixing every mode below m),
     loc     : injection of the herald indices [0,h) into [0,nR) minus the image of old,
     phi_in  : sub's input modes -> result modes: herald input ins[k] |-> loc k, the j-th
               non-herald input mode (ascending) |-> old (j-th visible parent mode from m),
               S's loss mode nS + l |-> nR + lP + l,
     phi_out : likewise for outputs (outs[k] |-> loc k, j-th non-herald output |-> the same
               old (vis[j])), with the same image as phi_in,
   such that
   (1) the ancillas of the result are old(ancillas of c) together with the loc k; the herald
       dictionaries are the old ones transported by old followed by (loc k |-> photons of
       herald k) on input AND output;
   (2) U_R = E . iP on the full dimension, where iP carries UP along old and is the identity
       elsewhere (in particular on every loc k), and E[phi_out i, phi_in j] = US[i,j], E = identity
       outside the common image W of phi_in/phi_out; no old ancilla old(i), i in c_int c,
       lies in W — so every ancilla of the parent, inside the added span or not, passes
       straight through E;
   (3) the loss modes of P (nR .. nR+lP-1) and then of S (nR+lP ..) follow in creation order.
   The last two conjuncts re-establish the hypotheses for the result. *)
Theorem C02_add_wiring :
  forall (K : Type) (o : ops K) (SRK : StarRing o) (e : env (K:=K)) (c sub c' : circ (K:=K)) (mode : Z) (g : bool)
         (lP : nat) (UP : mat (K:=K*K)) (lS : nat) (US : mat (K:=K*K)),
    WFH c -> WFH sub -> 1 <= c_n sub ->
    Forall swnd (c_spec c) -> Forall swnd (c_spec sub) ->
    length (c_in sub) = length (c_out sub) ->
    op_add o c sub mode g = Ok c' ->
    build o e c = Ok (c_n c + lP, UP) -> build o e sub = Ok (c_n sub + lS, US) ->
    let nP := c_n c in let nS := c_n sub in let h := length (c_in sub) in let nR := nP + h in
    let ins := dkeys (c_in sub) in let outs := dkeys (c_out sub) in
    exists (m : nat) (old loc phi_in phi_out : nat -> nat) (UR E iP : mat (K:=K*K)),
      mode_ok c (map_mode (c_int c) mode) = Ok m /\ m < nP /\ ~ In m (c_int c) /\
      c_n c' = nR /\ build o e c' = Ok (nR + lP + lS, UR) /\
      (forall a b, a < b -> old a < old b) /\ (forall i, i < nP -> old i < nR) /\
      (forall l, old (nP + l) = nR + l) /\ (forall i, i < m -> old i = i) /\
      (forall k, k < h -> loc k < nR /\ forall i, old i <> loc k) /\
      (forall k k', k < h -> k' < h -> loc k = loc k' -> k = k') /\
      Permutation (c_int c') (map old (c_int c) ++ map loc (seq 0 h)) /\
      c_in c' = map (fun kv => (old (fst kv), snd kv)) (c_in c) ++ map (fun kv => (phi_in (fst kv), snd kv)) (c_in sub) /\
      c_out c' = map (fun kv => (old (fst kv), snd kv)) (c_out c) ++ map (fun kv => (phi_in (fst kv), snd kv)) (c_in sub) /\
      (forall k, k < h -> phi_in (nth k ins 0) = loc k /\ phi_out (nth k outs 0) = loc k) /\
      nS - h <= length (visible_from nP (c_int c) m) /\
      (forall j, j < nS - h ->
         phi_in (nth j (open_modes_of nS ins) 0) = old (nth j (visible_from nP (c_int c) m) 0) /\
         phi_out (nth j (open_modes_of nS outs) 0) = old (nth j (visible_from nP (c_int c) m) 0)) /\
      (forall l, phi_in (nS + l) = nR + lP + l /\ phi_out (nS + l) = nR + lP + l) /\
      (forall i, i < nS + lS -> phi_in i < nR + lP + lS /\ phi_out i < nR + lP + lS) /\
      (forall i j, i < nS + lS -> j < nS + lS -> (phi_in i = phi_in j -> i = j) /\ (phi_out i = phi_out j -> i = j)) /\
      (forall i j, i < nS + lS -> j < nS + lS -> E (phi_out i) (phi_in j) = US i j) /\
      (forall x y, x < nR + lP + lS -> y < nR + lP + lS -> (forall i, i < nS + lS -> phi_in i <> x) ->
                   E x y = mid (co o) x y /\ E y x = mid (co o) y x) /\
      (forall x, (forall i, i < nS + lS -> phi_in i <> x) <-> (forall i, i < nS + lS -> phi_out i <> x)) /\
      (forall i, In i (c_int c) -> forall i', i' < nS + lS -> phi_in i' <> old i) /\
      (forall i j, i < nP + lP -> j < nP + lP -> iP (old i) (old j) = UP i j) /\
      (forall x y, x < nR + lP + lS -> y < nR + lP + lS -> (forall i, i < nP + lP -> old i <> x) ->
                   iP x y = mid (co o) x y /\ iP y x = mid (co o) y x) /\
      meq (nR + lP + lS) UR (mmul (co o) (nR + lP + lS) E iP) /\
      WFH c' /\ Forall swnd (c_spec c').
Proof. exact (fun K o SRK => @add_wiring K o SRK). Qed.
Print Assumptions C02_add_wiring.

(* the visible modes used in C02_add_wiring are the user modes mode, mode+1, ... of the
   parent: the j-th non-ancilla mode from m on is where _map_mode sends user mode mode + j *)
Theorem C02_visible_modes_are_user_modes :
  forall (K : Type) (c : circ (K:=K)) (mode : Z) (m : nat),
    NoDup (c_int c) -> mode_ok c (map_mode (c_int c) mode) = Ok m ->
    forall j, j < length (visible_from (c_n c) (c_int c) m) ->
      nth j (visible_from (c_n c) (c_int c) m) 0 = Z.to_nat (map_mode (c_int c) (mode + Z.of_nat j)).
Proof. exact (fun K => @visible_from_map_mode K). Qed.
Print Assumptions C02_visible_modes_are_user_modes.

(* every circuit whose swap dictionaries pass the validators of C01 satisfies [swnd] *)
Theorem C02_swnd_from_validated :
  forall (K : Type) (o : ops K) (SRK : StarRing o) (e : env (K:=K)) (N : nat) (c : comp (K:=K)),
    wf (o:=o) e N c -> swnd c.
Proof. exact (fun K o _ => @wf_swnd K o). Qed.
Print Assumptions C02_swnd_from_validated.

(* ---- non-vacuity over the rationals: reflectivity (3/5)^2, loss (4/5)^2 ---- *)
Definition ex_e : env (K:=Qc) := fun _ => (Q2Qc 0%Q, Q2Qc 0%Q, Q2Qc 0%Q).
Definition ex_bs : val (K:=Qc) := Lit (Q2Qc (9#25)%Q, Q2Qc (3#5)%Q, Q2Qc (4#5)%Q).
Definition ex_loss : val (K:=Qc) := Lit (Q2Qc (16#25)%Q, Q2Qc (3#5)%Q, Q2Qc (4#5)%Q).
Definition ex_nol : val (K:=Qc) := Lit (Q2Qc 0%Q, Q2Qc 1%Q, Q2Qc 0%Q).
Definition ex_get (r : res (circ (K:=Qc))) : circ (K:=Qc) := match r with Ok c => c | Err _ => new_circ 0 end.
(* a 2-mode circuit with a herald on mode 1 *)
Definition ex_sub1 :=
  ex_get (do a <- op_bs qcops ex_e (new_circ 2) 0 None ex_bs ex_nol Rx; op_herald a 1 1 None).
(* parent: lossy beam splitter on (0,2) of 3 modes, then ex_sub1 added at mode 1:
   full modes [v0, v1, A, v2], ancilla A = 2, two loss modes *)
Definition ex_parent :=
  ex_get (do p <- op_bs qcops ex_e (new_circ 3) 0 (Some 2%Z) ex_bs ex_loss Rx; op_add qcops p ex_sub1 1 false).
(* sub-circuit: 3 modes, lossy H beam splitter (0,1), beam splitter (1,2), one herald
   entering on mode 0 and leaving on mode 2; two loss modes *)
Definition ex_sub2 :=
  ex_get (do a <- op_bs qcops ex_e (new_circ 3) 0 (Some 1%Z) ex_bs ex_loss Hv;
          do b <- op_bs qcops ex_e a 1 (Some 2%Z) ex_bs ex_nol Rx; op_herald b 1 0 (Some 2%Z)).
Definition ex_c' := ex_get (op_add qcops ex_parent ex_sub2 1 false).

Lemma ex_wfh (c : circ (K:=Qc)) :
  wf_check c = true -> nodupb (dkeys (c_in c)) = true -> nodupb (dkeys (c_out c)) = true -> WFH c.
Proof. intros H1 H2 H3. split; [apply wf_check_sound, H1|split; apply nodupb_nodup; assumption]. Qed.

(* the hypotheses of C02_add_wiring hold for: ex_sub2 added at user mode 1 of ex_parent
   (full mode 1; the span v1, A, v2 contains the parent's ancilla A) *)
Example C02_add_wiring_nonvacuous :
  exists c' UP US,
    WFH ex_parent /\ WFH ex_sub2 /\ 1 <= c_n ex_sub2 /\
    Forall swnd (c_spec ex_parent) /\ Forall swnd (c_spec ex_sub2) /\
    length (c_in ex_sub2) = length (c_out ex_sub2) /\
    op_add qcops ex_parent ex_sub2 1 false = Ok c' /\
    build qcops ex_e ex_parent = Ok (c_n ex_parent + 2, UP) /\
    build qcops ex_e ex_sub2 = Ok (c_n ex_sub2 + 2, US) /\
    c_n ex_parent = 4 /\ c_int ex_parent = [2] /\ mode_ok ex_parent (map_mode (c_int ex_parent) 1) = Ok 1 /\
    c_n ex_sub2 = 3 /\ dkeys (c_in ex_sub2) = [0] /\ dkeys (c_out ex_sub2) = [2] /\
    c_n c' = 5 /\ c_int c' = [3; 1] /\ c_in c' = [(3, 1); (1, 1)] /\ c_out c' = [(3, 1); (1, 1)].
Proof.
  destruct (op_add qcops ex_parent ex_sub2 1 false) as [c'|x] eqn:E; [|vm_compute in E; discriminate].
  destruct (build_ok (o:=qcops) ex_e ex_parent) as (UP & EP); [vm_compute; repeat split|].
  destruct (build_ok (o:=qcops) ex_e ex_sub2) as (US & ES); [vm_compute; repeat split|].
  exists c', UP, US.
  split; [apply ex_wfh; vm_compute; reflexivity|].
  split; [apply ex_wfh; vm_compute; reflexivity|].
  split; [vm_compute; lia|].
  split; [apply swndb_spec_sound; vm_compute; reflexivity|].
  split; [apply swndb_spec_sound; vm_compute; reflexivity|].
  split; [reflexivity|].
  split; [reflexivity|].
  split; [exact EP|].
  split; [exact ES|].
  assert (Ec : c' = ex_c') by (unfold ex_c'; rewrite E; reflexivity). subst c'.
  repeat split; vm_compute; reflexivity.
Qed.

(* the conclusion recomputed on this instance from a hand-written wiring (independent of the
   proof): result modes [v0, A', v1, A, v2 | 2 loss modes of P | 2 loss modes of S];
   old = 0,1,2,3,(4,5) |-> 0,2,3,4,(5,6); the new ancilla A' = loc 0 = 1;
   phi_in  = 0,1,2,(3,4) |-> 1,2,4,(7,8)   (herald input 0 -> A', open inputs 1,2 -> v1,v2)
   phi_out = 0,1,2,(3,4) |-> 2,4,1,(7,8)   (herald output 2 -> A', open outputs 0,1 -> v1,v2);
   the old ancilla A (result mode 3) is in neither image: it passes straight through E *)
Definition ex_mat (r : res (cstate (K:=Qc))) : mat (K:=Qc*Qc) :=
  match r with Ok (_, U) => U | Err _ => mid (co qcops) end.
Definition ex_dim (r : res (cstate (K:=Qc))) : nat := match r with Ok (n, _) => n | Err _ => 0 end.
Fixpoint ex_idx (x : nat) (l : list nat) : option nat :=
  match l with [] => None | y :: l' => if Nat.eqb x y then Some 0 else option_map S (ex_idx x l') end.
Definition ex_transport (rows cols : list nat) (U : mat (K:=Qc*Qc)) : mat (K:=Qc*Qc) :=
  fun x y => match ex_idx x rows, ex_idx y cols with Some i, Some j => U i j | _, _ => mid (co qcops) x y end.
Example C02_add_wiring_computed :
  let UP := ex_mat (build qcops ex_e ex_parent) in
  let US := ex_mat (build qcops ex_e ex_sub2) in
  let UR := ex_mat (build qcops ex_e ex_c') in
  let old := [0; 2; 3; 4; 5; 6] in
  let phi_in := [1; 2; 4; 7; 8] in
  let phi_out := [2; 4; 1; 7; 8] in
  ex_dim (build qcops ex_e ex_c') = 9 /\
  forallb (fun i => forallb (fun j =>
      keqb (co qcops) (UR i j)
           (mmul (co qcops) 9 (ex_transport phi_out phi_in US) (ex_transport old old UP) i j))
    (seq 0 9)) (seq 0 9) = true.
Proof. vm_compute. split; reflexivity. Qed.

(* ====================================================================== *)
(* Fock-space amplitudes of the result (DESIGN "### C02", T2 add_amplitudes) *)
(* ====================================================================== *)
From LW Require Import Base.Sums Model.State Model.Fock Proofs.PermP Proofs.FockUnitP
     Proofs.WiringAmpFock Proofs.WiringAmpP.
Local Open Scope nat_scope.

(* Notation of this part.  [amp_perm r U ins outs] (Model/Fock.v, the value the permanent back
   end computes) is the permanent of U with row i repeated outs_i times and column j repeated
   ins_j times; the transition amplitude is  amp_perm / sqrt (amp_factor ins outs),
   amp_factor ins outs = prod ins! * prod outs!  ([fact_prod]).
   [restr f n s]      = the occupations of the modes f 0, ..., f (n-1) of the state s;
   [offocc f n N s]   = the occupations of the modes of [0,N) that are not among them, ascending;
   [pass_factor r f n N s t] = prod (offocc f n N s)!  if offocc f n N s = offocc f n N t, else 0;
   [fock_enum L N k]  : L lists every N-mode state with k photons exactly once ([focks N k] does);
   [ZMorph o]         : kofZ o is the canonical map of the integers;  [ninv k] = 1/k. *)

(* T-A.  M' carries the n x n matrix M on the rows fo[0,n) and columns fi[0,n) of the
   N-dimensional identity (fi, fo injective with the same image).  For N-mode states s (input)
   and t (output): photons outside the image keep their mode, the others see M. *)
Theorem C02_amp_transport :
  forall (K : Type) (r : ops K) (SR : StarRing r) (ZM : ZMorph r)
         (n N : nat) (fi fo : nat -> nat) (M M' : mat (K:=K)) (s t : list nat),
    (forall i, i < n -> fi i < N /\ fo i < N) ->
    (forall i j, i < n -> j < n -> (fi i = fi j -> i = j) /\ (fo i = fo j -> i = j)) ->
    (forall x, (forall i, i < n -> fi i <> x) <-> (forall i, i < n -> fo i <> x)) ->
    (forall i j, i < n -> j < n -> M' (fo i) (fi j) = M i j) ->
    (forall x y, x < N -> y < N -> (forall i, i < n -> fi i <> x) ->
                 M' x y = mid r x y /\ M' y x = mid r y x) ->
    length s = N -> length t = N ->
    amp_perm r M' s t =
    kmul r (if nlist_eqb (offocc fi n N s) (offocc fi n N t)
            then kofnat r (fact_prod (offocc fi n N s)) else k0 r)
           (amp_perm r M (restr fi n s) (restr fo n t)).
Proof. exact (fun K r SR ZM => @amp_transport K r SR ZM). Qed.
Print Assumptions C02_amp_transport.

(* a non-vanishing amplitude of M' conserves the occupation of every mode outside the image *)
Theorem C02_amp_transport_conserved :
  forall (K : Type) (r : ops K) (SR : StarRing r) (ZM : ZMorph r)
         (n N : nat) (fi fo : nat -> nat) (M M' : mat (K:=K)) (s t : list nat),
    (forall i, i < n -> fi i < N /\ fo i < N) ->
    (forall i j, i < n -> j < n -> (fi i = fi j -> i = j) /\ (fo i = fo j -> i = j)) ->
    (forall x, (forall i, i < n -> fi i <> x) <-> (forall i, i < n -> fo i <> x)) ->
    (forall i j, i < n -> j < n -> M' (fo i) (fi j) = M i j) ->
    (forall x y, x < N -> y < N -> (forall i, i < n -> fi i <> x) ->
                 M' x y = mid r x y /\ M' y x = mid r y x) ->
    length s = N -> length t = N ->
    amp_perm r M' s t <> k0 r ->
    forall x, x < N -> (forall i, i < n -> fi i <> x) -> nth x s 0 = nth x t 0.
Proof. exact (fun K r SR ZM => @amp_transport_conserved K r SR ZM). Qed.
Print Assumptions C02_amp_transport_conserved.

(* normalisation: the factor prod in! * prod out! splits into the factor of the restricted
   states and the factorials of the occupations outside the image (input and output) ... *)
Theorem C02_amp_factor_transport :
  forall (n N : nat) (fi fo : nat -> nat) (s t : list nat),
    (forall i, i < n -> fi i < N /\ fo i < N) ->
    (forall i j, i < n -> j < n -> (fi i = fi j -> i = j) /\ (fo i = fo j -> i = j)) ->
    (forall x, (forall i, i < n -> fi i <> x) <-> (forall i, i < n -> fo i <> x)) ->
    length s = N -> length t = N ->
    amp_factor s t =
    amp_factor (restr fi n s) (restr fo n t) * (fact_prod (offocc fi n N s) * fact_prod (offocc fi n N t)).
Proof. exact amp_factor_transport. Qed.
Print Assumptions C02_amp_factor_transport.

(* ... so that amplitude^2 / factor (hence, the pass-through factor being a positive integer,
   the normalised amplitude itself) is the same for the transported and the original matrix *)
Theorem C02_amp_transport_normalised :
  forall (K : Type) (r : ops K) (SR : StarRing r) (ZM : ZMorph r)
         (n N : nat) (fi fo : nat -> nat) (M M' : mat (K:=K)) (s t : list nat),
    (forall i, i < n -> fi i < N /\ fo i < N) ->
    (forall i j, i < n -> j < n -> (fi i = fi j -> i = j) /\ (fo i = fo j -> i = j)) ->
    (forall x, (forall i, i < n -> fi i <> x) <-> (forall i, i < n -> fo i <> x)) ->
    (forall i j, i < n -> j < n -> M' (fo i) (fi j) = M i j) ->
    (forall x y, x < N -> y < N -> (forall i, i < n -> fi i <> x) ->
                 M' x y = mid r x y /\ M' y x = mid r y x) ->
    length s = N -> length t = N ->
    offocc fi n N s = offocc fi n N t ->
    kmul r (kofnat r (amp_factor (restr fi n s) (restr fo n t))) (kmul r (amp_perm r M' s t) (amp_perm r M' s t)) =
    kmul r (kofnat r (amp_factor s t))
           (kmul r (amp_perm r M (restr fi n s) (restr fo n t)) (amp_perm r M (restr fi n s) (restr fo n t))).
Proof. exact (fun K r SR ZM => @amp_transport_normalised K r SR ZM). Qed.
Print Assumptions C02_amp_transport_normalised.

(* T-B, algebraic core.  UP (dimension nP) is carried along old into iP, US (dimension nS) along
   phi_in (columns) / phi_out (rows) into E, inside dimension D, and UR = E . iP on [0,D).
   Then for all D-mode Fock states x (input), y (output), and any exact enumeration L of the
   D-mode states with |x| photons:
   (a) amp(UR; x -> y) = sum_t amp(E; t -> y) amp(iP; x -> t) / prod t!,
   (b) each factor is the own amplitude of UP resp. US between the restricted states, times the
       pass-through factor of the other modes,   (c) the two combined. *)
Theorem C02_wiring_amplitudes :
  forall (K : Type) (r : ops K) (SR : StarRing r) (ZM : ZMorph r) (ninv : nat -> K),
    (forall k, 0 < k -> kmul r (kofnat r k) (ninv k) = k1 r) ->
    forall (nP nS D : nat) (old phi_in phi_out : nat -> nat) (UP US UR E iP : mat (K:=K)),
    (forall i, i < nP -> old i < D) ->
    (forall i j, i < nP -> j < nP -> old i = old j -> i = j) ->
    (forall i j, i < nP -> j < nP -> iP (old i) (old j) = UP i j) ->
    (forall x y, x < D -> y < D -> (forall i, i < nP -> old i <> x) ->
                 iP x y = mid r x y /\ iP y x = mid r y x) ->
    (forall i, i < nS -> phi_in i < D /\ phi_out i < D) ->
    (forall i j, i < nS -> j < nS -> (phi_in i = phi_in j -> i = j) /\ (phi_out i = phi_out j -> i = j)) ->
    (forall x, (forall i, i < nS -> phi_in i <> x) <-> (forall i, i < nS -> phi_out i <> x)) ->
    (forall i j, i < nS -> j < nS -> E (phi_out i) (phi_in j) = US i j) ->
    (forall x y, x < D -> y < D -> (forall i, i < nS -> phi_in i <> x) ->
                 E x y = mid r x y /\ E y x = mid r y x) ->
    meq D UR (mmul r D E iP) ->
    forall (x y : list nat) (L : list (list nat)),
      length x = D -> length y = D -> fock_enum L D (osum x) ->
      amp_perm r UR x y =
        suml r L (fun t => kmul r (kmul r (amp_perm r E t y) (amp_perm r iP x t)) (ninv (fact_prod t))) /\
      (forall t, length t = D ->
         amp_perm r iP x t =
           kmul r (pass_factor r old nP D x t) (amp_perm r UP (restr old nP x) (restr old nP t)) /\
         amp_perm r E t y =
           kmul r (pass_factor r phi_in nS D t y) (amp_perm r US (restr phi_in nS t) (restr phi_out nS y))) /\
      amp_perm r UR x y =
        suml r L (fun t =>
          kmul r (kmul r
            (kmul r (pass_factor r phi_in nS D t y) (amp_perm r US (restr phi_in nS t) (restr phi_out nS y)))
            (kmul r (pass_factor r old nP D x t) (amp_perm r UP (restr old nP x) (restr old nP t))))
            (ninv (fact_prod t))).
Proof. exact (fun K r SR ZM => @wiring_amplitudes K r SR ZM). Qed.
Print Assumptions C02_wiring_amplitudes.

(* T-B / T-C for Circuit.add.  Hypotheses and witnesses of C02_add_wiring (its conclusion is
   repeated as the first conjunct, so that the amplitude clauses speak about the same old, loc,
   phi_in, phi_out, E, iP).  D = nR + lP + lS is the dimension of the compiled result; x and y are
   FULL states of the result: the heralded ancillas carry their photons, loss modes included.
   T-B (for all x, y, and any exact enumeration L of the D-mode states with |x| photons):
   (a) amp(U_R; x -> y) = sum_t amp(E; t -> y) amp(iP; x -> t) / prod t!;
   (b) amp(iP; x -> t) = [x = t off im old] prod (x off im old)! amp(U_P; x|old -> t|old): the
       parent's own amplitude; amp(E; t -> y) = [t = y off W] prod (t off W)! amp(U_S; t|phi_in ->
       y|phi_out): the sub-circuit's own amplitude, its j-th open input/output wired to the j-th
       visible parent mode from m on and its k-th herald to the new ancilla loc k;
   (c) the two combined: the result's amplitudes are those of the two transformations composed
       under this wiring;
   (d) every ancilla old(i), i in c_int c, of the parent keeps its photons through E;
   (e) every new ancilla loc k keeps its photons through iP.
   T-C (heralded form): if x holds the input herald numbers of the result and y its output herald
   numbers, then the parent's input heralds hold on x|old, the k-th herald of sub leaves sub on its
   declared output mode with its declared photon number (so all of sub's output heralds hold on
   y|phi_out when its two herald dictionaries list the same numbers, as every herald()/add() call
   produces), and in every non-vanishing term t of the sum the heralds of sub hold at its own input
   t|phi_in and the parent's ancillas hold their output herald numbers on t|old. *)
Theorem C02_add_amplitudes :
  forall (K : Type) (o : ops K) (SRK : StarRing o) (ZMK : ZMorph o) (ninv : nat -> K * K),
    (forall k, 0 < k -> kmul (co o) (kofnat (co o) k) (ninv k) = k1 (co o)) ->
    forall (e : env (K:=K)) (c sub c' : circ (K:=K)) (mode : Z) (g : bool)
           (lP : nat) (UP : mat (K:=K*K)) (lS : nat) (US : mat (K:=K*K)),
    WFH c -> WFH sub -> 1 <= c_n sub ->
    Forall swnd (c_spec c) -> Forall swnd (c_spec sub) ->
    length (c_in sub) = length (c_out sub) ->
    op_add o c sub mode g = Ok c' ->
    build o e c = Ok (c_n c + lP, UP) -> build o e sub = Ok (c_n sub + lS, US) ->
    let nP := c_n c in let nS := c_n sub in let h := length (c_in sub) in let nR := nP + h in
    let ins := dkeys (c_in sub) in let outs := dkeys (c_out sub) in
    let D := nR + lP + lS in
    exists (m : nat) (old loc phi_in phi_out : nat -> nat) (UR E iP : mat (K:=K*K)),
      (* ---- the wiring (conclusion of C02_add_wiring, verbatim) ---- *)
      (mode_ok c (map_mode (c_int c) mode) = Ok m /\ m < nP /\ ~ In m (c_int c) /\
       c_n c' = nR /\ build o e c' = Ok (nR + lP + lS, UR) /\
       (forall a b, a < b -> old a < old b) /\ (forall i, i < nP -> old i < nR) /\
       (forall l, old (nP + l) = nR + l) /\ (forall i, i < m -> old i = i) /\
       (forall k, k < h -> loc k < nR /\ forall i, old i <> loc k) /\
       (forall k k', k < h -> k' < h -> loc k = loc k' -> k = k') /\
       Permutation (c_int c') (map old (c_int c) ++ map loc (seq 0 h)) /\
       c_in c' = map (fun kv => (old (fst kv), snd kv)) (c_in c) ++ map (fun kv => (phi_in (fst kv), snd kv)) (c_in sub) /\
       c_out c' = map (fun kv => (old (fst kv), snd kv)) (c_out c) ++ map (fun kv => (phi_in (fst kv), snd kv)) (c_in sub) /\
       (forall k, k < h -> phi_in (nth k ins 0) = loc k /\ phi_out (nth k outs 0) = loc k) /\
       nS - h <= length (visible_from nP (c_int c) m) /\
       (forall j, j < nS - h ->
          phi_in (nth j (open_modes_of nS ins) 0) = old (nth j (visible_from nP (c_int c) m) 0) /\
          phi_out (nth j (open_modes_of nS outs) 0) = old (nth j (visible_from nP (c_int c) m) 0)) /\
       (forall l, phi_in (nS + l) = nR + lP + l /\ phi_out (nS + l) = nR + lP + l) /\
       (forall i, i < nS + lS -> phi_in i < nR + lP + lS /\ phi_out i < nR + lP + lS) /\
       (forall i j, i < nS + lS -> j < nS + lS -> (phi_in i = phi_in j -> i = j) /\ (phi_out i = phi_out j -> i = j)) /\
       (forall i j, i < nS + lS -> j < nS + lS -> E (phi_out i) (phi_in j) = US i j) /\
       (forall x y, x < nR + lP + lS -> y < nR + lP + lS -> (forall i, i < nS + lS -> phi_in i <> x) ->
                    E x y = mid (co o) x y /\ E y x = mid (co o) y x) /\
       (forall x, (forall i, i < nS + lS -> phi_in i <> x) <-> (forall i, i < nS + lS -> phi_out i <> x)) /\
       (forall i, In i (c_int c) -> forall i', i' < nS + lS -> phi_in i' <> old i) /\
       (forall i j, i < nP + lP -> j < nP + lP -> iP (old i) (old j) = UP i j) /\
       (forall x y, x < nR + lP + lS -> y < nR + lP + lS -> (forall i, i < nP + lP -> old i <> x) ->
                    iP x y = mid (co o) x y /\ iP y x = mid (co o) y x) /\
       meq (nR + lP + lS) UR (mmul (co o) (nR + lP + lS) E iP) /\
       WFH c' /\ Forall swnd (c_spec c')) /\
      (* ---- T-B: amplitudes, for all full input states x and output states y of the result ---- *)
      (forall (x y : list nat) (L : list (list nat)),
         length x = D -> length y = D -> fock_enum L D (osum x) ->
         amp_perm (co o) UR x y =
           suml (co o) L (fun t => kmul (co o) (kmul (co o) (amp_perm (co o) E t y) (amp_perm (co o) iP x t))
                                               (ninv (fact_prod t))) /\
         (forall t, length t = D ->
            amp_perm (co o) iP x t =
              kmul (co o) (pass_factor (co o) old (nP + lP) D x t)
                          (amp_perm (co o) UP (restr old (nP + lP) x) (restr old (nP + lP) t)) /\
            amp_perm (co o) E t y =
              kmul (co o) (pass_factor (co o) phi_in (nS + lS) D t y)
                          (amp_perm (co o) US (restr phi_in (nS + lS) t) (restr phi_out (nS + lS) y))) /\
         amp_perm (co o) UR x y =
           suml (co o) L (fun t =>
             kmul (co o) (kmul (co o)
               (kmul (co o) (pass_factor (co o) phi_in (nS + lS) D t y)
                            (amp_perm (co o) US (restr phi_in (nS + lS) t) (restr phi_out (nS + lS) y)))
               (kmul (co o) (pass_factor (co o) old (nP + lP) D x t)
                            (amp_perm (co o) UP (restr old (nP + lP) x) (restr old (nP + lP) t))))
               (ninv (fact_prod t))) /\
         (forall t, length t = D -> amp_perm (co o) E t y <> k0 (co o) ->
            forall i, In i (c_int c) -> nth (old i) t 0 = nth (old i) y 0) /\
         (forall t, length t = D -> amp_perm (co o) iP x t <> k0 (co o) ->
            forall k, k < h -> nth (loc k) x 0 = nth (loc k) t 0)) /\
      (* ---- T-C: heralded form ---- *)
      (forall (x y : list nat),
         length x = D -> length y = D ->
         (forall kv, In kv (c_in c') -> nth (fst kv) x 0 = snd kv) ->
         (forall kv, In kv (c_out c') -> nth (fst kv) y 0 = snd kv) ->
         (forall kv, In kv (c_in c) -> nth (fst kv) (restr old (nP + lP) x) 0 = snd kv) /\
         (forall k, k < h ->
            nth (nth k outs 0) (restr phi_out (nS + lS) y) 0 = snd (nth k (c_in sub) (0, 0))) /\
         (dvals (c_out sub) = dvals (c_in sub) ->
            forall kv, In kv (c_out sub) -> nth (fst kv) (restr phi_out (nS + lS) y) 0 = snd kv) /\
         (forall t, length t = D -> amp_perm (co o) E t y <> k0 (co o) -> amp_perm (co o) iP x t <> k0 (co o) ->
            (forall kv, In kv (c_in sub) -> nth (fst kv) (restr phi_in (nS + lS) t) 0 = snd kv) /\
            (forall kv, In kv (c_out c) -> In (fst kv) (c_int c) ->
               nth (fst kv) (restr old (nP + lP) t) 0 = snd kv))).
Proof. exact (fun K o SRK ZMK => @add_amplitudes K o SRK ZMK). Qed.
Print Assumptions C02_add_amplitudes.

(* Any nesting depth.  The result c' of an accepted add satisfies every hypothesis that
   C02_add_wiring / C02_add_amplitudes put on a parent (WFH, swnd) and on a sub-circuit (WFH, swnd,
   at least one mode, herald dictionaries of equal length), and it compiles (with the loss modes
   of both): both theorems apply again with c' as the parent of a further addition or as the
   sub-circuit of another parent, and so on along any tree of additions; at each level the
   amplitudes amp(U_P; ..) / amp(U_S; ..) on the right-hand side of C02_add_amplitudes are
   themselves given by C02_add_amplitudes for the level below. *)
Theorem C02_add_result_reusable :
  forall (K : Type) (o : ops K) (SRK : StarRing o) (e : env (K:=K)) (c sub c' : circ (K:=K)) (mode : Z) (g : bool)
         (lP : nat) (UP : mat (K:=K*K)) (lS : nat) (US : mat (K:=K*K)),
    WFH c -> WFH sub -> 1 <= c_n sub ->
    Forall swnd (c_spec c) -> Forall swnd (c_spec sub) ->
    length (c_in sub) = length (c_out sub) ->
    op_add o c sub mode g = Ok c' ->
    build o e c = Ok (c_n c + lP, UP) -> build o e sub = Ok (c_n sub + lS, US) ->
    WFH c' /\ Forall swnd (c_spec c') /\ 1 <= c_n c' /\
    (length (c_in c) = length (c_out c) -> length (c_in c') = length (c_out c')) /\
    exists UR, build o e c' = Ok (c_n c' + (lP + lS), UR).
Proof. exact (fun K o SRK => @add_result_reusable K o SRK). Qed.
Print Assumptions C02_add_result_reusable.

(* the instance at the reals: complex amplitudes, 1/k = cinvn k (FockUnitP); the only axioms
   are those of the standard library's real numbers *)
Definition C02_add_amplitudes_real :=
  C02_add_amplitudes Rdefinitions.R RInst.rops RInst.rstar rops_zmorph cinvn cinvn_spec.
Print Assumptions C02_add_amplitudes_real.

(* ---- non-vacuity over the rationals ---- *)
(* the scalar hypotheses of C02_add_amplitudes hold for the rationals (the circuit hypotheses
   are those of C02_add_wiring_nonvacuous above) *)
Example C02_add_amplitudes_scalars_nonvacuous :
  StarRing qcops /\ ZMorph qcops /\
  (forall k, 0 < k -> kmul (co qcops) (kofnat (co qcops) k) (qcinvn k) = k1 (co qcops)).
Proof. exact (conj qc_star (conj qc_zmorph qcinvn_spec)). Qed.

(* Both sides of C02_add_amplitudes computed on the instance of C02_add_wiring_computed (result
   modes [v0, A', v1, A, v2 | 2 loss modes of P | 2 loss modes of S], herald photon numbers
   A' = 1 and A = 1 at input and output), with the hand-written wiring old / phi_in / phi_out:
   for each pair (x, y) of full states
     lhs  = amp(U_R; x -> y)                                   from the compiled result,
     mid  = sum_t amp(E; t -> y) amp(iP; x -> t) / prod t!     clause (a),
     rhs  = sum_t [..] amp(U_S; t|phi_in -> y|phi_out) [..] amp(U_P; x|old -> t|old) / prod t!   clause (c)
   agree; the first amplitude is 972/15625 i, not zero.  Pairs: one photon v0 -> v1; photons on
   v0 and v1 -> one on v1, one lost in the sub-circuit; two photons on v1 -> v1 and v2. *)
Definition ex_amp_sides (x y : list nat) : (Qc * Qc) * (Qc * Qc) * (Qc * Qc) :=
  let cq := co qcops in
  let UP := ex_mat (build qcops ex_e ex_parent) in
  let US := ex_mat (build qcops ex_e ex_sub2) in
  let UR := tab cq 9 (ex_mat (build qcops ex_e ex_c')) in
  let lold := [0; 2; 3; 4; 5; 6] in let lin := [1; 2; 4; 7; 8] in let lout := [2; 4; 1; 7; 8] in
  let old := fun i => nth i lold 0 in let phi_in := fun i => nth i lin 0 in let phi_out := fun i => nth i lout 0 in
  let E := tab cq 9 (ex_transport lout lin US) in
  let iP := tab cq 9 (ex_transport lold lold UP) in
  let L := focks 9 (osum x) in
  (amp_perm cq UR x y,
   suml cq L (fun t => kmul cq (kmul cq (amp_perm cq E t y) (amp_perm cq iP x t)) (qcinvn (fact_prod t))),
   suml cq L (fun t => kmul cq (kmul cq
      (kmul cq (pass_factor cq phi_in 5 9 t y) (amp_perm cq US (restr phi_in 5 t) (restr phi_out 5 y)))
      (kmul cq (pass_factor cq old 6 9 x t) (amp_perm cq UP (restr old 6 x) (restr old 6 t))))
      (qcinvn (fact_prod t)))).
Example C02_add_amplitudes_computed :
  forallb (fun xy =>
      let '(l, m, r) := ex_amp_sides (fst xy) (snd xy) in
      keqb (co qcops) l m && keqb (co qcops) l r)
    [([1;1;0;1;0;0;0;0;0], [0;1;1;1;0;0;0;0;0]);
     ([1;1;1;1;0;0;0;0;0], [0;1;1;1;0;0;0;1;0]);
     ([0;1;2;1;0;0;0;0;0], [0;1;1;1;1;0;0;0;0])] = true /\
  fst (fst (ex_amp_sides [1;1;0;1;0;0;0;0;0] [0;1;1;1;0;0;0;0;0])) = (Q2Qc 0, Q2Qc (972 # 15625)) /\
  c_in ex_c' = [(3, 1); (1, 1)] /\ c_out ex_c' = [(3, 1); (1, 1)].
Proof. vm_compute. repeat split; reflexivity. Qed.
