(* C02 — adding a sub-circuit wires it in order; heralded modes become private
   ancillas.  Statements only; every proof is [exact <lemma>].

   What is proved here (for all circuits, all mode numbers, all histories of the
   parent): the user-mode numbering (user mode u = the u-th non-ancilla mode,
   order preserving, never an ancilla), the acceptance rule of add (an addition
   is accepted exactly when it fits into the non-ancilla modes from there on,
   otherwise ModeRangeError), and that components appended later act as the
   identity on every ancilla.  The matrix-level wiring statement of DESIGN C02
   (U_R = E . iota(U_P)) is NOT proved in Coq; it is decided on every run by
   the correspondence (model of the repaired Circuit.add = implementation) and
   by the independent wiring reference in harness/c02.py. *)
From Coq Require Import ZArith List Bool Arith Lia.
From LW Require Import Base.Sx Base.Num Base.Mat Model.Circuit Proofs.CircuitP Proofs.AddP.
Import ListNotations.

(* user mode z is mapped to the z-th mode that is not an ancilla: the result is
   no ancilla and exactly z non-ancilla modes lie below it *)
Theorem C02_user_mode_is_rank_among_non_ancillas :
  forall (internal : list nat) (z : Z),
    NoDup internal ->
    let r := map_mode internal z in
    (forall i, In i internal -> Z.of_nat i <> r) /\ (r - below internal r = z)%Z /\ (z <= r)%Z.
Proof. exact map_mode_spec. Qed.
Print Assumptions C02_user_mode_is_rank_among_non_ancillas.

Theorem C02_user_mode_numbering_order_preserving :
  forall internal (a b : Z), (a < b)%Z -> (map_mode internal a < map_mode internal b)%Z.
Proof. exact map_mode_mono. Qed.
Print Assumptions C02_user_mode_numbering_order_preserving.

(* add is accepted iff the (mapped) mode exists and the sub-circuit's non-heralded
   modes fit into the parent's non-ancilla modes from that mode on *)
Theorem C02_add_accepted_iff_fits :
  forall (K : Type) (o : ops K) (c sub : circ (K:=K)) (mode : Z) (g : bool),
    (exists c', op_add o c sub mode g = Ok c') <->
    (exists m, mode_ok c (map_mode (c_int c) mode) = Ok m /\ open_modes sub <= avail_from c m).
Proof. exact (fun K o => @op_add_accept_iff K o). Qed.
Print Assumptions C02_add_accepted_iff_fits.

Theorem C02_add_rejects_with_mode_range_error :
  forall (K : Type) (o : ops K) (c sub : circ (K:=K)) mode g e,
    op_add o c sub mode g = Err e -> e = ModeRangeError.
Proof. exact (fun K o => @op_add_reject_class K o). Qed.
Print Assumptions C02_add_rejects_with_mode_range_error.

(* every primitive appended to a circuit acts only on non-ancilla modes ... *)
Theorem C02_later_components_avoid_ancillas :
  forall (K : Type) (o : ops K) (e : env (K:=K)) (c c' : circ (K:=K)),
    NoDup (c_int c) ->
    (forall m1 m2 r l cv, op_bs o e c m1 m2 r l cv = Ok c' ->
       exists added, c_spec c' = c_spec c ++ added /\ c_int c' = c_int c /\
                     forall x, In x added -> forall i, In i (comp_modes x) -> ~ In i (c_int c)) /\
    (forall m phi l, op_ps o e c m phi l = Ok c' ->
       exists added, c_spec c' = c_spec c ++ added /\ c_int c' = c_int c /\
                     forall x, In x added -> forall i, In i (comp_modes x) -> ~ In i (c_int c)) /\
    (forall m l, op_loss o e c m l = Ok c' ->
       exists added, c_spec c' = c_spec c ++ added /\ c_int c' = c_int c /\
                     forall x, In x added -> forall i, In i (comp_modes x) -> ~ In i (c_int c)).
Proof.
  exact (fun K o e c c' H =>
           conj (fun m1 m2 r l cv => @op_bs_untouched K o e c m1 m2 r l cv c' H)
          (conj (fun m phi l => @op_ps_untouched K o e c m phi l c' H)
                (fun m l => @op_loss_untouched K o e c m l c' H))).
Qed.
Print Assumptions C02_later_components_avoid_ancillas.

(* ... and a component is the identity on every mode it does not act on *)
Theorem C02_components_identity_off_their_modes :
  forall (K : Type) (o : ops K),
    (forall m1 m2 x cv i j, i <> m1 -> i <> m2 ->
       bs_mat o m1 m2 x cv i j = mid (cplx o) i j /\ bs_mat o m1 m2 x cv j i = mid (cplx o) j i) /\
    (forall m x i j, i <> m ->
       ps_mat o m x i j = mid (cplx o) i j /\ ps_mat o m x j i = mid (cplx o) j i).
Proof. exact (fun K o => conj (@bs_mat_off K o) (@ps_mat_off K o)). Qed.
Print Assumptions C02_components_identity_off_their_modes.

Example C02_map_mode_nonvacuous :
  map_mode [1; 3] 0 = 0%Z /\ map_mode [1; 3] 1 = 2%Z /\ map_mode [1; 3] 2 = 4%Z /\ NoDup [1; 3].
Proof. repeat split; repeat constructor; simpl; intuition; discriminate. Qed.
