(* C01 — a circuit compiles to the ordered product of its components.
   Statements only; every proof is [exact <lemma>]. *)
From Coq Require Import Reals ZArith List Bool Arith Lia.
From LW Require Import Base.Sx Base.Num Base.Sums Base.Mat Base.Embed Base.RInst
     Model.Circuit Proofs.CompileP Proofs.CircuitP Proofs.C01P.
Import ListNotations.
Open Scope nat_scope.

(* Over the reals: for EVERY mode count n and EVERY construction program
   (any length, any interleaving of bs (both conventions, any modes, optional
   loss), ps, loss, barrier, mode_swaps and Unitary blocks; any real
   reflectivity/loss/phase; rejected calls change nothing):
   - the circuit still has n modes,
   - compilation succeeds, U_full has exactly one extra mode per loss element,
   - U_full is unitary,
   - its leading n x n block (= Circuit.U) is the product, in insertion order,
     of the n x n embeddings of the components, a loss element acting as the
     amplitude factor sqrt(1-loss) on its mode and a barrier as identity
     ([prod_small_list], [small_mat]). *)
Theorem C01_compile_spec_reals :
  forall (n : nat) (prog : list prim),
    Forall blocks_unitary prog ->
    let c := fold_left prim_step prog (new_circ n) in
    c_n c = n /\
    exists U_full,
      build rops renv c = Ok (n + n_loss_list (c_spec c), U_full) /\
      unitary cops (n + n_loss_list (c_spec c)) U_full /\
      meq n U_full (prod_small_list (o:=rops) renv n (c_spec c) (mid cops)).
Proof. exact c01_main. Qed.
Print Assumptions C01_compile_spec_reals.

(* Generic form over any commutative ring with involution, for ANY well-formed
   spec (also with groups, i.e. added sub-circuits): dimension and unitarity *)
Theorem C01_U_full_unitary :
  forall (K : Type) (o : ops K) (SRK : StarRing o) (e : env (K:=K)) (c : circ (K:=K)) n' U',
    Forall (wf (o:=o) e (c_n c)) (c_spec c) -> build o e c = Ok (n', U') ->
    n' = c_n c + n_loss_list (c_spec c) /\ unitary (co o) n' U'.
Proof. exact (fun K o SRK => @build_unitary K o SRK). Qed.
Print Assumptions C01_U_full_unitary.

Theorem C01_leading_block_is_ordered_product :
  forall (K : Type) (o : ops K) (SRK : StarRing o) (e : env (K:=K)) (c : circ (K:=K)) n' U',
    Forall (wf (o:=o) e (c_n c)) (c_spec c) -> build o e c = Ok (n', U') ->
    meq (c_n c) U' (prod_small_list (o:=o) e (c_n c) (c_spec c) (mid (co o))).
Proof. exact (fun K o SRK => @build_leading_block K o SRK). Qed.
Print Assumptions C01_leading_block_is_ordered_product.

(* "ordered": the ordered product is a homomorphism from concatenation of component lists
   (what is added later multiplies from the left), and a group is transparent - it
   contributes exactly the ordered product of its own components, wherever it stands *)
Theorem C01_ordered_product_concatenates :
  forall (K : Type) (o : ops K) (e : env (K:=K)) (N : nat) (sp1 sp sp2 : list (comp (K:=K)))
         m1 m2 hin hout (U : mat),
    prod_small_list (o:=o) e N (sp1 ++ sp2) U
      = prod_small_list (o:=o) e N sp2 (prod_small_list (o:=o) e N sp1 U) /\
    prod_small_list (o:=o) e N (sp1 ++ Group sp m1 m2 hin hout :: sp2) U
      = prod_small_list (o:=o) e N (sp1 ++ sp ++ sp2) U.
Proof.
  exact (fun K o e N sp1 sp sp2 m1 m2 hin hout U =>
           conj (@prod_small_list_app K o e N sp1 sp2 U)
                (@prod_small_list_group K o e N sp1 sp m1 m2 hin hout sp2 U)).
Qed.
Print Assumptions C01_ordered_product_concatenates.

(* the documented component transformations are unitary for all parameter values *)
Theorem C01_component_matrices_unitary :
  forall (K : Type) (o : ops K) (SRK : StarRing o) n,
    (forall m1 m2 x cv, m1 < n -> m2 < n -> m1 <> m2 -> unit_amp (o:=o) x -> unitary (co o) n (bs_mat o m1 m2 x cv)) /\
    (forall m x, unit_amp (o:=o) x -> unitary (co o) n (ps_mat o m x)) /\
    (forall m x, m < n - 1 -> unit_amp (o:=o) x -> unitary (co o) n (loss_mat o n m x)) /\
    (forall N sw, N <= n -> wf_swaps N sw -> unitary (co o) n (swaps_mat o sw)).
Proof.
  exact (fun K o SRK n => conj (@unitary_bs_mat K o SRK n)
                         (conj (@unitary_ps_mat K o SRK n)
                         (conj (@unitary_loss_mat K o SRK n) (@unitary_swaps_mat K o SRK n)))).
Qed.
Print Assumptions C01_component_matrices_unitary.

(* non-vacuity: a 4-mode program using every component kind runs through *)
Example C01_program_nonvacuous :
  let prog := [PBs 0 None (9/25) 0 Rx; PPs 2 1 (1/4); PLoss 3 (1/2); PBarrier None;
               PSwaps [(0, 2); (2, 0)]%Z; PBs 3 (Some 1%Z) (1/2) (1/10) Hv] in
  Forall blocks_unitary prog.
Proof. repeat constructor. Qed.
