(* C06 — Imperfect-source model: normalised mixture of distinguishable photon groups.
   Statements only; every proof is [exact <lemma>].

   Reading guide.  [ops K]/[StarRing o]: any commutative ring (Base/Num.v); [Rops]: the reals.
   nu = brightness, p_i = sqrt(indistinguishability), p2 = 1 - purity_to_prob(purity).
   c0 .. c1d2d: the six entries of Source._single_photon_distribution.
   [stats_raw] = Source._build_statistics before thresholding, [build_statistics] after;
   [annotated_pdist D n] = annotated_state_pdist_calc with the per-group boson-sampling
   distribution D (oracle function); [wsum o l F] = sum over (x,p) in l of p * F x. *)
From Coq Require Import ZArith List Bool Arith Lia Permutation Reals Lra.
From LW Require Import Base.Sx Base.Num Base.Sums Model.State Model.Source Proofs.SourceP.
Import ListNotations.

(* ---- the single photon table ---- *)
Theorem C06_single_photon_sums_to_one :
  forall {K} (o : ops K) (SR : StarRing o) nu p_i p2,
    kadd o (kadd o (kadd o (kadd o (kadd o (c0 o nu p2) (Source.c1 o nu p_i p2)) (c1d o nu p_i p2)) (c1dp o nu p2))
                   (c12d o nu p_i p2)) (c1d2d o nu p_i p2) = k1 o.
Proof. exact (fun K o SR => @single_photon_sum K o SR). Qed.
Print Assumptions C06_single_photon_sums_to_one.

Theorem C06_single_photon_nonnegative :
  forall nu p_i p2 : R, (0 <= nu <= 1)%R -> (0 <= p_i <= 1)%R -> (0 <= p2 < 1)%R ->
    (0 <= c0 Rops nu p2)%R /\ (0 <= Source.c1 Rops nu p_i p2)%R /\ (0 <= c1d Rops nu p_i p2)%R /\
    (0 <= c1dp Rops nu p2)%R /\ (0 <= c12d Rops nu p_i p2)%R /\ (0 <= c1d2d Rops nu p_i p2)%R.
Proof. exact coeffs_nonneg. Qed.
Print Assumptions C06_single_photon_nonnegative.

(* ---- input statistics are normalised: every input state (bunched modes, gaps,
   herald photons are ordinary entries of [st]), both dispatch branches ---- *)
(* over any commutative ring, provided the [p > 0] filter drops only zeros and brightness <= 1 *)
Theorem C06_stats_normalised :
  forall {K} (o : ops K) (SR : StarRing o) nu p_i p2,
    filter_sound (o:=o) nu p_i p2 ->
    (klt o nu (k1 o) = false -> nu = k1 o) ->
    forall purity indist (st : state),
      st <> [] -> Forall (fun n => (0 <= n)%Z) st ->
      stats_total o (stats_raw o nu p_i p2 purity indist st) = k1 o.
Proof. exact (fun K o SR => @stats_raw_total K o SR). Qed.
Print Assumptions C06_stats_normalised.

(* over the reals, on the documented parameter ranges, with the optional threshold:
   normalised whenever at least some probability survives the threshold *)
Theorem C06_stats_normalised_R :
  forall nu p_i p2 : R, (0 <= nu <= 1)%R -> (0 <= p_i <= 1)%R -> (0 <= p2 < 1)%R ->
  forall purity indist thr (st : state),
    st <> [] -> Forall (fun n => (0 <= n)%Z) st ->
    (thr = 0%R \/
     match stats_raw Rops nu p_i p2 purity indist st with
     | SBasic d => dtotal Rops (kept (o:=Rops) thr d) <> 0%R
     | SFull d => dtotal Rops (kept (o:=Rops) thr d) <> 0%R
     end) ->
    stats_total Rops (build_statistics Rops nu p_i p2 purity indist thr st) = 1%R.
Proof. exact build_statistics_total_R. Qed.
Print Assumptions C06_stats_normalised_R.

(* merging equal keys and relabelling preserve the total *)
Theorem C06_remap_preserves_total :
  forall {K} (o : ops K) (SR : StarRing o) (d : list (astate * K)), dtotal o (remap o d) = dtotal o d.
Proof. exact (fun K o SR => @remap_total K o SR). Qed.
Print Assumptions C06_remap_preserves_total.

(* thresholding keeps exactly the entries >= thr and divides them by the kept total *)
Theorem C06_threshold_renormalises :
  forall {K} (o : ops K) (SR : StarRing o) {A} thr (d : list (A * K)),
    keqb o thr (k0 o) = false ->
    threshold o thr d = map (fun e => (fst e, kmul o (snd e) (kinv o (dtotal o (kept (o:=o) thr d))))) (kept (o:=o) thr d) /\
    (kmul o (dtotal o (kept (o:=o) thr d)) (kinv o (dtotal o (kept (o:=o) thr d))) = k1 o ->
     dtotal o (threshold o thr d) = k1 o).
Proof. exact (fun K o SR A thr d H => conj (threshold_entries thr d H) (threshold_total thr d H)). Qed.
Print Assumptions C06_threshold_renormalises.

(* ---- perfect settings reduce to the ideal source ---- *)
Theorem C06_perfect_source_is_ideal :
  forall {K} (o : ops K) (SR : StarRing o),
    klt o (k1 o) (k1 o) = false -> keqb o (k1 o) (k1 o) = true -> keqb o (k0 o) (k0 o) = true ->
    forall p_i p2 (st : state),
      Forall (fun x => (0 <= x)%Z) st ->
      build_statistics o (k1 o) p_i p2 (k1 o) (k1 o) (k0 o) st = SBasic [(st, k1 o)].
Proof. exact (fun K o SR => @perfect_source_is_ideal K o SR). Qed.
Print Assumptions C06_perfect_source_is_ideal.

Example C06_perfect_source_hypotheses_R :
  klt Rops (k1 Rops) (k1 Rops) = false /\ keqb Rops (k1 Rops) (k1 Rops) = true /\ keqb Rops (k0 Rops) (k0 Rops) = true.
Proof. exact (conj Rklt11 (conj (Reqb_refl 1%R) (Reqb_refl 0%R))). Qed.

(* ---- g2 = 1 - purity ---- *)
(* the code's purity -> p2 formula solves  2 p2 / (1 + p2)^2 = 1 - purity  with p2 in (0,1) *)
Theorem C06_purity_to_prob_spec :
  forall purity : R, (1 / 2 < purity < 1)%R ->
    (0 < p2_code purity < 1)%R /\
    ((1 - purity) * ((1 + p2_code purity) * (1 + p2_code purity)) = 2 * p2_code purity)%R.
Proof. exact p2_code_spec. Qed.
Print Assumptions C06_purity_to_prob_spec.

(* the emitted number statistics P(1), P(2) of the table have g2 = 2 P(2) / <n>^2 = 1 - purity,
   for every brightness and indistinguishability (division-free form over any ring) *)
Theorem C06_g2_table :
  forall {K} (o : ops K) (SR : StarRing o) nu p_i p2 purity,
    kmul o (ksub o (k1 o) purity) (kmul o (kadd o (k1 o) p2) (kadd o (k1 o) p2)) = kmul o (ktwo o) p2 ->
    kmul o (ktwo o) (prob_two (o:=o) nu p_i p2)
    = kmul o (ksub o (k1 o) purity) (kmul o (mean_n (o:=o) nu p_i p2) (mean_n (o:=o) nu p_i p2)).
Proof. exact (fun K o SR => @g2_table K o SR). Qed.
Print Assumptions C06_g2_table.

Theorem C06_g2_is_one_minus_purity :
  forall nu p_i purity : R, nu <> 0%R -> (1 / 2 < purity < 1)%R ->
    let p2 := p2_code purity in
    (2 * prob_two (o:=Rops) nu p_i p2 / (mean_n (o:=Rops) nu p_i p2 * mean_n (o:=Rops) nu p_i p2) = 1 - purity)%R.
Proof. exact g2_is_one_minus_purity_R. Qed.
Print Assumptions C06_g2_is_one_minus_purity.

Theorem C06_sqrt_indistinguishability_spec :
  forall ind : R, (0 <= ind <= 1)%R -> (0 <= sqrt ind <= 1)%R /\ (sqrt ind * sqrt ind = ind)%R.
Proof. exact sqrt_indist_spec. Qed.
Print Assumptions C06_sqrt_indistinguishability_spec.

(* ---- output side: mixture over inputs, groups are independent ---- *)
Theorem C06_output_is_mixture_over_inputs :
  forall {K} (o : ops K) (SR : StarRing o) (D : state -> list (state * K)) n_modes inputs F,
    wsum o (annotated_pdist o D n_modes inputs) F
    = wsum o inputs (fun a => wsum o (combine_groups o D (decompose n_modes a)) F).
Proof. exact (fun K o SR => @annotated_pdist_spec K o SR). Qed.
Print Assumptions C06_output_is_mixture_over_inputs.

Theorem C06_groups_are_independent :
  forall {K} (o : ops K) (SR : StarRing o) (D : state -> list (state * K)) gs F,
    (forall g, In g gs -> D g <> []) ->
    wsum o (combine_groups o D gs) F = groups_expect (o:=o) D gs F.
Proof. exact (fun K o SR => @combine_groups_spec K o SR). Qed.
Print Assumptions C06_groups_are_independent.

Theorem C06_convolution_spec :
  forall {K} (o : ops K) (SR : StarRing o) (p q : list (state * K)) F,
    wsum o (conv o p q) F = wsum o p (fun s1 => wsum o q (fun s2 => F (zip_add s1 s2))).
Proof. exact (fun K o SR => @conv_spec K o SR). Qed.
Print Assumptions C06_convolution_spec.

(* probabilities are expectations of indicators *)
Theorem C06_output_probability :
  forall {K} (o : ops K) (SR : StarRing o) (D : state -> list (state * K)) n_modes inputs x,
    dget st_eqb o (annotated_pdist o D n_modes inputs) x
    = wsum o (annotated_pdist o D n_modes inputs) (fun s => if st_eqb s x then k1 o else k0 o).
Proof. exact (fun K o SR => @annotated_pdist_prob K o SR). Qed.
Print Assumptions C06_output_probability.

(* ---- input side: independent per-photon outcomes, for every input state ----
   [state_outcomes st 1]: one label list per mode for every vector of per-photon outcomes (each photon
   draws one of the six table entries, with its own fresh labels cnt, cnt+1), weight = product of the
   entries.  The unmerged input dictionary denotes exactly this product distribution
   (canonical form [an_make] = labels sorted within each mode). *)
Theorem C06_inputs_are_independent_photons :
  forall {K} (o : ops K) (SR : StarRing o) nu p_i p2,
    filter_sound (o:=o) nu p_i p2 ->
    forall (st : state) (F : astate -> K),
      st <> [] -> Forall (fun n => (0 <= n)%Z) st ->
      wsum o (full_distribution o nu p_i p2 st) F
      = wsum o (state_outcomes o nu p_i p2 st 1%Z) (fun raw => F (an_make raw)).
Proof. exact (fun K o SR => @full_distribution_spec K o SR). Qed.
Print Assumptions C06_inputs_are_independent_photons.

(* group_empty_modes = the recursion "a maximal run of empty modes that is followed by an empty mode is
   added at once and its other members are skipped" *)
Theorem C06_group_empty_spec : forall st : state, group_empty st = ge_rec 0 0 st.
Proof. exact group_empty_rec. Qed.
Print Assumptions C06_group_empty_spec.

(* ---- the mixture specification of the whole annotated pipeline, for every input state ----
   For every observable F of the output pattern, the sampler's expectation of F equals the sum over
   the independent per-photon outcome vectors [raw] (labels per mode, weight = product of table
   entries) of the expectation of F when each group of equal labels is sampled from its own
   boson-sampling distribution D and the occupations are added ([outcome_output]). *)
Theorem C06_mixture_spec :
  forall {K} (o : ops K) (SR : StarRing o) nu p_i p2,
    filter_sound (o:=o) nu p_i p2 ->
    forall (D : state -> list (state * K)) n_modes,
      (forall g, D g <> []) ->
      forall (st : state) (F : state -> K),
        st <> [] -> Forall (fun n => (0 <= n)%Z) st ->
        wsum o (annotated_pdist o D n_modes (build_full o nu p_i p2 st)) F
        = wsum o (state_outcomes o nu p_i p2 st 1%Z) (fun raw => outcome_output (o:=o) D n_modes raw F).
Proof. exact (fun K o SR => @mixture_spec K o SR). Qed.
Print Assumptions C06_mixture_spec.

(* what [outcome_output] is: groups = equal labels, in first-occurrence order; each group g is drawn
   from D g; the draws are independent and added mode-wise *)
Theorem C06_outcome_output_unfold :
  forall {K} (o : ops K) (D : state -> list (state * K)) n_modes raw F,
    outcome_output (o:=o) D n_modes raw F = groups_expect (o:=o) D (decompose n_modes (an_make raw)) F /\
    (forall g gs, groups_expect (o:=o) D (g :: gs) F = wsum o (D g) (fun s => gexp (o:=o) D gs s F)) /\
    (forall g gs acc, gexp (o:=o) D (g :: gs) acc F = wsum o (D g) (fun s => gexp (o:=o) D gs (zip_add acc s) F)) /\
    (forall acc, gexp (o:=o) D [] acc F = F acc).
Proof. exact (fun K => @outcome_output_unfold K). Qed.
Print Assumptions C06_outcome_output_unfold.

(* ---- output distribution is normalised when the backend's distributions are ---- *)
Theorem C06_output_normalised :
  forall {K} (o : ops K) (SR : StarRing o) (D : state -> list (state * K)) n_modes lossy,
    (forall g, D g <> []) -> (forall g, NoDup (dkeys (D g))) -> (forall g, dtotal o (D g) = k1 o) ->
    (forall x, keqb o x (k1 o) = true -> x = k1 o) ->
    forall s : stats, stats_total o s = k1 o -> dtotal o (pdist_calc o D n_modes lossy s) = k1 o.
Proof. exact (fun K o SR => @pdist_calc_total K o SR). Qed.
Print Assumptions C06_output_normalised.

(* the repaired vacuum bookkeeping of pdist_calc (finding F1): whenever the branch
   [total < 1 and loss_modes > 0] is taken the result sums to exactly one *)
Theorem C06_repaired_vacuum_normalises :
  forall {K} (o : ops K) (SR : StarRing o) (D : state -> list (state * K)) n_modes lossy,
    (forall g, D g <> []) -> (forall g, NoDup (dkeys (D g))) ->
    (forall x, keqb o x (k1 o) = true -> x = k1 o) ->
    forall inputs,
      klt o (dtotal o (basic_mix o D inputs)) (k1 o) && lossy = true ->
      dtotal o (basic_pdist o D n_modes lossy inputs) = k1 o.
Proof. exact (fun K o SR => @basic_pdist_repaired_total K o SR). Qed.
Print Assumptions C06_repaired_vacuum_normalises.

Theorem C06_output_normalised_R :
  forall nu p_i p2 : R, (0 <= nu <= 1)%R -> (0 <= p_i <= 1)%R -> (0 <= p2 < 1)%R ->
  forall (D : state -> list (state * R)) n_modes lossy,
    (forall g, D g <> []) -> (forall g, NoDup (dkeys (D g))) -> (forall g, dtotal Rops (D g) = 1%R) ->
    forall purity indist thr (st : state),
      st <> [] -> Forall (fun n => (0 <= n)%Z) st ->
      (thr = 0%R \/
       match stats_raw Rops nu p_i p2 purity indist st with
       | SBasic d => dtotal Rops (kept (o:=Rops) thr d) <> 0%R
       | SFull d => dtotal Rops (kept (o:=Rops) thr d) <> 0%R
       end) ->
      dtotal Rops (pdist_calc Rops D n_modes lossy (build_statistics Rops nu p_i p2 purity indist thr st)) = 1%R.
Proof. exact output_normalised_R. Qed.
Print Assumptions C06_output_normalised_R.

(* ---- remapping merges only label-isomorphic states ---- *)
Theorem C06_remap_sound :
  forall a b : astate,
    relabel a = relabel b ->
    exists fa fb,
      (forall x y, In x (concat a) -> In y (concat a) -> fa x = fa y -> x = y) /\
      (forall x y, In x (concat b) -> In y (concat b) -> fb x = fb y -> x = y) /\
      Forall2 (@Permutation Z) (map (map fa) a) (map (map fb) b).
Proof. exact remap_sound. Qed.
Print Assumptions C06_remap_sound.

(* relabelling never changes the decomposition into groups (same groups, same order), so states
   that are merged have identical per-input output distributions *)
Theorem C06_relabel_preserves_groups :
  forall n_modes (a : astate), decompose n_modes (relabel a) = decompose n_modes a.
Proof. exact decompose_relabel. Qed.
Print Assumptions C06_relabel_preserves_groups.

Theorem C06_remap_sound_groups :
  forall {K} (o : ops K) (D : state -> list (state * K)) n_modes (a b : astate),
    relabel a = relabel b ->
    decompose n_modes a = decompose n_modes b /\
    combine_groups o D (decompose n_modes a) = combine_groups o D (decompose n_modes b).
Proof. exact (fun K o => @remap_sound_groups K o). Qed.
Print Assumptions C06_remap_sound_groups.

Theorem C06_remap_keys :
  forall {K} (o : ops K) (d : list (astate * K)) x,
    In x (dkeys (remap o d)) <-> exists e, In e d /\ x = relabel (fst e).
Proof. exact (fun K => @remap_keys K). Qed.
Print Assumptions C06_remap_keys.

(* ---- zero indistinguishability gives classical particles ---- *)
(* an input whose labels are pairwise distinct consists of one single-photon group per photon *)
Theorem C06_distinct_labels_single_photon_groups :
  forall n_modes (a : astate),
    NoDup (concat a) -> concat a <> [] ->
    decompose n_modes a = map (group_state a) (concat a) /\
    Forall (fun g => st_n_photons g = 1%Z) (decompose n_modes a) /\
    length (decompose n_modes a) = an_n_photons a.
Proof. exact decompose_distinct. Qed.
Print Assumptions C06_distinct_labels_single_photon_groups.

(* with p_i = 0 every per-photon outcome vector either has weight 0 (it would need the shared label 0)
   or all its labels are pairwise distinct; by C06_mixture_spec and C06_groups_are_independent the
   output is then a mixture of convolutions of single-photon distributions *)
Theorem C06_zero_indistinguishability_classical :
  forall {K} (o : ops K) (SR : StarRing o) (nu p2 : K) n_modes (st : state) e,
    In e (state_outcomes o nu (k0 o) p2 st 1%Z) ->
    snd e = k0 o \/
    (let a := an_make (fst e) in
     NoDup (concat a) /\
     (concat a <> [] ->
      Forall (fun g => st_n_photons g = 1%Z) (decompose n_modes a) /\
      length (decompose n_modes a) = an_n_photons a)).
Proof. exact (fun K o SR => @zero_indist_single_photon_groups K o SR). Qed.
Print Assumptions C06_zero_indistinguishability_classical.

(* ---- Hong-Ou-Mandel ---- *)
(* any beam splitter (r = c^2, t = s^2), brightness 1, purity 1:
   P(1,1) = I (r - t)^2 + (1 - I) (r^2 + t^2),  I = p_i^2 *)
Theorem C06_hom_coincidence_general :
  forall {K} (o : ops K) (SR : StarRing o) (c s p_i : K),
    (gt0 o p_i = false -> p_i = k0 o) ->
    (gt0 o (ksub o (k1 o) p_i) = false -> ksub o (k1 o) p_i = k0 o) ->
    dget st_eqb o (annotated_pdist o (D_bs (o:=o) c s) 2 (build_full o (k1 o) p_i (k0 o) [1; 1]%Z)) [1; 1]%Z
    = kadd o (kmul o (kmul o p_i p_i) (kmul o (ksub o (bs_r (o:=o) c) (bs_t (o:=o) s)) (ksub o (bs_r (o:=o) c) (bs_t (o:=o) s))))
             (kmul o (ksub o (k1 o) (kmul o p_i p_i))
                   (kadd o (kmul o (bs_r (o:=o) c) (bs_r (o:=o) c)) (kmul o (bs_t (o:=o) s) (bs_t (o:=o) s)))).
Proof. exact (fun K o SR => @hom_annotated K o SR). Qed.
Print Assumptions C06_hom_coincidence_general.

(* 50:50 beam splitter over the reals, through the dispatch of _build_statistics:
   coincidence probability (1 - I)/2 for every I = p_i^2 in [0,1]; visibility = I *)
Theorem C06_hom_visibility :
  forall p_i c s : R, (0 <= p_i <= 1)%R -> (c * c = 1 / 2)%R -> (s * s = 1 / 2)%R ->
    dget st_eqb Rops
         (pdist_calc Rops (D_bs (o:=Rops) c s) 2 false
                     (build_statistics Rops 1%R p_i 0%R 1%R (p_i * p_i)%R 0%R [1; 1]%Z)) [1; 1]%Z
    = ((1 - p_i * p_i) / 2)%R /\
    (1 - ((1 - p_i * p_i) / 2) / ((1 - 0 * 0) / 2) = p_i * p_i)%R.
Proof. exact (fun p_i c s H Hc Hs => conj (hom_coincidence_R p_i H c s Hc Hs) (hom_visibility_R p_i)). Qed.
Print Assumptions C06_hom_visibility.

(* the beam-splitter amplitudes behind D_bs: permanent of [[c, i s], [i s, c]] *)
Theorem C06_bs_coincidence_amplitude :
  forall {K} (o : ops K) (SR : StarRing o) (c s : K),
    kadd (cplx o) (kmul (cplx o) (c, k0 o) (c, k0 o)) (kmul (cplx o) (k0 o, s) (k0 o, s))
    = (ksub o (bs_r (o:=o) c) (bs_t (o:=o) s), k0 o).
Proof. exact (fun K o SR => @bs_coincidence_amplitude K o SR). Qed.
Print Assumptions C06_bs_coincidence_amplitude.

(* ---- hypotheses are satisfiable; non-trivial instances ---- *)
Example C06_filter_sound_R_example : filter_sound (o:=Rops) (3 / 5)%R (3 / 5)%R (1 / 10)%R.
Proof. apply filter_sound_R; split; lra. Qed.

Example C06_purity_example : (1 / 2 < 9 / 10 < 1)%R.
Proof. lra. Qed.

Example C06_hom_hypotheses_example :
  (0 <= 3 / 5 <= 1)%R /\ (sqrt (1 / 2) * sqrt (1 / 2) = 1 / 2)%R.
Proof. split; [lra|]. apply sqrt_sqrt. lra. Qed.

Example C06_grouping_example :
  group_empty [2; 0; 1; 0]%Z = ([], []) /\ group_empty [1; 0; 0; 0; 1; 0; 0]%Z = ([(1, 3); (5, 2)], [2; 3; 6])%nat.
Proof. split; reflexivity. Qed.
