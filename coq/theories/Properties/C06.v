(* C06 — Imperfect-source model.  Statements only. *)
From Coq Require Import ZArith List Bool Arith Lia.
From LW Require Import Base.Sx Base.Num Base.Sums Model.State Model.Source Proofs.SourceP.
Import ListNotations.

Theorem C06_single_photon_sums_to_one :
  forall {K} (o : ops K) (SR : StarRing o) nu p_i p2,
    kadd o (kadd o (kadd o (kadd o (kadd o (c0 o nu p2) (c1 o nu p_i p2)) (c1d o nu p_i p2)) (c1dp o nu p2))
                   (c12d o nu p_i p2)) (c1d2d o nu p_i p2) = k1 o.
Proof. exact (fun K o SR => @single_photon_sum K o SR). Qed.
Print Assumptions C06_single_photon_sums_to_one.
