(* C17 — Result containers index consistently and mappings conserve weight.
   Statements only; every proof is [exact <lemma>].

   Vocabulary (Model/Results.v, Proofs/ResultsP.v):
     sim_make rt arg ins outs        SimulationResult(arg, rt, ins, outs)
     sim_getitem r (ItTuple [OState i; OState t])     r[i, t]
     sim_getitem r (ItObj (OState i))                 r[i]  (a row dictionary; [dget row t] is r[i][t])
     arr_at (sr_array r) a b         r.array[a, b]
     apply_mapping ord f r           a mapping with per-state function f, the python set of rebuilt
                                     outputs being iterated in the order [ord]; thr_map / par_map
                                     (invert) are the two stated per-mode functions
     ord_ok ord                      [ord] only rearranges (any iteration order of the set)
     constructed r                   r is obtained by a construction followed by any number of mappings
     img_sum f row t                 sum of the values of the entries (s, v) of [row] with f s = t
     row_total row                   sum of all values of [row]
     sim_equiv r1 r2                 same type and inputs, same outputs up to order, same value (or
                                     same error) for every pair index
   Values live in any commutative ring with involution (StarRing): reals, complex numbers, counts. *)
From Coq Require Import ZArith List Bool Arith Permutation.
From LW Require Import Base.Sx Base.Num Base.Sums Model.State Model.Results Proofs.ResultsP.
Import ListNotations.
Local Open Scope nat_scope.

(* ---- a construction succeeds only on a 2-D array whose shape matches the lists,
        and stores exactly what it was given ---- *)
Theorem C17_construction_stores_its_arguments :
  forall (K : Type) (o : ops K) rt arg ins outs (r : @simres K),
    sim_make o rt arg ins outs = Ok r ->
    sr_type r = rt /\ sr_inputs r = ins /\ sr_outputs r = outs /\
    np_array o arg = Ok (Sh2 (length ins) (length outs), sr_array r).
Proof. exact (@sim_make_fields). Qed.
Print Assumptions C17_construction_stores_its_arguments.

(* ---- index coherence: pair indexing = nested indexing = array entry, in list order ---- *)
Theorem C17_index_coherent :
  forall (K : Type) (o : ops K) rt arg ins outs (r : @simres K),
    sim_make o rt arg ins outs = Ok r -> NoDup ins -> NoDup outs ->
    sr_inputs r = ins /\ sr_outputs r = outs /\ dkeys (sr_dict r) = ins /\
    (exists sh, np_array o arg = Ok (sh, sr_array r)) /\
    forall a b i t, nth_error ins a = Some i -> nth_error outs b = Some t ->
      exists v row, arr_at (sr_array r) a b = Some v /\
        sim_getitem r (ItTuple [OState i; OState t]) = Ok (GVal v) /\
        sim_getitem r (ItObj (OState i)) = Ok (GRow row) /\
        dkeys row = outs /\ dget row t = Some v.
Proof. exact (@index_coherent). Qed.
Print Assumptions C17_index_coherent.

(* the same for every result reachable by mappings (its own lists, its own array) *)
Theorem C17_index_coherent_after_mappings :
  forall (K : Type) (o : ops K) (SR : StarRing o) (r : @simres K),
    constructed (o:=o) r -> NoDup (sr_inputs r) -> NoDup (sr_outputs r) ->
    dkeys (sr_dict r) = sr_inputs r /\
    forall a b i t, nth_error (sr_inputs r) a = Some i -> nth_error (sr_outputs r) b = Some t ->
      exists v row, arr_at (sr_array r) a b = Some v /\
        sim_getitem r (ItTuple [OState i; OState t]) = Ok (GVal v) /\
        sim_getitem r (ItObj (OState i)) = Ok (GRow row) /\
        dkeys row = sr_outputs r /\ dget row t = Some v.
Proof. exact (@index_coherent_constructed). Qed.
Print Assumptions C17_index_coherent_after_mappings.

(* duplicates in the lists: both indexing forms return the array entry of the LAST
   occurrence of the input and of the output (earlier rows/columns are unreachable) *)
Theorem C17_index_duplicates_last_wins :
  forall (K : Type) (o : ops K) rt arg ins outs (r : @simres K) a b i t,
    sim_make o rt arg ins outs = Ok r -> is_last ins a i -> is_last outs b t ->
    exists v row, arr_at (sr_array r) a b = Some v /\
      sim_getitem r (ItTuple [OState i; OState t]) = Ok (GVal v) /\
      sim_getitem r (ItObj (OState i)) = Ok (GRow row) /\
      dget row t = Some v.
Proof. exact (@index_duplicates_last_wins). Qed.
Print Assumptions C17_index_duplicates_last_wins.

(* the other forms of [] and their error classes *)
Theorem C17_getitem_forms :
  forall (K : Type) (r : @simres K),
    (forall l, 2 < length l -> sim_getitem r (ItTuple l) = Err ValueError) /\
    sim_getitem r (ItTuple []) = Err IndexError /\
    (forall x, (forall s, x <> OState s) -> sim_getitem r (ItObj x) = Err TypeError) /\
    (forall x y, (forall s, x <> OState s) -> sim_getitem r (ItTuple [x; y]) = Err TypeError) /\
    (forall i, sim_getitem r (ItTuple [OState i; OOther]) = Err TypeError) /\
    (forall i, sim_getitem r (ItTuple [OState i]) = sim_getitem r (ItObj (OState i))) /\
    (forall i, sim_getitem r (ItTuple [OState i; ONone]) = sim_getitem r (ItObj (OState i))) /\
    (forall i, dget (sr_dict r) i = None -> sim_getitem r (ItObj (OState i)) = Err KeyError) /\
    (forall i t row, dget (sr_dict r) i = Some row -> dget row t = None ->
                     sim_getitem r (ItTuple [OState i; OState t]) = Err KeyError).
Proof. exact (@getitem_forms). Qed.
Print Assumptions C17_getitem_forms.

(* ---- mapping image: every output is replaced by its image, coinciding images add up;
        for every per-state function (in particular thr_map / par_map, plain or inverted),
        every iteration order of the rebuilt outputs ---- *)
Theorem C17_mapping_image :
  forall (K : Type) (o : ops K) (SR : StarRing o) ord f (r : @simres K),
    constructed (o:=o) r -> sr_type r = Probability -> ord_ok ord ->
    exists r', apply_mapping o ord f r = Ok r' /\
      sr_type r' = Probability /\ sr_inputs r' = sr_inputs r /\ NoDup (sr_outputs r') /\
      (forall t, In t (sr_outputs r') <->
                 sr_inputs r <> [] /\ exists s, In s (sr_outputs r) /\ f s = t) /\
      forall i row, sim_getitem r (ItObj (OState i)) = Ok (GRow row) ->
        sim_getitem r' (ItObj (OState i)) = Ok (GRow (graph (sr_outputs r') (img_sum (o:=o) f row))) /\
        (forall t, In t (sr_outputs r') ->
           sim_getitem r' (ItTuple [OState i; OState t]) = Ok (GVal (img_sum (o:=o) f row t))) /\
        (forall t, ~ In t (sr_outputs r') ->
           sim_getitem r' (ItTuple [OState i; OState t]) = Err KeyError).
Proof. exact (@mapping_image). Qed.
Print Assumptions C17_mapping_image.

Theorem C17_threshold_and_parity_image :
  forall (K : Type) (o : ops K) (SR : StarRing o) ord (parity invert : bool) (r : @simres K),
    let f := if parity then par_map invert else thr_map invert in
    constructed (o:=o) r -> sr_type r = Probability -> ord_ok ord ->
    exists r',
      (if parity then apply_parity_mapping o ord invert r else apply_threshold_mapping o ord invert r) = Ok r' /\
      sr_inputs r' = sr_inputs r /\ NoDup (sr_outputs r') /\
      forall i row, sim_getitem r (ItObj (OState i)) = Ok (GRow row) ->
        forall t, In t (sr_outputs r') ->
          sim_getitem r' (ItTuple [OState i; OState t]) = Ok (GVal (img_sum (o:=o) f row t)).
Proof. exact (@threshold_and_parity_image). Qed.
Print Assumptions C17_threshold_and_parity_image.

(* ---- each input's total is unchanged ---- *)
Theorem C17_mapping_conserves_rows :
  forall (K : Type) (o : ops K) (SR : StarRing o) ord f (r r' : @simres K),
    constructed (o:=o) r -> ord_ok ord -> apply_mapping o ord f r = Ok r' ->
    forall i row, sim_getitem r (ItObj (OState i)) = Ok (GRow row) ->
      exists row', sim_getitem r' (ItObj (OState i)) = Ok (GRow row') /\
        dkeys row' = sr_outputs r' /\
        row_total (o:=o) row' = row_total (o:=o) row.
Proof. exact (@mapping_conserves_rows). Qed.
Print Assumptions C17_mapping_conserves_rows.

(* ---- repeated application: f then g = (g o f) once ---- *)
Theorem C17_mapping_compose :
  forall (K : Type) (o : ops K) (SR : StarRing o) ord1 ord2 ord3 f g h (r r1 r2 r3 : @simres K),
    constructed (o:=o) r -> ord_ok ord1 -> ord_ok ord2 -> ord_ok ord3 ->
    (forall s, g (f s) = h s) ->
    apply_mapping o ord1 f r = Ok r1 -> apply_mapping o ord2 g r1 = Ok r2 ->
    apply_mapping o ord3 h r = Ok r3 ->
    sim_equiv r2 r3.
Proof. exact (@mapping_compose). Qed.
Print Assumptions C17_mapping_compose.

Theorem C17_threshold_idempotent :
  forall (K : Type) (o : ops K) (SR : StarRing o) ord1 ord2 (r r1 r2 : @simres K),
    constructed (o:=o) r -> ord_ok ord1 -> ord_ok ord2 ->
    apply_threshold_mapping o ord1 false r = Ok r1 -> apply_threshold_mapping o ord2 false r1 = Ok r2 ->
    sim_equiv r2 r1.
Proof. exact (@threshold_idempotent). Qed.
Print Assumptions C17_threshold_idempotent.

Theorem C17_parity_idempotent :
  forall (K : Type) (o : ops K) (SR : StarRing o) ord1 ord2 (r r1 r2 : @simres K),
    constructed (o:=o) r -> ord_ok ord1 -> ord_ok ord2 ->
    apply_parity_mapping o ord1 false r = Ok r1 -> apply_parity_mapping o ord2 false r1 = Ok r2 ->
    sim_equiv r2 r1.
Proof. exact (@parity_idempotent). Qed.
Print Assumptions C17_parity_idempotent.

(* the inverted mappings are NOT idempotent: on the 0/1 vectors a first mapping produces, a second
   mapping is the identity (plain) or the complement (inverted); two mappings in a row equal
   one mapping with the exclusive-or of the invert flags (inverted twice = plain once) *)
Theorem C17_threshold_repeated :
  forall (K : Type) (o : ops K) (SR : StarRing o) ord1 ord2 ord3 a b (r r1 r2 r3 : @simres K),
    constructed (o:=o) r -> ord_ok ord1 -> ord_ok ord2 -> ord_ok ord3 ->
    apply_threshold_mapping o ord1 a r = Ok r1 -> apply_threshold_mapping o ord2 b r1 = Ok r2 ->
    apply_threshold_mapping o ord3 (xorb a b) r = Ok r3 ->
    sim_equiv r2 r3.
Proof. exact (@threshold_repeated). Qed.
Print Assumptions C17_threshold_repeated.

Theorem C17_parity_repeated :
  forall (K : Type) (o : ops K) (SR : StarRing o) ord1 ord2 ord3 a b (r r1 r2 r3 : @simres K),
    constructed (o:=o) r -> ord_ok ord1 -> ord_ok ord2 -> ord_ok ord3 ->
    apply_parity_mapping o ord1 a r = Ok r1 -> apply_parity_mapping o ord2 b r1 = Ok r2 ->
    apply_parity_mapping o ord3 (xorb a b) r = Ok r3 ->
    sim_equiv r2 r3.
Proof. exact (@parity_repeated). Qed.
Print Assumptions C17_parity_repeated.

Theorem C17_mixed_mappings_compose :
  forall a b s, par_map b (thr_map a s) = thr_map (xorb a b) s /\
                thr_map b (par_map a s) = par_map (xorb a b) s.
Proof. exact (fun a b s => conj (par_thr a b s) (thr_par a b s)). Qed.
Print Assumptions C17_mixed_mappings_compose.

(* ---- refused for amplitude-valued results ---- *)
Theorem C17_mapping_refused_for_amplitudes :
  forall (K : Type) (o : ops K) ord f (r : @simres K),
    sr_type r = Amplitude -> apply_mapping o ord f r = Err ValueError.
Proof. exact (@mapping_refused_amplitude). Qed.
Print Assumptions C17_mapping_refused_for_amplitudes.

(* ---- SamplingResult ---- *)
Theorem C17_sampling_counts_exact :
  forall (K : Type) (d : dict K) (s : state),
    NoDup (dkeys d) ->                           (* [d] is a python dict *)
    exists r, samp_make d (OState s) = Ok r /\
      sp_input r = s /\ sp_outputs r = dkeys d /\ sp_dict r = d /\
      (forall k v, In (k, v) d -> samp_getitem r (ItObj (OState k)) = Ok v) /\
      (forall k, ~ In k (dkeys d) -> samp_getitem r (ItObj (OState k)) = Err KeyError).
Proof. exact (@sampling_counts_exact). Qed.
Print Assumptions C17_sampling_counts_exact.

Theorem C17_sampling_rejections :
  forall (K : Type) (d : dict K) (r : @sampres K),
    (forall x, (forall s, x <> OState s) -> samp_make d x = Err ResultCreationError) /\
    (forall it, (forall s, it <> ItObj (OState s)) -> samp_getitem r it = Err TypeError).
Proof. exact (fun K d r => conj (samp_make_refuses d) (samp_getitem_type r)). Qed.
Print Assumptions C17_sampling_rejections.

Theorem C17_sampling_mapping_image :
  forall (K : Type) (o : ops K) (SR : StarRing o) f (r : @sampres K),
    let r' := samp_apply_mapping o f r in
    sp_input r' = sp_input r /\ sp_outputs r' = dkeys (sp_dict r') /\ NoDup (sp_outputs r') /\
    (forall t, In t (sp_outputs r') <-> exists ov, In ov (sp_dict r) /\ f (fst ov) = t) /\
    (forall t, In t (sp_outputs r') ->
       samp_getitem r' (ItObj (OState t)) = Ok (img_sum (o:=o) f (sp_dict r) t)) /\
    (forall t, ~ In t (sp_outputs r') -> samp_getitem r' (ItObj (OState t)) = Err KeyError).
Proof. exact (@samp_mapping_image). Qed.
Print Assumptions C17_sampling_mapping_image.

Theorem C17_sampling_mapping_conserves_total :
  forall (K : Type) (o : ops K) (SR : StarRing o) f (r : @sampres K),
    row_total (o:=o) (sp_dict (samp_apply_mapping o f r)) = row_total (o:=o) (sp_dict r).
Proof. exact (@samp_mapping_conserves_total). Qed.
Print Assumptions C17_sampling_mapping_conserves_total.

Theorem C17_sampling_mapping_compose :
  forall (K : Type) (o : ops K) (SR : StarRing o) f g h (r : @sampres K),
    (forall s, g (f s) = h s) ->
    let r2 := samp_apply_mapping o g (samp_apply_mapping o f r) in
    let r3 := samp_apply_mapping o h r in
    (forall t, In t (sp_outputs r2) <-> In t (sp_outputs r3)) /\
    forall t, samp_getitem r2 (ItObj (OState t)) = samp_getitem r3 (ItObj (OState t)).
Proof. exact (@samp_mapping_compose). Qed.
Print Assumptions C17_sampling_mapping_compose.

(* ---- the hypotheses are satisfiable: a 2 x 3 result over Z whose threshold images
        coincide, mapped with the set iterated backwards ---- *)
Definition ex_ins : list state := [[0; 1]; [1; 0]]%Z.
Definition ex_outs : list state := [[1; 2]; [0; 2]; [3; 1]]%Z.
Definition ex_r : res (@simres Z) :=
  sim_make zops17 Probability (ANested [[1; 2; 3]; [4; 5; 6]]%Z) ex_ins ex_outs.

Example C17_example_construction :
  exists r, ex_r = Ok r /\ constructed (o:=zops17) r /\ sr_type r = Probability /\
    NoDup ex_ins /\ NoDup ex_outs /\ ord_ok (@rev state) /\
    sim_getitem r (ItTuple [OState [1; 0]; OState [3; 1]])%Z = Ok (GVal 6%Z) /\
    arr_at (sr_array r) 1 2 = Some 6%Z.
Proof.
  eexists. split; [reflexivity|]. split; [apply (C_make (o:=zops17) Probability (ANested [[1; 2; 3]; [4; 5; 6]]%Z) ex_ins ex_outs); reflexivity|]. split; [reflexivity|].
  split; [repeat constructor; simpl; intuition discriminate|].
  split; [repeat constructor; simpl; intuition discriminate|].
  split; [exact ord_ok_rev|]. split; reflexivity.
Qed.

Example C17_example_mapping :
  exists r r', ex_r = Ok r /\ apply_threshold_mapping zops17 (@rev state) false r = Ok r' /\
    sr_outputs r' = [[0; 1]; [1; 1]]%Z /\
    sr_array r' = [[2; 4]; [5; 10]]%Z /\
    sim_getitem r' (ItTuple [OState [1; 0]; OState [1; 1]])%Z = Ok (GVal 10%Z).
Proof. eexists. eexists. split; [reflexivity|]. split; [reflexivity|]. repeat split. Qed.
