(* Entry points evaluated by harness/c18.py *)
From Coq Require Import ZArith List Bool.
From LW Require Import Base.Sx Model.State.
Import ListNotations.

Definition sxOptZ (x : option Z) : sx := match x with None => SL [] | Some v => SL [SI v] end.
Definition sxAn (a : astate) : sx := SL (map sxZs a).

Definition run_state (s t : state) (i : Z) (a b : option Z) : sx :=
  SL [ sxB (st_eqb s t); SI (st_n_photons s); sxN (st_n_modes s); sxZs (st_add s t);
       sxRes sxZs (st_merge s t); sxRes SI (st_getitem s i); sxZs (st_slice s a b);
       sxRes (fun _ => SL []) (st_validate s) ].

Definition run_herald (st : state) (h : hdict) : sx :=
  let added := add_heralds_to_state st h in
  SL [ sxRes sxZs added;
       match added with
       | Ok full => sxRes sxZs (remove_heralds_from_state full (map fst h))
       | Err _ => SL []
       end ].

Definition run_remove (st : state) (modes : list nat) : sx :=
  sxRes sxZs (remove_heralds_from_state st modes).

Definition run_annot (a b : list (list Z)) (i : Z) (sa sb : option Z) : sx :=
  let x := an_make a in let y := an_make b in
  SL [ sxAn x; sxB (an_eqb x y); sxN (an_n_photons x); sxAn (an_add x y);
       sxRes sxAn (an_merge x y); sxRes sxZs (an_getitem x i); sxAn (an_slice x sa sb) ].

Definition run_fock (N n : nat) : sx := SL (map sxNs (fock_sums N n)).
