(* Execution instance: exact rationals (Bignums bigQ), complex = pairs.
   Used only by the correspondence runs (vm_compute); no theorem depends on it. *)
From Coq Require Import ZArith QArith List.
From Bignums Require Import BigQ.
From LW Require Import Base.Num Base.Sx.
Import ListNotations.

Definition qops : ops bigQ :=
  mkOps bigQ 0%bigQ 1%bigQ BigQ.add_norm BigQ.mul_norm BigQ.sub_norm BigQ.opp
        BigQ.inv_norm (fun x => x) BigQ.eq_bool
        (fun x y => match BigQ.compare x y with Gt => false | _ => true end)
        BigQ.of_Z.

Definition cqops : ops (bigQ * bigQ) := cplx qops.

(* rational from numerator / denominator *)
Definition qfrac (n d : Z) : bigQ := BigQ.div_norm (BigQ.of_Z n) (BigQ.of_Z d).
Definition cq (re_n re_d im_n im_d : Z) : bigQ * bigQ := (qfrac re_n re_d, qfrac im_n im_d).

(* floor (x * 10^12) *)
Definition scale : Z := 1000000000000%Z.
Definition q_out (x : bigQ) : Z :=
  let q := BigQ.to_Q x in Z.div (Qnum q * scale) (Zpos (Qden q)).
Definition sxQ (x : bigQ) : sx := SI (q_out x).
Definition sxC (x : bigQ * bigQ) : sx := SL [sxQ (fst x); sxQ (snd x)].
Definition sxMat (n m : nat) (A : nat -> nat -> bigQ * bigQ) : sx :=
  SL (map (fun i => SL (map (fun j => sxC (A i j)) (seq 0 m))) (seq 0 n)).
