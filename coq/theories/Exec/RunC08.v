(* Entry point for C08 histories: the same program is run through the functional pool
   (Model/World.v + the rewrite calls of Model/Rewrite.v) and through the reference-level heap
   model (Model/Heap.v).  Output:
     [ outcomes of the functional model ; final world of the functional model (with U_full) ;
       after every call: the IDENTITY structure of the heap world (which references every live
       circuit holds) ; 1 if the heap model agreed with the functional model on every outcome and on
       the bookkeeping + component structure of every circuit after every call, else 0 ] *)
From Coq Require Import ZArith List Bool PArith.
From Bignums Require Import BigQ.
From LW Require Import Base.Sx Base.Num Base.Mat Model.Circuit Model.World Model.Rewrite Model.Heap
     Exec.QNum Exec.RunCircuit Exec.RunC09.
Import ListNotations.

Definition sxA (a : addr) : sx := SI (Zpos a).

(* one entry of a spec list: [address] or [address; list object; heralds-in dict; heralds-out dict; members] *)
Definition sxEntry (h : @heap bigQ) (a : addr) : sx :=
  match hget h a with
  | Some (CComp (HGroup lst _ _ hi ho)) => SL [sxA a; sxA lst; sxA hi; sxA ho; SL (map sxA (rd_list h lst))]
  | _ => SL [sxA a]
  end.

Definition sxIdent (h : @heap bigQ) (ic : nat * hcirc) : sx :=
  let c := snd ic in
  SL [ sxN (fst ic); sxA (hc_spec c); sxA (hc_in c); sxA (hc_out c); sxA (hc_xin c); sxA (hc_xout c);
       sxA (hc_int c); SL (map (sxEntry h) (rd_list h (hc_spec c))) ].

Definition sxIdentWorld (hw : @hworld bigQ) : sx := SL (map (sxIdent (hw_heap hw)) (hw_pool hw)).

Fixpoint sx_eqb (a b : sx) {struct a} : bool :=
  match a, b with
  | SI x, SI y => Z.eqb x y
  | SL l, SL m =>
      (fix go (l : list sx) (m : list sx) {struct l} : bool :=
         match l, m with
         | [], [] => true
         | x :: l', y :: m' => sx_eqb x y && go l' m'
         | _, _ => false
         end) l m
  | _, _ => false
  end.

(* bookkeeping + component structure (no matrices) of every circuit *)
Definition sxStruct (w : @world bigQ) : sx :=
  SL (map (fun ic => SL [sxN (fst ic); sxCirc noenv false (snd ic); SL (map sxComp (c_spec (snd ic)))]) w).

Definition res_eqb (a b : res unit) : bool :=
  match a, b with
  | Ok _, Ok _ => true
  | Err x, Err y => Z.eqb (err_code x) (err_code y)
  | _, _ => false
  end.

Fixpoint run8 (w : @world bigQ) (hw : @hworld bigQ) (p : list (@op9 bigQ))
  : @world bigQ * list sx * list sx * bool :=
  match p with
  | [] => (w, [], [], true)
  | x :: p' =>
      let '(w', r) := step9 qops true noenv w x in
      let '(hw', hr) := hstep9 qops noenv hw x in
      let ok := res_eqb r hr && sx_eqb (sxStruct w') (sxStruct (abs hw')) in
      let '(w'', rs, ids, oks) := run8 w' hw' p' in
      (w'', sxRes (fun _ => SL []) r :: rs, sxIdentWorld hw' :: ids, ok && oks)
  end.

Definition run_c08 (p : list (@op9 bigQ)) : sx :=
  let '(w, rs, ids, ok) := run8 [] hw_empty p in
  SL [ SL rs; sxWorld noenv true w; SL ids; sxB ok ].
