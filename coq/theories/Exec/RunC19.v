(* Entry point evaluated by harness/c19.py: build the pool of circuits with
   World.run, then apply the display model to chosen circuits of the pool. *)
From Coq Require Import ZArith List Bool.
From Bignums Require Import BigQ.
From LW Require Import Base.Sx Base.Num Base.Mat Model.Circuit Model.World Model.Display Exec.QNum Exec.RunCircuit.
Import ListNotations.

(* Parameter table: (value as a fraction) for the construction calls, and
   (label is set, kind of value: 0 number / 1 string / other) for the display *)
Definition mk_env (t : list (Z * Z)) : @env bigQ :=
  fun i => match nth_error t i with
           | Some (a, b) => (qfrac a b, 0%bigQ, 0%bigQ)
           | None => (0%bigQ, 0%bigQ, 0%bigQ)
           end.
Definition pk (z : Z) : pkind := if (z =? 0)%Z then PNum else if (z =? 1)%Z then PStr else POther.
Definition mk_penv (t : list (bool * Z)) : penv :=
  fun i => match nth_error t i with Some (l, k) => (l, pk k) | None => (false, PNum) end.
Definition dt_of (z : Z) : dtype := if (z =? 0)%Z then DSvg else if (z =? 1)%Z then DMpl else DUnknown.

(* outcome with the secondary observables: y_locations and the primitive trace *)
Definition draw_full (pe : penv) (c : @circ bigQ) (dt : dtype) (op : dopts) : res (list Z * list nat) :=
  match dt with
  | DSvg => do s <- draw_svg pe c op; Ok (ylocs SVG (c_int c) (c_n c), rev (tr s))
  | DMpl => do s <- draw_mpl pe c op; Ok (ylocs MPL (c_int c) (c_n c), rev (tr s))
  | DUnknown => Err DisplayError
  end.

Definition drawreq : Type := (nat * Z * bool * bool * option nat)%type.   (* target, type, loss, values, labels *)

Definition run_c19 (envt : list (Z * Z)) (pt : list (bool * Z)) (p : list (@op bigQ)) (draws : list drawreq) : sx :=
  let e := mk_env envt in
  let '(w, rs) := run qops e [] p in
  SL [ SL (map (sxRes (fun _ => SL [])) rs);
       SL (map (fun ic => SL [sxN (fst ic); sxCirc e false (snd ic); sxB (wf_check (snd ic))]) w);
       SL (map (fun d : drawreq =>
                  let '(t, dt, l, v, lab) := d in
                  match wget w t with
                  | None => SL [SI 2]
                  | Some c =>
                      SL [ sxRes (fun r : list Z * list nat => SL [sxZs (fst r); sxNs (snd r)])
                                 (draw_full (mk_penv pt) c (dt_of dt) (mkOpts l v lab));
                           sxRes (fun _ : unit => SL []) (display (mk_penv pt) c (dt_of dt) (mkOpts l v lab)) ]
                  end) draws) ].
