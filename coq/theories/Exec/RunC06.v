(* Entry points evaluated by harness/c06.py (bigQ execution of Model/Source.v) *)
From Coq Require Import ZArith List Bool.
From Bignums Require Import BigQ.
From LW Require Import Base.Sx Base.Num Model.State Model.Source Exec.QNum.
Import ListNotations.

Definition qq (nd : Z * Z) : bigQ := qfrac (fst nd) (snd nd).

Definition sxAnn (a : astate) : sx := SL (map sxZs a).
Definition sxDictS (d : list (state * bigQ)) : sx := SL (map (fun e => SL [sxZs (fst e); sxQ (snd e)]) d).
Definition sxDictA (d : list (astate * bigQ)) : sx := SL (map (fun e => SL [sxAnn (fst e); sxQ (snd e)]) d).

Definition sxStats (s : stats (K:=bigQ)) : sx :=
  match s with
  | SBasic d => SL [SI 0; sxDictS d]
  | SFull d => SL [SI 1; sxDictA d]
  end.

(* source parameters: brightness, sqrt(indist), p2, purity, indist, threshold *)
Record qsrc := mkQ { q_nu : bigQ; q_pi : bigQ; q_p2 : bigQ; q_pur : bigQ; q_ind : bigQ; q_thr : bigQ }.
Definition mk_src (nu pi p2 pur ind thr : Z * Z) : qsrc :=
  mkQ (qq nu) (qq pi) (qq p2) (qq pur) (qq ind) (qq thr).

Definition q_validate (s : qsrc) : res unit :=
  validate qops (q_nu s) (qfrac 1 2) (q_pur s) (q_ind s) (q_thr s).

(* Source(...)._build_statistics(State st): validation outcome, the relation
   check on the inputs, the statistics, their total and the six coefficients *)
Definition run_stats (s : qsrc) (st : state) : sx :=
  sxRes (fun _ =>
    let r := build_statistics qops (q_nu s) (q_pi s) (q_p2 s) (q_pur s) (q_ind s) (q_thr s) st in
    SL [ sxB (params_ok qops (q_pi s) (q_p2 s) (q_pur s) (q_ind s));
         sxStats r;
         sxQ (stats_total qops r);
         SL (map (fun e => sxQ (snd e)) (photon_table qops (q_nu s) (q_pi s) (q_p2 s) 1)) ])
    (q_validate s).

(* oracle tables: group input |-> distribution, probabilities as numerators over 10^15 *)
Definition tscale : Z := 1000000000000000%Z.
Definition table := list (state * list (state * Z)).
Definition table_D (t : table) (s : state) : list (state * bigQ) :=
  match find (fun e => st_eqb (fst e) s) t with
  | Some e => map (fun sp => (fst sp, qfrac (snd sp) tscale)) (snd e)
  | None => []
  end.

Definition run_sampler (s : qsrc) (st : state) (her : hdict) (n_modes : nat) (lossy : bool) (t : table) : sx :=
  sxRes (fun _ =>
    sxRes sxDictS
      (sampler_pdist qops (q_nu s) (q_pi s) (q_p2 s) (table_D t) n_modes lossy
                     (q_pur s) (q_ind s) (q_thr s) st her))
    (q_validate s).

(* the label decomposition alone (no numbers) *)
Definition run_decompose (a : list (list Z)) (n_modes : nat) : sx :=
  SL [ sxAnn (relabel (an_make a)); SL (map sxZs (decompose n_modes (an_make a))) ].

(* Source._remap_distribution on an arbitrary labelled dictionary (integer weights);
   the input dictionary is built by accumulation, as the harness does *)
Definition run_remap (d : list (list (list Z) * Z)) : sx :=
  let d0 := fold_left (fun acc e => dadd an_eqb qops acc (an_make (fst e)) (BigQ.of_Z (snd e))) d [] in
  sxDictA (remap qops d0).
