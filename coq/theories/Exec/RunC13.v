(* Entry points evaluated by harness/c13.py.  Numbers are printed as their exact
   rational coordinates (numerator, denominator) over the basis of the tower
   (Base/NumField.v); the harness evaluates them to floats. *)
From Coq Require Import ZArith QArith Qcanon List Bool.
From LW Require Import Base.Sx Base.Num Base.Mat Base.QI2 Base.NumField
     Model.State Model.Circuit Model.World Model.Fock Model.Gates.
Import ListNotations.
Open Scope nat_scope.

Definition sxQc (x : Qc) : sx := SL [SI (Qnum (this x)); SI (Zpos (Qden (this x)))].
(* coordinates of an element of tower A / tower B (same carrier type) *)
Definition sxK8 (x : KA) : sx :=
  let '(((q0, q1), (q2, q3)), ((q4, q5), (q6, q7))) := x in
  SL (map sxQc [q0; q1; q2; q3; q4; q5; q6; q7]).
Definition sxK1 (x : Qc) : sx := SL [sxQc x].

Definition sxDict (d : list (nat * nat)) : sx := SL (map (fun kv => SL [sxN (fst kv); sxN (snd kv)]) d).

Definition sxGate {K} (pk : K -> sx) (g : @gate K) : sx :=
  let c := g_circ g in
  SL [ sxN (c_n c); sxN (input_modes c); sxDict (c_in c); sxDict (c_out c); sxN (g_dim g);
       SL (map (fun i => SL (map (fun j => let z := g_U g i j in SL [pk (fst z); pk (snd z)])
                                 (seq 0 (g_dim g)))) (seq 0 (g_dim g))) ].

(* fixed gates: 0-9 single qubit (tower A), 10 CZ, 11 CNOT, 12 CZ_Heralded (tower B),
   13 CNOT_Heralded (tower B), 14 CCZ, 15 CCNOT; [tq] = target_qubit where it applies *)
Definition sq_of (k : nat) : sq :=
  nth k [gI; gH; gX; gY; gZ; gS; gSadj; gT; gTadj; gSX] gI.

Definition run_gate (k : nat) (tq : Z) : sx :=
  sxRes (sxGate sxK8)
        (if k <? 10 then gate_sq oA a_h (sq_of k) else
         match k with
         | 10 => gate_CZ oA a_r2 a_r3i
         | 11 => gate_CNOT oA a_h a_r2 a_r3i tq
         | 12 => gate_CZ_Heralded oB b_h b_r2 b_qi b_g
         | 13 => gate_CNOT_Heralded oB b_h b_r2 b_qi b_g tq
         | 14 => gate_CCZ oA a_h a_r2 a_r3i a_r7
         | _ => gate_CCNOT oA a_h a_r2 a_r3i a_r7 tq
         end).

(* rotations over Q(i): (c, s) are the rationals (floats, exactly) handed over by the harness *)
Definition rq_of (k : nat) : rq := nth k [gP; gRx; gRy; gRz] gP.
Definition qc_of (n d : Z) : Qc := Q2Qc (Qmake n (Z.to_pos d)).
Definition run_rot (k : nat) (cn cd sn sd : Z) : sx :=
  sxRes (sxGate sxK1) (gate_rq qcops (rq_of k) (qc_of cn cd) (qc_of sn sd)).

Definition run_swap (q1 q2 : list (option Z)) : sx :=
  sxRes (sxGate sxK1) (gate_SWAP qcops q1 q2).
