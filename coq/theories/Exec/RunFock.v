(* Entry points for C03 / C04 / C05: circuits are built from API programs
   (Model/World.v), then simulated with the Fock model in bigQ arithmetic. *)
From Coq Require Import ZArith List Bool.
From Bignums Require Import BigQ.
From LW Require Import Base.Sx Base.Num Base.Mat Model.State Model.Circuit Model.World Model.Fock
     Exec.QNum Exec.RunCircuit.
Import ListNotations.
Open Scope nat_scope.

Definition hd_of (d : list (nat * nat)) : hdict := map (fun kv => (fst kv, Z.of_nat (snd kv))) d.

Definition with_circuit {A} (p : list (@op bigQ)) (cid : nat)
           (f : @circ bigQ -> nat -> @mat (bigQ * bigQ) -> res A) : res A :=
  let '(w, _) := run qops noenv [] p in
  match wget w cid with
  | None => Err KeyError
  | Some c =>
      match build qops noenv c with
      | Err e => Err e
      | Ok (tot, U) => f c tot U
      end
  end.

Definition sxAmp (x : (bigQ * bigQ) * nat) : sx := SL [sxC (fst x); sxN (snd x)].
Definition sxZss (l : list (list Z)) : sx := SL (map sxZs l).

Definition run_sim (p : list (@op bigQ)) (cid : nat) (inputs : list (list Z)) (outputs : option (list (list Z))) : sx :=
  sxRes (fun r : list (list Z) * list (list ((bigQ * bigQ) * nat)) =>
           SL [sxZss (fst r); SL (map (fun row => SL (map sxAmp row)) (snd r))])
        (with_circuit p cid (fun c tot U =>
           simulate qops (c_n c) (tot - c_n c) U (hd_of (c_in c)) (hd_of (c_out c)) (input_modes c) inputs outputs)).

Definition sxPd (d : list (list nat * bigQ)) : sx := SL (map (fun kv => SL [sxNs (fst kv); sxQ (snd kv)]) d).

(* Sampler.probability_distribution with an ideal source: input (user modes) + heralds, backend, threshold 10^-9 *)
Definition eps9 : bigQ := qfrac 1 1000000000.
Definition run_dist (p : list (@op bigQ)) (cid : nat) (slos_backend : bool) (input : list Z) : sx :=
  sxRes sxPd
        (with_circuit p cid (fun c tot U =>
           if negb (Nat.eqb (length input) (input_modes c)) then Err ModeMismatchError else
           do _ <- st_validate input;
           do full <- add_heralds_to_state input (hd_of (c_in c));
           Ok (pdist_calc qops (if slos_backend then Slos else Permanent) eps9 (c_n c) (tot - c_n c) U
                          [(znat full, 1%bigQ)]))).
