(* Entry points evaluated by harness/c12.py *)
From Coq Require Import ZArith List Bool.
From LW Require Import Base.Sx Model.Convert.
Import ListNotations.

(* gate names as small integers (harness/c12.py NAMES) *)
Definition gname_of_nat (n : nat) : gname :=
  match n with
  | 0 => Gh | 1 => Gx | 2 => Gy | 3 => Gz | 4 => Gs | 5 => Gsdg | 6 => Gt | 7 => Gtdg | 8 => Gsx
  | 9 => Grx | 10 => Gry | 11 => Grz | 12 => Gp
  | 13 => Gcx | 14 => Gcz | 15 => Gswap | 16 => Gccx | 17 => Gccz
  | _ => Gother
  end.
Definition nat_of_gname (g : gname) : nat :=
  match g with
  | Gh => 0 | Gx => 1 | Gy => 2 | Gz => 3 | Gs => 4 | Gsdg => 5 | Gt => 6 | Gtdg => 7 | Gsx => 8
  | Grx => 9 | Gry => 10 | Grz => 11 | Gp => 12
  | Gcx => 13 | Gcz => 14 | Gswap => 15 | Gccx => 16 | Gccz => 17
  | Gother => 18
  end.

Definition mk (t : nat * list nat * bool) : qgate :=
  let '(n, qs, p) := t in mkG (gname_of_nat n) qs p.

Definition sxOp (o : eop) : sx :=
  match o with
  | EGate1 g i m => SL [SI 0; sxN (nat_of_gname g); sxN i; sxN m]
  | ESwap _ a0 a1 b0 b1 => SL [SI 1; sxN a0; sxN a1; sxN b0; sxN b1]
  | ECZ h m => SL [SI 2; sxB h; sxN m]
  | ECX h t m => SL [SI 3; sxB h; sxN t; sxN m]
  | ECCZ m => SL [SI 4; sxN m]
  | ECCX t m => SL [SI 5; sxN t; sxN m]
  end%Z.

Definition sxRules (r : option (list nat)) : sx :=
  match r with None => SL [] | Some l => SL [sxNs l] end.

Definition run_convert (allow : bool) (gs : list (nat * list nat * bool)) : sx :=
  sxRes (fun '(ops, rules) => SL [SL (map sxOp ops); sxRules rules])
        (convert allow (map mk gs)).

(* post_selection_analyzer(qc) -> (flags, set of qubits) *)
Definition run_analyze (gs : list (nat * list nat * bool)) : sx :=
  let '(fl, has) := analyze (map mk gs) in
  SL [SL (map sxB fl); sxNs (ps_qubits has)].

(* convert_two_qubits_to_adjacent(q0, q1); SL [] = does not terminate *)
Definition run_adjacent (q0 q1 : nat) : sx :=
  match convert_two_qubits_to_adjacent q0 q1 with
  | None => SL []
  | Some (a, b, sw) => SL [sxN a; sxN b; SL (map (fun p => SL [sxN (fst p); sxN (snd p)]) sw)]
  end.
