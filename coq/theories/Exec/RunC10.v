(* Entry point for C10 histories (bigQ arithmetic): runs Model/Param.v's history
   interpreter and prints, for every step, the outcome (value at reads) and the
   parameter store + ParameterDict contents after it; at the end every circuit
   with its U_full and its parameter list. *)
From Coq Require Import ZArith List Bool.
From Bignums Require Import BigQ.
From LW Require Import Base.Sx Base.Num Base.Mat Model.Circuit Model.World Model.Param Exec.QNum Exec.RunCircuit.
Import ListNotations.

Definition vnum (a b c d e f : Z) : @pvalue bigQ := VNum (qfrac a b, qfrac c d, qfrac e f).
Definition bnum (a b : Z) : @bound bigQ := BNum (qfrac a b).
Definition pref (id : nat) : @val bigQ := Ref id.

Definition sxVal (v : @pvalue bigQ) : sx :=
  match v with
  | VNum x => SL [SI 0%Z; sxQ (fst (fst x))]
  | VOther => SL [SI 1%Z]
  end.
Definition sxOptQ (b : option bigQ) : sx := match b with Some x => SL [sxQ x] | None => SL [] end.

Definition sxOut (r : @out bigQ) : sx :=
  match r with
  | OUnit => SL []
  | OVal v => sxVal v
  | OBound b => sxOptQ b
  | OBool b => sxB b
  | ONat n => sxN n
  | ONats l => sxNs l
  | OItems l => SL (map (fun kv => SL [sxN (fst kv); sxVal (snd kv)]) l)
  | OBounds l => SL (map (fun kv => SL [sxN (fst kv); sxOptQ (fst (snd kv)); sxOptQ (snd (snd kv))]) l)
  | OUni u => SL [sxN (fst u); sxMat (fst u) (fst u) (snd u)]
  end.

Definition sxParam (p : @param bigQ) : sx := SL [sxVal (p_val p); sxOptQ (p_min p); sxOptQ (p_max p)].
Definition sxPState (s : @pstate bigQ) : sx :=
  SL [ SL (map sxParam (fst s));
       SL (map (fun d => SL [sxN (fst d); SL (map (fun kv => SL [sxN (fst kv); sxN (snd kv)]) (snd d))]) (snd s)) ].

Definition run_hist (hs : list (@hop bigQ)) : sx :=
  let '(s, rs) := hrun qops hinit hs in
  let e := env_of_store qops (fst (fst s)) in
  SL [ SL (map (fun rs1 => SL [sxRes sxOut (fst rs1); sxPState (fst (snd rs1))]) rs);
       SL (map (fun ic => SL [sxN (fst ic); sxCirc e true (snd ic); sxNs (get_all_params (snd ic))]) (snd s)) ].
