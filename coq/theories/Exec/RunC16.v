(* Entry points evaluated by harness/c16.py.  Arithmetic: Q(i) as bigQ pairs;
   the constant preparation/measurement matrices in Q(sqrt 2)(i).
   Executable realisations of the numerical oracles of Model/Tomo.v:
     np.linalg.solve  -> exact Gauss-Jordan elimination ([gj_solve]);
     np.linalg.pinv(T) @ b for the LI matrix T -> the exact solution of T x = b
       through the dual bases of the input states and the Pauli matrices
       ([li_solve_closed], rows = vec(conj P (x) rho): Pauli index first);
       the correspondence run compares with numpy. *)
From Coq Require Import ZArith List Bool.
From Bignums Require Import BigQ.
From LW Require Import Base.Sx Base.Num Base.Sums Base.Mat Base.QI2 Exec.QNum Model.Tomo Exec.RunC15.
Import ListNotations.

Local Notation C := (bigQ * bigQ)%type.
Definition cO : C := k0 cqops.
Definition cI : C := k1 cqops.
Definition cqz (a b c d : Z) : C := (qfrac a b, qfrac c d).

(* ---- exact linear solve (square, invertible) ---- *)
Definition vscale (c : C) (v : list C) : list C := map (kmul cqops c) v.
Fixpoint vsub (v w : list C) : list C :=
  match v, w with
  | x :: v', y :: w' => ksub cqops x y :: vsub v' w'
  | _, _ => []
  end.
Fixpoint pick_pivot (col : nat) (seen todo : list (list C)) : option (list C * list (list C)) :=
  match todo with
  | [] => None
  | r :: rest => if keqb cqops (nth col r cO) cO then pick_pivot col (seen ++ [r]) rest
                 else Some (r, seen ++ rest)
  end.
Fixpoint gj (fuel col : nat) (done todo : list (list C)) : list (list C) :=
  match fuel with
  | O => done ++ todo
  | S f =>
      match pick_pivot col [] todo with
      | None => done ++ todo
      | Some (p, rest) =>
          let p' := vscale (kinv cqops (nth col p cO)) p in
          let elim r := vsub r (vscale (nth col r cO) p') in
          gj f (S col) (map elim done ++ [p']) (map elim rest)
      end
  end.
Definition gj_solve (N : nat) (A : nat -> nat -> C) (b : nat -> C) : nat -> C :=
  let rows := map (fun i => map (fun j => A i j) (seq 0 N) ++ [b i]) (seq 0 N) in
  let red := gj N 0 [] rows in
  fun i => nth N (nth i red []) cO.

(* ---- closed-form solution of the LI system ---- *)
Definition c_half : C := (qfrac 1 2, 0%bigQ).
Definition kappa (l : inlab) : nat -> nat -> C :=
  let a : C := (qfrac (-1) 2, qfrac (-1) 2) in      (* -(1+i)/2 *)
  let b : C := (qfrac (-1) 2, qfrac 1 2) in         (* -(1-i)/2 *)
  match l with
  | ZP => m22 cqops cI a b cO
  | ZM => m22 cqops cO a b cI
  | XP => m22 cqops cO cI cI cO
  | YP => m22 cqops cO c_i (kopp cqops c_i) cO
  | _ => mzero cqops
  end.
Definition li_keys (n : nat) : list (instr * mstr) :=
  flat_map (fun i => map (fun m => (i, m)) (tomo_measurements n false)) (istrings li_inputs n).
Definition li_solve_closed (n : nat) (N : nat) (T : nat -> nat -> C) (b : nat -> C) : nat -> C :=
  let dim := (2 ^ n)%nat in
  let D := (dim * dim)%nat in
  let w := kinv cqops (pow2 cqops n) in
  let terms := map (fun ik => (b (fst ik),
                               (tab cqops dim (kfold cqops kappa (fst (snd ik))),
                                tab cqops dim (kfold cqops (pauli_mat cqops c_i) (snd (snd ik))))))
                   (combine (seq 0 N) (li_keys n)) in
  fun x => let r := (x / D)%nat in let c := (x mod D)%nat in
           kmul cqops w (suml cqops terms (fun t =>
             kmul cqops (fst t) (kmul cqops (fst (snd t) (r mod dim)%nat (c mod dim)%nat)
                                            (snd (snd t) (r / dim)%nat (c / dim)%nat)))).

(* ---- inputs from the harness ---- *)
Definition mk_mat (rows : list (list (Z * Z * (Z * Z)))) : nat -> nat -> C :=
  of_rows cqops (map (map (fun e => (qfrac (fst (fst e)) (snd (fst e)), qfrac (fst (snd e)) (snd (snd e))))) rows).
Definition mk_results (results : list (list (list Z * (Z * Z)))) : list (data (K:=C)) := map mk_data results.
Definition sxVecC (l : list C) : sx := SL (map sxC l).
Definition icode (l : inlab) : Z := match l with XP => 0 | XM => 1 | YP => 2 | YM => 3 | ZP => 4 | ZM => 5 end%Z.
Definition sxIn (i : instr) : sx := SL (map (fun l => SI (icode l)) i).

(* LIProcessTomography.process and choi_from_unitary(V) *)
Definition run_c16_li (n : nat) (req : list mstr) (results : list (list (list Z * (Z * Z))))
           (V : list (list (Z * Z * (Z * Z)))) : sx :=
  let D := (4 ^ n)%nat in
  SL [ sxRes (sxMat D D) (li_process cqops c_i (li_solve_closed n) n req (mk_results results));
       sxMat D D (choi_from_unitary cqops (2 ^ n) (mk_mat V)) ].

(* GateFidelity.process(target): np.real of the value *)
Definition run_c16_gf (n : nat) (req : list mstr) (results : list (list (list Z * (Z * Z))))
           (U : list (list (Z * Z * (Z * Z)))) : sx :=
  sxRes (fun z => sxQ (fst z)) (gf_process cqops c_i gj_solve n req (mk_results results) (mk_mat U)).

(* MLE: nij, the data vector and the gradient at the starting point *)
Definition run_c16_mle (n : nat) (req : list mstr) (results : list (list (list Z * (Z * Z)))) : sx :=
  let D := (4 ^ n)%nat in
  sxRes (fun x => x)
    (do nij <- mle_nij cqops n req (mk_results results);
     do nv <- n_vec_from_data cqops n nij;
     Ok (SL [ sxVecC (map snd nij); sxVecC nv;
              sxMat D D (gradient cqops c_i n (mle_start cqops n) nv) ])).

(* the transcribed pieces of MLETomographyAlgorithm on arbitrary inputs *)
Definition run_c16_mleparts (n : nat) (choi : list (list (Z * Z * (Z * Z)))) (dat : list (Z * Z)) : sx :=
  let D := (4 ^ n)%nat in
  let ch := mk_mat choi in
  let keys := flat_map (fun i => map (fun m => (i, m)) (mle_meas_basis n)) (mle_input_basis n) in
  let dt := combine keys (map (fun e => (qfrac (fst e) (snd e), 0%bigQ)) dat) in
  SL [ SL (map (fun row => sxVecC (map row (seq 0 (D * D)))) (a_rows cqops c_i n));
       sxRes sxVecC (n_vec_from_data cqops n dt);
       sxVecC (p_vec cqops c_i n ch);
       sxRes (sxMat D D) (do nv <- n_vec_from_data cqops n dt; Ok (gradient cqops c_i n ch nv));
       sxMat D D (tp_proj cqops n ch) ].

(* only _tp_proj (cheap for two qubits) *)
Definition run_c16_tp (n : nat) (choi : list (list (Z * Z * (Z * Z)))) : sx :=
  sxMat (4 ^ n) (4 ^ n) (tp_proj cqops n (mk_mat choi)).

(* bookkeeping of _run_required_experiments / _create_circuit_and_input *)
Definition sxComp (c : list (@comp ((bigQ * bigQ) * (bigQ * bigQ)))) : sx :=
  SL (map (fun mv => SL [sxN (fst mv); sxMatQI2 2 2 (snd mv)]) c).
Definition run_c16_exps (n : nat) (mle : bool) (req : list mstr) : sx :=
  let inputs := istrings (if mle then mle_inputs else li_inputs) n in
  SL (map (fun im =>
        let cc := create_circuit_and_input bqi2ops bqi2_i bqi2_h (fst im) (snd im) in
        SL [sxIn (fst im); sxStr (snd im); sxZs (snd cc)]) (experiments inputs req)).

Definition run_c16_static : sx :=
  SL [ SL (map (fun l => SL [sxZs (input_state l); sxMatQI2 2 2 (input_gate bqi2ops bqi2_i bqi2_h l)]) rho_keys);
       SL (map (fun l => sxMat 2 2 (rho_mat cqops c_i l)) rho_keys);
       SL (map sxIn (istrings li_inputs 2));
       SL (map sxIn (istrings mle_inputs 1));
       SL (map sxStr (mle_meas_basis 2));
       SL (map (fun im => sxComp (fst (fst (create_circuit_and_input bqi2ops bqi2_i bqi2_h (fst im) (snd im)))
                                  ++ snd (fst (create_circuit_and_input bqi2ops bqi2_i bqi2_h (fst im) (snd im)))))
               [([XP; YM], [PY; PX]); ([ZM; YP], [PZ; PY])]) ].
