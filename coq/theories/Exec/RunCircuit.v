(* Entry points for circuit programs, evaluated by the harness (bigQ arithmetic). *)
From Coq Require Import ZArith List Bool.
From Bignums Require Import BigQ.
From LW Require Import Base.Sx Base.Num Base.Mat Model.Circuit Model.World Exec.QNum.
Import ListNotations.

Definition lit3 (a b c d e f : Z) : @val bigQ := Lit (qfrac a b, qfrac c d, qfrac e f).
Definition noenv : @env bigQ := fun _ => (0%bigQ, 0%bigQ, 0%bigQ).

Definition sxDict (d : list (nat * nat)) : sx := SL (map (fun kv => SL [sxN (fst kv); sxN (snd kv)]) d).

Definition sxCirc (e : @env bigQ) (with_u : bool) (c : @circ bigQ) : sx :=
  SL [ sxN (c_n c); sxN (input_modes c); sxDict (c_in c); sxDict (c_out c);
       sxNs (sort_nat (c_int c));
       if with_u then
         sxRes (fun st : cstate => SL [sxN (fst st); sxMat (fst st) (fst st) (snd st)]) (build qops e c)
       else SL [] ].

Definition sxWorld (e : @env bigQ) (with_u : bool) (w : @world bigQ) : sx :=
  SL (map (fun ic => SL [sxN (fst ic); sxCirc e with_u (snd ic)]) w).

Definition run_prog (p : list (@op bigQ)) : sx :=
  let '(w, rs) := run qops noenv [] p in
  SL [ SL (map (sxRes (fun _ => SL [])) rs); sxWorld noenv true w ].
