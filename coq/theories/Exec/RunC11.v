(* Entry points evaluated by harness/c11.py.
   Flags select the variant of the code: the harness always runs the REPAIRED
   one (all flags true / old = false); the pinned variants are used by the
   refutation lemmas in Proofs/CacheP.v. *)
From Coq Require Import ZArith NArith List Bool.
From LW Require Import Base.Sx Model.Cache.
Import ListNotations.

Definition sxNn (n : N) : sx := SI (Z.of_N n).
Definition sxHer (h : her) : sx := SL (map (fun p => SL [sxN (fst p); sxN (snd p)]) h).
Definition sxGen (g : option nat) : sx := match g with None => SL [] | Some n => SL [sxN n] end.

Definition sxOut {D CD S} (fd : D -> sx) (fc : CD -> sx) (fs : S -> sx) (o : @out D CD S) : sx :=
  match o with
  | ODone => SL [SI 0]
  | OErr e => SL [SI 1; SI (err_code e)]
  | ODist d => SL [SI 2; fd d]
  | OCont c => SL [SI 3; fc c]
  | OSample s => SL [SI 4; fs s]
  end%Z.

Definition sxSkey (k : skey) : sx :=
  SL [sxNn (kU k); sxHer (kHin k); sxHer (kHout k); sxNs (kIn k); sxNn (kBk k);
      SI (kBr k); SI (kPu k); SI (kInd k); SI (kThr k)].

Definition sxQkey (k : qkey) : sx :=
  SL [sxNn (jU k); sxHer (jHin k); sxHer (jHout k); sxNs (jIn k); sxNn (jPsO k); sxNn (jPsV k); sxB (jPc k)].

(* one entry per step: [output; generation of the cache after the step] *)
Definition run_sampler (wh : bool) (errs : list (skey * err)) (c0 : scfg) (h : list sstep) : sx :=
  SL (map (fun og : _ * option nat =>
             SL [sxOut sxSkey sxSkey
                       (fun s : skey * N * Z => SL [sxSkey (fst (fst s)); sxNn (snd (fst s))])
                       (fst og);
                 sxGen (snd og)])
          (s_trace wh errs c0 h)).

Definition run_quick (wh wv cc : bool) (errs : list (qkey * err)) (c0 : qcfg) (h : list qstep) : sx :=
  SL (map (fun og : _ * option nat =>
             SL [sxOut sxQkey sxQkey (fun s : qkey * Z => SL [sxQkey (fst s)]) (fst og);
                 sxGen (snd og)])
          (q_trace wh wv cc errs c0 h)).

Definition sxAkey (k : akey) : sx :=
  let '(u, h, m, p) := k in SL [sxNn u; sxHer h; sxN m; sxNn p].
Definition sxApr (p : apr) : sx := SL [sxAkey (fst p); sxN (snd p)].
Definition sxAer (e : aer) : sx := SL [sxApr (fst e); sxN (snd e)].
Definition sxOpt {A} (f : A -> sx) (x : option A) : sx := match x with None => SL [] | Some v => SL [f v] end.

(* per step: [result of the call; performance attribute; error_rate attribute] *)
Definition run_analyzer (old : bool) (perrs : list (apr * err)) (eerrs : list (aer * err))
           (c0 : acfg) (h : list anstep) : sx :=
  SL (map (fun x : res (option (@aresult apr apr aer)) * (option apr * option aer) =>
             SL [sxRes (sxOpt (fun r : @aresult apr apr aer =>
                                 SL [sxApr (r_probs r); sxApr (r_perf r); sxOpt sxAer (r_err r)]))
                       (fst x);
                 sxOpt sxApr (fst (snd x)); sxOpt sxAer (snd (snd x))])
          (an_trace old perrs eerrs c0 h)).
