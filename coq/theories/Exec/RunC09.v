(* Entry point for C09 programs (construction calls + rewrite calls), bigQ arithmetic.
   Output: outcome of every call, a snapshot (bookkeeping, U_full, spec structure) of the
   rewritten circuit after every rewrite call, and the final state of every circuit. *)
From Coq Require Import ZArith List Bool.
From Bignums Require Import BigQ.
From LW Require Import Base.Sx Base.Num Base.Mat Model.Circuit Model.World Model.Rewrite
     Exec.QNum Exec.RunCircuit.
Import ListNotations.

Definition sxVal (v : @val bigQ) : sx :=
  match v with
  | Lit x => sxQ (fst (fst x))
  | Ref _ => SI (-1)%Z
  end.

Fixpoint sxComp (c : @comp bigQ) : sx :=
  match c with
  | BS m1 m2 v cv => SL [SI 0%Z; sxN m1; sxN m2; sxVal v; SI (match cv with Rx => 0 | Hv => 1 end)%Z]
  | PS m _ => SL [SI 1%Z; sxN m]
  | LossC m v => SL [SI 2%Z; sxN m; sxVal v]
  | Barrier ms => SL [SI 3%Z; sxNs ms]
  | Swaps sw => SL [SI 4%Z; sxDict sw]
  | UMat m k _ => SL [SI 5%Z; sxN m; sxN k]
  | Group sp m1 m2 hin hout => SL [SI 6%Z; sxN m1; sxN m2; sxDict hin; sxDict hout; SL (map sxComp sp)]
  end.

Definition sxCirc9 (e : @env bigQ) (c : @circ bigQ) : sx :=
  SL [sxCirc e true c; SL (map sxComp (c_spec c))].

Fixpoint run9 (repair : bool) (e : @env bigQ) (w : @world bigQ) (p : list (@op9 bigQ))
  : @world bigQ * list sx :=
  match p with
  | [] => (w, [])
  | x :: p' =>
      let '(w', r) := step9 qops repair e w x in
      let snap :=
        match r, rewrite_target x with
        | Ok _, Some id => match wget w' id with Some c => SL [sxCirc9 e c] | None => SL [] end
        | _, _ => SL []
        end in
      let '(w'', rs) := run9 repair e w' p' in
      (w'', SL [sxRes (fun _ => SL []) r; snap] :: rs)
  end.

Definition run_prog9_gen (repair : bool) (p : list (@op9 bigQ)) : sx :=
  let '(w, rs) := run9 repair noenv [] p in
  SL [ SL rs; SL (map (fun ic => SL [sxN (fst ic); sxCirc9 noenv (snd ic)]) w) ].

Definition run_prog9 : list (@op9 bigQ) -> sx := run_prog9_gen true.
