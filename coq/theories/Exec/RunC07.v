(* Entry points evaluated by harness/c07.py (vm_compute, exact rationals).
   Uniform numbers arrive as primitive 63-bit integers k (u = k / 2^53, the
   exact value of the Python float); probabilities as (mantissa, exponent)
   with p = m * 2^e exactly. *)
From Coq Require Import ZArith List Bool Uint63.
From Bignums Require Import BigN BigZ BigQ.
From LW Require Import Base.Sx Base.Num Model.State Model.PostSel Model.Detector Exec.QNum.
Import ListNotations.

Definition two53 : BigN.t := BigN.of_N (2 ^ 53)%N.
Definition uq (k : int) : bigQ := BigQ.Qq (BigZ.of_Z (Uint63.to_Z k)) two53.
Definition fl (m : int) (e : Z) : bigQ :=
  if (0 <=? e)%Z then BigQ.of_Z (Uint63.to_Z m * 2 ^ e)%Z
  else qfrac (Uint63.to_Z m) (2 ^ (- e))%Z.

Definition qdet (e p : bigQ) (pc : bool) : @detector bigQ := mkDet e p pc.
Definition qdist : Type := list (state * bigQ).

Definition sxStates (l : list state) : sx := SL (map sxZs l).
Definition sxCounts (l : list state) : sx :=
  SL (map (fun sn => SL [sxZs (fst sn); sxN (snd sn)]) (counter l)).
Definition used {A B} (all : list A) (rest : list B) : sx := sxN (length all - length rest).

(* Detector._get_output on one state *)
Definition run_getout (d : @detector bigQ) (s : state) (us : list int) : sx :=
  sxRes (fun a => SL [sxZs (fst a); used us (snd a)]) (get_output qops d s (map uq us)).

(* reps calls of Detector._get_output on the same state, one stream *)
Definition run_getout_reps (d : @detector bigQ) (s : state) (reps : nat) (us : list int) : sx :=
  sxRes (fun a => SL [sxStates (fst a); used us (snd a)])
        (repeat_sample (get_output qops d s) reps (map uq us)).

(* m calls of Sampler.sample() *)
Definition run_sample (d : @detector bigQ) (pd : qdist) (m : nat) (us : list int) : sx :=
  sxRes (fun a => SL [sxStates (fst a); used us (snd a)])
        (repeat_sample (sampler_sample qops d pd) m (map uq us)).

Definition run_n_inputs (d : @detector bigQ) (h : hdict) (ps : psel) (mind : Z)
           (pd : qdist) (un ud : list int) : sx :=
  sxRes (fun a => SL [sxCounts (fst a); used ud (snd a)])
        (sample_N_inputs qops d h (psel_validate ps) mind pd (map uq un) (map uq ud)).

Definition run_n_outputs (d : @detector bigQ) (h : hdict) (ps : psel) (mind : Z)
           (pd : qdist) (un : list int) : sx :=
  sxRes sxCounts (sample_N_outputs qops d h (psel_validate ps) mind pd (map uq un)).

Definition run_qs_sample (pd : qdist) (m : nat) (us : list int) : sx :=
  sxRes (fun a => SL [sxStates (fst a); used us (snd a)])
        (repeat_sample (qs_sample qops pd) m (map uq us)).

Definition run_qs_n_outputs (n_modes n_ph : nat) (pc : bool) (ps : psel)
           (pd : qdist) (un : list int) : sx :=
  SL [ sxRes (fun outs => sxB (qs_supported pd outs)) (qs_out_states n_modes n_ph pc (psel_validate ps));
       sxRes sxCounts (qs_sample_N_outputs qops pd (map uq un)) ].

(* PostSelection object: a program of add() calls, then validate on states *)
Definition sxRule (r : rule) : sx := SL [sxNs (r_modes r); sxZs (r_nph r)].
Definition run_postsel (multi : bool) (prog : list (list Z * list Z)) (sts : list state) : sx :=
  let '(p, outs) := ps_adds (ps_new multi) prog in
  SL [ sxZs outs; SL (map sxRule (ps_rules p)); sxNs (ps_modes p);
       SL (map (fun s => sxRes sxB (rules_validate (ps_rules p) s)) sts) ].

(* a predicate (PostSelectionFunction) on states *)
Definition run_pred (p : pred) (sts : list state) : sx :=
  SL (map (fun s => sxRes sxB (pred_eval p s)) sts).
