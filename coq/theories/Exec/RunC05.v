(* Entry points evaluated by harness/c05.py (vm_compute, exact rationals):
   the circuit is built from an API program (Model/World.v), then analysed with
   Model/Analyzer.v. *)
From Coq Require Import ZArith List Bool.
From Bignums Require Import BigQ.
From LW Require Import Base.Sx Base.Num Base.Mat Model.State Model.PostSel Model.Circuit Model.World
     Model.Fock Model.Analyzer Exec.QNum Exec.RunCircuit Exec.RunFock.
Import ListNotations.
Open Scope nat_scope.

(* post-selection as the harness passes it: none, a PostSelection rule set, or a
   Python function given by the table of the candidate states it accepts *)
Inductive ps5 : Type :=
| P5None
| P5Rules (rs : list rule)
| P5Table (accepted : list state).

Definition ps5_fun (p : ps5) : state -> res bool :=
  match p with
  | P5None => fun _ => Ok true
  | P5Rules rs => rules_validate rs
  | P5Table acc => fun s => Ok (existsb (st_eqb s) acc)
  end.

Definition sxQs (l : list bigQ) : sx := SL (map sxQ l).
Definition sxErr (e : option (option bigQ)) : sx :=
  match e with
  | None => SL []
  | Some None => SL [SI 0%Z]
  | Some (Some v) => SL [SI 1%Z; sxQ v]
  end.
Definition sxAR (r : @an_result bigQ) : sx :=
  SL [ sxZss (ar_outputs r); SL (map sxQs (ar_probs r)); sxQ (ar_perf r); sxErr (ar_err r) ].
Definition sxQS (pd : list (state * bigQ)) : sx :=
  SL (map (fun sp => SL [sxZs (fst sp); sxQ (snd sp)]) pd).

(* Analyzer(circuit) with post-selection ps: analyze(inputs, expected);
   QuickSampler(circuit, q, photon_counting, ps).probability_distribution for
   every q of qins with photon_counting = True and False (threshold 10^-9) *)
Definition run_c05 (p : list (@op bigQ)) (cid : nat) (ps : ps5)
           (inputs : list state) (expected : option expected_t) (qins : list state) : sx :=
  let '(w, _) := run qops noenv [] p in
  match wget w cid with
  | None => SL [SI 1%Z; SI (err_code KeyError)]
  | Some c =>
      let built := build qops noenv c in
      let n := c_n c in
      let hin := hd_of (c_in c) in
      let hout := hd_of (c_out c) in
      let f := ps5_fun ps in
      SL [ sxRes sxAR (do tU <- built;
                       analyze qops n (fst tU - n) (snd tU) hin hout f inputs expected);
           SL (map (fun q =>
                      SL [ sxRes sxQS (quick_sampler_lazy qops eps9 n built hin hout f true q);
                           sxRes sxQS (quick_sampler_lazy qops eps9 n built hin hout f false q) ])
                   qins) ]
  end.
