(* Entry points evaluated by harness/c17.py *)
From Coq Require Import ZArith List Bool Arith.
From Bignums Require Import BigQ.
From LW Require Import Base.Sx Base.Num Model.State Model.Results Exec.QNum.
Import ListNotations.

Definition sxStates (l : list state) : sx := SL (map sxZs l).

Definition arr_map {A B} (f : A -> B) (a : arrarg A) : arrarg B :=
  match a with
  | ANested rows => ANested (map (map f) rows)
  | AFlat l => AFlat (map f l)
  | AScalar x => AScalar (f x)
  | AZeros n m => AZeros n m
  end.

(* a concrete family of "set iteration orders": rotate by k, reverse when k is odd *)
Definition ord_of (k : nat) (l : list state) : list state :=
  match l with
  | [] => []
  | _ => let j := Nat.modulo k (length l) in
         let l' := skipn j l ++ firstn j l in
         if Nat.even k then l' else rev l'
  end.

Definition mapping_of (m : bool * bool) : state -> state :=
  if fst m then par_map (snd m) else thr_map (snd m).

Section Run.
  Context {K : Type} (o : ops K) (pv : K -> sx).

  Definition sxRow (d : dict K) : sx := SL (map (fun kv => SL [sxZs (fst kv); pv (snd kv)]) d).
  Definition sxG (g : gval) : sx :=
    match g with GVal v => SL [SI 0%Z; pv v] | GRow d => SL [SI 1%Z; sxRow d] end.

  Definition nested_get (r : simres) (i t : state) : res K :=
    do g <- sim_getitem r (ItObj (OState i));
    match g with
    | GRow d => match dget d t with Some v => Ok v | None => Err KeyError end
    | GVal _ => Err OtherError
    end.
  Definition pair_get (r : simres) (i t : state) : res K :=
    do g <- sim_getitem r (ItTuple [OState i; OState t]);
    match g with GVal v => Ok v | GRow _ => Err OtherError end.

  Definition dump (r : @simres K) : sx :=
    SL [ sxStates (sr_inputs r); sxStates (sr_outputs r); sxN (sr_ncols r);
         SL (map (fun row => SL (map pv row)) (sr_array r));
         sxStates (dkeys (sr_dict r));
         SL (map (fun ir => sxStates (dkeys (snd ir))) (sr_dict r));
         SL (map (fun i => SL (map (fun t => sxRes pv (pair_get r i t)) (sr_outputs r))) (sr_inputs r));
         SL (map (fun i => SL (map (fun t => sxRes pv (nested_get r i t)) (sr_outputs r))) (sr_inputs r)) ].

  Fixpoint chain (rot : nat) (r : simres) (maps : list (bool * bool)) : list sx :=
    match maps with
    | [] => []
    | m :: ms =>
        let r' := apply_mapping o (ord_of rot) (mapping_of m) r in
        sxRes dump r' :: chain (S rot) (match r' with Ok x => x | Err _ => r end) ms
    end.

  Definition run_sim (rt : rtype) (arr : arrarg K) (ins outs : list state)
             (queries : list item) (maps : list (bool * bool)) (rot : nat) : sx :=
    let r := sim_make o rt arr ins outs in
    SL [ sxRes dump r;
         match r with
         | Ok x => SL (map (fun q => sxRes sxG (sim_getitem x q)) queries)
         | Err _ => SL []
         end;
         match r with Ok x => SL (chain rot x maps) | Err _ => SL [] end ].

  Definition sdump (r : @sampres K) : sx :=
    SL [ sxZs (sp_input r); sxStates (sp_outputs r); sxRow (sp_dict r);
         SL (map (fun s => sxRes pv (samp_getitem r (ItObj (OState s)))) (sp_outputs r)) ].

  Fixpoint schain (r : sampres) (maps : list (bool * bool)) : list sx :=
    match maps with
    | [] => []
    | m :: ms => let r' := samp_apply_mapping o (mapping_of m) r in sdump r' :: schain r' ms
    end.

  (* [pairs] -> python dict(pairs) -> SamplingResult *)
  Definition run_samp (pairs : list (state * K)) (input : pyobj)
             (queries : list item) (maps : list (bool * bool)) : sx :=
    let r := samp_make (dict_of pairs) input in
    SL [ sxRes sdump r;
         match r with
         | Ok x => SL (map (fun q => sxRes pv (samp_getitem x q)) queries)
         | Err _ => SL []
         end;
         match r with Ok x => SL (schain x maps) | Err _ => SL [] end ].
End Run.

(* real values n/d, complex values (n/d, n'/d') *)
Definition qv (p : Z * Z) : bigQ := qfrac (fst p) (snd p).
Definition cv (p : (Z * Z) * (Z * Z)) : bigQ * bigQ := (qv (fst p), qv (snd p)).

Definition run_sim_q rt (arr : arrarg (Z * Z)) := run_sim qops sxQ rt (arr_map qv arr).
Definition run_sim_c rt (arr : arrarg ((Z * Z) * (Z * Z))) := run_sim cqops sxC rt (arr_map cv arr).
Definition run_samp_q (pairs : list (state * (Z * Z))) :=
  run_samp qops sxQ (map (fun p => (fst p, qv (snd p))) pairs).
