(* Entry points evaluated by harness/c14.py (bigQ execution of Model/Reck.v).
   The oracles of [env] are finite tables supplied by the harness: keys are the
   exact rationals the model computes, values the Python float evaluation of
   the elementary function / the replicated numpy stream. *)
From Coq Require Import ZArith QArith List Bool.
From Bignums Require Import BigQ.
From LW Require Import Base.Num Base.Sums Base.Mat Base.Sx Exec.QNum Model.Reck.
Import ListNotations.

(* dyadic rational m / 2^k (how a Python float is passed) *)
Definition qd (m k : Z) : bigQ := BigQ.div_norm (BigQ.of_Z m) (BigQ.of_Z (2 ^ k)).
Definition cqd (a : Z * Z) (b : Z * Z) : bigQ * bigQ := (qd (fst a) (snd a), qd (fst b) (snd b)).

Fixpoint lookup {V} (x : bigQ) (l : list (bigQ * V)) (d : V) : V :=
  match l with
  | [] => d
  | (k, v) :: l' => if BigQ.eq_bool k x then v else lookup x l' d
  end.
Fixpoint lookupZ {V} (x : Z) (l : list (Z * V)) (d : V) : V :=
  match l with
  | [] => d
  | (k, v) :: l' => if Z.eqb k x then v else lookupZ x l' d
  end.

Definition qfloor (x : bigQ) : Z := let q := BigQ.to_Q x in (Qnum q / Zpos (Qden q))%Z.

Definition loud : bigQ := BigQ.of_Z 7.     (* value of a missing table entry: visibly wrong *)

Record tables : Type := mkTables {
  t_cis : list (bigQ * (bigQ * bigQ));
  t_bs : list (bigQ * (bigQ * bigQ));
  t_sqrt : list (bigQ * bigQ);
  t_pi : bigQ;
  t_ints : list (Z * list Z);
  t_unif : list (Z * list bigQ);
  t_norm : list (Z * list bigQ) }.

Definition stream (t : list (Z * list bigQ)) (src : rsrc) (k : nat) : bigQ :=
  match src with
  | Seeded s => nth k (lookupZ s t []) loud
  | Entropy _ => loud
  end.

Definition qenv (t : tables) : env (K:=bigQ) :=
  mkEnv (fun x => lookup x (t_cis t) (loud, loud))
        (fun x => lookup x (t_bs t) (loud, loud))
        (fun x => lookup x (t_sqrt t) loud)
        qfloor (t_pi t)
        (qfrac 1 (10 ^ 40)) (qfrac 1 (10 ^ 10)) (qfrac 1 (10 ^ 20))
        (fun s k => nth k (lookupZ s (t_ints t) []) (-1)%Z)
        (stream (t_unif t)) (stream (t_norm t)).

Definition of_rowsC (l : list (list (bigQ * bigQ))) : nat -> nat -> bigQ * bigQ :=
  fun i j => nth j (nth i l []) (k0 cqops).
Definition fun_of {A} (l : list A) (d : A) : nat -> A := fun k => nth k l d.

Definition sxNrec (r : nrec (K:=bigQ)) : sx :=
  SL [sxN (nr_j r + 2 * nr_i r); sxN (nr_j r); sxB (nr_small r); sxQ (nr_theta r); sxQ (nr_phi r)].

(* reck_decomposition on U with the implementation's answers; also the exact
   product  D' . T_K ... T_1  with D' = diag(exp(i end_phase)) *)
Definition run_decomp (t : tables) (n : nat) (U : list (list (bigQ * bigQ)))
           (ans : list (bigQ * bigQ)) (ends : list bigQ) : sx :=
  let E := qenv t in
  sxRes (fun dc : decomp (K:=bigQ) =>
           SL [ SL (map sxNrec (dc_recs dc));
                SL (map sxQ (dc_end dc));
                sxMat n n (dc_nulled dc);
                sxMat n n (rebuild qops E n (dc_recs dc) (map (e_cis E) (dc_end dc))) ])
        (reck_decomposition qops E n (tab cqops n (of_rowsC U)) (fun_of ans (0, 0)%bigQ) (fun_of ends 0%bigQ)).

(* distributions *)
Inductive dspec : Type :=
| SConst (v : pyval (K:=bigQ))
| STopHat (lo hi : pyval (K:=bigQ))
| SGauss (c d lo hi : pyval (K:=bigQ)).

Definition mk_dist (d : dspec) (g : rng) : res (dobj (K:=bigQ)) :=
  match d with
  | SConst v => mk_const v g
  | STopHat lo hi => mk_tophat qops lo hi g
  | SGauss c dv lo hi => mk_gauss qops c dv lo hi g
  end.

Fixpoint draws (E : env (K:=bigQ)) (fuel count : nat) (x : dobj (K:=bigQ)) : list sx * dobj (K:=bigQ) :=
  match count with
  | O => ([], x)
  | S c =>
      match dist_value qops E fuel x with
      | Ok (v, x') => let r := draws E fuel c x' in (SL [SI 0%Z; sxQ v] :: fst r, snd r)
      | Err e => ([SL [SI 1%Z; SI (err_code e)]], x)
      end
  end.

Definition sxRng (g : rng) : sx :=
  match r_src g with
  | Seeded s => SL [SI 1%Z; SI s; sxN (r_pos g)]
  | Entropy k => SL [SI 0%Z; sxN k; sxN (r_pos g)]
  end.

(* construct, seed directly (Distribution.set_random_seed), draw [count] values *)
Definition run_dist (t : tables) (d : dspec) (seed : Z) (fuel count : nat) : sx :=
  sxRes (fun x => let r := draws (qenv t) fuel count x in SL [SL (fst r); sxRng (d_rng (snd r))])
        (mk_dist d (mkRng (Seeded seed) 0)).

(* ErrorModel: construct the three distributions (each with an unrelated
   generator state [g0 k]), _set_random_seed, then a sequence of get_* calls
   (0 = bs_reflectivity, 1 = loss, 2 = phase_offset) *)
Definition mk_em (bs ls ph : dspec) (g0 : nat -> rng) : res (emodel (K:=bigQ)) :=
  do a <- mk_dist bs (g0 0%nat); do b <- mk_dist ls (g0 1%nat); do c <- mk_dist ph (g0 2%nat);
  Ok (mkEm a b c).

Fixpoint em_calls (E : env (K:=bigQ)) (fuel : nat) (calls : list nat) (em : emodel (K:=bigQ)) : list sx :=
  match calls with
  | [] => []
  | c :: calls' =>
      let x := match c with 0%nat => em_bs em | 1%nat => em_loss em | _ => em_phase em end in
      match dist_value qops E fuel x with
      | Ok (v, x') =>
          let em' := match c with
                     | 0%nat => mkEm x' (em_loss em) (em_phase em)
                     | 1%nat => mkEm (em_bs em) x' (em_phase em)
                     | _ => mkEm (em_bs em) (em_loss em) x'
                     end in
          SL [SI 0%Z; sxQ v] :: em_calls E fuel calls' em'
      | Err e => [SL [SI 1%Z; SI (err_code e)]]
      end
  end.

Definition sxEmRng (em : emodel (K:=bigQ)) : sx :=
  SL [sxRng (d_rng (em_bs em)); sxRng (d_rng (em_loss em)); sxRng (d_rng (em_phase em))].

Definition run_em (t : tables) (bs ls ph : dspec) (hist : list nat) (seed : pyseed) (fuel : nat) (calls : list nat) : sx :=
  sxRes (fun em : emodel (K:=bigQ) => SL [sxEmRng em; SL (em_calls (qenv t) fuel calls em)])
        (do em0 <- mk_em bs ls ph (fun k => mkRng (Entropy (100 + k)) (nth k hist 0%nat));
         set_random_seed (qenv t) em0 seed 0).

(* Reck.map *)
Definition sxPhase (p : phase (K:=bigQ)) : sx := sxQ (ph_val p).
Definition sxComp (c : comp (K:=bigQ)) : sx :=
  match c with
  | CBarrier ms => SL [SI 0%Z; sxNs ms]
  | CPS m p => SL [SI 1%Z; sxN m; sxPhase p]
  | CBS m1 m2 r => SL [SI 2%Z; sxN m1; sxN m2; sxQ r]
  | CLoss m l => SL [SI 3%Z; sxN m; sxQ l]
  end.
Definition sxHer (h : list (nat * Z)) : sx := SL (map (fun p => SL [sxN (fst p); SI (snd p)]) h).

Definition run_map (t : tables) (bs ls ph : dspec) (hist : list nat) (seed : pyseed) (fuel : nat)
           (n : nat) (U : list (list (bigQ * bigQ))) (hin hout : list (nat * Z))
           (ans : list (bigQ * bigQ)) (ends : list bigQ) : sx :=
  let E := qenv t in
  sxRes (fun r : circuit (K:=bigQ) * emodel (K:=bigQ) =>
           let c := fst r in
           SL [ SL (map sxComp (c_spec c)); sxHer (c_hin c); sxHer (c_hout c);
                sxMat n n (compile qops E n (c_spec c)); sxEmRng (snd r) ])
        (do em0 <- mk_em bs ls ph (fun k => mkRng (Entropy (100 + k)) (nth k hist 0%nat));
         reck_map qops E fuel em0 n (tab cqops n (of_rowsC U)) hin hout seed 0
                  (fun_of ans (0, 0)%bigQ) (fun_of ends 0%bigQ)).
