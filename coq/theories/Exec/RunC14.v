(* Entry points evaluated by harness/c14.py (exact dyadic execution of Model/Reck.v).
   The oracles of [env] are finite tables supplied by the harness: keys are the
   exact rationals the model computes, values the Python float evaluation of
   the elementary function / the replicated numpy stream. *)
From Coq Require Import ZArith List Bool.
From Bignums Require Import BigZ.
From LW Require Import Base.Num Base.Sums Base.Mat Base.Sx Exec.QNum Model.Reck.
Import ListNotations.

(* ---- dyadic numbers m / 2^e (every Python float is one) ----
   BigQ's normalising operations cost a gcd each (measured: 500x slower than
   the bigZ operations below on the 1000-bit numbers an exact 6-mode product
   reaches), and every denominator here is a power of two. *)
Definition dy : Type := (bigZ * bigZ)%type.       (* (m, e), e >= 0, value m * 2^-e *)
Definition dalign (x y : dy) : bigZ * bigZ * bigZ :=
  let '(m1, e1) := x in let '(m2, e2) := y in
  if BigZ.leb e1 e2 then (BigZ.shiftl m1 (BigZ.sub e2 e1), m2, e2)
  else (m1, BigZ.shiftl m2 (BigZ.sub e1 e2), e1).
Definition dadd (x y : dy) : dy := let '(a, b, e) := dalign x y in (BigZ.add a b, e).
Definition dsub (x y : dy) : dy := let '(a, b, e) := dalign x y in (BigZ.sub a b, e).
Definition dmul (x y : dy) : dy := (BigZ.mul (fst x) (fst y), BigZ.add (snd x) (snd y)).
Definition dopp (x : dy) : dy := (BigZ.opp (fst x), snd x).
Definition deqb (x y : dy) : bool := let '(a, b, _) := dalign x y in BigZ.eqb a b.
Definition dleb (x y : dy) : bool := let '(a, b, _) := dalign x y in BigZ.leb a b.
(* inverse, exact on powers of two (the only use: 1/2); 0 elsewhere *)
Definition dinv (x : dy) : dy :=
  let '(m, e) := x in
  let j := BigZ.log2 m in
  if BigZ.eqb m (BigZ.shiftl 1 j) then
    (if BigZ.leb j e then (BigZ.shiftl 1 (BigZ.sub e j), 0%bigZ) else (1%bigZ, BigZ.sub j e))
  else (0%bigZ, 0%bigZ).
Definition dops : ops dy :=
  mkOps dy (0%bigZ, 0%bigZ) (1%bigZ, 0%bigZ) dadd dmul dsub dopp dinv (fun x => x) deqb dleb
        (fun z => (BigZ.of_Z z, 0%bigZ)).
Definition cdops : ops (dy * dy) := cplx dops.

Definition qd (m k : Z) : dy := (BigZ.of_Z m, BigZ.of_Z k).
(* floor (x / y), y > 0 *)
Definition dfdiv (x y : dy) : Z :=
  BigZ.to_Z (BigZ.div (BigZ.shiftl (fst x) (snd y)) (BigZ.shiftl (fst y) (snd x))).
(* floor (x * 10^12) *)
Definition d_out (x : dy) : Z :=
  BigZ.to_Z (BigZ.div (BigZ.mul (fst x) (BigZ.of_Z scale)) (BigZ.shiftl 1 (snd x))).
Definition sxQ (x : dy) : sx := SI (d_out x).
Definition sxC (x : dy * dy) : sx := SL [sxQ (fst x); sxQ (snd x)].
Definition sxMat (n m : nat) (A : nat -> nat -> dy * dy) : sx :=
  SL (map (fun i => SL (map (fun j => sxC (A i j)) (seq 0 m))) (seq 0 n)).

Fixpoint lookup {V} (x : dy) (l : list (dy * V)) (d : V) : V :=
  match l with
  | [] => d
  | (k, v) :: l' => if deqb k x then v else lookup x l' d
  end.
Fixpoint lookupZ {V} (x : Z) (l : list (Z * V)) (d : V) : V :=
  match l with
  | [] => d
  | (k, v) :: l' => if Z.eqb k x then v else lookupZ x l' d
  end.

Definition loud : dy := (7%bigZ, 0%bigZ).     (* value of a missing table entry: visibly wrong *)

Record tables : Type := mkTables {
  t_cis : list (dy * (dy * dy));
  t_bs : list (dy * (dy * dy));
  t_sqrt : list (dy * dy);
  t_pi : dy;
  t_ints : list (Z * list Z);
  t_unif : list (Z * list dy);
  t_norm : list (Z * list dy) }.

Definition stream (t : list (Z * list dy)) (src : rsrc) (k : nat) : dy :=
  match src with
  | Seeded s => nth k (lookupZ s t []) loud
  | Entropy _ => loud
  end.

(* the float constants 1e-20 and 1e-10 as dyadics *)
Definition f1em20 : dy := qd 6646139978924579 119.
Definition f1em10 : dy := qd 7737125245533627 86.

Definition qenv (t : tables) : env (K:=dy) :=
  mkEnv (fun x => lookup x (t_cis t) (loud, loud))
        (fun x => lookup x (t_bs t) (loud, loud))
        (fun x => lookup x (t_sqrt t) loud)
        dfdiv (t_pi t)
        (dmul f1em20 f1em20) f1em10 (dmul f1em10 f1em10)
        (fun s k => nth k (lookupZ s (t_ints t) []) (-1)%Z)
        (stream (t_unif t)) (stream (t_norm t)).

Definition of_rowsC (l : list (list (dy * dy))) : nat -> nat -> dy * dy :=
  fun i j => nth j (nth i l []) (k0 cdops).
Definition fun_of {A} (l : list A) (d : A) : nat -> A := fun k => nth k l d.

Definition sxNrec (r : nrec (K:=dy)) : sx :=
  SL [sxN (nr_j r + 2 * nr_i r); sxN (nr_j r); sxB (nr_small r); sxQ (nr_theta r); sxQ (nr_phi r)].

(* reck_decomposition on U with the implementation's answers; also the exact
   product  D' . T_K ... T_1  with D' = diag(exp(i end_phase)) *)
Definition run_decomp (t : tables) (n : nat) (U : list (list (dy * dy)))
           (ans : list (dy * dy)) (ends : list dy) : sx :=
  let E := qenv t in
  sxRes (fun dc : decomp (K:=dy) =>
           SL [ SL (map sxNrec (dc_recs dc));
                SL (map sxQ (dc_end dc));
                sxMat n n (dc_nulled dc);
                sxMat n n (rebuild dops E n (dc_recs dc) (map (e_cis E) (dc_end dc))) ])
        (reck_decomposition dops E n (tab cdops n (of_rowsC U)) (fun_of ans (k0 dops, k0 dops)) (fun_of ends (k0 dops))).

(* distributions *)
Inductive dspec : Type :=
| SConst (v : pyval (K:=dy))
| STopHat (lo hi : pyval (K:=dy))
| SGauss (c d lo hi : pyval (K:=dy)).

Definition mk_dist (d : dspec) (g : rng) : res (dobj (K:=dy)) :=
  match d with
  | SConst v => mk_const v
  | STopHat lo hi => mk_tophat dops lo hi g
  | SGauss c dv lo hi => mk_gauss dops c dv lo hi g
  end.

Fixpoint draws (E : env (K:=dy)) (fuel count : nat) (x : dobj (K:=dy)) : list sx * dobj (K:=dy) :=
  match count with
  | O => ([], x)
  | S c =>
      match dist_value dops E fuel x with
      | Ok (v, x') => let r := draws E fuel c x' in (SL [SI 0%Z; sxQ v] :: fst r, snd r)
      | Err e => ([SL [SI 1%Z; SI (err_code e)]], x)
      end
  end.

Definition sxRng (g : rng) : sx :=
  match r_src g with
  | Seeded s => SL [SI 1%Z; SI s; sxN (r_pos g)]
  | Entropy k => SL [SI 0%Z; sxN k; sxN (r_pos g)]
  end.

(* construct, seed directly (Distribution.set_random_seed), draw [count] values *)
Definition run_dist (t : tables) (d : dspec) (seed : Z) (fuel count : nat) : sx :=
  sxRes (fun x => let r := draws (qenv t) fuel count x in SL [SL (fst r); sxRng (d_rng (snd r))])
        (mk_dist d (mkRng (Seeded seed) 0)).

(* ErrorModel: construct the three distributions (each with an unrelated
   generator state [g0 k]), _set_random_seed, then a sequence of get_* calls
   (0 = bs_reflectivity, 1 = loss, 2 = phase_offset) *)
Definition mk_em (bs ls ph : dspec) (g0 : nat -> rng) : res (emodel (K:=dy)) :=
  do a <- mk_dist bs (g0 0%nat); do b <- mk_dist ls (g0 1%nat); do c <- mk_dist ph (g0 2%nat);
  Ok (mkEm a b c).

Fixpoint em_calls (E : env (K:=dy)) (fuel : nat) (calls : list nat) (em : emodel (K:=dy)) : list sx :=
  match calls with
  | [] => []
  | c :: calls' =>
      let x := match c with 0%nat => em_bs em | 1%nat => em_loss em | _ => em_phase em end in
      match dist_value dops E fuel x with
      | Ok (v, x') =>
          let em' := match c with
                     | 0%nat => mkEm x' (em_loss em) (em_phase em)
                     | 1%nat => mkEm (em_bs em) x' (em_phase em)
                     | _ => mkEm (em_bs em) (em_loss em) x'
                     end in
          SL [SI 0%Z; sxQ v] :: em_calls E fuel calls' em'
      | Err e => [SL [SI 1%Z; SI (err_code e)]]
      end
  end.

Definition sxEmRng (em : emodel (K:=dy)) : sx :=
  SL [sxRng (d_rng (em_bs em)); sxRng (d_rng (em_loss em)); sxRng (d_rng (em_phase em))].

Definition run_em (t : tables) (bs ls ph : dspec) (hist : list nat) (seed : pyseed) (fuel : nat) (calls : list nat) : sx :=
  sxRes (fun em : emodel (K:=dy) => SL [sxEmRng em; SL (em_calls (qenv t) fuel calls em)])
        (do em0 <- mk_em bs ls ph (fun k => mkRng (Entropy (100 + k)) (nth k hist 0%nat));
         set_random_seed (qenv t) em0 seed 0).

(* Reck.map *)
Definition sxPhase (p : phase (K:=dy)) : sx := sxQ (ph_val p).
Definition sxComp (c : comp (K:=dy)) : sx :=
  match c with
  | CBarrier ms => SL [SI 0%Z; sxNs ms]
  | CPS m p => SL [SI 1%Z; sxN m; sxPhase p]
  | CBS m1 m2 r => SL [SI 2%Z; sxN m1; sxN m2; sxQ r]
  | CLoss m l => SL [SI 3%Z; sxN m; sxQ l]
  end.
Definition sxHer (h : list (nat * Z)) : sx := SL (map (fun p => SL [sxN (fst p); SI (snd p)]) h).

Definition run_map (t : tables) (bs ls ph : dspec) (hist : list nat) (seed : pyseed) (fuel : nat)
           (n : nat) (U : list (list (dy * dy))) (hin hout : list (nat * Z))
           (ans : list (dy * dy)) (ends : list dy) : sx :=
  let E := qenv t in
  sxRes (fun r : circuit (K:=dy) * emodel (K:=dy) =>
           let c := fst r in
           SL [ SL (map sxComp (c_spec c)); sxHer (c_hin c); sxHer (c_hout c);
                sxMat n n (compile dops E n (c_spec c)); sxEmRng (snd r) ])
        (do em0 <- mk_em bs ls ph (fun k => mkRng (Entropy (100 + k)) (nth k hist 0%nat));
         reck_map dops E fuel em0 n (tab cdops n (of_rowsC U)) hin hout seed 0
                  (fun_of ans (k0 dops, k0 dops)) (fun_of ends (k0 dops))).
