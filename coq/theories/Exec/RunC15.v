(* Entry points evaluated by harness/c15.py.
   Reconstruction from counts runs in Q(i) (bigQ pairs); the constant mapping
   matrices need sqrt 2 and run in Q(sqrt 2)(i) over bigQ. *)
From Coq Require Import ZArith List Bool.
From Bignums Require Import BigQ.
From LW Require Import Base.Sx Base.Num Base.Mat Base.QI2 Exec.QNum Model.Tomo.
Import ListNotations.

Definition c_i : bigQ * bigQ := (0%bigQ, 1%bigQ).
Definition c_h_unused : bigQ * bigQ := (0%bigQ, 0%bigQ).   (* no Hadamard entry is used when reconstructing from counts *)

(* exact field with sqrt 2 for the constant matrices *)
Definition bq2ops : ops (bigQ * bigQ) := r2ext qops.
Definition bqi2ops : ops ((bigQ * bigQ) * (bigQ * bigQ)) := cplx bq2ops.
Definition bqi2_i : (bigQ * bigQ) * (bigQ * bigQ) := ((0, 0), (1, 0))%bigQ.
Definition bqi2_h : (bigQ * bigQ) * (bigQ * bigQ) := ((0%bigQ, qfrac 1 2), (0, 0)%bigQ).
(* (a + b sqrt2) + i (c + d sqrt2) printed as [a; b; c; d] *)
Definition sxQI2 (x : (bigQ * bigQ) * (bigQ * bigQ)) : sx :=
  SL [sxQ (fst (fst x)); sxQ (snd (fst x)); sxQ (fst (snd x)); sxQ (snd (snd x))].
Definition sxMatQI2 (n m : nat) (A : nat -> nat -> (bigQ * bigQ) * (bigQ * bigQ)) : sx :=
  SL (map (fun i => SL (map (fun j => sxQI2 (A i j)) (seq 0 m))) (seq 0 n)).

Definition pcode (p : pauli) : Z := match p with PX => 0 | PY => 1 | PZ => 2 | PI => 3 end%Z.
Definition sxStr (c : mstr) : sx := SL (map (fun p => SI (pcode p)) c).

Definition mk_data (d : list (list Z * (Z * Z))) : data (K:=bigQ * bigQ) :=
  map (fun sc => (fst sc, (qfrac (fst (snd sc)) (snd (snd sc)), 0%bigQ))) d.

(* StateTomography.process on the results the callback returned *)
Definition run_c15_tomo (n : nat) (req : list mstr) (results : list (list (list Z * (Z * Z)))) : sx :=
  sxRes (sxMat (2 ^ n) (2 ^ n)) (st_process cqops c_i n req (map mk_data results)).

(* constants and enumerations *)
Definition run_c15_static : sx :=
  SL [ SL (map (fun g => sxMatQI2 2 2 (meas_mat bqi2ops bqi2_i bqi2_h g)) meas_keys);
       SL (map (fun g => sxMatQI2 2 2 (pauli_mat bqi2ops bqi2_i g)) pauli_keys);
       SL (map (fun n => SL (map sxStr (tomo_measurements n false))) [1; 2; 3]);
       SL (map (fun n => SL (map sxStr (tomo_measurements n true))) [1; 2; 3]);
       SL (map (fun n => SL (map sxStr (req_canonical n false))) [1; 2; 3]);
       SL (map (fun n => SL (map (fun cs => SL [sxStr (fst cs); sxStr (snd cs)]) (result_mapping n false))) [1; 2]) ].

Definition run_c15_init (n_is_int base_is_circuit : bool) (n modes : Z) (exp_is_fn : bool) : sx :=
  sxRes (fun _ => SL []) (tomo_validate n_is_int base_is_circuit n modes exp_is_fn).
