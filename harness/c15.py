"""C15 — State tomography reconstructs the prepared state.

Correspondence: lightworks' StateTomography.process() versus the Coq model
(Model/Tomo.v, st_process) on the SAME outcome counts the experiment callback
returned, in the same order of measurement settings; constant tables
(MEASUREMENT_MAPPING, PAULI_MAPPING, the enumerations) compared once.

Oracle (statement of the property on the implementation): noiseless counts are
computed by the callback from Simulator amplitudes / the Sampler distribution
of every circuit it receives; the returned rho must equal the outer product of
the dual-rail state vector of the BASE circuit (computed separately), be
Hermitian with unit trace, have fidelity one; the callback must have received
exactly 3^n circuits, one per setting in {X,Y,Z}^n, each = base circuit followed
by single-qubit basis changes b_i with b_i^+ Z b_i = the Pauli of the setting;
the base circuit must be unchanged.
"""
from __future__ import annotations

import copy
import itertools
import random
import sys
import warnings
from fractions import Fraction

import numpy as np

import core
from core import cb, clist, cn, cz, decode_res

import lightworks as lw
from lightworks import State, qubit
from lightworks.emulator import Sampler, Simulator
from lightworks.emulator.results import SamplingResult
from lightworks.tomography import StateTomography
import lightworks.tomography.state_tomography as _stmod
import lightworks.tomography.mappings as _maps
import lightworks.tomography.utils as _tutils

SCALE = 10**15
SQ2 = 2**0.5
PNAMES = "XYZI"
PCTOR = {"X": "PX", "Y": "PY", "Z": "PZ", "I": "PI"}
PAULI = {
    "I": np.eye(2, dtype=complex),
    "X": np.array([[0, 1], [1, 0]], dtype=complex),
    "Y": np.array([[0, -1j], [1j, 0]], dtype=complex),
    "Z": np.array([[1, 0], [0, -1]], dtype=complex),
}
# reference basis changes used ONLY to synthesise data for the 'synthetic' kind
_H = np.array([[1, 1], [1, -1]], dtype=complex) / SQ2
BASIS = {"X": _H, "Y": _H @ np.diag([1, -1j]), "Z": np.eye(2, dtype=complex)}

ONE_Q = ["H", "S", "T", "X", "Y", "Z", "SX", "Sadj", "Tadj"]
ROT = ["Rx", "Ry", "Rz", "P"]


def dual_rail(z, n):
    out = []
    for j in range(n):
        out += [0, 1] if (z >> (n - 1 - j)) & 1 else [1, 0]
    return out


def build_base(n, gates):
    return apply_gates(lw.Circuit(2 * n), gates)


def apply_gates(c, gates):
    for g in gates:
        name = g[0]
        if name in ONE_Q:
            c.add(getattr(qubit, name)(), 2 * g[1])
        elif name in ROT:
            c.add(getattr(qubit, name)(g[2]), 2 * g[1])
        elif name == "CZ":
            c.add(qubit.CZ(), 2 * g[1])
        elif name == "CNOT":
            c.add(qubit.CNOT(g[2]), 2 * g[1])
        elif name == "CZ_H":
            c.add(qubit.CZ_Heralded(), 2 * g[1])
        elif name == "CNOT_H":
            c.add(qubit.CNOT_Heralded(g[2]), 2 * g[1])
        elif name == "SWAP":
            a, b = g[1], g[2]
            c.add(qubit.SWAP((2 * a, 2 * a + 1), (2 * b, 2 * b + 1)), 0)
        elif name == "PSP":          # [name, qubit, lw.Parameter]: phase on the |1> rail = P(value) on the qubit
            c.ps(2 * g[1] + 1, g[2])
        else:
            raise ValueError(name)
    return c


def snapshot(c):
    h = c.heralds
    return (c.n_modes, c.input_modes, np.array(c.U_full).copy(),
            sorted(h["input"].items()), sorted(h["output"].items()))


def snap_equal(a, b):
    return a[0] == b[0] and a[1] == b[1] and a[2].shape == b[2].shape and np.array_equal(a[2], b[2]) \
        and a[3] == b[3] and a[4] == b[4]


def decode_setting(circ, base_snap, n):
    """Which setting does `circ` implement relative to the base circuit?
    Returns (label string like 'X,Z' or None, problem or None)."""
    ub = base_snap[2]
    try:
        uk = np.array(circ.U_full)
    except Exception as e:  # noqa: BLE001
        return None, f"U_full raised {type(e).__name__}"
    if uk.shape != ub.shape:
        return None, f"circuit has {uk.shape[0]} modes, base has {ub.shape[0]}"
    if sorted(circ.heralds["output"].items()) != base_snap[4] or sorted(circ.heralds["input"].items()) != base_snap[3] \
            or circ.input_modes != base_snap[1]:
        return None, "heralds/input modes differ from the base circuit"
    r = uk @ ub.conj().T
    nf = ub.shape[0]
    her = {k for k, _ in base_snap[4]}
    vis = [m for m in range(nf) if m not in her]
    if len(vis) != 2 * n:
        return None, "visible mode count is not 2n"
    mask = np.eye(nf, dtype=bool)
    for i in range(n):
        a, b = vis[2 * i], vis[2 * i + 1]
        mask[a, b] = mask[b, a] = True
    if np.abs(r[~mask]).max(initial=0) > 1e-9:
        return None, "circuit is not the base circuit followed by operations on single qubit mode pairs"
    for m in her:
        if abs(r[m, m] - 1) > 1e-9:
            return None, "herald mode touched"
    labels = []
    for i in range(n):
        a, b = vis[2 * i], vis[2 * i + 1]
        blk = np.array([[r[a, a], r[a, b]], [r[b, a], r[b, b]]])
        obs = blk.conj().T @ PAULI["Z"] @ blk
        lab = [p for p in "XYZ" if np.abs(obs - PAULI[p]).max() < 1e-9]
        if len(lab) != 1:
            return None, f"basis change on qubit {i} measures {np.round(obs, 6).tolist()}, not a Pauli X/Y/Z"
        labels.append(lab[0])
    return ",".join(labels), None


def counts_from_probs(probs, rng, drop_zero):
    """{tuple(state): p} -> ordered list [(state, int count)] (shuffled dict order)."""
    tot = sum(probs.values())
    items = [(list(s), int(round(p / tot * SCALE))) for s, p in probs.items()]
    if drop_zero:
        items = [it for it in items if it[1] != 0]
    rng.shuffle(items)
    return items


def renorm(items, norm, rng):
    """[(state, int count of total 1e15)] -> [[state, [num, den]]] in the form the case asks for:
    'int' the counts themselves; 'varint' integer counts whose total differs from setting to setting;
    'float' relative frequencies (unit total); 'sub' un-normalised probabilities (total < 1, different per setting).
    [num, den] is the EXACT value handed to lightworks (a float is a dyadic rational)."""
    if norm == "int":
        return [[s, [v, 1]] for s, v in items]
    if norm == "varint":
        k = rng.choice([1, 3, 7, 1000, 12345])
        return [[s, [v * k, 1]] for s, v in items]
    f = 1.0 if norm == "float" else rng.choice([0.5, 0.37, 0.05, 0.81, 1e-3, 0.999])
    out = []
    for s, v in items:
        x = Fraction(int(round(v / SCALE * f * 2**40)), 2**40)      # a float with a 40-bit mantissa: num / den is exact
        out.append([s, [x.numerator, x.denominator]])
    return out


def noiseless_counts(circ, n, inp, via, rng, drop_zero):
    outs = [dual_rail(z, n) for z in range(2**n)]
    if via == "sampler":
        pd = Sampler(circ, State(inp)).probability_distribution
        her = circ.heralds["output"]
        probs = {}
        for st, p in pd.items():
            s = list(st)
            if any(s[m] != v for m, v in her.items()):
                continue
            v = [x for m, x in enumerate(s) if m not in her]
            if v in outs:
                probs[tuple(v)] = probs.get(tuple(v), 0.0) + float(p)
        for o in outs:
            probs.setdefault(tuple(o), 0.0)
    else:
        res = Simulator(circ).simulate(State(inp), [State(o) for o in outs])
        amps = np.array(res.array)[0]
        probs = {tuple(o): float(abs(a) ** 2) for o, a in zip(outs, amps)}
    return counts_from_probs(probs, rng, drop_zero)


class _Patch:
    """Record (and optionally permute) the list of required settings: this is
    the `list(set(...))` whose order Python does not fix."""

    def __init__(self, perm_seed):
        self.perm_seed = perm_seed
        self.req = None
        self.orig = getattr(_stmod, "_get_required_tomo_measurements", None)

    def __enter__(self):
        if self.orig is None:
            return self
        orig, me = self.orig, self

        def wrapper(*a, **k):
            req, mapping = orig(*a, **k)
            if me.perm_seed is not None:
                random.Random(me.perm_seed).shuffle(req)
            me.req = list(req)
            return req, mapping

        _stmod._get_required_tomo_measurements = wrapper
        return self

    def __exit__(self, *exc):
        if self.orig is not None:
            _stmod._get_required_tomo_measurements = self.orig
        return False


def rand_rho(n, seed, rank):
    r = random.Random(seed)
    d = 2**n
    a = np.array([[complex(r.gauss(0, 1), r.gauss(0, 1)) for _ in range(rank)] for _ in range(d)])
    rho = a @ a.conj().T
    return rho / np.trace(rho).real


def cmat(m):
    return [[[float(np.real(x)), float(np.imag(x))] for x in row] for row in np.array(m)]


class C15:
    ID = "C15"
    RULE = ("base circuits on 2n visible modes (n=1..3) drawn from the qubit gate library (H,S,T,X,Y,Z,SX,adjoints, "
            "Rx/Ry/Rz/P with random angles, post-selected and heralded CZ/CNOT in both orientations, SWAP), random "
            "computational input, noiseless integer counts (total 1e15) from Simulator amplitudes or the Sampler "
            "distribution of every requested circuit, dict order shuffled, order of the required settings natural or "
            "permuted; synthetic Born-rule counts of random mixed density matrices of every rank; arbitrary small "
            "integer/float counts incl. invalid dual-rail states, empty and zero-total results, wrong result-list length; "
            "constructor argument validation. Counts as integers (equal or different totals per setting), relative frequencies or "
            "un-normalised probabilities, as dict or SamplingResult; experiment_args through the constructor or the attribute; the "
            "experiment as function, bound method or assigned through the setter after construction; 40% of the circuit cases call "
            "process() twice on one object (first call fine / raising / short / invalid data) with the base circuit extended in place "
            "or a live Parameter changed in between; the callback edits every circuit it receives. Non-trivial = a reconstruction (or error) from >=3 settings; distinct = distinct case JSON")
    TRUSTED = ["scipy.linalg.sqrtm in state_fidelity is an oracle with the contract written in Proofs/TomoStateP.v (Section Fidelity); "
               "the numeric fidelity is checked by the Python oracle only",
               "the photonic level (dual-rail frequencies of a heralded/post-selected circuit = Born probabilities of its qubit state) "
               "is exercised by the oracle on generated circuits, not proved (DESIGN C15 T2)"]
    ASSUMPTIONS = ["the experiment callback returns, for every circuit, the frequencies of the valid dual-rail outcomes (unit total)",
                   "the order of list(set(...)) in _get_required_tomo_measurements is arbitrary: the harness permutes it explicitly in a "
                   "third of the cases by wrapping that function"]
    CHUNK = 6

    # ---------------------------------------------------------------- generate
    def _rand_gates(self, rng, n, allow_heralded):
        gates = []
        k = rng.randint(1, 3 + 2 * n)
        n_her = 0
        for _ in range(k):
            r = rng.random()
            q = rng.randrange(n)
            if r < 0.45:
                gates.append([rng.choice(["H", "S", "T", "SX", "Sadj", "Tadj", "H", "S", "SX", "X", "Y", "Z"]), q])
            elif r < 0.7:
                gates.append([rng.choice(ROT), q, round(rng.uniform(-3.1, 3.1), 6)])
            elif n >= 2:
                q = rng.randrange(n - 1)
                kind = rng.choice(["CZ", "CNOT", "CNOT", "CZ_H", "CNOT_H", "SWAP"])
                if kind in ("CZ_H", "CNOT_H") and (not allow_heralded or n_her >= (1 if n == 3 else 2)):
                    kind = "CNOT"
                if kind in ("CZ_H", "CNOT_H"):
                    n_her += 1
                if kind == "SWAP":
                    a, b = rng.sample(range(n), 2)
                    gates.append(["SWAP", a, b])
                elif kind in ("CNOT", "CNOT_H"):
                    gates.append([kind, q, rng.randint(0, 1)])
                else:
                    gates.append([kind, q])
            else:
                gates.append([rng.choice(["H", "SX", "S"]), q])
        return gates

    def generate(self, rng, tier):
        quick = tier == "quick"
        cases = [dict(kind="static")]

        def tomo(n, gates, **kw):
            d = dict(kind="tomo", n=n, gates=gates, inp=[0] * n, via="sim", perm=None, drop_zero=False,
                     dseed=rng.randrange(10**6), twice=(len(gates) >= 1 and rng.random() < 0.4))
            d.update(kw)
            # API forms and histories (see impl): how the counts are normalised, optional experiment_args and how they are
            # set, how the experiment function is given, results as SamplingResult objects, what happens in the first of
            # two process() calls and how the base circuit is edited between them
            d["norm"] = rng.choice(["int", "int", "float", "sub", "varint"])
            d["args"] = rng.choice([None, None, [], [7], ["tag", 3]])
            d["args_form"] = rng.choice(["ctor", "attr"])
            d["exp_form"] = rng.choice(["ctor", "ctor", "setter", "method"])
            d["as_result"] = rng.random() < 0.25
            if d["twice"]:
                d["first"] = rng.choice(["ok", "ok", "raise", "short", "invalid"])
                d["edit"] = rng.choice(["add", "param"])
                d["pq"] = rng.randrange(n)
                d["th"] = [round(rng.uniform(-3, 3), 6), round(rng.uniform(-3, 3), 6)]
            return d

        # the cardinal single-qubit states and Y-sensitive states, exhaustively
        for gs in ([], [["H", 0]], [["X", 0]], [["H", 0], ["S", 0]], [["H", 0], ["Sadj", 0]], [["X", 0], ["H", 0]],
                   [["H", 0], ["T", 0]], [["SX", 0]], [["Ry", 0, 0.7]], [["Rx", 0, 1.1]], [["H", 0], ["P", 0, 2.3]]):
            cases.append(tomo(1, gs, perm=rng.randrange(10**6) if rng.random() < 0.4 else None))
        # fixed entangled states: Bell / GHZ with complex phases, heralded gates
        cases.append(tomo(2, [["H", 0], ["CNOT", 0, 1]]))
        cases.append(tomo(2, [["H", 0], ["S", 0], ["CNOT", 0, 1], ["T", 1]], perm=rng.randrange(10**6)))
        cases.append(tomo(2, [["H", 1], ["S", 1], ["CNOT_H", 0, 0], ["SX", 0]], via="sampler"))
        cases.append(tomo(2, [["SX", 0], ["H", 1], ["CZ_H", 0], ["Ry", 1, 0.9]], drop_zero=True))
        cases.append(tomo(3, [["H", 0], ["S", 0], ["CNOT", 0, 1], ["CNOT", 1, 1], ["T", 2]], perm=rng.randrange(10**6)))
        n_rand = 14 if quick else 220
        for k in range(n_rand):
            n = rng.choice([1, 2, 2, 2, 3] if not quick else [1, 2, 2, 2, 2, 2, 3])
            if quick and k >= n_rand - 2:
                n = 3
            gates = self._rand_gates(rng, n, allow_heralded=(n <= 2 or rng.random() < (0.3 if quick else 0.5)))
            has_her = any(g[0] in ("CZ_H", "CNOT_H") for g in gates)
            via = "sampler" if (n <= 2 and rng.random() < 0.3 and sum(g[0] in ("CZ_H", "CNOT_H") for g in gates) <= 1) else "sim"
            if n == 3 and has_her:
                via = "sim"
            cases.append(tomo(n, gates, inp=[rng.randint(0, 1) if rng.random() < 0.3 else 0 for _ in range(n)],
                              via=via, perm=rng.randrange(10**6) if rng.random() < 0.35 else None,
                              drop_zero=rng.random() < 0.4))
        # base circuits with a heralded ancilla BETWEEN the two rails of a qubit (oracle only): the shared basis-change
        # circuits are then added across an ancilla; they, and the base circuit, must stay untouched, and a later
        # tomography of an ordinary circuit must still work
        for _ in range(3 if quick else 25):
            cases.append(dict(kind="anc", n=1, seed=rng.randrange(10**9)))
        # synthetic Born-rule data of random (mixed) density matrices
        n_syn = 10 if quick else 150
        for k in range(n_syn):
            n = rng.choice([1, 2, 2, 3] if not quick else [1, 2, 2, 2, 3])
            if quick and k >= n_syn - 1:
                n = 3
            cases.append(dict(kind="synthetic", n=n, seed=rng.randrange(10**9), rank=rng.randint(1, 2**n),
                              perm=rng.randrange(10**6) if rng.random() < 0.5 else None, dseed=rng.randrange(10**6)))
        # arbitrary counts, malformed outcomes
        n_cnt = 30 if quick else 500
        for k in range(n_cnt):
            n = rng.choice([1, 1, 2, 2, 3]) if k % 7 else 2
            bad = rng.random() < 0.35
            data = []
            for _ in range(3**n):
                outs = [dual_rail(z, n) for z in range(2**n)]
                rng.shuffle(outs)
                outs = outs[:rng.randint(1, len(outs))]
                if bad and rng.random() < 0.3:
                    j = rng.randrange(n)
                    o = list(rng.choice(outs))
                    o[2 * j:2 * j + 2] = rng.choice([[1, 1], [0, 0], [2, 0], [0, 2]])
                    if o not in outs:
                        outs.insert(rng.randint(0, len(outs)), o)
                if bad and rng.random() < 0.08:
                    outs.append(dual_rail(0, n)[:-1])        # too short a state
                if bad and rng.random() < 0.08:
                    outs = []
                if rng.random() < 0.25:
                    cnts = [[rng.randint(0, 40), 1] for _ in outs]
                elif rng.random() < 0.5:
                    cnts = [[rng.randint(0, 10**6), 1] for _ in outs]
                else:
                    cnts = [[rng.randint(0, 4000), rng.choice([1, 2, 4, 8, 1024])] for _ in outs]
                if bad and rng.random() < 0.06:
                    cnts = [[0, 1] for _ in outs]
                data.append([[o, c] for o, c in zip(outs, cnts)])
            short = rng.choice([0, 0, 0, 0, 0, 0, -1, 1]) if bad else 0
            cases.append(dict(kind="counts", n=n, data=data, short=short,
                              perm=rng.randrange(10**6) if rng.random() < 0.4 else None))
        # constructor validation
        for nq, base, ex in itertools.product([1, 2, True, 1.5, "2", None], ["c2", "c4", "c5", "cz_h", "list", None],
                                              ["fn", "lambda", "none", "builtin", "callable_obj", "method"]):
            if quick and rng.random() < 0.6:
                continue
            cases.append(dict(kind="init", nq=nq, base=base, ex=ex))
        return cases

    # -------------------------------------------------------------------- impl
    def impl(self, c):
        k = c["kind"]
        if k == "static":
            mm = [cmat(_maps.MEASUREMENT_MAPPING[g].U_full) for g in "XYZI"]
            pm = [cmat(_maps.PAULI_MAPPING[g]) for g in "IXYZ"]
            enc = lambda s: [PNAMES.index(x) for x in s.split(",")]
            tm = [[enc(s) for s in _tutils._get_tomo_measurements(n)] for n in (1, 2, 3)]
            tmr = [[enc(s) for s in _tutils._get_tomo_measurements(n, remove_trivial=True)] for n in (1, 2, 3)]
            rq = [sorted(enc(s) for s in _tutils._get_required_tomo_measurements(n)[0]) for n in (1, 2, 3)]
            mp = [[[enc(a), enc(b)] for a, b in _tutils._get_required_tomo_measurements(n)[1].items()] for n in (1, 2)]
            return {"keys": [list(_maps.MEASUREMENT_MAPPING.keys()), list(_maps.PAULI_MAPPING.keys())],
                    "tables": [mm, pm, tm, tmr, rq, mp]}
        if k == "init":
            return self._impl_init(c)
        if k == "anc":
            return self._impl_anc(c)
        n = c["n"]
        aux = {"problems": []}
        twice = k == "tomo" and c.get("twice") and len(c["gates"]) >= 1
        edit = c.get("edit", "add") if twice else None
        param = None
        if k == "tomo":
            # twice: the tomography object is first used on a prefix of the base circuit, the base circuit is
            # then extended IN PLACE (edit 'add') - or it holds a live Parameter whose value is then changed (edit
            # 'param') - and process() is called again: the second call must describe the circuit as it is then
            # (one circuit per setting = current base circuit + basis changes)
            if edit == "param":
                base = build_base(n, c["gates"])
                param = lw.Parameter(c["th"][0])
                apply_gates(base, [["PSP", c["pq"], param]])
            else:
                base = build_base(n, c["gates"][:-1] if twice else c["gates"])
            inp = []
            for b in c["inp"]:
                inp += [0, 1] if b else [1, 0]
        else:
            base = lw.Circuit(2 * n)
            inp = [1, 0] * n
        before = snapshot(base)
        rng = random.Random(c.get("dseed", 0))
        received, returned = [], []
        rho_syn = rand_rho(n, c["seed"], c["rank"]) if k == "synthetic" else None

        phase = {"first": bool(twice)}

        norm = c.get("norm", "int")
        seen_args = aux["args_seen"] = []

        def scribble(circuits):
            # the circuits handed to the callback are the callback's: editing them must not reach the base circuit,
            # the shared basis-change circuits or a later process() call
            for circ in circuits:
                try:
                    circ.ps(0, 0.9)
                    circ.bs(0)
                except Exception:  # noqa: BLE001
                    pass

        def experiment(circuits, *extra):
            seen_args.append(list(extra))
            if phase["first"]:
                how = c.get("first", "ok")
                res0 = []
                for circ in circuits:
                    items = noiseless_counts(circ, n, inp, c["via"], random.Random(1), False)
                    res0.append({State(list(s_)): v for s_, v in items})
                scribble(circuits)
                if how == "raise":
                    raise RuntimeError("the experiment failed")
                if how == "short":
                    return res0[:-1]
                if how == "invalid":
                    res0[0] = {State([1, 1] * n): 5}
                return res0
            out = []
            for idx, circ in enumerate(circuits):
                lab, prob = decode_setting(circ, before, n)
                received.append(lab)
                if prob:
                    aux["problems"].append(f"circuit {idx}: {prob}")
                if k == "tomo":
                    items = noiseless_counts(circ, n, inp, c["via"], rng, c["drop_zero"])
                    items = renorm(items, norm, rng)
                elif k == "synthetic":
                    if lab is None:
                        items = [[dual_rail(0, n), [1, 1]]]
                    else:
                        m = np.array([[1]], dtype=complex)
                        for g in lab.split(","):
                            m = np.kron(m, BASIS[g])
                        pr = np.real(np.diag(m @ rho_syn @ m.conj().T))
                        items = counts_from_probs({tuple(dual_rail(z, n)): max(float(pr[z]), 0.0) for z in range(2**n)}, rng, False)
                        items = [[s, [v, 1]] for s, v in items]
                else:
                    items = c["data"][idx % len(c["data"])]
                out.append(items)
            if k == "counts" and c["short"]:
                out = out[:-1] if c["short"] < 0 else out + [out[0]]
            returned.extend(out)
            res = []
            for items in out:
                d = {}
                for s, (num, den) in items:
                    d[State(list(s))] = num if den == 1 else num / den
                res.append(SamplingResult(d, State(inp)) if c.get("as_result") else d)
            scribble(circuits)
            return res

        class Lab:
            def run(self_, circuits, *extra):  # noqa: N805
                return experiment(circuits, *extra)

        def stale(circuits, *extra):  # noqa: ARG001
            raise AssertionError("the experiment function given to the constructor was called after it had been replaced")

        exp_form, args, args_form = c.get("exp_form", "ctor"), c.get("args"), c.get("args_form", "ctor")
        ex = Lab().run if exp_form == "method" else experiment
        with _Patch(c.get("perm")) as patch:
            kw = {"experiment_args": list(args)} if (args is not None and args_form == "ctor") else {}
            tomo = StateTomography(n, base, stale if exp_form == "setter" else ex, **kw)
            if exp_form == "setter":
                tomo.experiment = ex
            if args is not None and args_form == "attr":
                tomo.experiment_args = list(args)
            if twice:
                try:
                    tomo.process()
                except Exception:  # noqa: BLE001   (outcome of the first call is not what this case observes)
                    pass
                phase["first"] = False
                if edit == "param":
                    param.set(c["th"][1])
                else:
                    apply_gates(base, c["gates"][-1:])
                before = snapshot(base)
            try:
                rho = tomo.process()
                res = {"ok": cmat(rho)}
            except Exception as e:  # noqa: BLE001
                name = type(e).__name__
                res = {"err": name if name in core.ERR_CODES.values() else "OtherError"}
                rho = None
        after = snapshot(base)
        if not snap_equal(before, after):
            aux["problems"].append("base circuit changed by process()")
        if rho is not None:
            try:
                if not np.array_equal(np.array(tomo.rho), np.array(rho), equal_nan=True):
                    aux["problems"].append(".rho is not the matrix the last process() call returned")
            except Exception as e:  # noqa: BLE001
                aux["problems"].append(f".rho raised {type(e).__name__} after process()")
        if patch.req is not None:
            req = patch.req
            for idx, (a, b) in enumerate(zip(req, received)):
                if b is not None and a != b:
                    aux["problems"].append(f"circuit {idx} implements setting {b} but its result is used for {a}")
        else:
            req = [r if r is not None else "Z" for r in received]
        aux["n_circuits"] = len(received)
        aux["settings"] = sorted(r for r in received if r is not None)
        c["_req"] = req
        c["_results"] = returned
        if rho is not None and k in ("tomo", "synthetic"):
            if k == "tomo":
                outs = [State(dual_rail(z, n)) for z in range(2**n)]
                amps = np.array(Simulator(base).simulate(State(inp), outs).array)[0]
                nrm = float(np.linalg.norm(amps))
                aux["norm"] = nrm
                ref = np.outer(amps, amps.conj()) / nrm**2 if nrm > 1e-6 else None
            else:
                ref = rho_syn
            if ref is not None:
                aux["ref"] = cmat(ref)
                try:
                    with warnings.catch_warnings():
                        warnings.simplefilter("ignore")      # scipy: 'Matrix is singular' for pure states
                        aux["fidelity"] = float(tomo.fidelity(ref))
                        if k == "tomo":
                            # a state orthogonal to the prepared one: any notion of fidelity gives 0 there
                            psi = amps / nrm
                            j = int(np.argmin(np.abs(psi)))
                            phi = -np.conj(psi[j]) * psi
                            phi[j] += 1
                            phi = phi / np.linalg.norm(phi)
                            aux["fidelity_orth"] = float(tomo.fidelity(np.outer(phi, phi.conj())))
                except Exception as e:  # noqa: BLE001
                    aux["problems"].append(f"fidelity raised {type(e).__name__}: {e}")
        return {"res": res, "aux": aux}

    def _impl_anc(self, c):
        r = random.Random(c["seed"])
        th, ph = r.uniform(0.2, 1.4), r.uniform(0, 6.2)
        u2 = np.array([[np.cos(th), -np.exp(1j * ph) * np.sin(th)], [np.exp(-1j * ph) * np.sin(th), np.cos(th)]])
        u3 = np.eye(3, dtype=complex)
        for a, i in enumerate((0, 2)):
            for b, j in enumerate((0, 2)):
                u3[i, j] = u2[a, b]
        problems = []

        def tomo_of(base, psi):
            before = snapshot(base)

            def experiment(circuits):
                out = []
                for circ in circuits:
                    items = noiseless_counts(circ, 1, [1, 0], "sim", r, False)
                    out.append({State(list(st)): v for st, v in items})
                return out
            try:
                rho = np.array(StateTomography(1, base, experiment).process())
            except Exception as e:  # noqa: BLE001
                return f"process() raised {type(e).__name__}: {e}"
            if not snap_equal(before, snapshot(base)):
                return "base circuit changed by process()"
            ref = np.outer(psi, psi.conj())
            if not (np.abs(rho - ref).max() <= 1e-6):
                return f"rho differs from the prepared state by {np.abs(rho - ref).max():.3g}"
            return None

        sub = lw.Unitary(u3)
        sub.herald(0, 1)
        base = lw.Circuit(2)
        base.add(sub, 0)
        maps0 = {k_: (g.n_modes, np.array(g.U_full).tobytes()) for k_, g in _maps.MEASUREMENT_MAPPING.items()}
        m = tomo_of(base, u2[:, 0])
        if m:
            problems.append("ancilla between the rails: " + m)
        if {k_: (g.n_modes, np.array(g.U_full).tobytes()) for k_, g in _maps.MEASUREMENT_MAPPING.items()} != maps0:
            problems.append("a shared basis-change circuit of MEASUREMENT_MAPPING was modified by the tomography")
        plain = lw.Circuit(2)
        plain.add(qubit.H(), 0)
        plain.add(qubit.S(), 0)
        m = tomo_of(plain, np.array([1, 1j]) / np.sqrt(2))
        if m:
            problems.append("ordinary circuit afterwards: " + m)
        return {"res": {"ok": []}, "aux": {"problems": problems}}

    def _impl_init(self, c):
        def fn(circuits):
            return []

        class Obj:
            def __call__(self, circuits):
                return []

        base = {"c2": lambda: lw.Circuit(2), "c4": lambda: lw.Circuit(4), "c5": lambda: lw.Circuit(5),
                "cz_h": lambda: qubit.CZ_Heralded(), "list": lambda: [1, 2, 3], None: lambda: None}[c["base"]]()
        class Lab:
            def run(self, circuits):
                return []
        ex = {"fn": fn, "lambda": (lambda circuits: []), "none": None, "builtin": len, "callable_obj": Obj(),
              "method": Lab().run}[c["ex"]]
        try:
            StateTomography(c["nq"], base, ex)
            return {"res": {"ok": []}}
        except Exception as e:  # noqa: BLE001
            return {"res": {"err": type(e).__name__}}

    # ------------------------------------------------------------------- model
    def coq_header(self):
        return ("From Coq Require Import ZArith List.\n"
                "From LW Require Import Base.Sx Model.Tomo Exec.RunC15.\nImport ListNotations.\n")

    def coq_expr(self, c):
        k = c["kind"]
        if k == "static":
            return "run_c15_static"
        if k == "anc":
            return "SL nil"
        if k == "init":
            nq = c["nq"]
            is_int = isinstance(nq, int) and not isinstance(nq, bool)
            is_circ = c["base"] in ("c2", "c4", "c5", "cz_h")
            modes = {"c2": 2, "c4": 4, "c5": 5, "cz_h": 4}.get(c["base"], 0)
            return (f"run_c15_init {cb(is_int)} {cb(is_circ)} {cz(nq if is_int else 0)} {cz(modes)} "
                    f"{cb(c['ex'] in ('fn', 'lambda', 'method'))}")
        req = c.get("_req") or []
        results = c.get("_results") or []
        rq = clist(clist(PCTOR[x] for x in s.split(",")) for s in req)
        rs = clist(clist(f"({clist(cz(v) for v in s)}, ({cz(num)}, {cz(den)}))" for s, (num, den) in items)
                   for items in results)
        return f"run_c15_tomo {cn(c['n'])} {rq} {rs}"

    def decode(self, c, sx):
        k = c["kind"]
        if k == "static":
            def q2(e):
                a, b, cc, d = [core.unscale(x) for x in e]
                return [a + b * SQ2, cc + d * SQ2]
            mm = [[[q2(e) for e in row] for row in m] for m in sx[0]]
            pm = [[[q2(e) for e in row] for row in m] for m in sx[1]]
            rq = [sorted(l) for l in sx[4]]
            return {"keys": [["X", "Y", "Z", "I"], ["I", "X", "Y", "Z"]], "tables": [mm, pm, sx[2], sx[3], rq, sx[5]]}
        if k == "anc":
            return None
        if k == "init":
            return {"res": decode_res(sx)}
        return {"res": decode_res(sx, lambda m: [[[core.unscale(e[0]), core.unscale(e[1])] for e in row] for row in m])}

    def compare(self, c, a, b):
        if c["kind"] == "anc":
            return None
        if c["kind"] == "static":
            return core.approx_equal(a, b, tol=1e-9)
        return core.approx_equal(a["res"], b["res"], tol=1e-9)

    # ------------------------------------------------------------------ oracle
    def oracle(self, c, obs):
        k = c["kind"]
        if k == "static":
            return None
        if k == "init":
            nq = c["nq"]
            valid = (isinstance(nq, int) and not isinstance(nq, bool) and c["base"] in ("c2", "c4", "c5", "cz_h")
                     and {"c2": 2, "c4": 4, "c5": 5, "cz_h": 4}[c["base"]] == 2 * nq and c["ex"] in ("fn", "lambda", "method"))
            if valid != ("ok" in obs["res"]):
                return f"constructor accepted/rejected wrongly: {obs['res']}"
            return None
        n = c["n"]
        aux, res = obs["aux"], obs["res"]
        if aux["problems"]:
            return "; ".join(aux["problems"][:3])
        if k == "anc":
            return None
        exp_args = list(c.get("args") or [])
        if "args_seen" in aux and not aux["args_seen"]:
            return "the experiment function in force (given to the constructor or assigned to .experiment afterwards) was never called"
        if any(a != exp_args for a in aux.get("args_seen", [])):
            return f"the experiment callback was called with extra arguments {aux.get('args_seen')}, expected {exp_args} in every call"
        want = sorted(",".join(t) for t in itertools.product("XYZ", repeat=n))
        if aux["n_circuits"] != 3**n or aux["settings"] != want:
            return f"callback received {aux['n_circuits']} circuits with settings {aux['settings'][:6]}.. (expected one per setting, {3**n})"
        if k == "counts":
            well_formed = c["short"] == 0 and all(
                items and sum(v[0] for _, v in items) > 0 and all(s in [dual_rail(z, n) for z in range(2**n)] for s, _ in items)
                for items in c["data"][:3**n]) and len(c["data"]) >= 3**n
            if well_formed:
                if "ok" not in res:
                    return f"well-formed counts rejected: {res}"
                rho = np.array([[complex(*e) for e in row] for row in res["ok"]])
                if not np.all(np.isfinite(rho)):
                    return "rho from valid counts has entries that are not finite numbers"
                if np.abs(rho - rho.conj().T).max() > 1e-9 or abs(np.trace(rho) - 1) > 1e-9:
                    return "rho from valid counts is not Hermitian with unit trace"
            return None
        if "ok" not in res:
            return f"process() raised {res}"
        rho = np.array([[complex(*e) for e in row] for row in res["ok"]])
        if not np.all(np.isfinite(rho)):
            return "rho has entries that are not finite numbers"
        if "ref" not in aux:
            return None           # the base circuit has (numerically) zero post-selection probability
        ref = np.array([[complex(*e) for e in row] for row in aux["ref"]])
        d = float(np.abs(rho - ref).max())
        if d > 1e-8:
            i, j = np.unravel_index(np.argmax(np.abs(rho - ref)), rho.shape)
            return f"rho differs from the prepared state: |d|={d:.3g} at [{i},{j}]: {rho[i, j]:.6f} vs {ref[i, j]:.6f}"
        if np.abs(rho - rho.conj().T).max() > 1e-9:
            return "rho not Hermitian"
        if abs(np.trace(rho) - 1) > 1e-9:
            return "rho does not have unit trace"
        if k == "tomo" or c["rank"] == 1:
            if not (abs(aux.get("fidelity", 0.0) - 1) <= 1e-6):
                return f"fidelity against the prepared state is {aux.get('fidelity')}"
            if not (aux.get("fidelity_orth", 0.0) <= 1e-3):
                return f"fidelity against a state ORTHOGONAL to the prepared one is {aux.get('fidelity_orth')}"
        return None

    def nontrivial(self, c, obs):
        if c["kind"] in ("tomo", "synthetic", "counts"):
            return obs["aux"]["n_circuits"] >= 3
        return c["kind"] in ("static", "anc")

    def stats(self, cases, recs):
        from collections import Counter
        kinds = Counter(c["kind"] for c in cases)
        ns = Counter((c["kind"], c.get("n")) for c in cases if "n" in c)
        her = sum(1 for c in cases if c["kind"] == "tomo" and any(g[0] in ("CZ_H", "CNOT_H") for g in c["gates"]))
        ent = sum(1 for c in cases if c["kind"] == "tomo" and any(g[0] in ("CZ", "CNOT", "CZ_H", "CNOT_H") for g in c["gates"]))
        perm = sum(1 for c in cases if c.get("perm") is not None)
        errs = Counter()
        for r in recs:
            if isinstance(r["impl"], dict) and "res" in r["impl"] and "err" in r["impl"]["res"]:
                errs[r["impl"]["res"]["err"]] += 1
        return {"kinds": dict(kinds), "by_kind_n": {f"{a}:{b}": v for (a, b), v in ns.items()}, "tomo_with_heralded_gate": her,
                "tomo_with_entangler": ent, "settings_order_permuted": perm, "error_outcomes": dict(errs)}

    def signature(self, c, rec):
        return None

    def shrink(self, c):
        if c["kind"] == "tomo":
            for i in range(len(c["gates"])):
                d = copy.deepcopy({k: v for k, v in c.items() if not k.startswith("_")})
                del d["gates"][i]
                yield d
            if c.get("perm") is not None:
                d = copy.deepcopy({k: v for k, v in c.items() if not k.startswith("_")})
                d["perm"] = None
                yield d


PROP = C15()

if __name__ == "__main__":
    sys.exit(core.main(PROP))
