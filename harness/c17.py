"""C17 — Result containers index consistently and mappings conserve weight."""
from __future__ import annotations

import copy
import sys
from collections import Counter

import numpy as np

import core
from core import cb, clist, cn, cz, decode_res, guarded, unscale

from lightworks import State
from lightworks.emulator.results import SamplingResult, SimulationResult

DENS = [1, 1, 2, 3, 4, 5, 8, 10, 16, 20]
OTHERS = [3, "s", [0, 1], 2.5]          # things that are not a State


# ----------------------------------------------------------------- generators
def _state(rng, modes, neg=False):
    pool = [0, 0, 1, 1, 2, 2, 3, 4, 5]
    if neg:
        pool = pool + [-1, -2, -3]
    return [rng.choice(pool) for _ in range(modes)]


def _states(rng, k, modes, distinct, neg=False):
    out = []
    tries = 0
    while len(out) < k and tries < 200:
        tries += 1
        s = _state(rng, modes, neg)
        if distinct and s in out:
            continue
        out.append(s)
    if not distinct and len(out) >= 2 and rng.random() < 0.8:
        out[rng.randrange(len(out))] = list(out[rng.randrange(len(out))])
    return out


def _val(rng, cplx, zero=0.15, negp=0.1):
    def one():
        if rng.random() < zero:
            return [0, 1]
        n = rng.randint(0, 20)
        if rng.random() < negp:
            n = -n
        return [n, rng.choice(DENS)]
    return [one(), one()] if cplx else one()


def _pyobj(rng, states, p_state=0.7):
    u = rng.random()
    if u < p_state and states:
        return ["s", list(rng.choice(states))]
    if u < p_state + 0.1:
        return ["s", _state(rng, len(states[0]) if states else 2)]
    if u < p_state + 0.2:
        return ["n"]
    return ["x", rng.randrange(len(OTHERS))]


def _queries(rng, ins, outs, k):
    qs = []
    for _ in range(k):
        u = rng.random()
        if u < 0.30 and ins and outs:
            qs.append(["t", [["s", list(rng.choice(ins))], ["s", list(rng.choice(outs))]]])
        elif u < 0.40 and ins:
            qs.append(["o", ["s", list(rng.choice(ins))]])
        elif u < 0.48 and ins:
            qs.append(["t", [["s", list(rng.choice(ins))]]])
        elif u < 0.54 and ins:
            qs.append(["t", [["s", list(rng.choice(ins))], ["n"]]])
        elif u < 0.60:
            qs.append(["t", []])
        elif u < 0.68:
            qs.append(["o", _pyobj(rng, ins, 0.3)])
        elif u < 0.76 and outs:      # output used as input / input as output
            qs.append(["t", [["s", list(rng.choice(outs))], ["s", list(rng.choice(ins or outs))]]])
        else:
            ln = rng.choice([1, 2, 2, 2, 3, 4])
            qs.append(["t", [_pyobj(rng, (ins if j == 0 else outs) or ins or outs) for j in range(ln)]])
    return qs


def _maps(rng):
    k = rng.choice([0, 1, 1, 2, 2, 2, 3, 3, 4])
    ms = []
    for _ in range(k):
        if ms and rng.random() < 0.4:
            ms.append(list(ms[-1]))           # repeated application of the same mapping
        else:
            ms.append([rng.random() < 0.5, rng.random() < 0.5])
    return ms


def _sim_case(rng, tier, malformed):
    big = tier == "thorough"
    modes = rng.choice([1, 2, 2, 3, 3, 4] + ([5, 6] if big else []))
    n_in = rng.choice([0, 1, 1, 2, 2, 3, 4] + ([5, 6] if big else []))
    n_out = rng.choice([0, 1, 2, 3, 4, 5, 6] + ([8, 10, 12] if big else []))
    dup = rng.random() < 0.12
    ins = _states(rng, n_in, modes, not dup)
    outs = _states(rng, n_out, modes, not (dup and rng.random() < 0.7), neg=rng.random() < 0.1)
    n_in, n_out = len(ins), len(outs)
    u = rng.random()
    rt = "probability" if u < 0.7 else "probability_amplitude"
    cplx = rt == "probability_amplitude" and rng.random() < 0.7
    zero = rng.choice([0.0, 0.15, 0.15, 0.6])
    rows = [[_val(rng, cplx, zero) for _ in range(n_out)] for _ in range(n_in)]
    if n_in and rng.random() < 0.15:               # an all-zero ("empty") row
        rows[rng.randrange(n_in)] = [([[0, 1], [0, 1]] if cplx else [0, 1]) for _ in range(n_out)]
    if n_in == 0 or n_out == 0:
        arr = {"form": "zeros", "n": n_in, "m": n_out}
    elif rng.random() < 0.05:
        arr = {"form": "zeros", "n": n_in, "m": n_out}
    else:
        arr = {"form": "nested", "rows": rows}
    c = dict(kind="sim", rt=rt, cplx=cplx, arr=arr, ins=ins, outs=outs,
             queries=_queries(rng, ins, outs, rng.randint(2, 6)), maps=_maps(rng), rot=rng.randint(0, 9))
    # API forms: the data as numpy array / with Python ints, mappings called with the default / a positional argument
    c["np_arr"] = (not malformed) and rng.random() < 0.35
    c["ints"] = rng.random() < 0.3
    c["form"] = rng.choice([0, 0, 1])
    if malformed:
        w = rng.choice(["rt", "flat", "scalar", "ragged", "ins", "outs", "empty", "both"])
        c["bad"] = w
        if w == "rt":
            c["rt"] = rng.choice(["counts", "", "Probability", "amplitude"])
        elif w == "flat":
            ln = rng.choice([n_in, n_in, n_out, rng.randint(0, 4)])
            c["arr"] = {"form": "flat", "l": [_val(rng, cplx) for _ in range(ln)]}
        elif w == "scalar":
            c["arr"] = {"form": "scalar", "x": _val(rng, cplx)}
        elif w == "ragged":
            nr = max(n_in, 2)
            rr = [[_val(rng, cplx) for _ in range(n_out)] for _ in range(nr)]
            k = rng.randrange(nr)
            rr[k] = rr[k][:-1] if (rr[k] and rng.random() < 0.5) else rr[k] + [_val(rng, cplx)]
            c["arr"] = {"form": "nested", "rows": rr}
            if rng.random() < 0.5:
                c["ins"] = _states(rng, nr, modes, True)
        elif w == "ins":
            c["ins"] = _states(rng, rng.choice([n_in + 1, max(n_in - 1, 0), 0]), modes, True)
        elif w == "outs":
            c["outs"] = _states(rng, rng.choice([n_out + 1, max(n_out - 1, 0), 0]), modes, True)
        elif w == "empty":
            c["arr"] = {"form": "nested", "rows": []}
            if rng.random() < 0.5:
                c["ins"] = []
        elif w == "both":                          # transposed shape
            c["arr"] = {"form": "zeros", "n": n_out, "m": n_in}
    return c


def _samp_case(rng, tier, malformed):
    big = tier == "thorough"
    modes = rng.choice([1, 2, 2, 3, 3, 4] + ([5, 6] if big else []))
    k = rng.choice([0, 1, 2, 3, 4, 5, 6] + ([9, 14] if big else []))
    keys = _states(rng, k, modes, rng.random() < 0.9, neg=rng.random() < 0.1)
    ints = rng.random() < 0.7
    pairs = [[s, ([rng.randint(0, 50), 1] if ints else _val(rng, False))] for s in keys]
    inp = ["s", _state(rng, modes)]
    if malformed:
        inp = rng.choice([["n"], ["x", rng.randrange(len(OTHERS))]])
    qs = []
    for _ in range(rng.randint(1, 4)):
        u = rng.random()
        if u < 0.4:
            qs.append(["o", _pyobj(rng, keys, 0.5)])
        elif u < 0.7:
            qs.append(["t", [_pyobj(rng, keys) for _ in range(rng.choice([0, 1, 2]))]])
        else:
            qs.append(["o", ["s", _state(rng, modes)]])
    return dict(kind="samp", pairs=pairs, input=inp, queries=qs, maps=_maps(rng), form=rng.choice([0, 0, 1]))


# ------------------------------------------------------------------- helpers
def _mk_obj(o):
    if o[0] == "s":
        return State(list(o[1]))
    if o[0] == "n":
        return None
    return copy.deepcopy(OTHERS[o[1]])


def _mk_item(q):
    if q[0] == "o":
        return _mk_obj(q[1])
    return tuple(_mk_obj(x) for x in q[1])


def _num(v, cplx, ints=False):
    if cplx:
        return complex(v[0][0] / v[0][1], v[1][0] / v[1][1])
    if ints and v[1] == 1:
        return int(v[0])
    return v[0] / v[1]


def _apply(obj, par, inv, form):
    """the mapping call in the form the case asks for: keyword, or default argument / positional argument"""
    f = obj.apply_parity_mapping if par else obj.apply_threshold_mapping
    if form == 1:
        return f(True) if inv else f()
    return f(invert=inv)


def _out(x, cplx):
    """implementation value -> JSON-able"""
    if cplx:
        z = complex(x)
        return [z.real, z.imag]
    return float(x)


def thr_f(inv):
    return lambda s: tuple((0 if x >= 1 else 1) if inv else (1 if x >= 1 else 0) for x in s)


def par_f(inv):
    return lambda s: tuple((1 - x % 2) if inv else (x % 2) for x in s)


def _f_of(m):
    return par_f(m[1]) if m[0] else thr_f(m[1])


def _close(a, b):
    return core.approx_equal(a, b) is None


def _canon_sim(d):
    """sort the outputs of a dumped result and carry the columns along"""
    outs = d["outputs"]
    perm = sorted(range(len(outs)), key=lambda b: outs[b])
    pc = lambda row: [row[b] for b in perm] if len(row) == len(perm) else row
    e = dict(d)
    e["outputs"] = [outs[b] for b in perm]
    e["array"] = [pc(r) for r in d["array"]]
    e["pair"] = [pc(r) for r in d["pair"]]
    e["nested"] = [pc(r) for r in d["nested"]]
    e["rowkeys"] = [sorted(r) for r in d["rowkeys"]]
    return e


def _canon_samp(d):
    outs = d["outputs"]
    perm = sorted(range(len(outs)), key=lambda b: outs[b])
    e = dict(d)
    e["outputs"] = [outs[b] for b in perm]
    e["items"] = sorted(d["items"], key=lambda kv: kv[0])
    e["get"] = [d["get"][b] for b in perm] if len(d["get"]) == len(perm) else d["get"]
    return e


class C17:
    ID = "C17"
    RULE = ("generated SimulationResult constructions (0-4 inputs, 0-6 outputs, 1-4 modes; thorough: up to 6x12, 6 modes) "
            "with small rational real values or complex amplitudes, zero rows, zero-size arrays, outputs whose "
            "threshold/parity images coincide, 12% duplicate input/output states, 2-6 index queries of every form "
            "(valid and malformed), chains of 0-4 threshold/parity mappings (plain/inverted, 40% repeats), 15% malformed "
            "constructions (bad type string, 0-D/1-D/ragged/transposed arrays, wrong list lengths); SamplingResult with "
            "0-6 counts, queries, mapping chains, non-State inputs. Non-trivial: construction succeeds with >=1 input and "
            ">=2 outputs (sim) or >=2 counts (samp); distinct = distinct canonical JSON. API forms: data as nested list / numpy "
            "array / Python ints, mappings called with the keyword, the default or a positional argument. History (oracle only): "
            "every mapping of the case is also applied to the ORIGINAL object, in order and in reverse order, and compared with "
            "the image of the original data; the constructor arguments must be left unchanged")
    TRUSTED = ["numpy's np.array shape inference (nested list -> 2-D, [] -> 1-D, ragged -> ValueError) is modelled, not verified",
               "the python set iteration order in _recombine_mapped_result is an arbitrary-permutation parameter of the model; "
               "mapped results are compared as dictionaries keyed by state (columns sorted on both sides)"]
    ASSUMPTIONS = ["a result of type 'probability' holds real values (complex values assigned into the real np.zeros array of "
                   "_recombine_mapped_result are outside the model)",
                   "states are lists of python ints",
                   "duplicate input/output states: only pair-indexing = nested-indexing is claimed (the dictionary keeps the last row)"]
    CHUNK = 60

    # ---------------------------------------------------------------- generate
    def generate(self, rng, tier):
        n = 1000 if tier == "quick" else 16000
        cases = []
        for k in range(n):
            r = k % 20
            if r < 12:
                cases.append(_sim_case(rng, tier, False))
            elif r < 15:
                cases.append(_sim_case(rng, tier, True))
            elif r < 19:
                cases.append(_samp_case(rng, tier, False))
            else:
                cases.append(_samp_case(rng, tier, True))
        return cases

    # -------------------------------------------------------------------- impl
    def _py_arr(self, c):
        a, cplx = c["arr"], c["cplx"]
        f = a["form"]
        if f == "nested":
            rows = [[_num(v, cplx, c.get("ints", False)) for v in row] for row in a["rows"]]
            if c.get("np_arr") and rows and len({len(r) for r in rows}) == 1:
                return np.array(rows)
            return rows
        if f == "flat":
            return [_num(v, cplx) for v in a["l"]]
        if f == "scalar":
            return _num(a["x"], cplx)
        return np.zeros((a["n"], a["m"]), dtype=complex if cplx else float)

    def _dump_sim(self, r, cplx, canon):
        ins, outs = list(r.inputs), list(r.outputs)
        d = {
            "inputs": [list(s) for s in ins],
            "outputs": [list(s) for s in outs],
            "ncols": int(r.array.shape[1]),
            "array": [[_out(x, cplx) for x in row] for row in r.array],
            "keys": [list(k) for k in dict.keys(r)],
            "rowkeys": [[list(o) for o in row.keys()] for row in dict.values(r)],
            "pair": [[guarded(lambda: _out(r[i, o], cplx)) for o in outs] for i in ins],
            "nested": [[guarded(lambda: _out(r[i][o], cplx)) for o in outs] for i in ins],
        }
        return _canon_sim(d) if canon else d

    def _dump_samp(self, r, canon):
        outs = list(r.outputs)
        d = {
            "input": list(r.input),
            "outputs": [list(s) for s in outs],
            "items": [[list(k), float(v)] for k, v in dict.items(r)],
            "get": [guarded(lambda: float(r[s])) for s in outs],
        }
        return _canon_samp(d) if canon else d

    def impl(self, c):
        if c["kind"] == "sim":
            cplx = c["cplx"]
            ins = [State(list(s)) for s in c["ins"]]
            outs = [State(list(s)) for s in c["outs"]]
            arg = self._py_arr(c)
            arg0 = copy.deepcopy(arg)
            made = guarded(lambda: SimulationResult(arg, c["rt"], ins, outs))
            if "err" in made:
                return [made, [], []]
            r = made["ok"]
            # read-only views of the result taken first: they must not change what the container holds
            # (display_as_dataframe rounds small values in the frame it RETURNS)
            for kw in ({"threshold": 0.3}, {}, {"threshold": 0.3, "conv_to_probability": True}):
                try:
                    r.display_as_dataframe(**kw)
                except Exception:  # noqa: BLE001
                    pass
            form = c.get("form", 0)
            qres = []
            for q in c["queries"]:
                def run(q=q):
                    v = r[_mk_item(q)]
                    if isinstance(v, dict):
                        return [1, [[list(k), _out(x, cplx)] for k, x in v.items()]]
                    return [0, _out(v, cplx)]
                qres.append(guarded(run))
            chain = []
            cur = r
            for par, inv in c["maps"]:
                step = guarded(lambda: _apply(cur, par, inv, form))
                if "ok" in step:
                    cur = step["ok"]
                    chain.append({"ok": self._dump_sim(cur, cplx, True)})
                else:
                    chain.append(step)
            # history on ONE object: every mapping of the case applied to the original result itself, in the order of
            # the case and then in reverse order (each at least twice, with the others in between)
            fan = []
            for par, inv in list(c["maps"]) + list(reversed(c["maps"])):
                step = guarded(lambda: _apply(r, par, inv, form))
                fan.append({"ok": self._dump_sim(step["ok"], cplx, True)} if "ok" in step else step)
            same = bool(np.array_equal(arg, arg0)) if isinstance(arg, np.ndarray) else arg == arg0
            extra = {"fan": fan,
                     "args_kept": bool([list(x) for x in ins] == c["ins"] and [list(x) for x in outs] == c["outs"] and same)}
            return [{"ok": self._dump_sim(r, cplx, False)}, qres, chain, extra]
        # sampling
        pairs = [(State(list(s)), (v[0] if v[1] == 1 else v[0] / v[1])) for s, v in c["pairs"]]
        src = dict(pairs)
        made = guarded(lambda: SamplingResult(src, _mk_obj(c["input"])))
        if "err" in made:
            return [made, [], []]
        r = made["ok"]
        form = c.get("form", 0)
        qres = [guarded(lambda q=q: float(r[_mk_item(q)])) for q in c["queries"]]
        chain = []
        cur = r
        for par, inv in c["maps"]:
            cur = _apply(cur, par, inv, form)
            chain.append(self._dump_samp(cur, True))
        fan = [self._dump_samp(_apply(r, par, inv, form), True) for par, inv in list(c["maps"]) + list(reversed(c["maps"]))]
        kept = [[list(k_), float(v_)] for k_, v_ in src.items()] == [[list(k_), float(v_)] for k_, v_ in dict(pairs).items()]
        return [{"ok": self._dump_samp(r, False)}, qres, chain, {"fan": fan, "args_kept": kept}]

    # ------------------------------------------------------------------- model
    def coq_header(self):
        return ("From Coq Require Import ZArith List.\n"
                "From LW Require Import Base.Sx Model.State Model.Results Exec.QNum Exec.RunC17.\n")

    def _cv(self, v, cplx):
        if cplx:
            return f"(({cz(v[0][0])}, {cz(v[0][1])}), ({cz(v[1][0])}, {cz(v[1][1])}))"
        return f"({cz(v[0])}, {cz(v[1])})"

    def _cstate(self, s):
        return clist(cz(x) for x in s)

    def _cobj(self, o):
        if o[0] == "s":
            return f"(OState {self._cstate(o[1])})"
        return "ONone" if o[0] == "n" else "OOther"

    def _citem(self, q):
        if q[0] == "o":
            return f"(ItObj {self._cobj(q[1])})"
        return f"(ItTuple {clist(self._cobj(x) for x in q[1])})"

    def coq_expr(self, c):
        maps = clist(f"({cb(p)}, {cb(i)})" for p, i in c["maps"])
        qs = clist(self._citem(q) for q in c["queries"])
        if c["kind"] == "sim":
            cplx = c["cplx"]
            a = c["arr"]
            if a["form"] == "nested":
                arr = f"(ANested {clist(clist(self._cv(v, cplx) for v in row) for row in a['rows'])})"
            elif a["form"] == "flat":
                arr = f"(AFlat {clist(self._cv(v, cplx) for v in a['l'])})"
            elif a["form"] == "scalar":
                arr = f"(AScalar {self._cv(a['x'], cplx)})"
            else:
                arr = f"(AZeros {cn(a['n'])} {cn(a['m'])})"
            rt = {"probability": "Probability", "probability_amplitude": "Amplitude"}.get(c["rt"], "BadType")
            fn = "run_sim_c" if cplx else "run_sim_q"
            return (f"{fn} {rt} {arr} {clist(self._cstate(s) for s in c['ins'])} "
                    f"{clist(self._cstate(s) for s in c['outs'])} {qs} {maps} {cn(c['rot'])}")
        pairs = clist(f"({self._cstate(s)}, {self._cv(v, False)})" for s, v in c["pairs"])
        return f"run_samp_q {pairs} {self._cobj(c['input'])} {qs} {maps}"

    def decode(self, c, sx):
        if c["kind"] == "sim":
            cplx = c["cplx"]
            val = (lambda x: [unscale(x[0]), unscale(x[1])]) if cplx else unscale

            def dump(x, canon):
                d = {"inputs": x[0], "outputs": x[1], "ncols": x[2],
                     "array": [[val(v) for v in row] for row in x[3]],
                     "keys": x[4], "rowkeys": x[5],
                     "pair": [[decode_res(v, val) for v in row] for row in x[6]],
                     "nested": [[decode_res(v, val) for v in row] for row in x[7]]}
                return _canon_sim(d) if canon else d

            made = decode_res(sx[0], lambda x: dump(x, False))
            if "err" in made:
                return [made, [], []]

            def g(x):
                if x[0] == 0:
                    return [0, val(x[1])]
                return [1, [[k, val(v)] for k, v in x[1]]]
            return [made, [decode_res(q, g) for q in sx[1]],
                    [decode_res(m, lambda x: dump(x, True)) for m in sx[2]]]

        def sdump(x, canon):
            d = {"input": x[0], "outputs": x[1], "items": [[k, unscale(v)] for k, v in x[2]],
                 "get": [decode_res(v, unscale) for v in x[3]]}
            return _canon_samp(d) if canon else d
        made = decode_res(sx[0], lambda x: sdump(x, False))
        if "err" in made:
            return [made, [], []]
        return [made, [decode_res(q, unscale) for q in sx[1]], [sdump(m, True) for m in sx[2]]]

    # ------------------------------------------------------------------ oracle
    def _wellformed(self, c):
        a = c["arr"]
        if c["rt"] not in ("probability", "probability_amplitude"):
            return False
        if a["form"] == "nested":
            rows = a["rows"]
            return len(rows) > 0 and len(rows) == len(c["ins"]) and all(len(r) == len(c["outs"]) for r in rows)
        if a["form"] == "zeros":
            return a["n"] == len(c["ins"]) and a["m"] == len(c["outs"])
        return False

    def _check_sim_dump(self, d, ins, outs, base, what):
        """d: dumped result (canonical or not) whose lists are ins/outs; base[i][o] expected value
        (None = unknown).  Checks pair = nested = array (= expected)."""
        if d["inputs"] != ins:
            return f"{what}: inputs {d['inputs']} != {ins}"
        if d["outputs"] != outs:
            return f"{what}: outputs {d['outputs']} != {outs}"
        if len(d["array"]) != len(ins) or any(len(r) != len(outs) for r in d["array"]):
            return f"{what}: array shape does not match the input/output lists"
        distinct = len({tuple(s) for s in ins}) == len(ins) and len({tuple(s) for s in outs}) == len(outs)
        for a, i in enumerate(ins):
            for b, o in enumerate(outs):
                p, n, x = d["pair"][a][b], d["nested"][a][b], d["array"][a][b]
                if "ok" not in p or "ok" not in n:
                    return f"{what}: r[{i},{o}] -> {p}, r[{i}][{o}] -> {n}"
                if not _close(p["ok"], n["ok"]):
                    return f"{what}: r[{i},{o}] = {p['ok']} but r[{i}][{o}] = {n['ok']}"
                if distinct:
                    if not _close(p["ok"], x):
                        return f"{what}: r[{i},{o}] = {p['ok']} but array[{a}][{b}] = {x}"
                    if base is not None and not _close(x, base[tuple(i)][tuple(o)]):
                        return f"{what}: value at ({i},{o}) is {x}, expected {base[tuple(i)][tuple(o)]}"
        return None

    def oracle(self, c, obs):
        return self._oracle_sim(c, obs) if c["kind"] == "sim" else self._oracle_samp(c, obs)

    def _oracle_sim(self, c, obs):
        made, chain = obs[0], obs[2]
        extra = obs[3] if len(obs) > 3 else None
        wf = self._wellformed(c)
        if "err" in made:
            return f"well-formed construction rejected with {made['err']}" if wf else None
        if not wf:
            return None          # the property says nothing about ill-formed constructions (correspondence covers the error classes)
        d = made["ok"]
        cplx, ins, outs = c["cplx"], c["ins"], c["outs"]
        a = c["arr"]
        zero = [0.0, 0.0] if cplx else 0.0
        if a["form"] == "nested":
            data = [[([v[0][0] / v[0][1], v[1][0] / v[1][1]] if cplx else v[0] / v[1]) for v in row] for row in a["rows"]]
        else:
            data = [[zero for _ in outs] for _ in ins]
        if not _close(d["array"], data):
            return "array differs from the data the result was built from"
        distinct = len({tuple(s) for s in ins}) == len(ins) and len({tuple(s) for s in outs}) == len(outs)
        base = {tuple(i): {tuple(o): data[a_][b] for b, o in enumerate(outs)} for a_, i in enumerate(ins)} if distinct else None
        msg = self._check_sim_dump(d, ins, outs, base, "constructed result")
        if msg:
            return msg
        if extra is not None and not extra["args_kept"]:
            return "the arguments the result was built from (array / input list / output list) were modified"
        if not c["maps"]:
            return None
        fan = extra["fan"] if extra is not None else []
        fan_maps = list(c["maps"]) + list(reversed(c["maps"]))
        if c["rt"] == "probability_amplitude":
            for m, st in list(zip(c["maps"], chain)) + list(zip(fan_maps, fan)):
                if "err" not in st:
                    return f"mapping {m} accepted an amplitude-valued result"
            return None
        if base is None:
            # duplicates: start from what the container itself reports (pair indexing)
            base = {tuple(i): {tuple(o): d["pair"][a_][b]["ok"] for b, o in enumerate(outs)} for a_, i in enumerate(ins)}
        orig = base
        # every mapping applied to the ORIGINAL object (several times, other mappings in between) is the image of the original data
        for k, (m, st) in enumerate(zip(fan_maps, fan)):
            what = f"call #{k} on the original result, {'parity' if m[0] else 'threshold'}{' inverted' if m[1] else ''}"
            if "err" in st:
                return f"{what}: refused for a probability result ({st['err']})"
            f = _f_of(m)
            exp = {}
            for i, row in orig.items():
                e = {}
                for o, v in row.items():
                    e[f(o)] = e.get(f(o), 0.0) + v
                exp[i] = e
            images = sorted({t for row in exp.values() for t in row})
            if ins:
                msg = self._check_sim_dump(st["ok"], ins, [list(t) for t in images], exp, what)
                if msg:
                    return msg
            elif st["ok"]["inputs"] != []:
                return f"{what}: inputs appeared from nowhere"
        comp = lambda s: s
        prev = None
        for k, (m, st) in enumerate(zip(c["maps"], chain)):
            what = f"mapping #{k} {'parity' if m[0] else 'threshold'}{' inverted' if m[1] else ''}"
            if "err" in st:
                return f"{what}: refused for a probability result ({st['err']})"
            f = _f_of(m)
            comp = (lambda g, h: (lambda s: g(h(s))))(f, comp)
            exp = {}
            for i, row in base.items():
                e = {}
                for o, v in row.items():
                    e[f(o)] = e.get(f(o), 0.0) + v
                exp[i] = e
            images = sorted({t for row in exp.values() for t in row})
            r = st["ok"]
            if ins:
                msg = self._check_sim_dump(r, ins, [list(t) for t in images], exp, what)
                if msg:
                    return msg
            elif r["inputs"] != []:
                return f"{what}: inputs appeared from nowhere"
            for a_, i in enumerate(ins):
                tot0 = sum(orig[tuple(i)].values())
                if not _close(float(sum(r["array"][a_])), float(tot0)):
                    return f"{what}: total of input {i} changed from {tot0} to {sum(r['array'][a_])}"
            # the whole chain so far equals one brute-force pass of the composed function over the original data
            for i, row in orig.items():
                e = {}
                for o, v in row.items():
                    e[comp(o)] = e.get(comp(o), 0.0) + v
                for t, v in e.items():
                    if not _close(exp[i].get(t), v):
                        return f"{what}: chained image differs from the image of the composed function at ({list(i)},{list(t)})"
            # same plain mapping twice = once
            if prev is not None and c["maps"][k - 1] == m and not m[1]:
                for key in ("outputs", "array", "pair", "nested"):
                    if not _close(prev[key], r[key]):
                        return f"{what}: applying the plain mapping twice changed {key}"
            prev = r
            base = exp
        return None

    def _oracle_samp(self, c, obs):
        made, chain = obs[0], obs[2]
        extra = obs[3] if len(obs) > 3 else None
        if c["input"][0] != "s":
            return None if "err" in made else "SamplingResult accepted a non-State input"
        if "err" in made:
            return f"valid SamplingResult rejected with {made['err']}"
        d = made["ok"]
        ref = {}
        for s, v in c["pairs"]:
            ref[tuple(s)] = v[0] / v[1]
        if d["input"] != c["input"][1]:
            return "input state not kept"
        if d["outputs"] != [list(k) for k in ref]:
            return f"outputs {d['outputs']} are not the keys of the counts"
        if not _close(d["items"], [[list(k), v] for k, v in ref.items()]):
            return "items differ from the counts the result was built from"
        if not _close(d["get"], [{"ok": v} for v in ref.values()]):
            return f"indexing does not return the counts: {d['get']}"
        if extra is not None:
            if not extra["args_kept"]:
                return "the dictionary the SamplingResult was built from was modified"
            for k, (m, r) in enumerate(zip(list(c["maps"]) + list(reversed(c["maps"])), extra["fan"])):
                what = f"call #{k} on the original sampling result, {'parity' if m[0] else 'threshold'}{' inverted' if m[1] else ''}"
                f = _f_of(m)
                exp = {}
                for o_, v in ref.items():
                    exp[f(o_)] = exp.get(f(o_), 0.0) + v
                keys = sorted(exp)
                if r["outputs"] != [list(t) for t in keys] or not _close(r["items"], [[list(t), exp[t]] for t in keys]) \
                        or not _close(r["get"], [{"ok": exp[t]} for t in keys]) or r["input"] != d["input"]:
                    return f"{what}: {r['items']} != {[[list(t), exp[t]] for t in keys]}"
        base = ref
        total = sum(ref.values())
        prev = None
        for k, (m, r) in enumerate(zip(c["maps"], chain)):
            what = f"sampling mapping #{k} {'parity' if m[0] else 'threshold'}{' inverted' if m[1] else ''}"
            f = _f_of(m)
            exp = {}
            for o_, v in base.items():
                exp[f(o_)] = exp.get(f(o_), 0.0) + v
            keys = sorted(exp)
            if r["outputs"] != [list(t) for t in keys]:
                return f"{what}: outputs {r['outputs']} != images {[list(t) for t in keys]}"
            if not _close(r["items"], [[list(t), exp[t]] for t in keys]):
                return f"{what}: mapped counts {r['items']} != {[[list(t), exp[t]] for t in keys]}"
            if not _close(r["get"], [{"ok": exp[t]} for t in keys]):
                return f"{what}: indexing the mapped result gives {r['get']}"
            if not _close(float(sum(v for _, v in r["items"])), float(total)):
                return f"{what}: total changed from {total}"
            if r["input"] != d["input"]:
                return f"{what}: input changed"
            if prev is not None and c["maps"][k - 1] == m and not m[1] and not _close(prev, r):
                return f"{what}: applying the plain mapping twice changed the result"
            prev = r
            base = exp
        return None

    def compare(self, c, a, b):
        return core.approx_equal(list(a[:3]), list(b[:3]))

    # ----------------------------------------------------------------- support
    def nontrivial(self, c, obs):
        if "ok" not in obs[0]:
            return False
        if c["kind"] == "sim":
            return len(c["ins"]) >= 1 and len(c["outs"]) >= 2
        return len(c["pairs"]) >= 2

    def stats(self, cases, recs):
        kinds = Counter(c["kind"] + ("/" + c["bad"] if c.get("bad") else "") for c in cases)
        errs, coincide, mapped, amp_refused, dups = Counter(), 0, 0, 0, 0
        for r in recs:
            c, o = r["case"], r["impl"]
            if not isinstance(o, list):
                continue
            if "err" in o[0]:
                errs[o[0]["err"]] += 1
                continue
            for q in o[1]:
                if "err" in q:
                    errs["query:" + q["err"]] += 1
            if c["kind"] == "sim":
                if len({tuple(s) for s in c["ins"]}) < len(c["ins"]) or len({tuple(s) for s in c["outs"]}) < len(c["outs"]):
                    dups += 1
                for st in o[2]:
                    if "ok" in st:
                        mapped += 1
                    else:
                        amp_refused += 1
                if o[2] and "ok" in o[2][0] and len(o[2][0]["ok"]["outputs"]) < len({tuple(s) for s in c["outs"]}):
                    coincide += 1
            else:
                mapped += len(o[2])
                if o[2] and len(o[2][0]["outputs"]) < len(o[0]["ok"]["outputs"]):
                    coincide += 1
        return {"kinds": dict(kinds), "error_outcomes": dict(errs), "mappings_applied": mapped,
                "mappings_refused": amp_refused, "cases_with_coinciding_images": coincide,
                "cases_with_duplicate_states": dups,
                "sizes_in_x_out": dict(Counter(f"{len(c['ins'])}x{len(c['outs'])}" for c in cases if c["kind"] == "sim").most_common(8))}

    def signature(self, c, rec):
        return None

    def shrink(self, c):
        for key in ("maps", "queries", "pairs"):
            for i in range(len(c.get(key, []))):
                d = copy.deepcopy(c)
                del d[key][i]
                yield d
        if c["kind"] == "sim" and c["arr"]["form"] == "nested":
            rows = c["arr"]["rows"]
            if len(rows) == len(c["ins"]):
                for i in range(len(rows)):
                    d = copy.deepcopy(c)
                    del d["ins"][i]
                    del d["arr"]["rows"][i]
                    if d["arr"]["rows"]:
                        yield d
            if rows and all(len(r) == len(c["outs"]) for r in rows):
                for j in range(len(c["outs"])):
                    d = copy.deepcopy(c)
                    del d["outs"][j]
                    for r in d["arr"]["rows"]:
                        del r[j]
                    if d["outs"]:
                        yield d


PROP = C17()

if __name__ == "__main__":
    sys.exit(core.main(PROP))
