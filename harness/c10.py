"""C10 — parameters are live, bounded and freezable.

Stateful histories over a pool of Parameter objects, ParameterDicts and Circuits.
A history is a list of steps (JSON lists):
  parameter calls
    ["pnew", V, B, LAB]        lw.Parameter(V, bounds=B, label=LAB)   B: None | "bad" | [bound, ...] ; LAB: None | int | "bad"
    ["pset", pid, V]           p.set(V)
    ["pmin", pid, b] ["pmax", pid, b]      p.min_bound = b / p.max_bound = b     b: None | [n, d] | "str"
    ["dnew", did, [[key, ["raw", V] | ["par", pid]], ...]]            lw.ParameterDict(k<key>=...)
    ["dset", did, key, ["raw", V] | ["par", pid]]                     pd["k<key>"] = ...
    ["drem", did, key]                                                 pd.remove("k<key>")
  circuit calls: the circgen ops, where a reflectivity / phase / loss may also be ["p", pid] (a Parameter object),
    and ["freeze", new, a]     new = a.copy(freeze_parameters=True)
  reads
    ["rget", pid] ["rmin", pid] ["rmax", pid] ["rhas", pid]
    ["rdget", did, key] ["rdkeys", did] ["rditems", did] ["rdlen", did] ["rdhas", did] ["rdbounds", did] ["rdin", did, key]
    ["ru", cid]                circuit.U_full (or the exception class)
    ["rparams", cid]           circuit.get_all_params() as parameter ids
Values V: ["bs", i] | ["ls", i] | ["ph", i] (tables of circgen, rational amplitudes; every Parameter has one role)
          | ["raw", n, d] (a number that is invalid for a bs/loss, or the value of a parameter no circuit uses)
          | ["str"] | ["none"] | ["bool", b]  (non-numeric).
Parameter / dict / circuit ids are allocation order; an unknown id is a KeyError on both sides.
"""
from __future__ import annotations

import copy
import math
import numbers
import sys
from collections import Counter
from fractions import Fraction as F

import numpy as np

import core
import circgen as cg
from core import cb, clist, cn, copt, cz

import lightworks as lw

BSV, LSV, PHV = cg.BSV, cg.LSV, cg.PHV
PHQ = [F(math.atan2(cg.ffloat(s), cg.ffloat(c))).limit_denominator(10 ** 7) for c, s in PHV]
STR_TOKEN = "x"


# ---------------------------------------------------------------- values
def v_frac(V):
    """exact rational of a numeric value spec, None for a non-numeric one"""
    k = V[0]
    if k == "bs":
        return BSV[V[1]][0]
    if k == "ls":
        return LSV[V[1]][0]
    if k == "ph":
        return PHQ[V[1]]
    if k == "raw":
        return F(V[1], V[2])
    return None


def v_triple(V):
    k = V[0]
    if k == "bs":
        return BSV[V[1]]
    if k == "ls":
        return LSV[V[1]]
    if k == "ph":
        return (PHQ[V[1]], PHV[V[1]][0], PHV[V[1]][1])
    if k == "raw":
        return (F(V[1], V[2]), F(0), F(0))
    return None


def v_py(V):
    k = V[0]
    if k == "str":
        return STR_TOKEN
    if k == "none":
        return None
    if k == "bool":
        return bool(V[1])
    return cg.ffloat(v_frac(V))


def v_coq(V):
    t = v_triple(V)
    if t is None:
        return "VOther"
    return "(vnum " + " ".join(f"{cz(x.numerator)} {cz(x.denominator)}" for x in t) + ")"


def b_py(b):
    if b is None:
        return None
    if b == "str":
        return STR_TOKEN
    return b[0] / b[1]


def b_coq(b):
    if b is None:
        return "BNone"
    if b == "str":
        return "BOther"
    return f"(bnum {cz(b[0])} {cz(b[1])})"


def as_int(x, flip):
    """the same number as an int when it is integral (0 and 1 above all) and the call form asks for it"""
    if flip and isinstance(x, float) and x == int(x) and abs(x) < 10**6:
        return int(x)
    return x


def is_numeric(x):
    return isinstance(x, numbers.Number) and not isinstance(x, bool)


def val_obs(x):
    return ["num", float(x)] if is_numeric(x) else ["other"]


def bound_obs(x):
    if x is None:
        return None
    if is_numeric(x):
        return float(x)
    return "nonnumeric-bound"


def is_p(x):
    return isinstance(x, list) and len(x) == 2 and x[0] == "p"


# ---------------------------------------------------------------- recipes (oracle side)
# What a circuit was built from, with parameter SLOTS instead of objects, maintained by the harness
# from the accepted calls only.  ("lit", v) a plain number given by the user, ("par", pid) a Parameter,
# ("val", v) a value substituted by a freeze.
def _slot_bs(R):
    return ("par", R[1]) if is_p(R) else ("lit", cg._bs_value(R))


def _slot_loss(L):
    return ("par", L[1]) if is_p(L) else ("lit", cg._loss_value(L))


def _slot_ph(P):
    return ("par", P[1]) if is_p(P) else ("lit", cg._phase_value(P))


def recipe_entry(op, recipes):
    k = op[0]
    if k == "bs":
        _, _, m1, m2, R, L, conv = op
        return ["bs", m1, m2, _slot_bs(R), _slot_loss(L), conv]
    if k == "ps":
        _, _, m, P, L = op
        return ["ps", m, _slot_ph(P), _slot_loss(L)]
    if k == "loss":
        return ["loss", op[2], _slot_loss(op[3])]
    if k == "barrier":
        return ["barrier", op[2]]
    if k == "swaps":
        return ["swaps", op[2]]
    if k == "herald":
        return ["herald", op[2], op[3], op[4]]
    if k == "add":
        return ["add", copy.deepcopy(recipes[op[2]]), op[3], op[4]]
    if k == "unpack":
        return ["unpack"]
    raise RuntimeError(k)


def recipe_map_slots(rec, f):
    out = []
    for e in rec:
        k = e[0]
        if k == "bs":
            out.append(["bs", e[1], e[2], f(e[3]), f(e[4]), e[5]])
        elif k == "ps":
            out.append(["ps", e[1], f(e[2]), f(e[3])])
        elif k == "loss":
            out.append(["loss", e[1], f(e[2])])
        elif k == "add":
            out.append(["add", recipe_map_slots(e[1], f), e[2], e[3]])
        elif k == "plus":
            out.append(["plus", recipe_map_slots(e[1], f), recipe_map_slots(e[2], f)])
        else:
            out.append(copy.deepcopy(e))
    return out


def recipe_slots(rec):
    """(position kind, slot) in component order: a loss slot that produces no component is skipped"""
    for e in rec:
        k = e[0]
        if k == "bs":
            yield "bs", e[3]
            if e[4][0] != "lit" or e[4][1] > 0:
                yield "loss", e[4]
        elif k == "ps":
            yield "ps", e[2]
            if e[3][0] != "lit" or e[3][1] > 0:
                yield "loss", e[3]
        elif k == "loss":
            yield "loss", e[2]
        elif k == "add":
            yield from recipe_slots(e[1])
        elif k == "plus":
            yield from recipe_slots(e[1])
            yield from recipe_slots(e[2])


def recipe_params(rec):
    seen = []
    for _, s in recipe_slots(rec):
        if s[0] == "par" and s[1] not in seen:
            seen.append(s[1])
    return seen


def recipe_invalid(rec, cur):
    """a beam splitter / loss whose present value is not a number in [0, 1]"""
    for pos, s in recipe_slots(rec):
        if pos == "ps":
            v = cur[s[1]] if s[0] == "par" else s[1]
            if not is_numeric(v):
                return f"phase holds non-numeric {v!r}"
            continue
        v = cur[s[1]] if s[0] == "par" else s[1]
        if not is_numeric(v) or not (0 <= v <= 1):
            return f"{pos} value {v!r}" + (f" (parameter {s[1]})" if s[0] == "par" else " (frozen)")
    return None


def recipe_build(rec, cur):
    """Fresh circuit from plain numbers (no Parameter objects anywhere). Raises ValueError/TypeError
    when a number is invalid for its component."""
    def sv(s):
        return cur[s[1]] if s[0] == "par" else s[1]

    base = rec[0]
    if base[0] == "new":
        c = lw.Circuit(base[1])
    elif base[0] == "unitary":
        c = lw.Unitary(cg.v_to_np(base[2]))
    elif base[0] == "plus":
        c = recipe_build(base[1], cur) + recipe_build(base[2], cur)
    else:
        raise RuntimeError(base)
    for e in rec[1:]:
        k = e[0]
        if k == "bs":
            _, m1, m2, R, L, conv = e
            m2u = m1 + 1 if m2 is None else m2
            if L[0] == "lit":
                c.bs(m1, m2, reflectivity=sv(R), loss=L[1], convention=conv)
            else:      # a Parameter loss always yields the two loss elements, whatever its value
                c.bs(m1, m2, reflectivity=sv(R), convention=conv)
                c.loss(m1, sv(L))
                c.loss(m2u, sv(L))
        elif k == "ps":
            _, m, P, L = e
            if L[0] == "lit":
                c.ps(m, sv(P), loss=L[1])
            else:
                c.ps(m, sv(P))
                c.loss(m, sv(L))
        elif k == "loss":
            c.loss(e[1], sv(e[2]))
        elif k == "barrier":
            c.barrier() if e[1] is None else c.barrier(list(e[1]))
        elif k == "swaps":
            c.mode_swaps({a: b for a, b in e[1]})
        elif k == "herald":
            c.herald(e[1], e[2], e[3])
        elif k == "add":
            c.add(recipe_build(e[1], cur), e[2], group=e[3])
        elif k == "unpack":
            c.unpack_groups()
        else:
            raise RuntimeError(k)
    return c


def u_obs(c):
    try:
        u = c.U_full
        return {"ok": [int(u.shape[0]), [[[float(x.real), float(x.imag)] for x in row] for row in u]]}
    except Exception as e:  # noqa: BLE001
        return {"err": type(e).__name__}


def u_equal(a, b):
    if "err" in a or "err" in b:
        return a == b
    if a["ok"][0] != b["ok"][0]:
        return False
    A, B = np.array(a["ok"][1]), np.array(b["ok"][1])
    return bool(np.all(np.isfinite(A))) and np.allclose(A, B, atol=1e-9, rtol=0)


# ---------------------------------------------------------------- implementation runner
class Runner:
    def __init__(self):
        self.params, self.pidx = [], {}
        self.dicts, self.pool = {}, {}
        # harness-side bookkeeping from ACCEPTED calls only (never read back from lightworks)
        self.cur, self.lo, self.hi = [], [], []
        self.dmap = {}
        self.recipes = {}
        self.frozen_u = {}          # cid -> U_full observed when the frozen copy was taken
        self.fail = None
        self.nstep = 0
        self.read_note = None

    def flag(self, i, step, msg):
        if self.fail is None:
            self.fail = f"step {i} {step}: {msg}"

    def reg(self, p, v, lo=None, hi=None):
        self.pidx[id(p)] = len(self.params)
        self.params.append(p)
        self.cur.append(v)
        self.lo.append(lo)
        self.hi.append(hi)

    def P(self, pid):
        if not 0 <= pid < len(self.params):
            raise KeyError(pid)
        return self.params[pid]

    def arg(self, x, lit):
        return self.P(x[1]) if is_p(x) else lit(x)

    def pid_of(self, p):
        return self.pidx.get(id(p), -1)

    def snap(self):
        ps = [[val_obs(p.get()), bound_obs(p.min_bound), bound_obs(p.max_bound)] for p in self.params]
        ds = [[d, [[int(k[1:]), self.pid_of(pd[k])] for k in pd.keys()]] for d, pd in self.dicts.items()]
        return [ps, ds]

    # -- one call on the real objects; returns the payload
    def call(self, s):
        k = s[0]
        if k == "pnew":
            _, V, B, LAB = s
            # the same call through its equivalent forms, chosen by the parameter's index: bounds as a tuple instead of a
            # list, positional arguments, integral numbers as int instead of float
            form = len(self.params) % 4
            bounds = None if B is None else ("ab" if B == "bad" else [as_int(b_py(b), form == 1) for b in B])
            if isinstance(bounds, list) and form in (1, 2):
                bounds = tuple(bounds)
            label = None if LAB is None else (3 if LAB == "bad" else f"L{LAB}")
            v = as_int(v_py(V), form in (1, 3))
            if form == 2:
                p = lw.Parameter(v, bounds, label)
            elif form == 3 and bounds is None and label is None:
                p = lw.Parameter(v)
            else:
                p = lw.Parameter(v, bounds=bounds, label=label)
            self.reg(p, v, *(bounds if bounds else (None, None)))
            return []
        if k == "pset":
            v = as_int(v_py(s[2]), (s[1] + self.nstep) % 2 == 1)
            self.P(s[1]).set(v)
            self.cur[s[1]] = v
            return []
        if k == "pmin":
            b = as_int(b_py(s[2]), (s[1] + self.nstep) % 2 == 1)
            self.P(s[1]).min_bound = b
            self.lo[s[1]] = b
            return []
        if k == "pmax":
            b = as_int(b_py(s[2]), (s[1] + self.nstep) % 2 == 1)
            self.P(s[1]).max_bound = b
            self.hi[s[1]] = b
            return []
        if k == "dnew":
            kw = {}
            for key, x in s[2]:
                kw[f"k{key}"] = self.P(x[1]) if x[0] == "par" else v_py(x[1])
            pd = lw.ParameterDict(**kw)
            self.dicts[s[1]] = pd
            self.dmap[s[1]] = {}
            for key, x in s[2]:
                if x[0] == "raw":
                    self.reg(pd[f"k{key}"], v_py(x[1]))
                self.dmap[s[1]][key] = self.pid_of(pd[f"k{key}"])
            return []
        if k == "dset":
            _, d, key, x = s
            pd = self.dicts[d]
            if x[0] == "par":
                pd[f"k{key}"] = self.P(x[1])
                self.dmap[d][key] = x[1]
            else:
                pd[f"k{key}"] = v_py(x[1])
                self.cur[self.dmap[d][key]] = v_py(x[1])
            return []
        if k == "drem":
            self.dicts[s[1]].remove(f"k{s[2]}")
            del self.dmap[s[1]][s[2]]
            return []
        if k == "rget":
            return val_obs(self.P(s[1]).get())
        if k == "rmin":
            return bound_obs(self.P(s[1]).min_bound)
        if k == "rmax":
            return bound_obs(self.P(s[1]).max_bound)
        if k == "rhas":
            return int(self.P(s[1]).has_bounds())
        if k == "rdget":
            return self.pid_of(self.dicts[s[1]][f"k{s[2]}"])
        if k == "rdkeys":
            pd = self.dicts[s[1]]
            keys = [int(x[1:]) for x in pd.keys()]
            assert keys == [int(x[1:]) for x in pd.params] == [int(x[1:]) for x in pd]
            return keys
        if k == "rditems":
            return [[int(a[1:]), val_obs(b)] for a, b in self.dicts[s[1]].items()]
        if k == "rdlen":
            return len(self.dicts[s[1]])
        if k == "rdhas":
            return int(self.dicts[s[1]].has_bounds())
        if k == "rdbounds":
            out = []
            for a, (lo, hi) in self.dicts[s[1]].get_bounds().items():
                out.append([int(a[1:]), None if lo == -math.inf else float(lo), None if hi == math.inf else float(hi)])
            return out
        if k == "rdin":
            return int(f"k{s[2]}" in self.dicts[s[1]])
        if k == "ru":
            c = self.pool[s[1]]
            if len(s) > 2:
                # a rewrite of the live circuit just before the read: remove_non_adjacent_bs / compress_mode_swaps
                # preserve U_full (property C09), so the model treats the step as a plain read - and the rewritten
                # circuit must keep following its Parameters in every later step
                try:
                    getattr(c, s[2])()
                except (ValueError, TypeError):
                    # remove_non_adjacent_bs re-creates the beam splitter and so validates a LITERAL reflectivity; a frozen
                    # copy taken while a Parameter held an invalid number carries such a literal.  The rewrite then refuses
                    # and leaves the circuit as it was (the read below still has to give the compilation error); on a
                    # circuit whose values are all valid a rewrite must not raise
                    if recipe_invalid(self.recipes[s[1]], self.cur) is None:
                        raise
            try:
                u = c.U_full
            except Exception as e:
                # Circuit.U is the other documented read: it has to fail in the same way
                try:
                    c.U  # noqa: B018
                    self.read_note = f"U_full raised {type(e).__name__} but Circuit.U returned a matrix"
                except Exception as e2:  # noqa: BLE001
                    if type(e2) is not type(e):
                        self.read_note = f"U_full raised {type(e).__name__}, Circuit.U raised {type(e2).__name__}"
                raise
            # ... and otherwise be the block of the real modes, at the parameters' CURRENT values, on every read
            n = c.n_modes
            for _ in range(2):
                uu = np.array(c.U)
                if uu.shape != (n, n) or not np.allclose(uu, u[:n, :n], atol=1e-9, rtol=0):
                    self.read_note = "Circuit.U is not the leading block of U_full read at the same moment"
            return [int(u.shape[0]), [[[float(x.real), float(x.imag)] for x in row] for row in u]]
        if k == "rparams":
            return [self.pid_of(p) for p in self.pool[s[1]].get_all_params()]
        if k == "freeze":
            self.pool[s[1]] = self.pool[s[2]].copy(freeze_parameters=True)
            cur = list(self.cur)
            self.recipes[s[1]] = recipe_map_slots(self.recipes[s[2]], lambda sl: ("val", cur[sl[1]]) if sl[0] == "par" else sl)
            return []
        # circuit API
        if k == "bs":
            _, cid, m1, m2, R, L, conv = s
            self.pool[cid].bs(m1, m2, reflectivity=self.arg(R, cg._bs_value), loss=self.arg(L, cg._loss_value), convention=conv)
        elif k == "ps":
            _, cid, m, P_, L = s
            self.pool[cid].ps(m, self.arg(P_, cg._phase_value), loss=self.arg(L, cg._loss_value))
        elif k == "loss":
            self.pool[s[1]].loss(s[2], self.arg(s[3], cg._loss_value))
        elif k in ("add", "plus", "copy"):
            for cid in s[2:4] if k == "plus" else ([s[1], s[2]] if k == "add" else [s[2]]):
                if cid not in self.pool:
                    raise KeyError(cid)
            cg.apply_op(self.pool, s)
        elif k in ("new", "unitary"):
            cg.apply_op(self.pool, s)
        else:
            if s[1] not in self.pool:
                raise KeyError(s[1])
            cg.apply_op(self.pool, s)
        # accepted: update the recipe
        if k == "new":
            self.recipes[s[1]] = [["new", s[2]]]
        elif k == "unitary":
            self.recipes[s[1]] = [["unitary", s[2], s[3]]]
        elif k == "copy":
            self.recipes[s[1]] = copy.deepcopy(self.recipes[s[2]])
        elif k == "plus":
            self.recipes[s[1]] = [["plus", copy.deepcopy(self.recipes[s[2]]), copy.deepcopy(self.recipes[s[3]])]]
        else:
            self.recipes[s[1]].append(recipe_entry(s, self.recipes))
        return []

    # -- property oracle pieces, on the implementation
    def check_params(self, i, s):
        for pid, p in enumerate(self.params):
            v, lo, hi = p.get(), p.min_bound, p.max_bound
            tv = self.cur[pid]
            same = (v == tv) if is_numeric(v) and is_numeric(tv) else (v is tv or (type(v) is type(tv) and v == tv))
            if not same:
                self.flag(i, s, f"parameter {pid} holds {v!r}, but the last accepted update set it to {tv!r}")
            if lo != self.lo[pid] or hi != self.hi[pid]:
                self.flag(i, s, f"parameter {pid} has bounds [{lo!r}, {hi!r}], but the accepted calls set [{self.lo[pid]!r}, {self.hi[pid]!r}]")
            if is_numeric(v):
                if (lo is not None and not lo <= v) or (hi is not None and not v <= hi):
                    self.flag(i, s, f"bounds invariant broken: parameter {pid} value {v!r} outside [{lo!r}, {hi!r}]")
            elif lo is not None or hi is not None:
                self.flag(i, s, f"non-numeric parameter {pid} = {v!r} carries bounds [{lo!r}, {hi!r}]")

    def check_circuit(self, i, s, cid, uo=None, plist=None):
        c, rec = self.pool[cid], self.recipes[cid]
        uo = u_obs(c) if uo is None else uo
        inv = recipe_invalid(rec, self.cur)
        if inv and uo != {"err": "CircuitCompilationError"}:
            self.flag(i, s, f"circuit {cid} uses an invalid value ({inv}) but U_full gave {'a matrix' if 'ok' in uo else uo}")
        try:
            ref = u_obs(recipe_build(rec, self.cur))
        except (ValueError, TypeError):
            ref = {"err": "CircuitCompilationError"}
        if not u_equal(uo, ref):
            self.flag(i, s, f"live binding: U_full of circuit {cid} ({'err ' + uo['err'] if 'err' in uo else 'dim %d' % uo['ok'][0]}) differs from a fresh "
                            f"circuit built from the parameters' current values ({'err ' + ref['err'] if 'err' in ref else 'dim %d' % ref['ok'][0]})")
        if cid in self.frozen_u and not u_equal(uo, self.frozen_u[cid]):
            self.flag(i, s, f"frozen copy {cid} no longer reports the unitary of the moment it was taken")
        pl = [self.pid_of(p) for p in c.get_all_params()] if plist is None else plist
        exp = recipe_params(rec)
        if len(set(pl)) != len(pl):
            self.flag(i, s, f"get_all_params of circuit {cid} lists a parameter twice: {pl}")
        if set(pl) != set(exp):
            self.flag(i, s, f"get_all_params of circuit {cid} = {pl}, parameters used = {exp}")
        if cid in self.frozen_u and pl:
            self.flag(i, s, f"frozen copy {cid} lists parameters {pl}")

    def run(self, steps):
        obs = []
        for i, s in enumerate(steps):
            before = self.snap()
            self.nstep = i
            try:
                out = {"ok": self.call(s)}
            except NotImplementedError:
                out = {"err": "OtherError"}
            except Exception as e:  # noqa: BLE001
                out = {"err": cg.err_name_for(s, e)}
            after = self.snap()
            obs.append([out, after])
            k = s[0]
            if self.read_note:
                self.flag(i, s, self.read_note)
                self.read_note = None
            if "err" in out and after != before:
                self.flag(i, s, f"rejected call ({out['err']}) changed the parameters: {before} -> {after}")
            if k.startswith("r") and after != before:
                self.flag(i, s, "a read changed the parameters")
            self.check_params(i, s)
            if "ok" in out:
                # a frozen copy that is modified afterwards is an ordinary circuit again
                if k in ("bs", "ps", "loss", "barrier", "swaps", "herald", "add", "unpack") and s[1] in self.frozen_u:
                    del self.frozen_u[s[1]]
                if k in ("new", "unitary", "copy", "plus") and s[1] in self.frozen_u:
                    del self.frozen_u[s[1]]
                if k == "freeze":
                    self.frozen_u.pop(s[1], None)
                    self.frozen_u[s[1]] = u_obs(self.pool[s[1]])
                    self.check_circuit(i, s, s[1])
                elif k == "ru":
                    self.check_circuit(i, s, s[1], uo={"ok": out["ok"]})
                elif k == "rparams":
                    self.check_circuit(i, s, s[1], plist=out["ok"])
            elif k == "ru" and s[1] in self.pool:
                self.check_circuit(i, s, s[1], uo=out)
        world = []
        for cid, c in self.pool.items():
            snap = cg.snapshot(c)
            pl = [self.pid_of(p) for p in c.get_all_params()]
            world.append([cid, snap, pl])
            self.check_circuit(len(steps), ["end"], cid, uo=snap[5], plist=pl)
        return obs, world


# ---------------------------------------------------------------- rendering as Coq
def _val_coq(x, lit):
    return f"(pref {cn(x[1])})" if is_p(x) else lit(x)


def _dval_coq(x):
    return f"(DPar {cn(x[1])})" if x[0] == "par" else f"(DRaw {v_coq(x[1])})"


def step_to_coq(s):
    k = s[0]
    if k == "pnew":
        _, V, B, LAB = s
        bd = "BdNone" if B is None else ("BdBadType" if B == "bad" else f"(BdList {clist(b_coq(b) for b in B)})")
        lab = "LabNone" if LAB is None else ("LabBad" if LAB == "bad" else f"(LabStr {cn(LAB)})")
        return f"HP (PNew {v_coq(V)} {bd} {lab})"
    if k == "pset":
        return f"HP (PSet {cn(s[1])} {v_coq(s[2])})"
    if k == "pmin":
        return f"HP (PSetMin {cn(s[1])} {b_coq(s[2])})"
    if k == "pmax":
        return f"HP (PSetMax {cn(s[1])} {b_coq(s[2])})"
    if k == "dnew":
        items = clist(f"({cn(key)}, {_dval_coq(x)})" for key, x in s[2])
        return f"HP (DNew {cn(s[1])} {items})"
    if k == "dset":
        return f"HP (DSetItem {cn(s[1])} {cn(s[2])} {_dval_coq(s[3])})"
    if k == "drem":
        return f"HP (DRemove {cn(s[1])} {cn(s[2])})"
    if k == "freeze":
        return f"HFreeze {cn(s[1])} {cn(s[2])}"
    simple = {"rget": "RGet", "rmin": "RMin", "rmax": "RMax", "rhas": "RHas", "rdkeys": "RDKeys", "rditems": "RDItems",
              "rdlen": "RDLen", "rdhas": "RDHas", "rdbounds": "RDBounds", "ru": "RU", "rparams": "RParams"}
    if k in simple:
        return f"{simple[k]} {cn(s[1])}"
    if k == "rdget":
        return f"RDGet {cn(s[1])} {cn(s[2])}"
    if k == "rdin":
        return f"RDIn {cn(s[1])} {cn(s[2])}"
    if k == "bs":
        _, cid, m1, m2, R, L, conv = s
        cv = "Rx" if conv == "Rx" else "Hv"
        return f"HC (OBs {cn(cid)} {cz(m1)} {copt(m2, cz)} {_val_coq(R, cg._bs_coq)} {_val_coq(L, cg._loss_coq)} {cv})"
    if k == "ps":
        _, cid, m, P_, L = s
        return f"HC (OPs {cn(cid)} {cz(m)} {_val_coq(P_, cg._ph_coq)} {_val_coq(L, cg._loss_coq)})"
    if k == "loss":
        return f"HC (OLoss {cn(s[1])} {cz(s[2])} {_val_coq(s[3], cg._loss_coq)})"
    return f"HC ({cg.op_to_coq(s)})"


COQ_HEADER = ("From Coq Require Import ZArith List.\nFrom Bignums Require Import BigQ.\n"
              "From LW Require Import Base.Sx Base.Num Model.Circuit Model.World Model.Param Exec.QNum Exec.RunCircuit Exec.RunC10.\n")


def _dec_val(x):
    return ["num", x[1] / 1e12] if x[0] == 0 else ["other"]


def _dec_opt(x):
    return None if x == [] else x[0] / 1e12


def decode_payload(k, p):
    if k == "rget":
        return _dec_val(p)
    if k in ("rmin", "rmax"):
        return _dec_opt(p)
    if k in ("rhas", "rdhas", "rdin", "rdget", "rdlen", "rdkeys", "rparams"):
        return p
    if k == "rditems":
        return [[a, _dec_val(b)] for a, b in p]
    if k == "rdbounds":
        return [[a, _dec_opt(lo), _dec_opt(hi)] for a, lo, hi in p]
    if k == "ru":
        return [p[0], [[[x[0] / 1e12, x[1] / 1e12] for x in row] for row in p[1]]]
    return []


def decode_pstate(p):
    return [[[_dec_val(v), _dec_opt(lo), _dec_opt(hi)] for v, lo, hi in p[0]], [[d, [list(kv) for kv in items]] for d, items in p[1]]]


# ---------------------------------------------------------------- generation
BS_BOUNDS = [F(-1, 2), F(0), F(1, 4), F(9, 25), F(1, 2), F(16, 25), F(1), F(5, 4), F(3, 2)]
PH_BOUNDS = [F(-4), F(-2), F(-1), F(0), F(1, 2), F(1), F(2), F(7, 2), F(4)]
FREE_VALUES = [F(-2), F(-1, 2), F(0), F(1, 3), F(1), F(5, 2)]
FREE_BOUNDS = [F(-3), F(-1), F(0), F(1, 2), F(2), F(3)]
BAD_UNIT = [F(5, 4), F(-1, 4), F(3, 2)]


def fb(fr):
    return [fr.numerator, fr.denominator]


class Gen:
    """Draws a history while mirroring just enough state to steer it (which parameters exist, their role
    and bounds, which circuits exist and how many modes a user sees). The mirror is never used as an
    expected value."""

    def __init__(self, rng, tier):
        self.rng, self.tier = rng, tier
        self.steps = []
        self.params = []     # dict(role, v (Fraction|None), lo, hi)
        self.dicts = {}      # did -> {key: pid}
        self.circs = {}      # cid -> dict(vis, opn, refs, nloss, n)
        self.ndid = self.ncid = 0

    # ---- mirror of the Parameter rules
    def m_new(self, V, B, LAB):
        v = v_frac(V)
        if LAB == "bad" or B == "bad":
            return False
        lo = hi = None
        if B is not None:
            if len(B) != 2 or v is None:
                return False
            for b in B:
                if b == "str":
                    return False
            lo, hi = [None if b is None else F(*b) for b in B]
            if (lo is not None and v < lo) or (hi is not None and v > hi):
                return False
        role = {"bs": "bs", "ls": "ls", "ph": "ph"}.get(V[0], "free")
        self.params.append(dict(role=role, v=v, lo=lo, hi=hi))
        return True

    def m_set(self, pid, V):
        p = self.params[pid]
        v = v_frac(V)
        if v is None:
            if p["lo"] is not None or p["hi"] is not None:
                return False
        elif (p["lo"] is not None and v < p["lo"]) or (p["hi"] is not None and v > p["hi"]):
            return False
        p["v"] = v
        return True

    def m_bound(self, pid, which, b):
        p = self.params[pid]
        if b is not None:
            if p["v"] is None or b == "str":
                return False
            x = F(*b)
            if (which == "lo" and p["v"] < x) or (which == "hi" and p["v"] > x):
                return False
            p[which] = x
        else:
            p[which] = None
        return True

    # ---- value choices
    def table_value(self, role):
        r = self.rng
        if role == "bs":
            return ["bs", r.randrange(len(BSV))]
        if role == "ls":
            return ["ls", r.randrange(len(LSV))]
        if role == "ph":
            return ["ph", r.randrange(len(PHV))]
        return ["raw", *fb(r.choice(FREE_VALUES))]

    def values_equal_to(self, role, x):
        if role == "bs":
            return [["bs", i] for i, t in enumerate(BSV) if t[0] == x]
        if role == "ls":
            return [["ls", i] for i, t in enumerate(LSV) if t[0] == x]
        if role == "ph":
            return [["ph", i] for i, t in enumerate(PHQ) if t == x]
        return [["raw", *fb(x)]]

    def bound_candidates(self, role):
        return {"bs": BS_BOUNDS, "ls": BS_BOUNDS, "ph": PH_BOUNDS, "free": FREE_BOUNDS}[role]

    def nonnumeric(self, has_bounds):
        r = self.rng.random()
        if has_bounds and r < 0.3:
            return ["bool", self.rng.randrange(2)]
        return ["str"] if r < 0.75 else ["none"]

    def new_value_for(self, pid):
        p, r = self.params[pid], self.rng.random()
        role = p["role"]
        has_b = p["lo"] is not None or p["hi"] is not None
        if r < 0.5:
            return self.table_value(role)
        if r < 0.65:
            eq = [V for b in (p["lo"], p["hi"]) if b is not None for V in self.values_equal_to(role, b)]
            eq = [V for V in eq if role == "free" or V[0] != "raw"]
            if eq:
                return self.rng.choice(eq)
            return self.table_value(role)
        if r < 0.8:
            if role in ("bs", "ls"):
                return ["raw", *fb(self.rng.choice(BAD_UNIT))]
            if role == "free":
                return ["raw", *fb(self.rng.choice(FREE_BOUNDS))]
            return self.table_value(role)
        if r < 0.92:
            if role == "ph" and not has_b:
                return self.table_value(role)      # a phase has no invalid number; keep it numeric
            return self.nonnumeric(has_b)
        # out of bounds on purpose when possible
        if role in ("bs", "ls") and has_b:
            return ["raw", *fb(self.rng.choice([F(-1, 4), F(7, 4)]))]
        return self.table_value(role)

    def gen_bounds(self, role, v, bad):
        r = self.rng
        cands = self.bound_candidates(role)
        if v is None:
            return [fb(r.choice(cands)), fb(r.choice(cands))]
        los = [c for c in cands if c <= v] + [v]
        his = [c for c in cands if c >= v] + [v]
        lo = None if r.random() < 0.2 else r.choice(los)
        hi = None if r.random() < 0.2 else r.choice(his)
        B = [None if lo is None else fb(lo), None if hi is None else fb(hi)]
        if r.random() < bad:
            kind = r.randrange(6)
            above = [c for c in cands if c > v]
            below = [c for c in cands if c < v]
            if kind == 0 and above:
                B[0] = fb(r.choice(above))                      # value below the minimum
            elif kind == 1 and below:
                B[1] = fb(r.choice(below))                      # value above the maximum
            elif kind == 2 and above and below:
                B = [fb(r.choice(above)), fb(r.choice(below))]  # min > max
            elif kind == 3:
                B[r.randrange(2)] = "str"
            elif kind == 4:
                B = B[:1] if r.random() < 0.5 else B + [None]
            else:
                return "bad"
        return B

    # ---- steps
    def add(self, s):
        self.steps.append(s)

    def step_pnew(self, role=None, bad=0.15):
        r = self.rng
        role = role or r.choice(["bs", "bs", "bs", "ls", "ls", "ls", "ph", "ph", "ph", "free"])
        V = self.table_value(role)
        if r.random() < 0.06:
            V = self.nonnumeric(False)
        B = None if r.random() < 0.4 else self.gen_bounds(role, v_frac(V), bad)
        LAB = None if r.random() < 0.6 else ("bad" if r.random() < 0.08 else r.randrange(5))
        self.add(["pnew", V, B, LAB])
        self.m_new(V, B, LAB)

    def pick_param(self, role=None):
        ids = [i for i, p in enumerate(self.params) if role is None or p["role"] == role]
        return self.rng.choice(ids) if ids else None

    def circuits_using(self, pid):
        return [cid for cid, c in self.circs.items() if pid in c["refs"]]

    def maybe_read_after(self, pid):
        r = self.rng
        users = self.circuits_using(pid)
        if users and r.random() < 0.7:
            if r.random() < 0.3:
                self.add(["ru", r.choice(users), r.choice(["remove_non_adjacent_bs", "remove_non_adjacent_bs", "compress_mode_swaps"])])
            else:
                self.add(["ru", r.choice(users)])
        elif r.random() < 0.3:
            self.add([r.choice(["rget", "rmin", "rmax", "rhas"]), pid])

    def step_pset(self):
        r = self.rng
        via = [(d, k, pid) for d, m in self.dicts.items() for k, pid in m.items()]
        if via and r.random() < 0.35:
            d, key, pid = r.choice(via)
            V = self.new_value_for(pid)
            self.add(["dset", d, key, ["raw", V]])
        else:
            referenced = sorted(set().union(*[c["refs"] for c in self.circs.values()])) if self.circs else []
            pid = r.choice(referenced) if referenced and r.random() < 0.6 else self.pick_param()
            if pid is None:
                return
            V = self.new_value_for(pid)
            self.add(["pset", pid, V])
        ok = self.m_set(pid, V)
        self.maybe_read_after(pid)
        # a loss Parameter holding an invalid / non-numeric value, used in a NEW component: check_loss looks at the current value
        if ok and self.params[pid]["role"] == "ls" and V[0] not in ("ls",) and self.circs and r.random() < 0.5:
            cid = r.choice(list(self.circs))
            c = self.circs[cid]
            if r.random() < 0.5:
                self.add(["loss", cid, r.randrange(c["vis"]), ["p", pid]])
            else:
                self.add(["ps", cid, r.randrange(c["vis"]), r.randrange(len(PHV)), ["p", pid]])

    def step_bound(self):
        r = self.rng
        pid = self.pick_param()
        if pid is None:
            return
        p = self.params[pid]
        which = r.choice(["lo", "hi"])
        cands = self.bound_candidates(p["role"])
        x = r.random()
        v = p["v"]
        if x < 0.22:
            b = None
        elif x < 0.32:
            b = "str"
        elif v is None:
            b = fb(r.choice(cands))
        elif x < 0.45:
            b = fb(v)                                           # bound equal to the value
        elif x < 0.8:
            ok = [c for c in cands if (c <= v if which == "lo" else c >= v)]
            b = fb(r.choice(ok)) if ok else None
        else:
            ko = [c for c in cands if (c > v if which == "lo" else c < v)]
            b = fb(r.choice(ko)) if ko else fb(v)
        self.add(["pmin" if which == "lo" else "pmax", pid, b])
        self.m_bound(pid, which, b)
        if r.random() < 0.4:
            self.add([r.choice(["rmin", "rmax", "rhas", "rget"]), pid])

    def step_dict(self):
        r = self.rng
        x = r.random()
        if not self.dicts or x < 0.25:
            d = self.ndid
            self.ndid += 1
            items, m = [], {}
            existing = len(self.params)
            for key in r.sample(range(6), r.randint(0, 3)):
                pid = r.randrange(existing) if existing else None
                if pid is not None and r.random() < 0.65:
                    items.append([key, ["par", pid]])
                    m[key] = pid
                else:
                    V = self.table_value(r.choice(["bs", "ls", "ph", "free"])) if r.random() < 0.9 else self.nonnumeric(False)
                    items.append([key, ["raw", V]])
                    m[key] = len(self.params)
                    self.m_new(V, None, None)
            self.add(["dnew", d, items])
            self.dicts[d] = m
            return
        d = r.choice(list(self.dicts))
        m = self.dicts[d]
        if x < 0.45:
            free = [k for k in range(7) if k not in m]
            pid = self.pick_param()
            if free and pid is not None and r.random() < 0.75:
                key = r.choice(free)
                self.add(["dset", d, key, ["par", pid]])
                m[key] = pid
            elif free:
                self.add(["dset", d, r.choice(free), ["raw", self.table_value("free")]])       # new key, plain value
            return
        if x < 0.55 and m:
            pid = self.pick_param()
            if pid is not None:
                self.add(["dset", d, r.choice(list(m)), ["par", pid]])                        # overwrite with a Parameter
            return
        if x < 0.7:
            if m and r.random() < 0.7:
                key = r.choice(list(m))
                del m[key]
            else:
                key = r.choice([k for k in range(8) if k not in m])
            self.add(["drem", d, key])
            return
        kind = r.choice(["rdget", "rdkeys", "rditems", "rdlen", "rdhas", "rdbounds", "rdin"])
        if kind in ("rdget", "rdin"):
            key = r.choice(list(m)) if m and r.random() < 0.75 else r.randrange(8)
            self.add([kind, d, key])
        else:
            self.add([kind, d if r.random() < 0.95 else d + 7])

    def new_circuit(self, n):
        cid = self.ncid
        self.ncid += 1
        self.add(["new", cid, n])
        self.circs[cid] = dict(vis=n, opn=n, refs=set(), nloss=0, n=n)
        return cid

    def slot(self, role, p_param, lit):
        pid = self.pick_param(role)
        if pid is not None and self.rng.random() < p_param:
            return ["p", pid], pid
        return lit(), None

    def step_primitive(self, cid=None, bad=0.04):
        r = self.rng
        cid = r.choice(list(self.circs)) if cid is None else cid
        c = self.circs[cid]
        nvis = c["vis"]
        room = c["nloss"] < 5
        k = r.choice(["bs", "bs", "bs", "ps", "ps", "loss", "other"])
        if k == "loss" and not room:
            k = "ps"
        used = []
        if k == "bs" and nvis >= 2:
            op = cg.gen_primitive(r, cid, nvis, bad=bad, loss_p=0.0, kinds=["bs"])
            R, pid = self.slot("bs", 0.65, lambda: cg.gen_value_bs(r, bad))
            used.append(pid)
            L = None
            if room and r.random() < 0.4:
                L, pid = self.slot("ls", 0.6, lambda: cg.gen_value_loss(r, 1.0, bad))
                used.append(pid)
                c["nloss"] += 2
            op[4], op[5] = R, L
        elif k == "loss":
            L, pid = self.slot("ls", 0.7, lambda: cg.gen_value_loss(r, 1.0, bad))
            used.append(pid)
            c["nloss"] += 1
            op = ["loss", cid, cg.gen_mode(r, nvis, bad), L]
        elif k == "other" and nvis >= 2:
            op = cg.gen_primitive(r, cid, nvis, bad=bad, kinds=["barrier", "swaps"])
        else:
            P_, pid = self.slot("ph", 0.7, lambda: r.randrange(len(PHV)))
            used.append(pid)
            L = None
            if room and r.random() < 0.3:
                L, pid = self.slot("ls", 0.6, lambda: cg.gen_value_loss(r, 1.0, bad))
                used.append(pid)
                c["nloss"] += 1
            op = ["ps", cid, cg.gen_mode(r, nvis, bad), P_, L]
        self.add(op)
        c["refs"].update(p for p in used if p is not None)

    def step_herald(self, cid):
        r = self.rng
        c = self.circs[cid]
        if c["opn"] <= 1:
            return
        i = r.randrange(c["vis"])
        o = i if r.random() < 0.6 else r.randrange(c["vis"])
        self.add(["herald", cid, r.choice([0, 1, 1, 2]), i, None if (i == o and r.random() < 0.5) else o])
        c["opn"] -= 1

    def step_add(self):
        r = self.rng
        pairs = [(a, b) for a in self.circs for b in self.circs
                 if a != b and self.circs[b]["opn"] <= self.circs[a]["vis"] and self.circs[a]["nloss"] + self.circs[b]["nloss"] <= 6
                 and self.circs[a]["n"] + (self.circs[b]["vis"] - self.circs[b]["opn"]) <= 8]
        if not pairs:
            return False
        a, b = r.choice(pairs)
        A, B = self.circs[a], self.circs[b]
        mode = r.randint(0, A["vis"] - B["opn"]) if r.random() > 0.05 else r.randint(-1, A["vis"])
        self.add(["add", a, b, mode, r.random() < 0.45])
        A["refs"] |= B["refs"]
        A["nloss"] += B["nloss"]
        A["n"] += B["vis"] - B["opn"]
        return True

    def clone(self, kind, src):
        cid = self.ncid
        self.ncid += 1
        self.add([kind, cid, src])
        S = self.circs[src]
        self.circs[cid] = dict(vis=S["vis"], opn=S["opn"], refs=set() if kind == "freeze" else set(S["refs"]), nloss=S["nloss"], n=S["n"])
        return cid

    def history(self, max_steps):
        r = self.rng
        for _ in range(r.randint(2, 4)):
            self.step_pnew(bad=0.1)
        if r.random() < 0.5:
            self.step_dict()
        leaf = self.new_circuit(r.randint(1, 3 if self.tier == "quick" else 4))
        for _ in range(r.randint(1, 3)):
            self.step_primitive(leaf, bad=0.0)
        target = r.randint(max_steps // 2, max_steps)
        guard = 0
        while len(self.steps) < target and guard < 4 * max_steps:
            guard += 1
            x = r.random()
            with_refs = [cid for cid, c in self.circs.items() if c["refs"]]
            if x < 0.22:
                self.step_pset()
            elif x < 0.32:
                self.step_bound()
            elif x < 0.40:
                self.step_dict()
            elif x < 0.45:
                self.step_pnew()
            elif x < 0.62:
                self.step_primitive()
            elif x < 0.66:
                if len(self.circs) < 5 and r.random() < 0.2:
                    k = r.randint(1, 3)
                    cid = self.ncid
                    self.ncid += 1
                    self.add(["unitary", cid, k, cg.rational_unitary(r, k)])
                    self.circs[cid] = dict(vis=k, opn=k, refs=set(), nloss=0, n=k)
                elif len(self.circs) < 5:
                    self.new_circuit(r.randint(2, 4 if self.tier == "quick" else 5))
            elif x < 0.70:
                self.step_herald(r.choice(list(self.circs)))
            elif x < 0.79:
                if not self.step_add() and len(self.circs) < 5:
                    self.new_circuit(r.randint(3, 5))
            elif x < 0.83:
                if len(self.circs) < 6 and self.circs:
                    self.clone("copy", r.choice(with_refs or list(self.circs)))
            elif x < 0.89:
                if len(self.circs) < 6 and self.circs:
                    self.clone("freeze", r.choice(with_refs or list(self.circs)))
            elif x < 0.91:
                self.add(["unpack", r.choice(list(self.circs))])
            elif x < 0.92:
                if len(self.circs) >= 2 and len(self.circs) < 6:
                    a, b = r.sample(list(self.circs), 2)
                    cid = self.ncid
                    self.ncid += 1
                    self.add(["plus", cid, a, b])
                    A, B = self.circs[a], self.circs[b]
                    if A["n"] == B["n"] and A["opn"] == A["vis"] == A["n"] and B["opn"] == B["vis"] == B["n"]:
                        self.circs[cid] = dict(vis=A["vis"], opn=A["opn"], refs=A["refs"] | B["refs"], nloss=A["nloss"] + B["nloss"], n=A["n"])
            elif x < 0.97:
                self.add([r.choice(["ru", "rparams", "rparams"]), r.choice(with_refs or list(self.circs))])
            else:
                pid = self.pick_param()
                if pid is not None:
                    self.add([r.choice(["rget", "rmin", "rmax", "rhas"]), pid if r.random() < 0.95 else pid + 9])
        return self.steps[:max_steps]


SEQ_VALUES = [["raw", 0, 1], ["raw", 1, 2], ["raw", 1, 1], ["raw", 3, 2], ["str"]]
SEQ_BOUNDS = [None, [0, 1], [1, 2], [1, 1]]
SEQ_INITS = [["pnew", ["raw", 1, 2], None, None], ["pnew", ["raw", 1, 2], [[0, 1], [1, 1]], None], ["pnew", ["str"], None, None]]
SEQ_CALLS = ([["pset", V] for V in SEQ_VALUES] + [["pmin", b] for b in SEQ_BOUNDS] + [["pmax", b] for b in SEQ_BOUNDS])


def exhaustive_sequences(depth):
    """every call sequence of the given length over a small alphabet, from three initial parameters"""
    def rec(d):
        if d == 0:
            yield []
            return
        for c in SEQ_CALLS:
            for rest in rec(d - 1):
                yield [c] + rest
    for init in SEQ_INITS:
        for seq in rec(depth):
            yield init, seq


# ---------------------------------------------------------------- the check
MUTATING = {"pnew", "pset", "pmin", "pmax", "dnew", "dset", "drem"}


class C10:
    ID = "C10"
    RULE = ("stateful histories (quick: 200 x up to 40 steps) over a pool of Parameters (one role each: bs reflectivity / phase / loss / unused; "
            "values from tables with rational amplitudes, numbers invalid for the role, non-numeric tokens), ParameterDicts and Circuits: "
            "creation with valid/invalid bounds, direct set, set through a ParameterDict, bound changes (None, equal to the value, on the wrong "
            "side, non-numeric), dict insert/overwrite/remove, bs/ps/loss with Parameters (also bs/ps(..., loss=Parameter)), heralds, add of "
            "parameterised sub-circuits grouped and not, copy, copy(freeze_parameters=True), unpack_groups, +, and reads of U_full, "
            "get_all_params, get/min_bound/max_bound/has_bounds and the dict accessors; Parameter(...) through its call forms (bounds as list "
            "or tuple, positional arguments, integral numbers as int or float); every U_full read is accompanied by two reads of Circuit.U "
            "(same block, same exception class); after every step the value and bounds of EVERY parameter "
            "and the contents of every dict are compared with the model. Plus every call sequence of length 2 (thorough: 3) over a 13-call "
            "alphabet from three initial parameters. Non-trivial history = an accepted update of a parameter some circuit uses, a later "
            "successful U_full read and a rejected parameter call; non-trivial sequence pack = accepted and rejected calls both present; "
            "distinct = distinct JSON")
    CHUNK = 12
    TRUSTED = ["Python floats vs exact rationals compared at 1e-9; a phase value is the rational nearest atan2(sin, cos) with denominator <= 1e7 "
               "(the model compares it with bounds, Python uses its float)",
               "oracle: harness-side bookkeeping of accepted calls (values, bounds, dict contents, construction recipes); the reference unitary is "
               "lightworks' own compilation of a fresh circuit built from plain numbers (compilation itself is C01/C02's subject)"]
    ASSUMPTIONS = ["NaN values/bounds are outside the documented domain and never generated",
                   "a non-numeric value is never given to a parameter used as a phase (no number is invalid for a phase shifter, so the model's "
                   "encoding of 'invalid' as -1 cannot express it); bool values only where the call must be rejected (bool is non-numeric for "
                   "Parameter but arithmetic for numpy)",
                   "every Parameter has a single role (reflectivity, phase or loss) because a model value carries the two amplitudes of its role"]

    def generate(self, rng, tier):
        cases = []
        n_hist = 200 if tier == "quick" else 4000
        max_steps = 40 if tier == "quick" else 70
        for _ in range(n_hist):
            cases.append(dict(kind="hist", steps=Gen(rng, tier).history(max_steps)))
        pack, steps = 12, []
        count = 0
        for init, seq in exhaustive_sequences(2 if tier == "quick" else 3):
            pid = count % pack
            steps.append(list(init))
            steps.extend([c[0], pid] + c[1:] for c in seq)
            count += 1
            if count % pack == 0:
                cases.append(dict(kind="seq", steps=steps))
                steps = []
        if steps:
            cases.append(dict(kind="seq", steps=steps))
        return cases

    def impl(self, c):
        run = Runner()
        obs, world = run.run(c["steps"])
        return {"steps": obs, "world": world, "oracle": run.fail}

    def coq_header(self):
        return COQ_HEADER

    def coq_expr(self, c):
        return "run_hist " + clist("(" + step_to_coq(s) + ")" for s in c["steps"])

    def decode(self, c, sx):
        steps = []
        for s, (r, ps) in zip(c["steps"], sx[0]):
            out = {"ok": decode_payload(s[0], r[1])} if r[0] == 0 else {"err": core.ERR_CODES.get(r[1], str(r[1]))}
            steps.append([out, decode_pstate(ps)])
        world = [[cid, cg.decode_snapshot(snap), pl] for cid, snap, pl in sx[1]]
        return {"steps": steps, "world": world}

    def compare(self, c, a, b):
        if len(a["steps"]) != len(b["steps"]):
            return f"{len(a['steps'])} steps observed, model has {len(b['steps'])}"
        for i, (x, y) in enumerate(zip(a["steps"], b["steps"])):
            d = core.approx_equal(x, y, path=f"step[{i}]{c['steps'][i][:2]}")
            if d:
                return d
        return core.approx_equal(a["world"], b["world"], path="world")

    def oracle(self, c, obs):
        return obs["oracle"]

    def nontrivial(self, c, obs):
        steps, outs = c["steps"], [o for o, _ in obs["steps"]]
        acc = any(s[0] in MUTATING and "ok" in o for s, o in zip(steps, outs))
        rej = any(s[0] in MUTATING and "err" in o for s, o in zip(steps, outs))
        if c["kind"] == "seq":
            return acc and rej
        used = set()
        live = False
        armed = set()
        for s, o in zip(steps, outs):
            if "err" in o:
                continue
            if s[0] in ("bs", "ps", "loss"):
                used |= {x[1] for x in s[2:] if is_p(x)}
            if s[0] == "pset" and s[1] in used:
                armed.add(s[1])
            if s[0] == "dset" and s[3][0] == "raw":
                armed.add(-1)
            if s[0] == "ru" and armed:
                live = True
        return live and rej

    def stats(self, cases, recs):
        kinds, errs, lens = Counter(), Counter(), Counter()
        reads_ok = reads_err = frozen = 0
        for r in recs:
            if not isinstance(r["impl"], dict) or "steps" not in r["impl"]:
                continue
            lens[10 * (len(r["case"]["steps"]) // 10)] += 1
            for s, (o, _) in zip(r["case"]["steps"], r["impl"]["steps"]):
                kinds[s[0]] += 1
                if "err" in o:
                    errs[f"{s[0]}:{o['err']}"] += 1
                if s[0] == "ru":
                    reads_ok += "ok" in o
                    reads_err += "err" in o
                frozen += s[0] == "freeze" and "ok" in o
        return {"steps_by_kind": dict(kinds), "rejected_by_call_and_class": dict(errs), "history_length_histogram": dict(lens),
                "U_reads_ok": reads_ok, "U_reads_compilation_error": reads_err, "frozen_copies": frozen,
                "histories": sum(1 for c in cases if c["kind"] == "hist"), "sequence_packs": sum(1 for c in cases if c["kind"] == "seq")}

    def shrink(self, c):
        steps = c["steps"]
        for i in range(len(steps) - 1, -1, -1):
            d = dict(c)
            d.pop("_corpus", None)
            d["steps"] = steps[:i] + steps[i + 1:]
            yield d

    def signature(self, c, rec):
        return None


PROP = C10()

if __name__ == "__main__":
    sys.exit(core.main(PROP))
